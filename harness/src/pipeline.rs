//! Pipeline ops: parse, cfg, facts, diagnostics, yaml — on in-memory multi-file inputs.
use crate::basic::{range_str, strerr_kind, tok_kind};
use crate::util::*;
use riscv_analysis::analysis::{AvailableValue, AvailableValuePass, LivenessPass, MemoryLocation};
use riscv_analysis::cfg::{AvailableValueMap, Cfg, CfgNode, CfgWrapper, RegisterSet, Segment};
use riscv_analysis::gen::{
    EcallTerminationPass, EliminateDeadCodeDirectionsPass, FunctionMarkupPass, NodeDirectionPass,
};
use riscv_analysis::parser::{
    DirectiveType, HasIdentity, Inst, ParseError, ParserNode, RVParser,
    Register, Token, With,
};
use riscv_analysis::passes::{
    CfgError, DiagnosticItem, DiagnosticLocation, DiagnosticManager, GenerationPass, Manager,
    SeverityLevel,
};
use riscv_analysis::reader::{FileReader, FileReaderError};
use std::collections::HashMap;
use std::rc::Rc;
use uuid::Uuid;

/// In-memory reader. Files are addressed by name; a name starting with `!io` yields an IO
/// error, an unknown name is "not found" (IO error, like the CLI reader), a second import of
/// the same name is `FileAlreadyRead`.
#[derive(Clone)]
pub struct MemReader {
    pub files: Vec<(String, String)>,
    pub read: Vec<(Uuid, String)>, // import order
}

impl MemReader {
    pub fn index(&self, id: Uuid) -> String {
        if id.is_nil() {
            return "nil".to_string();
        }
        match self.read.iter().position(|(u, _)| *u == id) {
            Some(i) => i.to_string(),
            None => "?".to_string(),
        }
    }
}

impl FileReader for MemReader {
    fn import_file(
        &mut self,
        path: &str,
        _parent: Option<Uuid>,
    ) -> Result<(Uuid, String), FileReaderError> {
        if path.starts_with("!io") {
            return Err(FileReaderError::IOErr("injected".to_string()));
        }
        if self.read.iter().any(|(_, n)| n == path) {
            return Err(FileReaderError::FileAlreadyRead(path.to_string()));
        }
        match self.files.iter().find(|(n, _)| n == path) {
            Some((n, t)) => {
                let id = Uuid::new_v4();
                self.read.push((id, n.clone()));
                Ok((id, t.clone()))
            }
            None => Err(FileReaderError::IOErr("not found".to_string())),
        }
    }
    fn get_text(&self, uuid: Uuid) -> Option<String> {
        let name = &self.read.iter().find(|(u, _)| *u == uuid)?.1;
        self.files.iter().find(|(n, _)| n == name).map(|x| x.1.clone())
    }
    fn get_filename(&self, uuid: Uuid) -> Option<String> {
        self.read.iter().find(|(u, _)| *u == uuid).map(|x| x.1.clone())
    }
    fn get_base_file(&self) -> Option<Uuid> {
        self.read.first().map(|x| x.0)
    }
}

fn loc(r: &MemReader, d: &dyn DiagnosticLocation) -> String {
    format!("{}@{}", range_str(&d.range()), r.index(d.file()))
}

fn wreg(r: &MemReader, w: &With<Register>) -> String {
    format!("{}/{}", w.get().to_num(), loc(r, w))
}

fn tokfull(r: &MemReader, t: &Token) -> String {
    let (k, p) = tok_kind(t.token_type());
    format!("{k}:{}:{}:{}", hex(&p), hex(&t.raw_text()), loc(r, t))
}

pub fn node_str(r: &MemReader, n: &ParserNode) -> String {
    let inst = format!("{:?}", n.inst());
    let tok = format!("{}:{}", hex(&n.raw_text()), loc(r, n));
    match n {
        ParserNode::ProgramEntry(_) => format!("ProgramEntry tok={tok}"),
        ParserNode::FuncEntry(x) => {
            format!("FuncEntry handler={} tok={tok}", x.is_interrupt_handler)
        }
        ParserNode::Arith(x) => format!(
            "Arith {inst} it={} rd={} rs1={} rs2={} tok={tok}",
            loc(r, &x.inst), wreg(r, &x.rd), wreg(r, &x.rs1), wreg(r, &x.rs2)
        ),
        ParserNode::IArith(x) => format!(
            "IArith {inst} it={} rd={} rs1={} imm={}/{} tok={tok}",
            loc(r, &x.inst), wreg(r, &x.rd), wreg(r, &x.rs1), x.imm.get().value(), loc(r, &x.imm)
        ),
        ParserNode::Label(x) => {
            format!("Label name={}/{} tok={tok}", hex(x.name.get().as_str()), loc(r, &x.name))
        }
        ParserNode::JumpLink(x) => format!(
            "JumpLink {inst} it={} rd={} name={}/{} tok={tok}",
            loc(r, &x.inst), wreg(r, &x.rd), hex(x.name.get().as_str()), loc(r, &x.name)
        ),
        ParserNode::JumpLinkR(x) => format!(
            "JumpLinkR {inst} it={} rd={} rs1={} imm={}/{} tok={tok}",
            loc(r, &x.inst), wreg(r, &x.rd), wreg(r, &x.rs1), x.imm.get().value(), loc(r, &x.imm)
        ),
        ParserNode::Basic(x) => format!("Basic {inst} it={} tok={tok}", loc(r, &x.inst)),
        ParserNode::Directive(x) => {
            let d = match &x.dir {
                DirectiveType::Include(p) => format!("Include {}/{}", hex(p.get()), loc(r, p)),
                DirectiveType::Align(i) => format!("Align {}/{}", i.get().value(), loc(r, i)),
                DirectiveType::Ascii { text, null_term } => {
                    format!("Ascii {} {}/{}", null_term, hex(text.get()), loc(r, text))
                }
                DirectiveType::DataSection => "DataSection".to_string(),
                DirectiveType::TextSection => "TextSection".to_string(),
                DirectiveType::Data(dt, vals) => format!(
                    "Data {dt} [{}]",
                    vals.iter()
                        .map(|v| format!("{}/{}", v.get().value(), loc(r, v)))
                        .collect::<Vec<_>>()
                        .join(",")
                ),
                DirectiveType::Space(i) => format!("Space {}/{}", i.get().value(), loc(r, i)),
            };
            format!("Directive {:?} dt={} {d} tok={tok}", x.dir_token.get(), loc(r, &x.dir_token))
        }
        ParserNode::Branch(x) => format!(
            "Branch {inst} it={} rs1={} rs2={} name={}/{} tok={tok}",
            loc(r, &x.inst), wreg(r, &x.rs1), wreg(r, &x.rs2), hex(x.name.get().as_str()), loc(r, &x.name)
        ),
        ParserNode::Store(x) => format!(
            "Store {inst} it={} rs1={} rs2={} imm={}/{} tok={tok}",
            loc(r, &x.inst), wreg(r, &x.rs1), wreg(r, &x.rs2), x.imm.get().value(), loc(r, &x.imm)
        ),
        ParserNode::Load(x) => format!(
            "Load {inst} it={} rd={} rs1={} imm={}/{} tok={tok}",
            loc(r, &x.inst), wreg(r, &x.rd), wreg(r, &x.rs1), x.imm.get().value(), loc(r, &x.imm)
        ),
        ParserNode::LoadAddr(x) => format!(
            "LoadAddr {inst} it={} rd={} name={}/{} tok={tok}",
            loc(r, &x.inst), wreg(r, &x.rd), hex(x.name.get().as_str()), loc(r, &x.name)
        ),
        ParserNode::Csr(x) => format!(
            "Csr {inst} it={} rd={} csr={}/{} rs1={} tok={tok}",
            loc(r, &x.inst), wreg(r, &x.rd), x.csr.get().value(), loc(r, &x.csr), wreg(r, &x.rs1)
        ),
        ParserNode::CsrI(x) => format!(
            "CsrI {inst} it={} rd={} csr={}/{} imm={}/{} tok={tok}",
            loc(r, &x.inst), wreg(r, &x.rd), x.csr.get().value(), loc(r, &x.csr),
            x.imm.get().value(), loc(r, &x.imm)
        ),
    }
}

pub fn perr_str(r: &MemReader, e: &ParseError) -> String {
    match e {
        ParseError::Expected(ex, t) => format!(
            "Expected [{}] {}",
            ex.iter().map(|x| x.to_string()).collect::<Vec<_>>().join("|"),
            tokfull(r, t)
        ),
        ParseError::Unsupported(t) => format!("Unsupported {}", tokfull(r, t)),
        ParseError::UnexpectedToken(t) => format!("UnexpectedToken {}", tokfull(r, t)),
        ParseError::UnexpectedError(t) => format!("UnexpectedError {}", tokfull(r, t)),
        ParseError::UnknownDirective(t) => format!("UnknownDirective {}", tokfull(r, t)),
        ParseError::CyclicDependency(t) => format!("CyclicDependency {}", tokfull(r, t)),
        ParseError::FileNotFound(p) => format!("FileNotFound {}/{}", hex(p.get()), loc(r, p)),
        ParseError::IOError(p, m) => format!("IOError {}/{} {}", hex(p.get()), loc(r, p), hex(m)),
        ParseError::InvalidString(t, e) => format!(
            "InvalidString {} {} {}:{}:{}",
            strerr_kind(&e.kind),
            tokfull(r, t),
            e.pos.zero_idx_line(),
            e.pos.zero_idx_column(),
            e.pos.raw_index()
        ),
    }
}

fn sev(l: &SeverityLevel) -> &'static str {
    match l {
        SeverityLevel::Error => "Error",
        SeverityLevel::Warning => "Warning",
        SeverityLevel::Information => "Information",
        SeverityLevel::Hint => "Hint",
    }
}

pub fn val_str(v: &AvailableValue) -> String {
    match v {
        AvailableValue::Constant(c) => format!("c:{c}"),
        AvailableValue::Address(l) => format!("a:{}", hex(l.get().as_str())),
        AvailableValue::Memory(l, o) => format!("m:{}:{o}", hex(l.as_str())),
        AvailableValue::RegisterWithScalar(r, o) => format!("rs:{}:{o}", r.to_num()),
        AvailableValue::OriginalRegisterWithScalar(r, o) => format!("ors:{}:{o}", r.to_num()),
        AvailableValue::MemoryAtRegister(r, o) => format!("mr:{}:{o}", r.to_num()),
        AvailableValue::MemoryAtOriginalRegister(r, o) => format!("omr:{}:{o}", r.to_num()),
        AvailableValue::ValueInCsr(c) => format!("vc:{}", c.value()),
        AvailableValue::MemoryAtCsr(c, o) => format!("mc:{}:{o}", c.value()),
    }
}

pub fn mem_str(m: &MemoryLocation) -> String {
    match m {
        MemoryLocation::StackOffset(o) => format!("so:{o}"),
        MemoryLocation::CsrRegister(c) => format!("csr:{}", c.value()),
        MemoryLocation::CsrRegisterValueOffset(c, o) => format!("csro:{}:{o}", c.value()),
    }
}

fn regmap_str(m: &AvailableValueMap<Register>) -> String {
    let mut v: Vec<(u8, String)> = m.iter().map(|(k, v)| (k.to_num(), val_str(v))).collect();
    v.sort();
    format!("{{{}}}", v.iter().map(|(k, v)| format!("{k}={v}")).collect::<Vec<_>>().join(","))
}

fn memmap_str(m: &AvailableValueMap<MemoryLocation>) -> String {
    let mut v: Vec<(MemoryLocation, String)> = m.iter().map(|(k, v)| (k.clone(), val_str(v))).collect();
    v.sort();
    format!(
        "{{{}}}",
        v.iter().map(|(k, v)| format!("{}={v}", mem_str(k))).collect::<Vec<_>>().join(",")
    )
}

fn set_str(s: RegisterSet) -> String {
    let v: Vec<String> = s.into_iter().map(|r| r.to_num().to_string()).collect();
    format!("[{}]", v.join(","))
}

fn idx_of(cfg: &Cfg, n: &Rc<CfgNode>) -> usize {
    cfg.nodes().iter().position(|x| Rc::ptr_eq(x, n)).unwrap_or(usize::MAX)
}

fn idx_list(cfg: &Cfg, it: impl Iterator<Item = Rc<CfgNode>>) -> String {
    let mut v: Vec<usize> = it.map(|n| idx_of(cfg, &n)).collect();
    v.sort_unstable();
    format!("[{}]", v.iter().map(|x| x.to_string()).collect::<Vec<_>>().join(","))
}

fn kind_of(n: &ParserNode) -> &'static str {
    match n {
        ParserNode::ProgramEntry(_) => "ProgramEntry",
        ParserNode::FuncEntry(_) => "FuncEntry",
        ParserNode::Arith(_) => "Arith",
        ParserNode::IArith(_) => "IArith",
        ParserNode::Label(_) => "Label",
        ParserNode::JumpLink(_) => "JumpLink",
        ParserNode::JumpLinkR(_) => "JumpLinkR",
        ParserNode::Basic(_) => "Basic",
        ParserNode::Directive(_) => "Directive",
        ParserNode::Branch(_) => "Branch",
        ParserNode::Store(_) => "Store",
        ParserNode::Load(_) => "Load",
        ParserNode::LoadAddr(_) => "LoadAddr",
        ParserNode::Csr(_) => "Csr",
        ParserNode::CsrI(_) => "CsrI",
    }
}

fn dump_cfg(r: &MemReader, cfg: &Cfg, tag: &str, out: &mut Vec<String>) {
    for (i, n) in cfg.nodes().iter().enumerate() {
        let mut labels: Vec<String> = n.labels().iter().map(|l| hex(l.get().as_str())).collect();
        labels.sort();
        let mut funcs: Vec<usize> = n.functions().iter().map(|f| idx_of(cfg, &f.entry())).collect();
        funcs.sort_unstable();
        let seg = if n.segment() == Segment::Text { "T" } else { "D" };
        out.push(format!(
            "{tag} {i} {} seg={seg} labels=[{}] nexts={} prevs={} funcs=[{}] node={}",
            kind_of(&n.node()),
            labels.join(","),
            idx_list(cfg, n.nexts().iter().cloned()),
            idx_list(cfg, n.prevs().iter().cloned()),
            funcs.iter().map(|x| x.to_string()).collect::<Vec<_>>().join(","),
            node_str(r, &n.node()),
        ));
    }
    // functions, one line per distinct function (by entry index)
    let mut seen: Vec<usize> = Vec::new();
    let mut lines = Vec::new();
    for (_, f) in cfg.functions() {
        let e = idx_of(cfg, &f.entry());
        if seen.contains(&e) {
            continue;
        }
        seen.push(e);
        let mut labels: Vec<String> = f.labels().iter().map(|l| hex(l.get().as_str())).collect();
        labels.sort();
        let mut nodes: Vec<usize> = f.nodes().iter().map(|n| idx_of(cfg, n)).collect();
        nodes.sort_unstable();
        nodes.dedup();
        lines.push((
            e,
            format!(
                "{tag}.FUNC entry={e} exit={} labels=[{}] nodes=[{}] defs={} args={} rets={}",
                idx_of(cfg, &f.exit()),
                labels.join(","),
                nodes.iter().map(|x| x.to_string()).collect::<Vec<_>>().join(","),
                set_str(*f.defs()),
                set_str(f.arguments()),
                set_str(f.returns())
            ),
        ));
    }
    lines.sort();
    for (_, l) in lines {
        out.push(l);
    }
    let mut fl: Vec<String> = cfg
        .functions()
        .iter()
        .map(|(k, f)| format!("{}>{}", hex(k.get().as_str()), idx_of(cfg, &f.entry())))
        .collect();
    fl.sort();
    out.push(format!("{tag}.FUNCLABELS [{}]", fl.join(",")));
}

fn dump_facts(cfg: &Cfg, tag: &str, out: &mut Vec<String>) {
    for (i, n) in cfg.nodes().iter().enumerate() {
        out.push(format!(
            "{tag} {i} ri={} ro={} mi={} mo={} li={} lo={} ud={}",
            regmap_str(&n.reg_values_in()),
            regmap_str(&n.reg_values_out()),
            memmap_str(&n.memory_values_in()),
            memmap_str(&n.memory_values_out()),
            set_str(n.live_in()),
            set_str(n.live_out()),
            set_str(n.u_def()),
        ));
    }
}

fn cfgerr_str(r: &MemReader, e: &CfgError) -> String {
    match e {
        CfgError::LabelsNotDefined(ls) => {
            let mut v: Vec<String> = ls.iter().map(|l| hex(l.get().as_str())).collect();
            v.sort();
            // candidate locations: any of the labels (hash order picks one)
            let mut locs: Vec<String> = ls.iter().map(|l| loc(r, l)).collect();
            locs.sort();
            format!(
                "LabelsNotDefined [{}] at={} candidates=[{}]",
                v.join(","),
                loc(r, e),
                locs.join(",")
            )
        }
        CfgError::DuplicateLabel(l) => {
            format!("DuplicateLabel {} at={}", hex(l.get().as_str()), loc(r, l))
        }
        CfgError::MultipleLabelsForReturn(..) => "MultipleLabelsForReturn".to_string(),
        CfgError::NoLabelForReturn(_) => "NoLabelForReturn".to_string(),
        CfgError::UnexpectedError => "UnexpectedError".to_string(),
        CfgError::AssertionError => "AssertionError".to_string(),
    }
}

fn diag_item_str(r: &MemReader, d: &DiagnosticItem) -> String {
    format!(
        "sev={} title={} at={}@{} desc={}",
        sev(&d.level),
        hex(&d.title),
        range_str(&d.range),
        r.index(d.file),
        hex(&d.description)
    )
}

fn dump_lints(r: &MemReader, cfg: &Cfg, tag: &str, out: &mut Vec<String>) {
    let mut errs = DiagnosticManager::new();
    Manager::run_diagnostics(cfg, &mut errs);
    for e in errs.iter() {
        let item = DiagnosticItem::from_displayable(e.as_ref());
        out.push(format!(
            "{tag} code={} {} text={}",
            e.get_error_code(),
            diag_item_str(r, &item),
            hex(&e.raw_text())
        ));
    }
}

fn parse_files(p: &[&str]) -> (Vec<(String, String)>, usize) {
    // p[0] = k, then k pairs
    let k: usize = p[0].parse().unwrap();
    let mut files = Vec::new();
    for i in 0..k {
        files.push((unhex(p[1 + 2 * i]), unhex(p[2 + 2 * i])));
    }
    (files, 1 + 2 * k)
}

/// parse <k> <name1> <text1> ...   (first file is the base file)
pub fn op_parse(p: &[&str], out: &mut Vec<String>) {
    let (files, _) = parse_files(&p[1..]);
    let base = files[0].0.clone();
    let mut parser = RVParser::new(MemReader { files, read: Vec::new() });
    let (nodes, errs) = parser.parse_from_file(&base, false);
    let r = parser.reader.clone();
    for (i, n) in nodes.iter().enumerate() {
        out.push(format!("NODE {i} {}", node_str(&r, n)));
    }
    for e in &errs {
        out.push(format!("PERR {}", perr_str(&r, e)));
    }
}

/// pipe <stages> <k> <name1> <text1> ... [extra-pass-letters]
/// stages: comma list of parse,cfg,facts,lints,run,steps ; extra: string over {a,e,l,d,m}
pub fn op_pipe(p: &[&str], out: &mut Vec<String>) {
    let stages: Vec<&str> = p[1].split(',').collect();
    let (files, used) = parse_files(&p[2..]);
    // optional trailing args: `desc` (model-only hint, ignored here), `x:<pass letters>`
    let extra = p[2 + used..]
        .iter()
        .find_map(|a| a.strip_prefix("x:"))
        .unwrap_or("");
    let base = files[0].0.clone();
    let mut parser = RVParser::new(MemReader { files: files.clone(), read: Vec::new() });
    let (nodes, errs) = parser.parse_from_file(&base, false);
    let r = parser.reader.clone();
    if stages.contains(&"parse") {
        for (i, n) in nodes.iter().enumerate() {
            out.push(format!("NODE {i} {}", node_str(&r, n)));
        }
        for e in &errs {
            out.push(format!("PERR {}", perr_str(&r, e)));
        }
    }
    if stages.contains(&"steps") {
        // the generation pipeline pass by pass (stage 2 of gen_full_cfg, handler names empty)
        match Cfg::new(nodes.clone()) {
            Err(e) => out.push(format!("STEPERR new {}", cfgerr_str(&r, &e))),
            Ok(mut cfg) => {
                dump_cfg(&r, &cfg, "S0", out);
                let passes: Vec<(&str, fn(&mut Cfg) -> Result<(), Box<CfgError>>)> = vec![
                    ("S1", NodeDirectionPass::run),
                    ("S2", EliminateDeadCodeDirectionsPass::run),
                    ("S3", AvailableValuePass::run),
                    ("S4", EcallTerminationPass::run),
                    ("S5", FunctionMarkupPass::run),
                ];
                for (tag, f) in passes {
                    match f(&mut cfg) {
                        Ok(()) => dump_cfg(&r, &cfg, tag, out),
                        Err(e) => {
                            out.push(format!("STEPERR {tag} {}", cfgerr_str(&r, &e)));
                            break;
                        }
                    }
                }
            }
        }
    }
    let full = Manager::gen_full_cfg(nodes.clone());
    match &full {
        Err(e) => {
            if stages.iter().any(|s| ["cfg", "facts", "lints"].contains(s)) {
                out.push(format!("CFGERR {}", cfgerr_str(&r, e)));
            }
        }
        Ok(cfg) => {
            if stages.contains(&"cfg") {
                dump_cfg(&r, cfg, "CFG", out);
            }
            if stages.contains(&"facts") {
                dump_facts(cfg, "FACT", out);
            }
            if stages.contains(&"lints") {
                dump_lints(&r, cfg, "LINT", out);
            }
        }
    }
    if let Ok(mut cfg) = full {
        if !extra.is_empty() {
            for ch in extra.chars() {
                let res = match ch {
                    'a' => AvailableValuePass::run(&mut cfg),
                    'e' => EcallTerminationPass::run(&mut cfg),
                    'l' => LivenessPass::run(&mut cfg),
                    'd' => EliminateDeadCodeDirectionsPass::run(&mut cfg),
                    _ => Ok(()),
                };
                if let Err(e) = res {
                    out.push(format!("XERR {}", cfgerr_str(&r, &e)));
                }
            }
            dump_cfg(&r, &cfg, "XCFG", out);
            dump_facts(&cfg, "XFACT", out);
            dump_lints(&r, &cfg, "XLINT", out);
        }
    }
    if stages.contains(&"run") {
        // the library entry point used by the editor integration
        let mut parser2 = RVParser::new(MemReader { files, read: Vec::new() });
        let diags = parser2.run(&base);
        let r2 = parser2.reader.clone();
        for d in &diags {
            out.push(format!("RUN {}", diag_item_str(&r2, d)));
        }
    }
}

/// yaml <k> files... : dump, reload, re-dump
pub fn op_yaml(p: &[&str], out: &mut Vec<String>) {
    let (files, _) = parse_files(&p[1..]);
    let base = files[0].0.clone();
    let mut parser = RVParser::new(MemReader { files, read: Vec::new() });
    let (nodes, _errs) = parser.parse_from_file(&base, false);
    let r = parser.reader.clone();
    match Manager::gen_full_cfg(nodes) {
        Err(_) => out.push("YAML CFGERR".to_string()),
        Ok(cfg) => {
            // the canonical trace of the very graph that is dumped (a second run of the
            // pipeline may resolve hash-order dependent choices differently)
            dump_cfg(&r, &cfg, "CFG", out);
            dump_facts(&cfg, "FACT", out);
            let w = CfgWrapper::from(&cfg);
            match serde_yaml::to_string(&w) {
                Err(e) => out.push(format!("YAML SERERR {}", hex(&e.to_string()))),
                Ok(s) => {
                    out.push(format!("YAML1 {}", hex(&s)));
                    match serde_yaml::from_str::<CfgWrapper>(&s) {
                        Err(e) => out.push(format!("YAML DESERR {}", hex(&e.to_string()))),
                        Ok(w2) => {
                            // `ParserNode` equality is identity (UUID keys, not serialized), so
                            // the reloaded structure is compared field by field with the graph
                            // it was written from, nodes by their data.
                            out.push(format!("YAMLEQ {}", reload_equals_graph(&s, &cfg)));
                            match serde_yaml::to_string(&w2) {
                                Ok(s2) => out.push(format!("YAML2EQ {}", s == s2)),
                                Err(e) => out.push(format!("YAML SERERR2 {}", hex(&e.to_string()))),
                            }
                        }
                    }
                }
            }
        }
    }
}

fn reload_equals_graph(yaml: &str, cfg: &Cfg) -> String {
    use riscv_analysis::cfg::NodeWrapper;
    use riscv_analysis::parser::ParserNodeData;
    use std::collections::HashSet;
    let Ok(loaded) = serde_yaml::from_str::<Vec<NodeWrapper>>(yaml) else {
        return "false:not-a-node-list".to_string();
    };
    if loaded.len() != cfg.nodes().len() {
        return "false:length".to_string();
    }
    for (i, (w, n)) in loaded.iter().zip(cfg.nodes().iter()).enumerate() {
        let labels: HashSet<String> = n.labels().iter().map(|l| l.get().to_string()).collect();
        let nexts: HashSet<usize> = n.nexts().iter().map(|x| idx_of(cfg, x)).collect();
        let prevs: HashSet<usize> = n.prevs().iter().map(|x| idx_of(cfg, x)).collect();
        let mut fe: Vec<usize> = n.functions().iter().map(|f| idx_of(cfg, &f.entry())).collect();
        let mut fx: Vec<usize> = n.functions().iter().map(|f| idx_of(cfg, &f.exit())).collect();
        let (mut we, mut wx) = (w.func_entry.clone(), w.func_exit.clone());
        // the two lists are parallel: position k of both describes one function
        let mut fpairs: Vec<(usize, usize)> =
            n.functions().iter().map(|f| (idx_of(cfg, &f.entry()), idx_of(cfg, &f.exit()))).collect();
        let mut wpairs: Vec<(usize, usize)> =
            w.func_entry.iter().copied().zip(w.func_exit.iter().copied()).collect();
        fpairs.sort_unstable();
        wpairs.sort_unstable();
        let pairs_same = fpairs == wpairs && w.func_entry.len() == w.func_exit.len();
        fe.sort_unstable();
        fx.sort_unstable();
        we.sort_unstable();
        wx.sort_unstable();
        let node_same = w.node.data() == n.node().data()
            || serde_yaml::to_string(&w.node).ok() == serde_yaml::to_string(&n.node()).ok();
        let checks = [
            ("node", node_same),
            ("labels", w.labels == labels),
            ("nexts", w.nexts == nexts),
            ("prevs", w.prevs == prevs),
            ("func_entry", we == fe),
            ("func_exit", wx == fx),
            ("func_entry_exit_pairs", pairs_same),
            ("reg_values_in", w.reg_values_in == n.reg_values_in()),
            ("reg_values_out", w.reg_values_out == n.reg_values_out()),
            ("memory_values_in", w.memory_values_in == n.memory_values_in()),
            ("memory_values_out", w.memory_values_out == n.memory_values_out()),
            ("live_in", w.live_in == n.live_in()),
            ("live_out", w.live_out == n.live_out()),
            ("u_def", w.u_def == n.u_def()),
        ];
        for (name, ok) in checks {
            if !ok {
                return format!("false:node{i}:{name}");
            }
        }
    }
    "true".to_string()
}

#[allow(dead_code)]
fn unused(_: HashMap<u8, u8>, _: Inst, _: &dyn HasIdentity) {}

/// lsp <k> name1 text1 ... : the library entry point `RVParser::run` with the in-memory reader of the
/// editor integration (documents addressed by `file:///w/<name>` URIs; first document = base)
pub fn op_lsp(p: &[&str], out: &mut Vec<String>) {
    use riscv_analysis::parser::RVDocument;
    use riscv_analysis::passes::DiagnosticItem;
    use riscv_analysis_lsp::VerifLSPFileReader;
    let (files, _) = parse_files(&p[1..]);
    let docs: Vec<RVDocument> = files
        .iter()
        .map(|(n, t)| RVDocument { uri: format!("file:///w/{n}"), text: t.clone() })
        .collect();
    let base = docs[0].uri.clone();
    let mut parser = RVParser::new(VerifLSPFileReader::new(docs));
    let diags: Vec<DiagnosticItem> = parser.run(&base);
    for d in &diags {
        let name = parser
            .reader
            .get_filename(d.file)
            .map(|u| u.trim_start_matches("file:///w/").to_string())
            .unwrap_or_else(|| "nil".to_string());
        // the range as the editor gets it (`to_lsp_diag`): zero-based line / character, end exclusive
        use riscv_analysis_lsp::VerifLSPDiag;
        let l = d.to_lsp_diag(&parser).diagnostic.range;
        out.push(format!(
            "LSP sev={} title={} at={} file={} lsp={}:{}-{}:{}",
            sev(&d.level),
            hex(&d.title),
            range_str(&d.range),
            hex(&name),
            l.start.line,
            l.start.character,
            l.end.line,
            l.end.character
        ));
    }
}
