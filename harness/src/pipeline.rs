pub fn op_parse(_p: &[&str], out: &mut Vec<String>) { out.push("TODO".into()); }
pub fn op_pipe(_p: &[&str], out: &mut Vec<String>) { out.push("TODO".into()); }
pub fn op_yaml(_p: &[&str], out: &mut Vec<String>) { out.push("TODO".into()); }
