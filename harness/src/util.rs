use std::any::Any;

pub fn hex(s: &str) -> String {
    let mut o = String::with_capacity(s.len() * 2 + 1);
    if s.is_empty() {
        return "-".to_string();
    }
    for b in s.as_bytes() {
        o.push_str(&format!("{b:02x}"));
    }
    o
}

pub fn unhex(s: &str) -> String {
    if s == "-" {
        return String::new();
    }
    let bytes: Vec<u8> = (0..s.len() / 2)
        .map(|i| u8::from_str_radix(&s[2 * i..2 * i + 2], 16).unwrap())
        .collect();
    String::from_utf8(bytes).unwrap()
}

pub fn panic_msg(e: &Box<dyn Any + Send>) -> String {
    if let Some(s) = e.downcast_ref::<&str>() {
        (*s).to_string()
    } else if let Some(s) = e.downcast_ref::<String>() {
        s.clone()
    } else {
        "?".to_string()
    }
}
