//! rvh — correspondence harness: calls the real riscv_analysis code in-process and prints
//! canonical traces. One request per stdin line, answer lines followed by `END`.
//! Strings travel hex-encoded (UTF-8 bytes).
use std::io::{BufRead, Write};
use std::panic::{catch_unwind, AssertUnwindSafe};

mod basic;
mod pipeline;
mod util;

use util::*;

fn handle(line: &str, out: &mut Vec<String>) {
    let parts: Vec<&str> = line.split_whitespace().collect();
    if parts.is_empty() {
        return;
    }
    match parts[0] {
        "operate" => basic::op_operate(&parts, out),
        "imm" => basic::op_imm(&parts, out),
        "csrimm" => basic::op_csrimm(&parts, out),
        "lex" => basic::op_lex(&parts, out),
        "tables" => basic::op_tables(out),
        "parse" => pipeline::op_parse(&parts, out),
        "pipe" => pipeline::op_pipe(&parts, out),
        "yaml" => pipeline::op_yaml(&parts, out),
        "lsp" => pipeline::op_lsp(&parts, out),
        _ => out.push("BADOP".to_string()),
    }
}

fn main() {
    std::panic::set_hook(Box::new(|_| {}));
    let stdin = std::io::stdin();
    let stdout = std::io::stdout();
    let mut w = std::io::BufWriter::new(stdout.lock());
    for line in stdin.lock().lines() {
        let Ok(line) = line else { break };
        let mut out = Vec::new();
        let r = catch_unwind(AssertUnwindSafe(|| handle(&line, &mut out)));
        if let Err(e) = r {
            out.push(format!("PANIC {}", hex(&panic_msg(&e))));
        }
        for l in out {
            let _ = writeln!(w, "{l}");
        }
        let _ = writeln!(w, "END");
        let _ = w.flush();
    }
}
