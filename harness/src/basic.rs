use crate::util::*;
use riscv_analysis::cfg::{environment_in_outs, MathOp, RegisterSet};
use riscv_analysis::parser::{
    CsrImm, HasRegisterSets, Imm, Inst, LexError, Lexer, Register, StringLexErrorType, Token,
    TokenType,
};
use riscv_analysis::passes::DiagnosticLocation;
use std::panic::{catch_unwind, AssertUnwindSafe};
use std::str::FromStr;

pub fn mathop(name: &str) -> Option<MathOp> {
    Some(match name {
        "add" => MathOp::Add,
        "and" => MathOp::And,
        "or" => MathOp::Or,
        "sll" => MathOp::Sll,
        "slt" => MathOp::Slt,
        "sltu" => MathOp::Sltu,
        "sra" => MathOp::Sra,
        "srl" => MathOp::Srl,
        "sub" => MathOp::Sub,
        "xor" => MathOp::Xor,
        "mul" => MathOp::Mul,
        "mulh" => MathOp::Mulh,
        "mulhsu" => MathOp::Mulhsu,
        "mulhu" => MathOp::Mulhu,
        "div" => MathOp::Div,
        "divu" => MathOp::Divu,
        "rem" => MathOp::Rem,
        "remu" => MathOp::Remu,
        _ => return None,
    })
}

pub fn mathop_name(op: &MathOp) -> &'static str {
    match op {
        MathOp::Add => "add",
        MathOp::And => "and",
        MathOp::Or => "or",
        MathOp::Sll => "sll",
        MathOp::Slt => "slt",
        MathOp::Sltu => "sltu",
        MathOp::Sra => "sra",
        MathOp::Srl => "srl",
        MathOp::Sub => "sub",
        MathOp::Xor => "xor",
        MathOp::Mul => "mul",
        MathOp::Mulh => "mulh",
        MathOp::Mulhsu => "mulhsu",
        MathOp::Mulhu => "mulhu",
        MathOp::Div => "div",
        MathOp::Divu => "divu",
        MathOp::Rem => "rem",
        MathOp::Remu => "remu",
    }
}

/// operate <op> <x> <y>   (x,y signed decimal i32)
pub fn op_operate(p: &[&str], out: &mut Vec<String>) {
    let op = mathop(p[1]).unwrap();
    let x: i32 = p[2].parse().unwrap();
    let y: i32 = p[3].parse().unwrap();
    match catch_unwind(AssertUnwindSafe(|| op.operate(x, y))) {
        Ok(v) => out.push(format!("VAL {v}")),
        Err(_) => out.push("VAL PANIC".to_string()),
    }
}

pub fn op_imm(p: &[&str], out: &mut Vec<String>) {
    let s = unhex(p[1]);
    match catch_unwind(AssertUnwindSafe(|| Imm::from_str(&s))) {
        Ok(Ok(v)) => out.push(format!("IMM {}", v.value())),
        Ok(Err(())) => out.push("IMM ERR".to_string()),
        Err(_) => out.push("IMM PANIC".to_string()),
    }
}

pub fn op_csrimm(p: &[&str], out: &mut Vec<String>) {
    let s = unhex(p[1]);
    match catch_unwind(AssertUnwindSafe(|| CsrImm::from_str(&s))) {
        Ok(Ok(v)) => out.push(format!("CSRIMM {}", v.value())),
        Ok(Err(())) => out.push("CSRIMM ERR".to_string()),
        Err(_) => out.push("CSRIMM PANIC".to_string()),
    }
}

pub fn tok_kind(t: &TokenType) -> (&'static str, String) {
    match t {
        TokenType::LParen => ("LP", String::new()),
        TokenType::RParen => ("RP", String::new()),
        TokenType::Newline => ("NL", String::new()),
        TokenType::Label(s) => ("LABEL", s.clone()),
        TokenType::Symbol(s) => ("SYM", s.clone()),
        TokenType::Directive(s) => ("DIR", s.clone()),
        TokenType::String(s) => ("STR", s.clone()),
        TokenType::Char(c) => ("CHR", c.to_string()),
        TokenType::Comment(s) => ("CMT", s.clone()),
    }
}

pub fn range_str(r: &riscv_analysis::parser::Range) -> String {
    format!(
        "{}:{}:{}-{}:{}:{}",
        r.start().zero_idx_line(),
        r.start().zero_idx_column(),
        r.start().raw_index(),
        r.end().zero_idx_line(),
        r.end().zero_idx_column(),
        r.end().raw_index()
    )
}

pub fn tok_str(t: &Token) -> String {
    let (k, payload) = tok_kind(t.token_type());
    format!(
        "{k} {} {} {}",
        hex(&payload),
        hex(&t.raw_text()),
        range_str(&t.range())
    )
}

pub fn strerr_kind(k: &StringLexErrorType) -> &'static str {
    match k {
        StringLexErrorType::InvalidEscapeSequence => "ESC",
        StringLexErrorType::Unclosed => "UNCLOSED",
        StringLexErrorType::Newline => "NEWLINE",
    }
}

/// lex <hex>  : one TOK / LEXERR line per item the Lexer iterator yields.
pub fn op_lex(p: &[&str], out: &mut Vec<String>) {
    let s = unhex(p[1]);
    let lexer = Lexer::new(s, uuid::Uuid::nil());
    let mut n = 0usize;
    for item in lexer {
        n += 1;
        if n > 4_000_000 {
            out.push("LEX RUNAWAY".into());
            break;
        }
        match item {
            Ok(t) => out.push(format!("TOK {}", tok_str(&t))),
            Err(LexError::InvalidString(t, e)) => out.push(format!(
                "LEXERR {} {} {}:{}:{}",
                strerr_kind(&e.kind),
                tok_str(&t),
                e.pos.zero_idx_line(),
                e.pos.zero_idx_column(),
                e.pos.raw_index()
            )),
            Err(LexError::UnexpectedToken(t)) => {
                out.push(format!("LEXERR UNEXPECTED {}", tok_str(&t)));
            }
            Err(_) => out.push("LEXERR OTHER".to_string()),
        }
    }
}

fn set_str(s: RegisterSet) -> String {
    let v: Vec<String> = s.into_iter().map(|r| r.to_num().to_string()).collect();
    format!("[{}]", v.join(","))
}

pub const REG_NAMES: &[&str] = &[
    "x0", "x1", "x2", "x3", "x4", "x5", "x6", "x7", "x8", "x9", "x10", "x11", "x12", "x13", "x14",
    "x15", "x16", "x17", "x18", "x19", "x20", "x21", "x22", "x23", "x24", "x25", "x26", "x27",
    "x28", "x29", "x30", "x31", "x32", "zero", "ra", "sp", "gp", "tp", "t0", "t1", "t2", "s0",
    "fp", "s1", "a0", "a1", "a2", "a3", "a4", "a5", "a6", "a7", "s2", "s3", "s4", "s5", "s6",
    "s7", "s8", "s9", "s10", "s11", "t3", "t4", "t5", "t6", "t7", "s12", "a8", "X0", "ZERO", "Ra",
    "pc",
];

/// tables : dump of every finite table by *calling* the real functions over their domain.
pub fn op_tables(out: &mut Vec<String>) {
    for name in REG_NAMES {
        match Register::from_str(name) {
            Ok(r) => out.push(format!("REGNAME {name} {}", r.to_num())),
            Err(()) => out.push(format!("REGNAME {name} ERR")),
        }
    }
    for n in 0u8..=33 {
        match Register::from_num(n) {
            Ok(r) => {
                let mut reps: Vec<String> = r.all_representations().into_iter().collect();
                reps.sort();
                out.push(format!(
                    "REGNUM {n} {} {} [{}]",
                    r.to_num(),
                    r,
                    reps.join(",")
                ));
            }
            Err(_) => out.push(format!("REGNUM {n} ERR")),
        }
    }
    out.push(format!("SET program_args {}", set_str(Register::program_args_set())));
    out.push(format!("SET temporary {}", set_str(Register::temporary_set())));
    out.push(format!("SET argument {}", set_str(Register::argument_set())));
    out.push(format!("SET return {}", set_str(Register::return_set())));
    out.push(format!("SET all_writable {}", set_str(Register::all_writable_set())));
    out.push(format!("SET saved {}", set_str(Register::saved_set())));
    out.push(format!("SET sp_ra {}", set_str(Register::sp_ra_set())));
    out.push(format!("SET return_addr {}", set_str(Register::return_addr_set())));
    out.push(format!("SET caller_saved {}", set_str(Register::caller_saved_set())));
    out.push(format!("SET const_zero {}", set_str(Register::const_zero_set())));
    out.push(format!("SET callee_saved {}", set_str(Register::callee_saved_set())));
    out.push(format!(
        "SET ecall_always_argument {}",
        set_str(Register::ecall_always_argument_set())
    ));
    out.push(format!("SET all {}", set_str(Register::all())));
    out.push(format!("ECALLTYPE {}", Register::ecall_type().to_num()));
    for n in -2i32..=1100 {
        if let Some((a, r)) = environment_in_outs(n) {
            out.push(format!("ECALL {n} {} {}", set_str(a), set_str(r)));
        }
    }
    for m in crate::basic::MNEMONICS {
        match Inst::from_str(m) {
            Ok(i) => {
                let mo = i.math_op().map(|o| mathop_name(&o)).unwrap_or("-");
                let so = i.scalar_op().map(|o| mathop_name(&o)).unwrap_or("-");
                out.push(format!("INST {m} {i:?} {mo} {so}"));
            }
            Err(()) => out.push(format!("INST {m} ERR")),
        }
    }
}

pub const MNEMONICS: &[&str] = &[];
