#!/bin/sh
# MANIFEST.setup_cmd: build the framework from files on disk only (offline).
set -e
cd "$(dirname "$0")"
export CARGO_NET_OFFLINE=true
[ -f harness/Cargo.lock ] || cp /repo/Cargo.lock harness/Cargo.lock
(cd harness && cargo build --offline -q && cargo build --offline -q --release)
(cd /repo && cargo build --offline -q -p riscv_analysis_cli)
python3 tools/extract.py
(cd lean && lake build Rva driver)
