/-
  Rva.Model.Available — model of `AvailableValuePass` (analysis/available.rs), the gen/kill
  tables (analysis/gen_kill.rs) and `get_names_of_interrupt_handler_functions`
  (cfg/interrupt_handler.rs).
-/
import Rva.Model.Cfg
import Rva.Model.Ops
namespace Rva

/-! ### gen / kill (`HasGenKillInfo`, `HasGenValueInfo` for `ParserNode`) -/

def Node.killReg (n : Node) : RegSet :=
  RegSet.diff
    (if n.callsTo.isSome || n.isFunctionEntry then callerSavedSet
     else match n.writesTo with
       | some rd => RegSet.single rd.val
       | none => RegSet.empty)
    constZeroSet

def Node.genReg (n : Node) : RegSet :=
  RegSet.diff
    (if n.isUreturn then allWritableSet
     else if n.isReturn then calleeSavedSet
     else RegSet.ofList (n.readsFrom.map (·.val)))
    constZeroSet

/-- `Inst::math_op` / `Inst::scalar_op` via the generated tables -/
def mathOpOf (inst : String) : Option MathOp :=
  (Gen.mathOp.find? (·.1 == inst)).bind fun p => MathOp.ofName p.2
def scalarOpOf (inst : String) : Option MathOp :=
  (Gen.scalarOp.find? (·.1 == inst)).bind fun p => MathOp.ofName p.2

def Node.genMemoryValue : Node → Option (MemLoc × AVal)
  | .csr i _ c rs1 _ => if i.val == "Csrrw" then some (.csr c.val, .rs rs1.val 0#32) else none
  | .csri i _ c imm _ => if i.val == "Csrrwi" then some (.csr c.val, .const imm.val) else none
  | .store _ rs1 rs2 imm _ =>
    if rs1.val == 2 then some (.stack imm.val, .rs rs2.val 0#32) else none
  | _ => none

def isWordLoad (i : String) : Bool := i == "Lw" || i == "Lwu"

def Node.genRegValue (n : Node) : Option (Reg × AVal) :=
  let item : Option (Reg × AVal) := match n with
    | .csr _ rd c _ _ => some (rd.val, .vcsr c.val)
    | .csri _ rd c _ _ => some (rd.val, .vcsr c.val)
    | .loadAddr _ rd name _ => some (rd.val, .addr name.val)
    -- only a word load yields the value stored in a (word) location
    | .load i rd rs1 imm _ => if isWordLoad i.val then some (rd.val, .mr rs1.val imm.val) else none
    | .iarith i rd rs1 imm _ =>
      if rs1.val == 0 then
        if ["Addi", "Lui", "Addiw", "Xori", "Ori"].contains i.val then some (rd.val, .const imm.val)
        else if ["Andi", "Slli", "Slliw", "Srai", "Sraiw", "Srli", "Srliw"].contains i.val then
          some (rd.val, .const 0#32)
        else none
      else none
    | .arith i rd rs1 rs2 _ =>
      if rs1.val == 0 && rs2.val == 0 then
        -- `self.inst().math_op().map_or(0, |op| op.operate(0, 0))`
        some (rd.val, .const (match mathOpOf i.val with
          | some op => operate op 0#32 0#32
          | none => 0#32))
      else none
    | _ => none
  match item with
  | some (r, v) => if r == 0 then none else some (r, v)
  | none => none

/-! ### the rules -/

/-- `RegisterSet::into_available_values` -/
def originals (s : RegSet) : AMap Reg := (RegSet.toList s).map fun r => (r, AVal.ors r 0#32)

def stackOffset (m : AMap Reg) : Option Word :=
  match AMap.get m 2 with
  | some (.ors r off) => if r == 2 then some off else none
  | _ => none

def ruleExpandAddressForLoad (n : Node) (out inn : AMap Reg) : AMap Reg :=
  match n with
  | .load i rd rs1 imm _ =>
    if !isWordLoad i.val then out      -- lb/lbu/lh/lhu yield a part of the word
    else
      match AMap.get inn rs1.val with
      | some (.ors r off) => AMap.insert out rd.val (.omr r (off + imm.val))
      | some (.addr l) => AMap.insert out rd.val (.mem l imm.val)
      | _ => out
  | _ => out

/-- first half of `rule_value_from_stack`: a destination holding "value of CSR c" takes the value
    saved for that CSR -/
def pullCsrValue (out : AMap Reg) (memIn : AMap MemLoc) (rd : Reg) : AMap Reg :=
  match AMap.get out rd with
  | some (.vcsr c) =>
    match AMap.get memIn (.csr c) with
    | some v => AMap.insert out rd v
    | none => out
  | _ => out

/-- second half: a destination holding "memory at entry-sp + off" takes the slot's known value -/
def pullStackValue (out : AMap Reg) (memIn : AMap MemLoc) (rd : Reg) : AMap Reg :=
  match AMap.get out rd with
  | some (.omr psp off) =>
    if psp == 2 then
      match AMap.get memIn (.stack off) with
      | some v => AMap.insert out rd v
      | none => out
    else out
  | _ => out

def ruleValueFromStack (n : Node) (out : AMap Reg) (memIn : AMap MemLoc) : AMap Reg :=
  match n.writesTo with
  | none => out
  | some rd => pullStackValue (pullCsrValue out memIn rd.val) memIn rd.val

def rulePullValueFromCsrMemory (n : Node) (out : AMap Reg) (memOutOld : AMap MemLoc) : AMap Reg :=
  match n.readsFromMemory with
  | some (reg, off, dest) =>
    match AMap.get out reg with
    | some (.vcsr c) =>
      match AMap.get memOutOld (.csro c off) with
      | some v => AMap.insert out dest v
      | none => out
    | _ => out
  | none => out

def zeroStep {κ : Type} [DecidableEq κ] (acc : AMap κ) (p : κ × AVal) : AMap κ :=
  -- only a description that is still in the outs is rewritten
  match p.2 with
  | .ors r i => if r == 0 && AMap.get acc p.1 == some p.2 then AMap.insert acc p.1 (.const i) else acc
  | .rs r i => if r == 0 && AMap.get acc p.1 == some p.2 then AMap.insert acc p.1 (.const i) else acc
  | _ => acc

def zeroConsts {κ : Type} [DecidableEq κ] (out inn : AMap κ) : AMap κ := inn.foldl zeroStep out

/-- what `rule_perform_math_ops` derives for the destination, if anything -/
def mathResult (n : Node) (inn : AMap Reg) : Option AVal :=
  let lhs : Option AVal := match n with
    | .arith _ _ rs1 _ _ => AMap.get inn rs1.val
    | .iarith _ _ rs1 _ _ => AMap.get inn rs1.val
    | _ => none
  let rhs : Option AVal := match n with
    | .arith _ _ _ rs2 _ => AMap.get inn rs2.val
    | .iarith _ _ _ imm _ => some (.const imm.val)
    | _ => none
  match lhs, rhs with
  | some (.const x), some (.const y) =>
    (mathOpOf n.instName).map fun op => AVal.const (operate op x y)
  | some (.ors r x), some (.const y) =>
    (scalarOpOf n.instName).map fun op => AVal.ors r (operate op x y)
  | some (.const x), some (.ors r y) =>
    -- only addition keeps the base register on the right-hand side
    ((scalarOpOf n.instName).filter (· == MathOp.add)).map fun op => AVal.ors r (operate op x y)
  | _, _ => none

def rulePerformMathOps (n : Node) (out inn : AMap Reg) : AMap Reg :=
  match n.writesTo with
  | none => out
  | some rd =>
    match mathResult n inn with
    | some v => AMap.insert out rd.val v
    | none => out

def rulePushValueToCsrMemory (n : Node) (memOut : AMap MemLoc) (regOut : AMap Reg) : AMap MemLoc :=
  match n.storesToMemory with
  | some (source, reg, off) =>
    match AMap.get regOut reg with
    | some (.vcsr c) => AMap.insert memOut (.csro c off) (.rs source 0#32)
    | _ => memOut
  | none => memOut

/-- one step of `rule_known_values_to_stack` -/
def knownStep (inn : AMap Reg) (acc : AMap MemLoc) (p : MemLoc × AVal) : AMap MemLoc :=
  match p.2 with
  | .rs reg off =>
    match AMap.get inn reg with
    | some (.const x) => AMap.insert acc p.1 (.const (x + off))
    | some (.ors r2 off3) => AMap.insert acc p.1 (.ors r2 (off3 + off))
    | _ => acc
  | _ => acc

def ruleKnownValuesToStack (memOut : AMap MemLoc) (inn : AMap Reg) : AMap MemLoc :=
  memOut.foldl (knownStep inn) memOut

/-- the registers a node overwrites, as `rule_forget_overwritten_registers` computes them -/
def ovSet (cn : CNode) : RegSet :=
  let n := cn.node
  let ov0 := n.killReg
  let ov1 := if n.callsTo.isSome then ov0 ||| returnAddrSet else ov0
  match ecallSignature cn with
  | some (_, rets) => ov1 ||| rets
  | none => if n.isEcall then ov1 ||| RegSet.ofList [10, 11] else ov1

/-- `rule_forget_overwritten_registers` -/
def ruleForgetOverwritten (cn : CNode) (memOut : AMap MemLoc) : AMap MemLoc :=
  memOut.filter fun p => match p.2 with
    | .rs r _ => !RegSet.mem (ovSet cn) r
    | _ => true

/-- `reduce(&=)` over the outs of the visited predecessors; `none` when there is none. -/
def meetOver {κ : Type} [DecidableEq κ] (ms : List (AMap κ)) : AMap κ :=
  match ms with
  | [] => []
  | m :: rest => rest.foldl AMap.meet m

def insertGen (out : AMap Reg) : Option (Reg × AVal) → AMap Reg
  | some (r, v) => AMap.insert out r v
  | none => out

/-- `out[n]` before the estimation rules: in-map minus the kills, plus the generated value and
    the seeds of entry nodes -/
def preRules (cn : CNode) (inReg : AMap Reg) : AMap Reg :=
  let n := cn.node
  let out0 := (RegSet.toList n.killReg).foldl AMap.erase inReg
  -- a function's entry node is where its calls arrive: nothing that came in is kept
  let out0 : AMap Reg := if n.isFunctionEntry then [] else out0
  let out1 := if n.callsTo.isSome then (RegSet.toList returnAddrSet).foldl AMap.erase out0 else out0
  -- an environment call overwrites its result registers (signature from the *new* reg-in)
  let cnIn : CNode := { cn with regIn := inReg }
  let out1 := match ecallSignature cnIn with
    | some (_, rets) => (RegSet.toList rets).foldl AMap.erase out1
    | none =>
      -- no signature (unknown call number, or one the table does not list): every environment
      -- call returns in a0/a1
      if n.isEcall then [10, 11].foldl AMap.erase out1 else out1
  let out2 := insertGen out1 n.genRegValue
  let out3 := if n.isHandlerFunctionEntry then AMap.extend out2 (originals allWritableSet) else out2
  let out4 := if n.isFunctionEntry then AMap.extend out3 (originals calleeSavedSet) else out3
  if n.isProgramEntry then AMap.extend out4 (originals spRaSet) else out4

/-- `out[n]` for registers: kills, generated value, entry seeds, then the rules in the order of
    the code. `cn.memOut` is the node's memory-out of the *previous* sweep (read by the CSR pull). -/
def nodeRegOut (cn : CNode) (inReg : AMap Reg) (inMem : AMap MemLoc) : AMap Reg :=
  let n := cn.node
  let r1 := ruleExpandAddressForLoad n (preRules cn inReg) inReg
  let r2 := ruleValueFromStack n r1 inMem
  let r3 := rulePullValueFromCsrMemory n r2 cn.memOut        -- reads the *old* memory_values_out
  let r4 := zeroConsts r3 inReg
  -- x0 cannot be written: no rule's result for a destination x0 is kept
  AMap.erase (rulePerformMathOps n r4 inReg) 0

/-- `out_memory[n]` -/
def nodeMemOut (cn : CNode) (inReg : AMap Reg) (inMem : AMap MemLoc) (regOut : AMap Reg) : AMap MemLoc :=
  let n := cn.node
  let cnIn : CNode := { cn with regIn := inReg }
  let mem0 : AMap MemLoc :=
    if n.isAnyEntry then []
    else match n.genMemoryValue with
      | some (.stack offset, v) =>
        match stackOffset inReg with
        | some cur => AMap.insert inMem (.stack (cur + offset)) v
        | none => inMem
      | some (loc, v) => AMap.insert inMem loc v
      | none => inMem
  let m4 := zeroConsts mem0 inMem
  let m5 := rulePushValueToCsrMemory n m4 regOut
  ruleForgetOverwritten cnIn (ruleKnownValuesToStack m5 inReg)

/-- One node of one sweep. Returns the new graph, `changed`. -/
def availNode (g : Cfg) (visited : List Nat) (i : Nat) : Cfg × Bool × Bool :=
  let cn := g.get i
  let vprevs := cn.prevs.filter visited.contains
  -- wait for a visited predecessor (an entry node does not wait: what holds after it does not come
  -- from its predecessors)
  if !cn.node.isAnyEntry && !cn.prevs.isEmpty && vprevs.isEmpty then (g, false, false)
  else
    let inReg := meetOver (vprevs.map fun p => (g.get p).regOut)
    let inMem := meetOver (vprevs.map fun p => (g.get p).memOut)
    let c1 := !(AMap.sameAs cn.regIn inReg)
    let c2 := !(AMap.sameAs cn.memIn inMem)
    let r5 := nodeRegOut cn inReg inMem
    let m6 := nodeMemOut cn inReg inMem r5
    let c3 := !(AMap.sameAs cn.regOut r5)
    let c4 := !(AMap.sameAs cn.memOut m6)
    let g' := g.modify i fun m => { m with regIn := inReg, memIn := inMem, regOut := r5, memOut := m6 }
    (g', c1 || c2 || c3 || c4, true)

def availSweep (g0 : Cfg) (visited0 : List Nat) : Cfg × List Nat × Bool :=
  (List.range g0.nodes.size).foldl (fun (acc : Cfg × List Nat × Bool) i =>
    let (g, vis, ch) := acc
    let (g', c, did) := availNode g vis i
    (g', if did && !vis.contains i then i :: vis else vis, ch || c)) (g0, visited0, false)

/-- `while changed { sweep }` with explicit fuel; the `Bool` says whether it stabilised. -/
def availLoop : Nat → Cfg → List Nat → Cfg × Bool
  | 0, g, _ => (g, false)
  | fuel + 1, g, vis =>
    let (g', vis', ch) := availSweep g vis
    -- nodes visited for the first time in this sweep were ignored by the nodes before them
    if ch || vis'.length != vis.length then availLoop fuel g' vis' else (g', true)

def availFuel (g : Cfg) : Nat := 64 * (g.nodes.size + 2)

def available (g : Cfg) : Cfg × Bool := availLoop (availFuel g) g []

/-- the same loop, also returning the set of nodes it visited -/
def availLoopV : Nat → Cfg → List Nat → Cfg × List Nat × Bool
  | 0, g, vis => (g, vis, false)
  | fuel + 1, g, vis =>
    let (g', vis', ch) := availSweep g vis
    if ch || vis'.length != vis.length then availLoopV fuel g' vis' else (g', vis', true)

def availableV (g : Cfg) : Cfg × List Nat × Bool := availLoopV (availFuel g) g []

/-! ### a decidable check that finished facts are a fixed point (hypothesis of `exec_sound`) -/

def keysNodup {κ : Type} [DecidableEq κ] : AMap κ → Bool
  | [] => true
  | p :: rest => !(rest.any (·.1 == p.1)) && keysNodup rest

def noZeroBaseB (m : AMap Reg) : Bool :=
  m.all fun p => match p.2 with
    | .ors r _ => r != 0
    | .rs r _ => r != 0
    | _ => true

/-- one entry per key, and at every visited node: in = meet of the
    outs of the visited predecessors, out = transfer of in (as finite maps) -/
def goodFactsB (g : Cfg) (V : List Nat) : Bool :=
  (List.range g.nodes.size).all fun i =>
    let cn := g.get i
    keysNodup cn.regIn && keysNodup cn.regOut &&
    (!V.contains i ||
      (AMap.sameAs cn.regIn (meetOver ((cn.prevs.filter V.contains).map fun p => (g.get p).regOut)) &&
       AMap.sameAs cn.regOut (nodeRegOut cn cn.regIn cn.memIn)))

/-! ### interrupt handler names -/

def interruptHandlerNames (g : Cfg) : List (W String) :=
  g.nodes.toList.foldl (fun acc cn =>
    let hit : Option String := match cn.node with
      | .csr i _ c rs1 _ =>
        if i.val == "Csrrw" && c.val == 5 then
          match AMap.get cn.regIn rs1.val with
          | some (.addr l) => some l
          | _ => none
        else none
      | _ => none
    match hit with
    | some l => addName acc ⟨l, FTok.default⟩
    | none => acc) []


/-- the same for the memory claims: in = meet of the outs of the visited predecessors,
    out = memory transfer of the ins -/
def goodMemFactsB (g : Cfg) (V : List Nat) : Bool :=
  (List.range g.nodes.size).all fun i =>
    let cn := g.get i
    keysNodup cn.memIn && keysNodup cn.memOut &&
    (!V.contains i ||
      (AMap.sameAs cn.memIn (meetOver ((cn.prevs.filter V.contains).map fun p => (g.get p).memOut)) &&
       AMap.sameAs cn.memOut (nodeMemOut cn cn.regIn cn.memIn cn.regOut)))

/-- which node and which clause of `goodFactsB` fails first (diagnostics only) -/
def goodFactsWhy (g : Cfg) (V : List Nat) : String :=
  match (List.range g.nodes.size).find? (fun i =>
    let cn := g.get i
    !(keysNodup cn.regIn && keysNodup cn.regOut &&
      (!V.contains i ||
        (AMap.sameAs cn.regIn (meetOver ((cn.prevs.filter V.contains).map fun p => (g.get p).regOut)) &&
         AMap.sameAs cn.regOut (nodeRegOut cn cn.regIn cn.memIn))))) with
  | none => "ok"
  | some i =>
    let cn := g.get i
    let a := keysNodup cn.regIn
    let b := keysNodup cn.regOut
    let c := noZeroBaseB cn.regIn
    let d := AMap.sameAs cn.regIn (meetOver ((cn.prevs.filter V.contains).map fun p => (g.get p).regOut))
    let e := AMap.sameAs cn.regOut (nodeRegOut cn cn.regIn cn.memIn)
    s!"node={i} nodupIn={a} nodupOut={b} noZeroBase={c} inEq={d} outEq={e} in={regMapStr cn.regIn} meet={regMapStr (meetOver ((cn.prevs.filter V.contains).map fun p => (g.get p).regOut))} out={regMapStr cn.regOut} transfer={regMapStr (nodeRegOut cn cn.regIn cn.memIn)}"

end Rva
