/-
  Rva.Model.Ops — model of `MathOp::operate` (riscv_analysis/src/cfg/ops.rs), written to mirror
  the Rust expression of every arm: `wrapping_*` on i32 is arithmetic in `BitVec 32`, the `mulh*`
  arms widen to 64 bits with the signedness the Rust casts give, `wrapping_shl/shr` mask the
  amount to 5 bits, `wrapping_div/rem` are `sdiv/srem`.
-/
import Rva.Model.Basic
namespace Rva

/-- `y as u32` masked to the low five bits, as `wrapping_shl/shr` do. -/
def shamt (y : Word) : Nat := y.toNat % 32

def boolWord (b : Bool) : Word := if b then 1#32 else 0#32

/-- The model of `MathOp::operate(x, y)`. Total: after the repair no arm can panic
    (`mulh_product_fits` etc. in `Proofs/C08` show the 64-bit products cannot overflow). -/
def operate : MathOp → Word → Word → Word
  | .add, x, y => x + y
  | .and, x, y => x &&& y
  | .or, x, y => x ||| y
  | .sll, x, y => x <<< shamt y
  | .slt, x, y => boolWord (x.slt y)
  | .sltu, x, y => boolWord (x.ult y)
  | .sra, x, y => x.sshiftRight (shamt y)
  | .srl, x, y => x >>> shamt y
  | .sub, x, y => x - y
  | .xor, x, y => x ^^^ y
  | .mul, x, y => x * y
  | .mulh, x, y => (((x.signExtend 64) * (y.signExtend 64)).sshiftRight 32).setWidth 32
  | .mulhsu, x, y => (((x.signExtend 64) * (y.setWidth 64)).sshiftRight 32).setWidth 32
  | .mulhu, x, y => (((x.setWidth 64) * (y.setWidth 64)) >>> 32).setWidth 32
  | .div, x, y => if y = 0#32 then BitVec.allOnes 32 else x.sdiv y
  | .divu, x, y => if y = 0#32 then BitVec.allOnes 32 else x.udiv y
  | .rem, x, y => if y = 0#32 then x else x.srem y
  | .remu, x, y => if y = 0#32 then x else x.umod y

end Rva
