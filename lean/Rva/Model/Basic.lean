/-
  Rva.Model.Basic — shared types of the executable model. Import-free (core only), so that the
  `driver` executable links.
-/
namespace Rva

abbrev Word := BitVec 32

/-- The eighteen folded operators (`cfg/ops.rs: enum MathOp`). -/
inductive MathOp where
  | add | and | or | sll | slt | sltu | sra | srl | sub | xor
  | mul | mulh | mulhsu | mulhu | div | divu | rem | remu
  deriving DecidableEq, Repr, Inhabited

def MathOp.all : List MathOp :=
  [.add, .and, .or, .sll, .slt, .sltu, .sra, .srl, .sub, .xor,
   .mul, .mulh, .mulhsu, .mulhu, .div, .divu, .rem, .remu]

def MathOp.name : MathOp → String
  | .add => "add" | .and => "and" | .or => "or" | .sll => "sll" | .slt => "slt"
  | .sltu => "sltu" | .sra => "sra" | .srl => "srl" | .sub => "sub" | .xor => "xor"
  | .mul => "mul" | .mulh => "mulh" | .mulhsu => "mulhsu" | .mulhu => "mulhu"
  | .div => "div" | .divu => "divu" | .rem => "rem" | .remu => "remu"

def MathOp.ofName (s : String) : Option MathOp :=
  MathOp.all.find? (fun o => o.name == s)

/-- A source position as reported by the lexer: zero-based line and column, raw char index. -/
structure Pos where
  line : Nat
  col : Nat
  raw : Nat
  deriving DecidableEq, Repr, Inhabited

structure Range where
  start : Pos
  stop : Pos
  deriving DecidableEq, Repr, Inhabited

def Pos.str (p : Pos) : String := s!"{p.line}:{p.col}:{p.raw}"
def Range.str (r : Range) : String := s!"{r.start.str}-{r.stop.str}"

/-! ### hex helpers for the line protocol (strings travel as hex of their UTF-8 bytes) -/

def hexDigit (n : Nat) : Char :=
  if n < 10 then Char.ofNat (48 + n) else Char.ofNat (87 + n)

def hexOfBytes (bs : List UInt8) : String :=
  if bs.isEmpty then "-" else
  String.ofList (bs.flatMap fun b => [hexDigit (b.toNat / 16), hexDigit (b.toNat % 16)])

def hexOfString (s : String) : String := hexOfBytes s.toUTF8.toList

def hexVal (c : Char) : Nat :=
  if '0' ≤ c ∧ c ≤ '9' then c.toNat - 48
  else if 'a' ≤ c ∧ c ≤ 'f' then c.toNat - 87
  else if 'A' ≤ c ∧ c ≤ 'F' then c.toNat - 55 else 0

def bytesOfHex : List Char → List UInt8
  | a :: b :: rest => UInt8.ofNat (hexVal a * 16 + hexVal b) :: bytesOfHex rest
  | _ => []

def stringOfHex (h : String) : String :=
  if h == "-" then "" else
  match String.fromUTF8? (ByteArray.mk (bytesOfHex h.toList).toArray) with
  | some s => s
  | none => ""

end Rva
