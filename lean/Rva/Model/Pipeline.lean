/-
  Rva.Model.Pipeline — `Manager::gen_full_cfg`, `Manager::run_diagnostics`, `RVParser::run`
  (passes/manager.rs, parser/parsing.rs) and the canonical traces of every stage.
-/
import Rva.Model.Parser
import Rva.Model.Lints
namespace Rva

inductive PipeErr where
  | cfg (e : CfgErr)
  | hang (stage : String)
  deriving Repr, Inhabited

def liftCfg {α} (e : Except CfgErr α) : Except PipeErr α :=
  match e with
  | .ok a => .ok a
  | .error e => .error (.cfg e)

def runAvail (stage : String) (g : Cfg) : Except PipeErr Cfg :=
  match available g with
  | (g', true) => .ok g'
  | (_, false) => .error (.hang stage)

/-- `Manager::gen_full_cfg`. `desc` is the successor order of the markup DFS (see Cfg.lean). -/
def genFullCfg (desc : Bool) (nodes : List Node) : Except PipeErr Cfg := do
  -- Stage 1: names of interrupt handler functions
  let g1 ← liftCfg (buildCfg nodes none)
  let g1 ← liftCfg (directions g1)
  let g1 ← runAvail "stage1-available" g1
  let names := interruptHandlerNames g1
  -- Stage 2
  let g ← liftCfg (buildCfg nodes (some names))
  let g ← liftCfg (directions g)
  let g := deadCode g
  let g ← runAvail "available-1" g
  let g := ecallTerm g
  let g ← liftCfg (markup desc g)
  let g ← runAvail "available-2" g
  let g := ecallTerm g
  match liveness g with
  | (g', true) => pure g'
  | (_, false) => throw (.hang "liveness")

/-- the graph that enters the function markup pass -/
def genPreMarkup (nodes : List Node) : Except PipeErr Cfg := do
  let g1 ← liftCfg (buildCfg nodes none)
  let g1 ← liftCfg (directions g1)
  let g1 ← runAvail "stage1-available" g1
  let names := interruptHandlerNames g1
  let g ← liftCfg (buildCfg nodes (some names))
  let g ← liftCfg (directions g)
  let g := deadCode g
  let g ← runAvail "available-1" g
  pure (ecallTerm g)

/-- the pipeline up to and including the second run of the value analysis, with the set of
    nodes that run visited: the graph the register claims of the final result were computed on -/
def genValueCfg (desc : Bool) (nodes : List Node) : Except PipeErr (Cfg × List Nat) := do
  let g1 ← liftCfg (buildCfg nodes none)
  let g1 ← liftCfg (directions g1)
  let g1 ← runAvail "stage1-available" g1
  let names := interruptHandlerNames g1
  let g ← liftCfg (buildCfg nodes (some names))
  let g ← liftCfg (directions g)
  let g := deadCode g
  let g ← runAvail "available-1" g
  let g := ecallTerm g
  let g ← liftCfg (markup desc g)
  match availableV g with
  | (g', vis, true) => pure (g', vis)
  | (_, _, false) => throw (.hang "available-2")

/-! ### traces -/

def idxList (l : List Nat) : String := "[" ++ ",".intercalate (l.map toString) ++ "]"

def sortStrings (l : List String) : List String := sortBy (fun a b => a < b) l

def cfgTrace (tag : String) (g : Cfg) : List String :=
  let nodeLines := (List.range g.nodes.size).map fun i =>
    let cn := g.get i
    let labels := sortStrings (cn.labels.map fun l => hexOfString l.val)
    s!"{tag} {i} {cn.node.kindName} seg={if cn.isText then "T" else "D"} labels=[{",".intercalate labels}] nexts={idxList cn.nexts} prevs={idxList cn.prevs} funcs={idxList cn.funcs} node={cn.node.trace}"
  let funcLines := g.funcs.map fun f =>
    let labels := sortStrings ((g.get f.entry).labels.map fun l => hexOfString l.val)
    let nodes := f.nodes.foldl (fun acc x => insNat x acc) []
    s!"{tag}.FUNC entry={f.entry} exit={f.exit} labels=[{",".intercalate labels}] nodes={idxList nodes} defs={RegSet.str f.defs} args={RegSet.str (funcArguments g f)} rets={RegSet.str (funcReturns g f)}"
  let fl := sortStrings (g.labelFunc.map fun p => s!"{hexOfString p.1}>{p.2}")
  nodeLines ++ funcLines ++ [s!"{tag}.FUNCLABELS [{",".intercalate fl}]"]

def factTrace (tag : String) (g : Cfg) : List String :=
  (List.range g.nodes.size).map fun i =>
    let cn := g.get i
    s!"{tag} {i} ri={regMapStr cn.regIn} ro={regMapStr cn.regOut} mi={memMapStr cn.memIn} mo={memMapStr cn.memOut} li={RegSet.str cn.liveIn} lo={RegSet.str cn.liveOut} ud={RegSet.str cn.uDef}"

def cfgErrTrace : CfgErr → String
  | .labelsNotDefined ls =>
    let names := sortStrings (ls.map fun l => hexOfString l.val)
    let locs := sortStrings (ls.map fun l => l.tok.loc)
    s!"LabelsNotDefined [{",".intercalate names}] at=* candidates=[{",".intercalate locs}]"
  | .duplicateLabel l => s!"DuplicateLabel {hexOfString l.val} at={l.tok.loc}"
  | .unexpectedError => "UnexpectedError"

def pipeErrTrace : PipeErr → String
  | .cfg e => cfgErrTrace e
  | .hang s => s!"HANG {s}"

/-! ### `RVParser::run`: everything as `DiagnosticItem`s, sorted -/

def tokTypeDisplay (t : FTok) : String :=
  match t.kind with
  | .label => s!"LABEL({t.payload})"
  | .symbol => s!"SYMBOL({t.payload})"
  | .directive => s!"DIRECTIVE({t.payload})"
  | .string => s!"STRING({t.payload})"
  | .char => s!"CHAR({t.payload})"
  | .comment => s!"COMMENT{t.payload}"
  | .newline => "NEWLINE"
  | .lparen => "LPAREN"
  | .rparen => "RPAREN"

def parseErrTitle : ParseErr → String
  | .expected tys t => s!"Expected {" or ".intercalate tys}, found {tokTypeDisplay t}"
  | .unsupported _ => "Unsupported operation"
  | .unexpectedToken _ => "Unexpected token"
  | .unexpectedError _ => "Unexpected error"
  | .unknownDirective _ => "Unknown directive"
  | .cyclicDependency _ => "Cyclic dependency"
  | .fileNotFound p => s!"File not found: {p.val}"
  | .ioError p m => s!"IO Error: {p.val} ({m})"
  | .invalidString .. => "Invalid string"

def parseErrDiag (e : ParseErr) : Diag :=
  let t := e.tok
  { code := "parse-error", sev := "Error", title := parseErrTitle e, range := t.range, file := t.file,
    text := t.text }

/-- the label with the smallest name (`labels.iter().min()`; the first one among equals) -/
def cfgErrDiag : CfgErr → Diag
  | .labelsNotDefined ls =>
    let names := sortStrings (ls.map (·.val))
    -- located at the label written first (`first_used`: by offsets, then by name)
    let first := (firstLabel ls).getD ls.head!
    { code := "cfg-error", sev := "Error", title := s!"Labels not defined: {", ".intercalate names}",
      range := first.tok.range, file := first.tok.file }
  | .duplicateLabel l =>
    { code := "cfg-error", sev := "Error", title := s!"Duplicate label: {l.val}",
      range := l.tok.range, file := l.tok.file }
  | .unexpectedError =>
    { code := "cfg-error", sev := "Error", title := "Unexpected error",
      range := ⟨⟨0, 0, 0⟩, ⟨0, 0, 0⟩⟩, file := nilFile }

/-- rank of a file by its name among the files read (`get_filename(uuid)` compared as
    `Option<String>`: no file sorts first) -/
def fileRank (names : List String) (f : FileId) : Nat :=
  match names[f]? with
  | some n => if f == nilFile then 0 else 1 + (names.filter (· < n)).length
  | none => 0

def withRank (names : List String) (d : Diag) : Diag := { d with frank := fileRank names d.file }

def diagLt (a b : Diag) : Bool :=
  a.frank < b.frank || (a.frank == b.frank &&
    (a.range.start.raw < b.range.start.raw ||
      (a.range.start.raw == b.range.start.raw && a.range.stop.raw < b.range.stop.raw)))

/-- stable insertion sort (keeps the order of equal keys, as `slice::sort` does) -/
def insertStable (x : Diag) : List Diag → List Diag
  | [] => [x]
  | y :: ys => if diagLt x y then x :: y :: ys else y :: insertStable x ys

def sortDiags (l : List Diag) : List Diag := l.foldl (fun acc x => insertStable x acc) []

/-- `RVParser::run` (the `Result` of `gen_full_cfg` decides between lints and the CFG error). -/
def runAll (desc : Bool) (files : List (String × String)) (base : String) :
    List Diag × Option String :=
  let out := parseFiles files base
  let pd := out.errors.map parseErrDiag
  match genFullCfg desc out.nodes with
  | .ok g => (sortDiags ((pd ++ runLints g).map (withRank out.reader.read)), none)
  | .error (.cfg e) => (sortDiags ((pd ++ [cfgErrDiag e]).map (withRank out.reader.read)), none)
  | .error (.hang s) => (sortDiags (pd.map (withRank out.reader.read)), some s)

def Diag.runTrace (d : Diag) : String :=
  let alts := if d.alts.isEmpty then "" else
    " alts=[" ++ ",".intercalate (d.alts.map fun a => locStr a.1 a.2) ++ "]"
  s!"RUN sev={d.sev} title={hexOfString d.title} at={locStr d.range d.file} desc=-{alts}"

/-- extra pass runs applied after the standard pipeline (`x:<letters>` of the protocol) -/
def applyExtra (g : Cfg) : List Char → Option Cfg
  | [] => some g
  | 'a' :: rest => match available g with
    | (g', true) => applyExtra g' rest
    | (_, false) => none
  | 'e' :: rest => applyExtra (ecallTerm g) rest
  | 'l' :: rest => match liveness g with
    | (g', true) => applyExtra g' rest
    | (_, false) => none
  | 'd' :: rest => applyExtra (deadCode g) rest
  | _ :: rest => applyExtra g rest

/-- The `pipe` request of the line protocol. -/
def pipeTrace (stages : List String) (files : List (String × String)) (desc : Bool)
    (extra : String := "") : List String :=
  match files with
  | [] => ["BADOP"]
  | (base, _) :: _ =>
    let out := parseFiles files base
    let parseLines :=
      if stages.contains "parse" then
        (out.nodes.zipIdx.map fun (n, i) => s!"NODE {i} {n.trace}") ++
        (out.errors.map fun e => s!"PERR {e.trace}")
      else []
    let stepLines : List String :=
      if stages.contains "steps" then
        match buildCfg out.nodes none with
        | .error e => [s!"STEPERR new {cfgErrTrace e}"]
        | .ok g0 =>
          let s0 := cfgTrace "S0" g0
          match directions g0 with
          | .error e => s0 ++ [s!"STEPERR S1 {cfgErrTrace e}"]
          | .ok g1 =>
            let g2 := deadCode g1
            match available g2 with
            | (_, false) => s0 ++ cfgTrace "S1" g1 ++ cfgTrace "S2" g2 ++ ["HANG S3"]
            | (g3, true) =>
              let g4 := ecallTerm g3
              let pre := s0 ++ cfgTrace "S1" g1 ++ cfgTrace "S2" g2 ++ cfgTrace "S3" g3 ++ cfgTrace "S4" g4
              match markup desc g4 with
              | .error e => pre ++ [s!"STEPERR S5 {cfgErrTrace e}"]
              | .ok g5 => pre ++ cfgTrace "S5" g5
      else []
    let wantFull := stages.any fun s => s == "cfg" || s == "facts" || s == "lints"
    let fullLines : List String :=
      if wantFull then
        match genFullCfg desc out.nodes with
        | .error e => [s!"CFGERR {pipeErrTrace e}"]
        | .ok g =>
          (if stages.contains "cfg" then cfgTrace "CFG" g else []) ++
          (if stages.contains "facts" then factTrace "FACT" g else []) ++
          (if stages.contains "lints" then (runLints g).map (Diag.trace "LINT") else [])
      else []
    let runLines : List String :=
      if stages.contains "run" then
        let (ds, hang) := runAll desc files base
        ds.map Diag.runTrace ++ (match hang with | some s => [s!"HANG {s}"] | none => [])
      else []
    let extraLines : List String :=
      if extra.isEmpty then [] else
        match genFullCfg desc out.nodes with
        | .error _ => []
        | .ok g =>
          match applyExtra g extra.toList with
          | none => ["HANG extra"]
          | some g' => cfgTrace "XCFG" g' ++ factTrace "XFACT" g' ++ (runLints g').map (Diag.trace "XLINT")
    -- stage `good` (model only): are the finished value facts a fixed point in the sense of
    -- `GoodFacts` (the hypothesis of `exec_sound`)?
    let goodLines : List String :=
      if stages.contains "good" then
        match genValueCfg desc out.nodes with
        | .error e => [s!"GOODFACTS n/a {pipeErrTrace e}"]
        | .ok (g, vis) =>
          let same := match genFullCfg desc out.nodes with
            | .ok gf => (List.range g.nodes.size).all fun i =>
                AMap.sameAs (g.get i).regIn (gf.get i).regIn && AMap.sameAs (g.get i).regOut (gf.get i).regOut
            | .error _ => false
          let markDone := match genPreMarkup out.nodes with
            | .ok gp => markAllDone desc (List.range gp.nodes.size) gp
            | .error _ => false
          [s!"GOODFACTS {goodFactsB g vis} final-facts-are-these={same} visited={vis.length}/{g.nodes.size}",
           s!"GOODMEM {goodMemFactsB g vis}",
           s!"MARKDONE {markDone}"] ++
          (if goodFactsB g vis then [] else [s!"GOODWHY {goodFactsWhy g vis}"])
      else []
    parseLines ++ stepLines ++ fullLines ++ extraLines ++ runLines ++ goodLines

end Rva
