/-
  Rva.Model.Imm — model of `Imm::from_str` and `CsrImm::from_str`
  (riscv_analysis/src/parser/imm.rs) on ASCII input.

  Assumed models of Rust std (trusted base, exercised by the correspondence check):
  `str::to_lowercase` and `str::trim` on ASCII, `u32::from_str_radix` (optional leading '+',
  at least one digit, checked multiply-add).
-/
import Rva.Model.Basic
namespace Rva

def asciiLower (c : Char) : Char :=
  if 'A' ≤ c ∧ c ≤ 'Z' then Char.ofNat (c.toNat + 32) else c

def isAsciiWs (c : Char) : Bool :=
  c == ' ' || c == '\t' || c == '\n' || c == '\r' || c == Char.ofNat 11 || c == Char.ofNat 12

def trimLeft : List Char → List Char
  | c :: cs => if isAsciiWs c then trimLeft cs else c :: cs
  | [] => []

def trimAscii (s : List Char) : List Char :=
  (trimLeft (trimLeft s).reverse).reverse

/-- `char::to_digit(radix)`. -/
def digitVal (radix : Nat) (c : Char) : Option Nat :=
  let v : Option Nat :=
    if '0' ≤ c ∧ c ≤ '9' then some (c.toNat - 48)
    else if 'a' ≤ c ∧ c ≤ 'z' then some (c.toNat - 87)
    else if 'A' ≤ c ∧ c ≤ 'Z' then some (c.toNat - 55)
    else none
  match v with
  | some d => if d < radix then some d else none
  | none => none

/-- The digit loop of `u32::from_str_radix`: checked multiply-add, left to right. -/
def parseU32Digits (radix : Nat) : List Char → Nat → Option Nat
  | [], acc => some acc
  | c :: cs, acc =>
    match digitVal radix c with
    | none => none
    | some d =>
      let acc' := acc * radix + d
      if acc' < 2 ^ 32 then parseU32Digits radix cs acc' else none

/-- `u32::from_str_radix(s, radix)`. -/
def parseU32 (radix : Nat) (s : List Char) : Option Nat :=
  match s with
  | [] => none
  | ['+'] => none
  | ['-'] => none
  | '+' :: rest => parseU32Digits radix rest 0
  | s => parseU32Digits radix s 0

/-- `Imm::from_signed_magnitude`: exactly the values in `[-2^31, 2^32)`. -/
def signedMagnitude (negative : Bool) (m : Nat) : Option Word :=
  let v : Int := if negative then -(m : Int) else (m : Int)
  if -(2 : Int) ^ 31 ≤ v ∧ v < (2 : Int) ^ 31 then some (BitVec.ofInt 32 v)
  else if 0 ≤ v ∧ v < (2 : Int) ^ 32 then some (BitVec.ofInt 32 v)
  else none

/-- `s.to_lowercase().trim()` -/
def normLit (s0 : List Char) : List Char := trimAscii (s0.map asciiLower)

/-- `Imm::from_str` after the sign has been stripped. -/
def immBody (negative : Bool) (s : List Char) : Option Word :=
  if s == "zero".toList then (if negative then none else some 0#32)      -- the keyword takes no sign
  else match s with
  | '0' :: 'x' :: rest =>            -- strip_prefix("0x")
    if rest.head? == some '-' then none
    else (parseU32 16 rest).bind (signedMagnitude negative)
  | '0' :: 'b' :: rest =>            -- strip_prefix("0b")
    if rest.head? == some '-' then none
    else (parseU32 2 rest).bind (signedMagnitude negative)
  | s =>
    if s.head? == some '-' then none
    else (parseU32 10 s).bind (signedMagnitude negative)

/-- The body of `Imm::from_str` after lower-casing and trimming. -/
def immCore (s : List Char) : Option Word :=
  match s with
  | '-' :: rest => immBody true rest      -- strip_prefix('-')
  | _ => immBody false s

/-- `Imm::from_str`. -/
def immFromChars (s0 : List Char) : Option Word := immCore (normLit s0)

def immFromStr (s : String) : Option Word := immFromChars s.toList

def csrNames : List (String × Nat) :=
  [("ustatus", 0x000), ("fflags", 0x001), ("frm", 0x002), ("fcsr", 0x003), ("uie", 0x004),
   ("utvec", 0x005), ("uscratch", 0x040), ("uepc", 0x041), ("ucause", 0x042), ("utval", 0x043),
   ("uip", 0x044), ("cycle", 0xC00), ("time", 0xC01), ("instret", 0xC02), ("cycleh", 0xC80),
   ("timeh", 0xC81), ("instreth", 0xC82)]

/-- `CsrImm::from_str` (value as u32). -/
def csrImmFromStr (s : String) : Option Nat :=
  let l := String.ofList (s.toList.map asciiLower)
  match csrNames.find? (fun p => p.1 == l) with
  | some p => some p.2
  | none => (immFromStr s).map (·.toNat)

end Rva
