/-
  Rva.Model.Parser — model of `TryFrom<&mut Peekable<Lexer>> for ParserNode` and of
  `RVParser::parse_from_file` (parser/parsing.rs), as repaired.

  The Rust parser pulls tokens lazily from a `Peekable<Lexer>`; lexing does not depend on the
  parser, so here a file is lexed completely first and the parser works on the item list.
-/
import Rva.Model.Node
import Rva.Model.Imm
namespace Rva

/-- Items of one file's token stream, with file ids attached. -/
inductive PItem where
  | tok (t : FTok)
  | strErr (t : FTok) (k : StrErr) (at_ : Pos)
  | unexpected (t : FTok)
  deriving Repr, Inhabited

def PItem.ofLex (f : FileId) : LexItem → PItem
  | .tok t => .tok ⟨t.kind, t.payload, t.text, t.range, f⟩
  | .strErr t k p => .strErr ⟨t.kind, t.payload, t.text, t.range, f⟩ k p
  | .unexpected t => .unexpected ⟨t.kind, t.payload, t.text, t.range, f⟩

/-- The parser-internal `LexError`. -/
inductive LexErr where
  | expected (types : List String) (tok : FTok)
  | isNewline (tok : FTok)
  | ignoredWithWarning (tok : FTok)
  | ignoredWithoutWarning
  | unexpectedToken (tok : FTok)
  | unexpectedEOF
  | needTwoNodes (a b : Node)
  | unexpectedError (tok : FTok)
  | unknownDirective (tok : FTok)
  | unsupportedDirective (tok : FTok)
  | invalidString (tok : FTok) (k : StrErr) (at_ : Pos)
  deriving Repr, Inhabited

/-- `AnnotatedLexer`: the remaining items and the accumulated raw token. -/
structure PState where
  items : List PItem
  raw : RawTok := RawTok.default
  deriving Repr, Inhabited

/-- Parser monad: the state (consumed tokens) survives an error, as the Rust lexer does. -/
abbrev P := ExceptT LexErr (StateM PState)

/-! ### table lookups (generated tables) -/

def lowerStr (s : String) : String := String.ofList (s.toList.map asciiLower)

def regFromStr (s : String) : Option Reg := (Gen.regNames.find? (·.1 == s)).map (·.2)

/-- `Inst::from_str` → variant name -/
def instFromStr (s : String) : Option String :=
  (Gen.mnemonics.find? (·.1 == lowerStr s)).map (·.2)

/-- `Type::from(&Inst)` → (class, sub-type variant) -/
def instType (v : String) : Option (String × String) :=
  (Gen.instTypes.find? (·.1 == v)).map (·.2)

def directiveFromStr (s : String) : Option String :=
  (Gen.directives.find? (·.1 == lowerStr s)).map (·.2)

def csrFromStr (s : String) : Option Nat :=
  match Gen.csrNames.find? (·.1 == lowerStr s) with
  | some p => some p.2
  | none => (immFromStr s).map (·.toNat)

/-- `char::is_alphabetic` restricted to ASCII (what the lexer can hand over). -/
def isAlpha (c : Char) : Bool := ('a' ≤ c && c ≤ 'z') || ('A' ≤ c && c ≤ 'Z')
def isDigit (c : Char) : Bool := '0' ≤ c && c ≤ '9'

/-- `LabelString::from_str` -/
def labelFromStr (s : String) : Option String :=
  if (regFromStr s).isSome then none
  else match s.toList with
  | [] => none
  | c :: _ =>
    if !(isAlpha c) && c != '_' then none
    else if s.toList.all (fun c => isDigit c || isAlpha c || c == '_' || c == '.' || c == '$')
    then some s else none

/-! ### token conversions (`Token::as_*`) -/

def FTok.asReg (t : FTok) : Except LexErr (W Reg) :=
  match t.kind with
  | .symbol => match regFromStr t.payload with
    | some r => .ok ⟨r, t⟩
    | none => .error (.expected ["REGISTER"] t)
  | _ => .error (.expected ["REGISTER"] t)

def FTok.immVal (t : FTok) : Option Word :=
  match t.kind with
  | .symbol => immFromStr t.payload
  | .char => match t.payload.toList with
    | [c] => some (BitVec.ofNat 32 c.toNat)
    | _ => none
  | _ => none

def FTok.asImm (t : FTok) : Except LexErr (W Word) :=
  match t.immVal with
  | some v => .ok ⟨v, t⟩
  | none => .error (.expected ["IMMEDIATE"] t)

def FTok.asLabel (t : FTok) : Except LexErr (W String) :=
  match t.kind with
  | .symbol => match labelFromStr t.payload with
    | some l => .ok ⟨l, t⟩
    | none => .error (.expected ["LABEL"] t)
  | _ => .error (.expected ["LABEL"] t)

def FTok.asCsrImm (t : FTok) : Except LexErr (W Nat) :=
  match t.kind with
  | .symbol => match csrFromStr t.payload with
    | some v => .ok ⟨v, t⟩
    | none => .error (.expected ["CSR-IMMEDIATE"] t)
  | _ => .error (.expected ["CSR-IMMEDIATE"] t)

def FTok.asString (t : FTok) : Except LexErr (W String) :=
  match t.kind with
  | .symbol | .string => .ok ⟨t.payload, t⟩
  | _ => .error (.expected ["STRING"] t)

def FTok.isLParen (t : FTok) : Bool := t.kind == .lparen
def FTok.isRParen (t : FTok) : Bool := t.kind == .rparen

/-! ### `AnnotatedLexer` -/

def itemErr : PItem → Option LexErr
  | .tok _ => none
  | .strErr t k p => some (.invalidString t k p)
  | .unexpected t => some (.unexpectedToken t)

/-- `AnnotatedLexer::get_any` -/
def getAny : P FTok := do
  let st ← get
  match st.items with
  | [] => throw .unexpectedEOF
  | it :: rest =>
    match it with
    | .tok t =>
      let raw :=
        if st.raw == RawTok.default then t.raw
        else ⟨st.raw.text ++ " " ++ t.text, ⟨st.raw.range.start, t.range.stop⟩, st.raw.file⟩
      set ({ items := rest, raw := raw } : PState)
      pure t
    | .strErr t k p => set ({ st with items := rest }); throw (.invalidString t k p)
    | .unexpected t => set ({ st with items := rest }); throw (.unexpectedToken t)

/-- `AnnotatedLexer::peek_any` -/
def peekAny : P FTok := do
  let st ← get
  match st.items with
  | [] => throw .unexpectedEOF
  | .tok t :: _ => pure t
  | .strErr t k p :: _ => throw (.invalidString t k p)
  | .unexpected t :: _ => throw (.unexpectedToken t)

def liftE {α} (e : Except LexErr α) : P α := match e with
  | .ok a => pure a
  | .error e => throw e

def getReg : P (W Reg) := do liftE (← getAny).asReg
def getImm : P (W Word) := do liftE (← getAny).asImm
def getLabel : P (W String) := do liftE (← getAny).asLabel
def getCsrImm : P (W Nat) := do liftE (← getAny).asCsrImm
def getString : P (W String) := do liftE (← getAny).asString
def expectRParen : P Unit := do
  let t ← getAny
  if t.isRParen then pure () else throw (.expected ["RPAREN"] t)

def rawNow : P RawTok := do pure (← get).raw

def x0 (t : FTok) : W Reg := ⟨0, t⟩
def x1 (t : FTok) : W Reg := ⟨1, t⟩
def imm0 (t : FTok) : W Word := ⟨0#32, t⟩
def wi (s : String) (t : FTok) : W String := ⟨s, t⟩

/-- The `.word`-style operand loop: consume newlines and immediates while they come. -/
def dataLoop : Nat → List (W Word) → P (List (W Word))
  | 0, acc => pure acc.reverse
  | fuel + 1, acc => do
    -- the list also ends with the file, and with an item the lexer could not read (it belongs
    -- to the next statement, which reports it)
    match (← get).items with
    | [] => return acc.reverse
    | .strErr .. :: _ => return acc.reverse
    | .unexpected .. :: _ => return acc.reverse
    | _ => pure ()
    let next ← peekAny
    if next.kind == .newline then
      let _ ← getAny
      dataLoop fuel acc
    else match next.asImm with
      | .ok imm => do let _ ← getAny; dataLoop fuel (imm :: acc)
      | .error _ => pure acc.reverse

/-- skip an item the lexer could not read at the head of the stream (nothing else) -/
def dropBad : P Unit := modify fun st =>
  match st.items with
  | .strErr .. :: rest => { st with items := rest }
  | .unexpected .. :: rest => { st with items := rest }
  | _ => st

/-- The `.macro` skip loop: consume everything up to and including `.endmacro`. -/
def macroLoop : Nat → P Unit
  | 0 => pure ()
  | fuel + 1 => do
    -- an unterminated macro is ignored up to the end of the input (`Err(UnexpectedEOF) => break`)
    -- what the lexer could not read is skipped with the rest of the body (`Err(_) => continue`)
    match (← get).items with
    | [] => pure ()
    | .strErr .. :: _ => do dropBad; macroLoop fuel
    | .unexpected .. :: _ => do dropBad; macroLoop fuel
    | _ => do
      let next ← getAny
      if next.kind == .directive && directiveFromStr next.payload == some "EndMacro" then pure ()
      else macroLoop fuel

def pseudoBranch (i : String) (m : FTok) (a b : W Reg) (l : W String) : P Node := do
  pure (.branch (wi i m) a b l (← rawNow))

/-- expansion of the pseudo-instructions with a destination and one source register -/
def pseudoRR (sub : String) (m : FTok) (rd rs1 : W Reg) (raw : RawTok) : Option Node :=
  match sub with
  | "Mv" => some (.iarith (wi "Addi" m) rd rs1 (imm0 m) raw)
  | "Neg" => some (.arith (wi "Sub" m) rd (x0 m) rs1 raw)
  | "Not" => some (.iarith (wi "Xori" m) rd rs1 ⟨-1#32, m⟩ raw)
  | "Seqz" => some (.iarith (wi "Sltiu" m) rd rs1 ⟨1#32, m⟩ raw)
  | "Snez" => some (.arith (wi "Sltu" m) rd (x0 m) rs1 raw)
  | "Sgtz" => some (.arith (wi "Slt" m) rd (x0 m) rs1 raw)
  | "Sltz" => some (.arith (wi "Slt" m) rd rs1 (x0 m) raw)
  | _ => none

/-- expansion of the compare-with-zero branches: (base branch, first operand, second operand) -/
def pseudoBZ (sub : String) (m : FTok) (r : W Reg) : Option (String × W Reg × W Reg) :=
  match sub with
  | "Beqz" => some ("Beq", r, x0 m)
  | "Bnez" => some ("Bne", r, x0 m)
  | "Bltz" => some ("Blt", r, x0 m)
  | "Bgtz" => some ("Blt", x0 m, r)
  | "Bgez" => some ("Bge", r, x0 m)
  | "Blez" => some ("Bge", x0 m, r)
  | "Sgez" => some ("Bge", x0 m, r)
  | _ => none

/-- expansion of the swapped two-register branches -/
def pseudoB2 (sub : String) (a b : W Reg) : Option (String × W Reg × W Reg) :=
  match sub with
  | "Bgt" => some ("Blt", b, a)
  | "Ble" => some ("Bge", b, a)
  | "Bgtu" => some ("Bltu", b, a)
  | "Bleu" => some ("Bgeu", b, a)
  | _ => none

/-- does the value fit the 20-bit field of `lui` / `auipc` (`(-(1 << 19)..(1 << 20)).contains`)? -/
def upperFits (v : Word) : Bool := decide (-(524288 : Int) ≤ v.toInt) && decide (v.toInt < 1048576)

/-- Parse one statement whose mnemonic token `m` names instruction variant `v`. -/
def parseInst (m : FTok) (v : String) : P Node := do
  match instType v with
  | none => throw (.unexpectedError m)
  | some (cls, sub) =>
  match cls with
  | "CsrI" => do
    let rd ← getReg; let csr ← getCsrImm; let imm ← getImm
    pure (.csri (wi sub m) rd csr imm (← rawNow))
  | "Csr" => do
    let rd ← getReg; let csr ← getCsrImm; let rs1 ← getReg
    pure (.csr (wi sub m) rd csr rs1 (← rawNow))
  | "UpperArith" => do
    let rd ← getReg; let imm ← getImm
    -- the 20-bit field, written as an unsigned or as a sign-extended value
    if !(upperFits imm.val) then throw (.expected ["IMMEDIATE"] imm.tok)
    else pure (.iarith (wi sub m) rd (x0 m) ⟨imm.val <<< 12, imm.tok⟩ (← rawNow))
  | "Arith" => do
    let rd ← getReg; let rs1 ← getReg; let rs2 ← getReg
    pure (.arith (wi sub m) rd rs1 rs2 (← rawNow))
  | "IArith" => do
    let rd ← getReg; let rs1 ← getReg; let imm ← getImm
    pure (.iarith (wi sub m) rd rs1 imm (← rawNow))
  | "JumpLink" => do
    let next ← getAny
    match next.asReg with
    | .ok reg => do
      let name ← getLabel
      pure (.jumpLink (wi sub m) reg name (← rawNow))
    | .error _ =>
      match next.asLabel with
      | .ok name => pure (.jumpLink (wi sub m) (x1 m) name (← rawNow))
      | .error _ => throw (.expected ["REGISTER", "LABEL"] next)
  | "JumpLinkR" => do
    let reg1 ← getReg
    -- the token after the first register is only looked at: the one-register form ends here
    let next ← peekAny
    match next.asReg with
    | .ok rs1 => do
      let _ ← getAny
      let imm ← getImm
      pure (.jumpLinkR (wi sub m) reg1 rs1 imm (← rawNow))
    | .error _ =>
      match next.asImm with
      | .ok imm => do
        let _ ← getAny
        if (← peekAny).isLParen then
          let _ ← getAny
          let rs1 ← getReg
          expectRParen
          pure (.jumpLinkR (wi sub m) reg1 rs1 imm (← rawNow))
        else
          pure (.jumpLinkR (wi sub m) (x1 m) reg1 imm (← rawNow))
      | .error _ =>
        if next.isLParen then do
          let _ ← getAny
          let rs1 ← getReg
          expectRParen
          pure (.jumpLinkR (wi sub m) reg1 rs1 (imm0 m) (← rawNow))
        else
          pure (.jumpLinkR (wi sub m) (x1 m) reg1 (imm0 m) (← rawNow))
  | "Load" => do
    let rd ← getReg
    let next ← getAny
    match next.asImm with
    | .ok imm => do
      if (← peekAny).isLParen then
        let _ ← getAny
        let rs1 ← getReg
        expectRParen
        pure (.load (wi sub m) rd rs1 imm (← rawNow))
      else
        pure (.load (wi sub m) rd (x0 m) imm (← rawNow))
    | .error _ =>
      match next.asLabel with
      | .ok label => do
        let raw ← rawNow
        throw (.needTwoNodes (.loadAddr (wi "La" m) rd label raw)
                             (.load (wi sub m) rd rd (imm0 m) raw))
      | .error _ =>
        if next.isLParen then do
          let rs1 ← getReg
          expectRParen
          pure (.load (wi sub m) rd rs1 (imm0 m) (← rawNow))
        else throw (.expected ["LABEL", "IMMEDIATE", "LPAREN"] next)
  | "Store" => do
    let rs2 ← getReg
    let next ← getAny
    match next.asImm with
    | .ok imm => do
      let pk ← peekAny
      if pk.isLParen then
        let _ ← getAny
        let rs1 ← getReg
        expectRParen
        pure (.store (wi sub m) rs1 rs2 imm (← rawNow))
      else match pk.asReg with
        | .ok tmp => do
          let _ ← getAny
          let raw ← rawNow
          throw (.needTwoNodes (.iarith (wi "Addi" m) tmp (x0 m) imm raw)
                               (.store (wi sub m) tmp rs2 (imm0 m) raw))
        | .error _ => pure (.store (wi sub m) (x0 m) rs2 imm (← rawNow))
    | .error _ =>
      match next.asLabel with
      | .ok label => do
        let tmp ← getReg
        let raw ← rawNow
        throw (.needTwoNodes (.loadAddr (wi "La" m) tmp label raw)
                             (.store (wi sub m) tmp rs2 (imm0 m) raw))
      | .error _ =>
        if next.isLParen then do
          let rs1 ← getReg
          expectRParen
          pure (.store (wi sub m) rs1 rs2 (imm0 m) (← rawNow))
        else throw (.expected ["LABEL", "IMMEDIATE", "LPAREN"] next)
  | "Branch" => do
    let rs1 ← getReg; let rs2 ← getReg; let label ← getLabel
    pure (.branch (wi sub m) rs1 rs2 label (← rawNow))
  | "Ignore" => throw (.ignoredWithWarning m)
  | "Basic" => do pure (.basic (wi sub m) (← rawNow))
  | "Pseudo" =>
    match sub with
    | "Ret" => do pure (.jumpLinkR (wi "Jalr" m) (x0 m) (x1 m) (imm0 m) (← rawNow))
    | "Mv" | "Neg" | "Not" | "Seqz" | "Snez" | "Sgtz" | "Sltz" => do
      let rd ← getReg; let rs1 ← getReg
      match pseudoRR sub m rd rs1 (← rawNow) with
      | some n => pure n
      | none => throw (.unexpectedError m)
    | "Li" => do
      let rd ← getReg; let imm ← getImm
      pure (.iarith (wi "Addi" m) rd (x0 imm.tok) imm (← rawNow))
    | "La" => do
      let rd ← getReg; let label ← getLabel
      pure (.loadAddr (wi "La" m) rd label (← rawNow))
    | "J" | "B" => do
      let label ← getLabel
      pure (.jumpLink (wi "Jal" m) (x0 m) label (← rawNow))
    | "Jr" => do
      let rs1 ← getReg
      pure (.jumpLinkR (wi "Jalr" m) (x0 m) rs1 (imm0 m) (← rawNow))
    | "Beqz" | "Bnez" | "Bltz" | "Bgtz" | "Bgez" | "Blez" | "Sgez" => do
      let r ← getReg; let l ← getLabel
      match pseudoBZ sub m r with
      | some (i, a, b) => pseudoBranch i m a b l
      | none => throw (.unexpectedError m)
    | "Nop" => do pure (.iarith (wi "Addi" m) (x0 m) (x0 m) (imm0 m) (← rawNow))
    | "Call" => do
      let label ← getLabel
      pure (.jumpLink (wi "Jal" m) (x1 m) label (← rawNow))
    | "Bgt" | "Ble" | "Bgtu" | "Bleu" => do
      let a ← getReg; let b ← getReg; let l ← getLabel
      match pseudoB2 sub a b with
      | some (i, x, y) => pseudoBranch i m x y l
      | none => throw (.unexpectedError m)
    | "Csrci" | "Csrsi" | "Csrwi" => do
      let csr ← getCsrImm; let imm ← getImm
      let i := if sub == "Csrci" then "Csrrci" else if sub == "Csrsi" then "Csrrsi" else "Csrrwi"
      pure (.csri (wi i m) (x0 m) csr imm (← rawNow))
    | "Csrc" | "Csrs" | "Csrw" => do
      let rs1 ← getReg; let csr ← getCsrImm
      let i := if sub == "Csrc" then "Csrrc" else if sub == "Csrs" then "Csrrs" else "Csrrw"
      pure (.csr (wi i m) (x0 m) csr rs1 (← rawNow))
    | "Csrr" => do
      let rd ← getReg; let csr ← getCsrImm
      pure (.csr (wi "Csrrs" m) rd csr (x0 m) (← rawNow))
    | _ => throw (.unexpectedError m)
  | _ => throw (.unexpectedError m)

def parseDirective (m : FTok) (d : String) : P Node := do
  let dt : W String := wi d m
  match d with
  | "Align" => do let imm ← getImm; pure (.directive dt (.align imm) (← rawNow))
  | "Ascii" => do let s ← getString; pure (.directive dt (.ascii s false) (← rawNow))
  | "Asciz" | "String" => do let s ← getString; pure (.directive dt (.ascii s true) (← rawNow))
  | "Byte" | "Double" | "Dword" | "Float" | "Word" | "Half" => do
    let n := (← get).items.length
    let vals ← dataLoop (n + 1) []
    pure (.directive dt (.data d vals) (← rawNow))
  | "Data" => do pure (.directive dt .dataSection (← rawNow))
  | "Macro" => do
    let n := (← get).items.length
    macroLoop (n + 1)
    throw (.ignoredWithWarning m)
  | "EndMacro" => throw (.ignoredWithWarning m)
  | "Section" | "Extern" | "Eqv" | "Global" | "Globl" => throw (.unsupportedDirective m)
  | "Include" => do let f ← getString; pure (.directive dt (.include_ f) (← rawNow))
  | "Space" => do let imm ← getImm; pure (.directive dt (.space imm) (← rawNow))
  | "Text" => do pure (.directive dt .textSection (← rawNow))
  | _ => throw (.unexpectedError m)

/-- `ParserNode::try_from(&mut Peekable<Lexer>)` -/
def parseNode : P Node := do
  let m ← getAny
  match m.kind with
  | .symbol =>
    match instFromStr m.payload with
    | some v => parseInst m v
    | none => throw (.expected ["INSTRUCTION"] m)
  | .label =>
    match labelFromStr m.payload with
    | some l => pure (.label ⟨l, m⟩ (← rawNow))
    | none => throw (.expected ["LABEL"] m)
  | .directive =>
    match directiveFromStr m.payload with
    | some d => parseDirective m d
    | none => throw (.unknownDirective m)
  | .newline => throw (.isNewline m)
  | .lparen | .rparen | .string | .char => throw (.unexpectedToken m)
  | .comment => throw .ignoredWithoutWarning

/-- Run `parseNode` on an item list: the result and the remaining items (whatever was
    consumed before an error stays consumed, as with the Rust lexer). -/
def parseStep (items : List PItem) : Except LexErr Node × List PItem :=
  let r := Id.run ((ExceptT.run parseNode).run { items := items })
  (r.1, r.2.items)

/-- `recover_from_parse_error`: drop items up to and including the next newline token
    (`flatten()` skips lexer errors). -/
def recover : List PItem → List PItem
  | [] => []
  | .tok t :: rest => if t.kind == .newline then rest else recover rest
  | _ :: rest => recover rest

end Rva

namespace Rva

/-! ### `FileReader` (the in-memory reader of the harness) and `parse_from_file` -/

inductive ReaderErr where
  | ioErr (msg : String)
  | internalFileNotFound
  | fileAlreadyRead
  | unexpected
  | invalidPath
  deriving Repr, Inhabited

/-- `FileReaderError::to_parse_error` -/
def ReaderErr.toParseErr (e : ReaderErr) (path : W String) : ParseErr :=
  match e with
  | .internalFileNotFound | .unexpected => .unexpectedError path.tok
  | .fileAlreadyRead => .cyclicDependency path.tok
  | .invalidPath => .fileNotFound path
  | .ioErr m => .ioError path m

/-- In-memory reader: files by name; `read` = names in import order (index = file id). -/
structure Reader where
  files : List (String × String)
  read : List String := []
  deriving Repr, Inhabited

def Reader.importFile (r : Reader) (path : String) : Except ReaderErr (FileId × String) × Reader :=
  if path.startsWith "!io" then (.error (.ioErr "injected"), r)
  else if r.read.contains path then (.error .fileAlreadyRead, r)
  else match r.files.find? (·.1 == path) with
    | some (n, t) => (.ok (r.read.length, t), { r with read := r.read ++ [n] })
    | none => (.error (.ioErr "not found"), r)

/-- `RVParser::new_lexer` + complete lexing of the file. -/
def lexFile (text : String) (f : FileId) : List PItem :=
  let t := if text.toList.getLast? == some '\n' then text else text ++ "\n"
  (lexString t).map (PItem.ofLex f)

def Node.includePath : Node → Option (W String)
  | .directive _ (.include_ p) _ => some p
  | _ => none

structure ParseOut where
  nodes : List Node
  errors : List ParseErr
  reader : Reader
  deriving Repr, Inhabited

/-- The `while let Some(l) = self.lexer()` loop. `stack` is the lexer stack, top first;
    `nodes`/`errs` are accumulated in reverse. -/
def parseLoop : Nat → List (List PItem) → Reader → List Node → List ParseErr → ParseOut
  | 0, _, r, nodes, errs => ⟨nodes.reverse, errs.reverse, r⟩
  | _ + 1, [], r, nodes, errs => ⟨nodes.reverse, errs.reverse, r⟩
  | fuel + 1, top :: below, r, nodes, errs =>
    match parseStep top with
    | (.ok x, rest) =>
      match x.includePath with
      | some path =>
        match r.importFile path.val with
        | (.ok (fid, text), r') => parseLoop fuel (lexFile text fid :: rest :: below) r' nodes errs
        | (.error e, r') => parseLoop fuel (rest :: below) r' nodes (e.toParseErr path :: errs)
      | none => parseLoop fuel (rest :: below) r (x :: nodes) errs
    | (.error e, rest) =>
      match e with
      | .expected ex got =>
        let rest' := if got.kind == .newline then rest else recover rest
        parseLoop fuel (rest' :: below) r nodes (.expected ex got :: errs)
      | .isNewline _ => parseLoop fuel (rest :: below) r nodes errs
      | .unexpectedToken got =>
        parseLoop fuel (recover rest :: below) r nodes (.unexpectedToken got :: errs)
      | .unexpectedEOF => parseLoop fuel below r nodes errs
      | .needTwoNodes a b => parseLoop fuel (rest :: below) r (b :: a :: nodes) errs
      | .unexpectedError t =>
        parseLoop fuel (recover rest :: below) r nodes (.unexpectedError t :: errs)
      | .unknownDirective t =>
        parseLoop fuel (recover rest :: below) r nodes (.unknownDirective t :: errs)
      | .ignoredWithWarning t | .unsupportedDirective t =>
        parseLoop fuel (recover rest :: below) r nodes (.unsupported t :: errs)
      | .ignoredWithoutWarning => parseLoop fuel (rest :: below) r nodes errs
      | .invalidString t k p =>
        parseLoop fuel (recover rest :: below) r nodes (.invalidString t k p :: errs)

/-- `RVParser::parse_from_file(base, false)` -/
def parseFiles (files : List (String × String)) (base : String) : ParseOut :=
  let r : Reader := { files := files }
  match r.importFile base with
  | (.error e, r') => ⟨[], [e.toParseErr ⟨base, FTok.default⟩], r'⟩
  | (.ok (fid, text), r') =>
    let fuel := files.foldl (fun a f => a + 2 * f.2.length + 8) 16
    let entry : Node := .programEntry fid ⟨"", ⟨⟨0, 0, 0⟩, ⟨0, 0, 0⟩⟩, fid⟩
    parseLoop fuel [lexFile text fid] r' [entry] []

end Rva
