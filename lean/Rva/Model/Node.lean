/-
  Rva.Model.Node — `ParserNode` and its tokens (parser/node.rs, details.rs, with.rs), and the
  instruction property functions (parser/node_instruction_properties.rs).

  Instruction sub-types (`ArithType::Add`, …) are kept as the Rust variant *names*, so that the
  model runs off the generated tables (`Rva.Gen`): a change to a table changes the model.
-/
import Rva.Model.Lexer
import Rva.Gen.Tables
namespace Rva

/-- Index of a file in import order; `nilFile` stands for `Uuid::nil()`. -/
abbrev FileId := Nat
def nilFile : FileId := 1000000

def fileStr (f : FileId) : String := if f == nilFile then "nil" else toString f

/-- `parser::Token` with the file it came from. -/
structure FTok where
  kind : TokKind
  payload : String
  text : String
  range : Range
  file : FileId
  deriving DecidableEq, Repr, Inhabited

/-- `Token::default()` -/
def FTok.default : FTok := ⟨.newline, "", "", ⟨⟨0, 0, 0⟩, ⟨0, 0, 0⟩⟩, nilFile⟩

/-- `RawToken` -/
structure RawTok where
  text : String
  range : Range
  file : FileId
  deriving DecidableEq, Repr, Inhabited

def RawTok.default : RawTok := ⟨"", ⟨⟨0, 0, 0⟩, ⟨0, 0, 0⟩⟩, nilFile⟩

def FTok.raw (t : FTok) : RawTok := ⟨t.text, t.range, t.file⟩

/-- `With<T>` -/
structure W (α : Type) where
  val : α
  tok : FTok
  deriving Repr, Inhabited

abbrev Reg := Nat

inductive DirData where
  | include_ (path : W String)
  | align (imm : W Word)
  | ascii (text : W String) (nullTerm : Bool)
  | dataSection
  | textSection
  | data (ty : String) (vals : List (W Word))
  | space (imm : W Word)
  deriving Repr, Inhabited

/-- `ParserNode`. `inst` fields hold the Rust variant name of the sub-type enum. -/
inductive Node where
  | programEntry (file : FileId) (tok : RawTok)
  | funcEntry (file : FileId) (tok : RawTok) (isHandler : Bool)
  | arith (inst : W String) (rd rs1 rs2 : W Reg) (tok : RawTok)
  | iarith (inst : W String) (rd rs1 : W Reg) (imm : W Word) (tok : RawTok)
  | label (name : W String) (tok : RawTok)
  | jumpLink (inst : W String) (rd : W Reg) (name : W String) (tok : RawTok)
  | jumpLinkR (inst : W String) (rd rs1 : W Reg) (imm : W Word) (tok : RawTok)
  | basic (inst : W String) (tok : RawTok)
  | directive (dtok : W String) (dir : DirData) (tok : RawTok)
  | branch (inst : W String) (rs1 rs2 : W Reg) (name : W String) (tok : RawTok)
  | store (inst : W String) (rs1 rs2 : W Reg) (imm : W Word) (tok : RawTok)
  | load (inst : W String) (rd rs1 : W Reg) (imm : W Word) (tok : RawTok)
  | loadAddr (inst : W String) (rd : W Reg) (name : W String) (tok : RawTok)
  | csr (inst : W String) (rd : W Reg) (csr : W Nat) (rs1 : W Reg) (tok : RawTok)
  | csri (inst : W String) (rd : W Reg) (csr : W Nat) (imm : W Word) (tok : RawTok)
  deriving Repr, Inhabited

namespace Node

def tok : Node → RawTok
  | programEntry _ t | funcEntry _ t _ | arith _ _ _ _ t | iarith _ _ _ _ t | label _ t
  | jumpLink _ _ _ t | jumpLinkR _ _ _ _ t | basic _ t | directive _ _ t | branch _ _ _ _ t
  | store _ _ _ _ t | load _ _ _ _ t | loadAddr _ _ _ t | csr _ _ _ _ t | csri _ _ _ _ t => t

def kindName : Node → String
  | programEntry .. => "ProgramEntry" | funcEntry .. => "FuncEntry" | arith .. => "Arith"
  | iarith .. => "IArith" | label .. => "Label" | jumpLink .. => "JumpLink"
  | jumpLinkR .. => "JumpLinkR" | basic .. => "Basic" | directive .. => "Directive"
  | branch .. => "Branch" | store .. => "Store" | load .. => "Load" | loadAddr .. => "LoadAddr"
  | csr .. => "Csr" | csri .. => "CsrI"

/-- `ParserNode::inst()` as the `Inst` variant name. -/
def instName : Node → String
  | arith i .. | iarith i .. | jumpLink i .. | jumpLinkR i .. | basic i .. | branch i ..
  | store i .. | load i .. | csr i .. | csri i .. => i.val
  | loadAddr .. => "La"
  | _ => "Nop"

/-- `addi x0, x0, 0`, the instruction `nop` stands for -/
def isNop : Node → Bool
  | iarith i rd rs1 imm _ => i.val == "Addi" && rd.val == 0 && rs1.val == 0 && imm.val == 0#32
  | _ => false

def isReturn : Node → Bool
  | jumpLinkR i rd rs1 imm _ => i.val == "Jalr" && rd.val == 0 && rs1.val == 1 && imm.val == 0#32
  | basic i _ => i.val == "Uret"
  | _ => false

/-- `jalr x0, ...` to a register: control leaves to an address the graph does not know -/
def isIndirectJump : Node → Bool
  | jumpLinkR _ rd _ _ _ => rd.val == 0
  | _ => false

def isUreturn : Node → Bool
  | basic i _ => i.val == "Uret"
  | _ => false

def isEcall : Node → Bool
  | basic i _ => i.val == "Ecall"
  | _ => false

def mightTerminate (n : Node) : Bool := n.isEcall

/-- `(source, (base, offset))` -/
def storesToMemory : Node → Option (Reg × Reg × Word)
  | store _ rs1 rs2 imm _ => if rs2.val != 0 then some (rs2.val, rs1.val, imm.val) else none
  | _ => none

/-- `((base, offset), dest)` -/
def readsFromMemory : Node → Option (Reg × Word × Reg)
  | load _ rd rs1 imm _ => some (rs1.val, imm.val, rd.val)
  | _ => none

def canSkipSaveChecks : Node → Bool
  | programEntry .. | funcEntry .. | jumpLink .. | jumpLinkR .. | csr .. | csri .. => true
  | _ => false

def callsTo : Node → Option (W String)
  | jumpLink _ rd name _ => if rd.val == 1 then some name else none
  | _ => none

def jumpsTo : Node → Option (W String)
  | jumpLink _ rd name _ => if rd.val != 1 then some name else none
  | branch _ _ _ name _ => some name
  | _ => none

def readsAddressOf : Node → Option (W String)
  | loadAddr _ _ name _ => some name
  | _ => none

def isAnyEntry : Node → Bool
  | programEntry .. | funcEntry .. => true
  | _ => false

def isFunctionEntry : Node → Bool
  | funcEntry .. => true
  | _ => false

def isHandlerFunctionEntry : Node → Bool
  | funcEntry _ _ h => h
  | _ => false

def isProgramEntry : Node → Bool
  | programEntry .. => true
  | _ => false

def isInstruction : Node → Bool
  | arith .. | iarith .. | jumpLink .. | jumpLinkR .. | basic .. | branch .. | store ..
  | load .. | loadAddr .. | csr .. | csri .. => true
  | _ => false

def usesMemoryLocation : Node → Option (Reg × Word)
  | store _ rs1 _ imm _ => some (rs1.val, imm.val)
  | load _ _ rs1 imm _ => some (rs1.val, imm.val)
  | _ => none

def isUnconditionalJump : Node → Bool
  | jumpLink _ rd _ _ => rd.val == 0
  | jumpLinkR _ rd _ _ _ => rd.val == 0
  | branch i rs1 rs2 _ _ =>
    rs1.val == 0 && rs2.val == 0 && (i.val == "Beq" || i.val == "Bge" || i.val == "Bgeu")
  | _ => false

def isSomeJumpToLabel : Node → Option (W String)
  | jumpLink _ rd name _ => if rd.val == 0 then some name else none
  | branch _ _ _ name _ => some name
  | _ => none

def writesTo : Node → Option (W Reg)
  | load _ rd .. | loadAddr _ rd .. | arith _ rd .. | iarith _ rd .. | jumpLink _ rd ..
  | jumpLinkR _ rd .. | csr _ rd .. | csri _ rd .. => some rd
  | _ => none

/-- `reads_from()` as a list in operand order (the Rust code collects it into a `HashSet`
    keyed by the register, so duplicates collapse; consumers that care use `readsSet`). -/
def readsFrom : Node → List (W Reg)
  | arith _ _ rs1 rs2 _ => [rs1, rs2]
  | iarith _ _ rs1 _ _ => [rs1]
  | jumpLinkR _ _ rs1 _ _ => [rs1]
  | branch _ rs1 rs2 _ _ => [rs1, rs2]
  | store _ rs1 rs2 _ _ => [rs1, rs2]
  | load _ _ rs1 _ _ => [rs1]
  | csr _ _ _ rs1 _ => [rs1]
  | _ => []

end Node

/-- ParseError (parser/error.rs) -/
inductive ParseErr where
  | expected (types : List String) (tok : FTok)
  | unsupported (tok : FTok)
  | unexpectedToken (tok : FTok)
  | unexpectedError (tok : FTok)
  | unknownDirective (tok : FTok)
  | cyclicDependency (tok : FTok)
  | fileNotFound (path : W String)
  | ioError (path : W String) (msg : String)
  | invalidString (tok : FTok) (kind : StrErr) (at_ : Pos)
  deriving Repr, Inhabited

def ParseErr.tok : ParseErr → FTok
  | .expected _ t | .unsupported t | .unexpectedToken t | .unexpectedError t
  | .unknownDirective t | .cyclicDependency t | .invalidString t _ _ => t
  | .fileNotFound p | .ioError p _ => p.tok

/-! ### canonical trace strings (must match harness/src/pipeline.rs) -/

def locStr (r : Range) (f : FileId) : String := s!"{r.str}@{fileStr f}"
def FTok.loc (t : FTok) : String := locStr t.range t.file
def wregStr (w : W Reg) : String := s!"{w.val}/{w.tok.loc}"
def wimmStr (w : W Word) : String := s!"{w.val.toInt}/{w.tok.loc}"
def wnameStr (w : W String) : String := s!"{hexOfString w.val}/{w.tok.loc}"
def FTok.full (t : FTok) : String :=
  s!"{t.kind.code}:{hexOfString t.payload}:{hexOfString t.text}:{t.loc}"

def dataTypeDisplay (s : String) : String := String.ofList (s.toList.map asciiLowerChar)
  where asciiLowerChar (c : Char) : Char :=
    if 'A' ≤ c ∧ c ≤ 'Z' then Char.ofNat (c.toNat + 32) else c

def Node.trace (n : Node) : String :=
  let tok := s!"{hexOfString n.tok.text}:{locStr n.tok.range n.tok.file}"
  match n with
  | .programEntry .. => s!"ProgramEntry tok={tok}"
  | .funcEntry _ _ h => s!"FuncEntry handler={h} tok={tok}"
  | .arith i rd rs1 rs2 _ =>
    s!"Arith {i.val} it={i.tok.loc} rd={wregStr rd} rs1={wregStr rs1} rs2={wregStr rs2} tok={tok}"
  | .iarith i rd rs1 imm _ =>
    s!"IArith {i.val} it={i.tok.loc} rd={wregStr rd} rs1={wregStr rs1} imm={wimmStr imm} tok={tok}"
  | .label name _ => s!"Label name={wnameStr name} tok={tok}"
  | .jumpLink i rd name _ =>
    s!"JumpLink {i.val} it={i.tok.loc} rd={wregStr rd} name={wnameStr name} tok={tok}"
  | .jumpLinkR i rd rs1 imm _ =>
    s!"JumpLinkR {i.val} it={i.tok.loc} rd={wregStr rd} rs1={wregStr rs1} imm={wimmStr imm} tok={tok}"
  | .basic i _ => s!"Basic {i.val} it={i.tok.loc} tok={tok}"
  | .directive dt dir _ =>
    let d := match dir with
      | .include_ p => s!"Include {wnameStr p}"
      | .align i => s!"Align {wimmStr i}"
      | .ascii t nt => s!"Ascii {nt} {wnameStr t}"
      | .dataSection => "DataSection"
      | .textSection => "TextSection"
      | .data ty vals => s!"Data {dataTypeDisplay ty} [{",".intercalate (vals.map wimmStr)}]"
      | .space i => s!"Space {wimmStr i}"
    s!"Directive {dt.val} dt={dt.tok.loc} {d} tok={tok}"
  | .branch i rs1 rs2 name _ =>
    s!"Branch {i.val} it={i.tok.loc} rs1={wregStr rs1} rs2={wregStr rs2} name={wnameStr name} tok={tok}"
  | .store i rs1 rs2 imm _ =>
    s!"Store {i.val} it={i.tok.loc} rs1={wregStr rs1} rs2={wregStr rs2} imm={wimmStr imm} tok={tok}"
  | .load i rd rs1 imm _ =>
    s!"Load {i.val} it={i.tok.loc} rd={wregStr rd} rs1={wregStr rs1} imm={wimmStr imm} tok={tok}"
  | .loadAddr i rd name _ =>
    s!"LoadAddr La it={i.tok.loc} rd={wregStr rd} name={wnameStr name} tok={tok}"
  | .csr i rd c rs1 _ =>
    s!"Csr {i.val} it={i.tok.loc} rd={wregStr rd} csr={c.val}/{c.tok.loc} rs1={wregStr rs1} tok={tok}"
  | .csri i rd c imm _ =>
    s!"CsrI {i.val} it={i.tok.loc} rd={wregStr rd} csr={c.val}/{c.tok.loc} imm={wimmStr imm} tok={tok}"

def ParseErr.trace : ParseErr → String
  | .expected tys t => s!"Expected [{"|".intercalate tys}] {t.full}"
  | .unsupported t => s!"Unsupported {t.full}"
  | .unexpectedToken t => s!"UnexpectedToken {t.full}"
  | .unexpectedError t => s!"UnexpectedError {t.full}"
  | .unknownDirective t => s!"UnknownDirective {t.full}"
  | .cyclicDependency t => s!"CyclicDependency {t.full}"
  | .fileNotFound p => s!"FileNotFound {wnameStr p}"
  | .ioError p m => s!"IOError {wnameStr p} {hexOfString m}"
  | .invalidString t k p => s!"InvalidString {k.code} {t.full} {p.str}"

end Rva
