/-
  Rva.Model.Lexer — model of `Lexer` (riscv_analysis/src/parser/lexer.rs), as repaired.

  The Rust lexer owns `source: Vec<char>` and a cursor `pos/row/col`; every method that moves
  the cursor does so through `consume_char`. Here the cursor is a value and `adv` is
  `consume_char`. Loops are well-founded recursions on the number of characters left, so the
  fact that Lean accepts the definitions is the termination proof of the lexer's inner loops.
-/
import Rva.Model.Basic
namespace Rva

structure Cursor where
  pos : Nat
  row : Nat
  col : Nat
  deriving DecidableEq, Repr, Inhabited

namespace Cursor

def init : Cursor := ⟨0, 0, 0⟩

/-- `Lexer::peek(n)` -/
@[inline] def peek (src : Array Char) (c : Cursor) (n : Nat) : Option Char := src[c.pos + n]?

/-- `Lexer::current()` -/
@[inline] def cur (src : Array Char) (c : Cursor) : Option Char := src[c.pos]?

/-- `Lexer::consume_char` -/
def adv (src : Array Char) (c : Cursor) : Cursor :=
  match src[c.pos]? with
  | some ch => if ch == '\n' then ⟨c.pos + 1, c.row + 1, 0⟩ else ⟨c.pos + 1, c.row, c.col + 1⟩
  | none => c

/-- `Lexer::get_pos` -/
@[inline] def getPos (c : Cursor) : Pos := ⟨c.row, c.col, c.pos⟩

/-- `Lexer::get_range` -/
@[inline] def getRange (c : Cursor) : Range := ⟨c.getPos, c.getPos⟩

theorem lt_size_of_cur {src : Array Char} {c : Cursor} {ch : Char}
    (h : src[c.pos]? = some ch) : c.pos < src.size := by
  have := (Array.getElem?_eq_some_iff.mp h).1
  exact this

theorem adv_pos_of_cur {src : Array Char} {c : Cursor} {ch : Char}
    (h : src[c.pos]? = some ch) : (c.adv src).pos = c.pos + 1 := by
  unfold adv; rw [h]; dsimp only; split <;> rfl

theorem adv_pos_le (src : Array Char) (c : Cursor) : c.pos ≤ (c.adv src).pos := by
  unfold adv; split
  · split <;> simp
  · simp

end Cursor

open Cursor

inductive TokKind where
  | lparen | rparen | newline | label | symbol | directive | string | char | comment
  deriving DecidableEq, Repr, Inhabited

def TokKind.code : TokKind → String
  | .lparen => "LP" | .rparen => "RP" | .newline => "NL" | .label => "LABEL"
  | .symbol => "SYM" | .directive => "DIR" | .string => "STR" | .char => "CHR"
  | .comment => "CMT"

/-- `Token`: the `TokenType` tag with its payload string, the raw text, the range. -/
structure Token where
  kind : TokKind
  payload : String
  text : String
  range : Range
  deriving DecidableEq, Repr, Inhabited

inductive StrErr where
  | esc | unclosed | newline
  deriving DecidableEq, Repr, Inhabited

def StrErr.code : StrErr → String
  | .esc => "ESC" | .unclosed => "UNCLOSED" | .newline => "NEWLINE"

/-- What the `Lexer` iterator yields. -/
inductive LexItem where
  | tok (t : Token)
  | strErr (t : Token) (k : StrErr) (at_ : Pos)     -- `LexError::InvalidString`
  | unexpected (t : Token)                           -- `LexError::UnexpectedToken`
  deriving DecidableEq, Repr, Inhabited

def isWs (ch : Char) : Bool := ch == ' ' || ch == '\t' || ch == ',' || ch == '\r'

def isSymbolChar (ch : Char) : Bool :=
  ('a' ≤ ch && ch ≤ 'z') || ('A' ≤ ch && ch ≤ 'Z') || ch == '_' || ch == '-'

def isSymbolItem (ch : Char) : Bool := isSymbolChar ch || ('0' ≤ ch && ch ≤ '9')

/-- `Lexer::skip_ws` -/
def skipWs (src : Array Char) (c : Cursor) : Cursor :=
  match h : src[c.pos]? with
  | some ch => if isWs ch then skipWs src (c.adv src) else c
  | none => c
termination_by src.size - c.pos
decreasing_by
  have h1 := lt_size_of_cur h
  have h2 := adv_pos_of_cur h
  omega

/-- The accumulate-while-next-is-`p` loop shared by the directive and symbol arms:
    push the current character; if the next one satisfies `p`, move onto it and repeat.
    Returns the accumulated characters (reversed) and the cursor *on the last character*. -/
def accWhile (p : Char → Bool) (src : Array Char) (c : Cursor) (acc : List Char) :
    List Char × Cursor :=
  match h : src[c.pos]? with
  | some ch =>
    match src[c.pos + 1]? with
    | some nx => if p nx then accWhile p src (c.adv src) (ch :: acc) else (ch :: acc, c)
    | none => (ch :: acc, c)
  | none => (acc, c)
termination_by src.size - c.pos
decreasing_by
  have h1 := lt_size_of_cur h
  have h2 := adv_pos_of_cur h
  omega

/-- The comment loop: push the current character; stop on the last character before a
    newline or the end of input. -/
def accComment (src : Array Char) (c : Cursor) (acc : List Char) : List Char × Cursor :=
  match h : src[c.pos]? with
  | some ch =>
    match src[c.pos + 1]? with
    | some nx => if nx == '\n' then (ch :: acc, c) else accComment src (c.adv src) (ch :: acc)
    | none => (ch :: acc, c)
  | none => (acc, c)
termination_by src.size - c.pos
decreasing_by
  have h1 := lt_size_of_cur h
  have h2 := adv_pos_of_cur h
  omega

def hexDigitVal (c : Char) : Option Nat :=
  if '0' ≤ c ∧ c ≤ '9' then some (c.toNat - 48)
  else if 'a' ≤ c ∧ c ≤ 'f' then some (c.toNat - 87)
  else if 'A' ≤ c ∧ c ≤ 'F' then some (c.toNat - 55)
  else none

/-- `char::from_u32` -/
def charOfNat? (n : Nat) : Option Char :=
  if n.isValidChar then some (Char.ofNat n) else none

/-- `Lexer::unicode_code`: the cursor is on the backslash, `peek(1)` is `u`. On success the
    cursor has moved four characters. -/
def unicodeCode (src : Array Char) (c : Cursor) : Option (Char × Cursor) :=
  match peek src c 2, peek src c 3, peek src c 4, peek src c 5 with
  | some a, some b, some d, some e =>
    match hexDigitVal a, hexDigitVal b, hexDigitVal d, hexDigitVal e with
    | some a, some b, some d, some e =>
      match charOfNat? (((a * 16 + b) * 16 + d) * 16 + e) with
      | some ch => some (ch, (((c.adv src).adv src).adv src).adv src)
      | none => none
    | _, _, _, _ => none
  | _, _, _, _ => none

/-- `Lexer::escape_code`: the cursor is on the backslash. On success it has moved onto the
    last character of the escape. -/
def escapeCode (src : Array Char) (c : Cursor) : Option (Char × Cursor) :=
  match peek src c 1 with
  | some '\\' => some ('\\', c.adv src)
  | some '\'' => some ('\'', c.adv src)
  | some '"' => some ('"', c.adv src)
  | some 'n' => some ('\n', c.adv src)
  | some 't' => some ('\t', c.adv src)
  | some 'r' => some ('\r', c.adv src)
  | some 'b' => some (Char.ofNat 8, c.adv src)
  | some 'f' => some (Char.ofNat 12, c.adv src)
  | some '0' => some (Char.ofNat 0, c.adv src)
  | some 'u' =>
    match unicodeCode src c with
    | some (ch, c') => some (ch, c'.adv src)
    | none => none
  | _ => none

/-- `Lexer::acc_string`. Fuel is the number of characters left (each round consumes one);
    the escape case moves further, so the recursion is on explicit fuel. -/
def accString (src : Array Char) : Nat → Cursor → List Char → Except (StrErr × Cursor) (List Char × Cursor)
  | 0, c, _ => .error (.unclosed, c)
  | fuel + 1, c, acc =>
    match cur src c with
    | none => .error (.unclosed, c)
    | some ch =>
      if ch == '"' then .ok (acc, c)
      else if ch == '\n' then .error (.newline, c)
      else if ch == '\\' then
        match escapeCode src c with
        | some (e, c') => accString src fuel (c'.adv src) (e :: acc)
        | none => .error (.esc, c)
      else accString src fuel (c.adv src) (ch :: acc)

/-- `Lexer::skip_invalid_literal` -/
def skipInvalidLiteral (quote : Char) (src : Array Char) (c : Cursor) : Cursor :=
  match h : src[c.pos]? with
  | some ch =>
    if ch == '\n' then c
    else if ch == quote then c.adv src
    else skipInvalidLiteral quote src (c.adv src)
  | none => c
termination_by src.size - c.pos
decreasing_by
  have h1 := lt_size_of_cur h
  have h2 := adv_pos_of_cur h
  omega

def strOfRev (l : List Char) : String := String.ofList l.reverse

/-- the `'.'` arm: a directive, or a lone dot -/
def lexDirective (src : Array Char) (c : Cursor) : LexItem × Cursor :=
  let start := c.getPos
  let r := accWhile isSymbolChar src c []
  let stop := r.2.getPos
  let s := strOfRev r.1
  let t : Token := ⟨.directive, s, s, ⟨start, stop⟩⟩
  if s == "." then (.unexpected t, r.2.adv src) else (.tok t, r.2.adv src)

/-- the `'#'` arm -/
def lexComment (src : Array Char) (c : Cursor) : LexItem × Cursor :=
  let start := c.getPos
  let r := accComment src c []
  let stop := r.2.getPos
  let s := String.ofList (r.1.reverse.drop 1)
  (.tok ⟨.comment, s, s, ⟨start, stop⟩⟩, r.2.adv src)

/-- the `'"'` arm -/
def lexStringLit (src : Array Char) (c : Cursor) : LexItem × Cursor :=
  let start := c.getPos
  let c1 := c.adv src
  match accString src (src.size - c1.pos + 1) c1 [] with
  | .ok (acc, c2) =>
    let s := strOfRev acc
    (.tok ⟨.string, s, "\"" ++ s ++ "\"", ⟨start, c2.getPos⟩⟩, c2.adv src)
  | .error (k, c2) =>
    let c3 := if k == .esc then skipInvalidLiteral '"' src c2 else c2
    (.strErr ⟨.string, "", "", ⟨start, c2.getPos⟩⟩ k c2.getPos, c3)

/-- the `'\''` arm -/
def lexCharLit (src : Array Char) (c : Cursor) : LexItem × Cursor :=
  let start := c.getPos
  let c1 := c.adv src
  match cur src c1 with
  | none => (.strErr ⟨.string, "", "", ⟨start, c1.getPos⟩⟩ .unclosed c1.getPos, c1)
  | some ch =>
    if ch == '\\' then
      match escapeCode src c1 with
      | some (v, c2) =>
        let c3 := c2.adv src
        match cur src c3 with
        | some '\'' =>
          (.tok ⟨.char, String.singleton v, "'" ++ String.singleton v ++ "'", ⟨start, c3.getPos⟩⟩,
            c3.adv src)
        | some _ =>
          (.strErr ⟨.string, String.singleton v, String.singleton v, ⟨start, c3.getPos⟩⟩
            .unclosed c3.getPos, c3)
        | none => (.strErr ⟨.string, "", "", ⟨start, c3.getPos⟩⟩ .unclosed c3.getPos, c3)
      | none =>
        -- invalid escape: skip the rest of the literal
        (.strErr ⟨.string, String.singleton ch, String.singleton ch, ⟨start, c1.getPos⟩⟩
          .esc c1.getPos, skipInvalidLiteral '\'' src c1)
    else if ch == '\n' then
      (.strErr ⟨.string, String.singleton ch, String.singleton ch, ⟨start, c1.getPos⟩⟩
        .newline c1.getPos, c1)
    else
      let c3 := c1.adv src
      match cur src c3 with
      | some '\'' =>
        (.tok ⟨.char, String.singleton ch, "'" ++ String.singleton ch ++ "'", ⟨start, c3.getPos⟩⟩,
          c3.adv src)
      | some _ =>
        (.strErr ⟨.string, String.singleton ch, String.singleton ch, ⟨start, c3.getPos⟩⟩
          .unclosed c3.getPos, c3)
      | none => (.strErr ⟨.string, "", "", ⟨start, c3.getPos⟩⟩ .unclosed c3.getPos, c3)

/-- the default arm: an unexpected character, a label or a symbol -/
def lexSymbol (src : Array Char) (c : Cursor) (ch : Char) : LexItem × Cursor :=
  if !isSymbolItem ch then
    (.unexpected ⟨.symbol, String.singleton ch, String.singleton ch, c.getRange⟩, c.adv src)
  else
    let start := c.getPos
    let r := accWhile isSymbolItem src c []
    let s := strOfRev r.1
    if peek src r.2 1 == some ':' then
      let c2 := r.2.adv src
      (.tok ⟨.label, s, s ++ ":", ⟨start, c2.getPos⟩⟩, c2.adv src)
    else
      (.tok ⟨.symbol, s, s, ⟨start, r.2.getPos⟩⟩, r.2.adv src)

/-- One call of `Iterator::next` for `Lexer`: `none` at the end of input, otherwise the item
    and the cursor afterwards. -/
def lexNext (src : Array Char) (c0 : Cursor) : Option (LexItem × Cursor) :=
  let c := skipWs src c0
  match cur src c with
  | none => none
  | some ch =>
    if ch == '\n' then some (.tok ⟨.newline, "", "\n", c.getRange⟩, c.adv src)
    else if ch == '(' then some (.tok ⟨.lparen, "", "(", c.getRange⟩, c.adv src)
    else if ch == ')' then some (.tok ⟨.rparen, "", ")", c.getRange⟩, c.adv src)
    else if ch == '.' then some (lexDirective src c)
    else if ch == '#' then some (lexComment src c)
    else if ch == '"' then some (lexStringLit src c)
    else if ch == '\'' then some (lexCharLit src c)
    else some (lexSymbol src c ch)

/-- Collect everything the iterator yields. The recursion is well-founded on the characters
    left, guarded by a progress test; `Proofs/C06.lexNext_progress` shows the guard never
    fires (every item consumes at least one character), so `lexAll` is the whole token stream. -/
def lexAll (src : Array Char) (c : Cursor) : List LexItem :=
  match lexNext src c with
  | none => []
  | some (it, c') =>
    if h : c.pos < c'.pos ∧ c'.pos ≤ src.size then it :: lexAll src c' else [it]
termination_by src.size - c.pos
decreasing_by omega

def lexString (s : String) : List LexItem := lexAll s.toList.toArray Cursor.init

def Token.trace (t : Token) : String :=
  s!"{t.kind.code} {hexOfString t.payload} {hexOfString t.text} {t.range.str}"

def LexItem.trace : LexItem → String
  | .tok t => s!"TOK {t.trace}"
  | .strErr t k p => s!"LEXERR {k.code} {t.trace} {p.str}"
  | .unexpected t => s!"LEXERR UNEXPECTED {t.trace}"

end Rva
