/-
  Rva.Model.Render — model of `PrettyPrint::format_region` (riscv_analysis_cli/src/printer.rs):
  the three-line excerpt printed under a diagnostic.
-/
import Rva.Model.Basic
namespace Rva

/-- `char::is_whitespace` on the characters that reach the printer (ASCII + Latin-1 text) -/
def isWsChar (c : Char) : Bool :=
  c == ' ' || c == '\t' || c == '\n' || c == '\r' || c == '\x0b' || c == '\x0c' || c == ' ' ||
  c == '\u0085' || c == '　'

/-- what the marker line keeps from the source line: the tab (for the spacing), nothing else -/
def isBlank (c : Char) : Bool := c == '\t'

/-- the marker line under the excerpt: `offset` cells of blank, then one marker per column -/
def formatMarker (text : List Char) (firstNonWs start stop : Nat) : List Char :=
  let offset := start - firstNonWs
  let base := ((text.drop firstNonWs).take offset).map fun c => if isBlank c then c else ' '
  base ++ List.replicate (offset - base.length) ' ' ++ List.replicate (stop + 1 - start) '^'

/-- what is cut from the left of the excerpt: the characters the lexer takes for blank space, nothing
    else (any other character can be the one the diagnostic is about) -/
def isLeadBlank (c : Char) : Bool := c == ' ' || c == '\t' || c == '\r'

def firstNonWs (text : List Char) : Nat :=
  match text.findIdx? (fun c => !isLeadBlank c) with
  | some i => i
  | none => 0

def trimWs (text : List Char) : List Char :=
  ((text.dropWhile isLeadBlank).reverse.dropWhile isWsChar).reverse

/-- the three lines of `format_region(text, line, start, end)` (zero-based `line`) -/
def formatRegion (text : List Char) (line start stop : Nat) : List (List Char) :=
  let num := (toString (line + 1)).toList
  let spc := List.replicate (num.length + 1) ' '
  [spc ++ " |".toList,
   " ".toList ++ num ++ " | ".toList ++ trimWs text,
   spc ++ " | ".toList ++ formatMarker text (firstNonWs text) start stop]

end Rva
