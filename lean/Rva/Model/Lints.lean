/-
  Rva.Model.Lints — the eleven lint passes (lints/*.rs), `Cfg::error_ranges_for_first_*`
  (cfg/graph.rs) and the code/severity/title tables (passes/lint_error.rs, generated).
-/
import Rva.Model.Liveness
namespace Rva

/-- One reported item. `alts` lists every location a hash order could have picked instead
    (Appendix B of DESIGN.md); empty when the location does not depend on iteration order. -/
structure Diag where
  code : String
  sev : String
  title : String
  range : Range
  file : FileId
  desc : String := ""
  text : String := ""
  alts : List (Range × FileId) := []
  /-- node the diagnostic originates from when that is not the located node (the call site of a
      use-after-call): part of the related information, which the output channels drop -/
  site : Option Nat := none
  /-- rank of the file by name (0 = attached to no file): the first component of the sort key; set by
      `runAll` just before sorting -/
  frank : Nat := 0
  deriving Repr, Inhabited

def lintVariantOfCode (code : String) : Option String :=
  (Gen.lintCodes.find? (·.2 == code)).map (·.1)

def lintDiag (variant : String) (range : Range) (file : FileId) (text : String)
    (alts : List (Range × FileId) := []) : Diag :=
  let code := ((Gen.lintCodes.find? (·.1 == variant)).map (·.2)).getD "?"
  let title := ((Gen.lintTitles.find? (·.1 == variant)).map (·.2)).getD "?"
  let sev := ((Gen.lintSeverities.find? (·.1 == variant)).map (·.2)).getD "?"
  { code, sev, title, range, file, text, alts }

def onReg (variant : String) (w : W Reg) (alts : List (W Reg) := []) : Diag :=
  lintDiag variant w.tok.range w.tok.file w.tok.text (alts.map fun a => (a.tok.range, a.tok.file))

def onNode (variant : String) (n : Node) : Diag :=
  lintDiag variant n.tok.range n.tok.file n.tok.text

/-- `reads_from()` as the `HashSet` the code builds: one token per register, first kept. -/
def readsSet (n : Node) : List (W Reg) :=
  n.readsFrom.foldl (fun acc w => if acc.any (·.val == w.val) then acc else acc ++ [w]) []

/-- `error_ranges_for_first_usage`: breadth-first over `nexts`; the search ends at the first
    dequeued node whose gen set has the register. All such nodes at the minimal depth are
    candidates (the queue order within a level comes from hash sets). Returns the candidates'
    tokens, lowest node index first; a candidate without a matching read contributes nothing. -/
def firstUsage (g : Cfg) (start : Nat) (item : Reg) : List (Option (W Reg)) :=
  let rec level (fuel : Nat) (frontier : List Nat) (visited : List Nat) : List (Option (W Reg)) :=
    match fuel with
    | 0 => []
    | fuel + 1 =>
      let fresh := frontier.foldl (fun acc i => if visited.contains i || acc.contains i then acc else insNat i acc) []
      if fresh.isEmpty then []
      else
        let hits := fresh.filter fun i => RegSet.mem (g.get i).node.genReg item
        if !hits.isEmpty then
          hits.map fun i => (readsSet (g.get i).node).find? (·.val == item)
        else
          let next := fresh.foldl (fun acc i => acc ++ (g.get i).nexts) []
          level fuel next (visited ++ fresh)
  level (g.nodes.size + 2) (g.get start).nexts [start]

/-- `error_ranges_for_first_store`: backwards over `prevs`; a node that writes the register is
    recorded and not expanded. The result is order-independent as a set. -/
def firstStore (g : Cfg) (start : Nat) (item : Reg) : List (W Reg) :=
  let rec go (fuel : Nat) (queue : List Nat) (visited : List Nat) (acc : List (W Reg)) : List (W Reg) :=
    match fuel with
    | 0 => acc
    | fuel + 1 =>
      match queue with
      | [] => acc
      | p :: rest =>
        if visited.contains p then go fuel rest visited acc
        else
          let visited := p :: visited
          match (g.get p).node.writesTo with
          | some rd => if rd.val == item then go fuel rest visited (acc ++ [rd])
                       else go fuel (rest ++ (g.get p).prevs) visited acc
          | none => go fuel (rest ++ (g.get p).prevs) visited acc
  go (4 * (g.nodes.size + 1) * (g.nodes.size + 1) + 8) (g.get start).prevs [start] []

/-- the diagnostic (at most one) for the first use of register `r` after node `start` -/
def usageDiag (variant : String) (g : Cfg) (start : Nat) (r : Reg) : List Diag :=
  match firstUsage g start r with
  | [] => []
  | [some w] => [onReg variant w]
  | [none] => []
  | many =>
    -- several candidates: the code reports exactly one of them (or none, if the picked
    -- candidate has no matching read)
    let toks := many.filterMap id
    match toks with
    | [] => []
    | w :: _ => [{ onReg variant w toks with
                   alts := (toks.map fun a => (a.tok.range, a.tok.file)) ++
                           (if many.any Option.isNone then [(⟨⟨0,0,0⟩,⟨0,0,0⟩⟩, nilFile)] else []) }]

def usageDiags (variant : String) (g : Cfg) (start : Nat) (regs : RegSet) : List Diag :=
  (RegSet.toList regs).flatMap (usageDiag variant g start)

def isOriginal (m : AMap Reg) (r : Reg) : Bool := AMap.get m r == some (.ors r 0#32)

def funcArguments (g : Cfg) (f : Func) : RegSet := (g.get f.entry).liveOut &&& argumentSet
def funcReturns (g : Cfg) (f : Func) : RegSet := (g.get f.exit).liveIn &&& returnSet

def lintSaveToZero (g : Cfg) : List Diag :=
  g.nodes.toList.filterMap fun cn =>
    match cn.node.writesTo with
    | some rd =>
      -- (a `nop` is written to do nothing)
      if rd.val == 0 && !cn.node.canSkipSaveChecks && !cn.node.isNop then some (onReg "SaveToZero" rd) else none
    | none => none

/-- what `DeadValueCheck` contributes at node `i` -/
def deadValueAt (g : Cfg) (i : Nat) : List Diag :=
  let cn := g.get i
  match callsToFromCfg g cn with
  | some (f, _) =>
    let out := (RegSet.diff callerSavedSet (funcReturns g f)) &&& cn.liveOut
    (usageDiags "InvalidUseAfterCall" g i out).map fun d => { d with site := some i }
  | none =>
    match cn.node.writesTo with
    | some d =>
      -- (the zero register holds no value that could go unused)
      if !RegSet.mem cn.liveOut d.val && !cn.node.canSkipSaveChecks && d.val != 0 then [onReg "DeadAssignment" d] else []
    | none => []

def lintDeadValue (g : Cfg) : List Diag := (List.range g.nodes.size).flatMap (deadValueAt g)

def lintInstructionInText (g : Cfg) : List Diag :=
  g.nodes.toList.filterMap fun cn =>
    if cn.node.isInstruction && !cn.isText then some (onNode "InvalidSegment" cn.node) else none

def lintEcall (g : Cfg) : List Diag :=
  g.nodes.toList.filterMap fun cn =>
    if cn.node.isEcall && (knownEcall cn).isNone then some (onNode "UnknownEcall" cn.node) else none

/-- what `ControlFlowCheck` contributes for one predecessor `p` of a function entry `cn` -/
def entryPredDiags (g : Cfg) (cn : CNode) (p : Nat) : List Diag :=
  let pn := (g.get p).node
  if cn.funcs.isEmpty then []
  else if pn.isProgramEntry then cn.funcs.map fun _ => onNode "FirstInstructionIsFunction" cn.node
  -- a jump that is itself part of every function the entry belongs to closes a loop, it enters nothing
  else if pn.isUnconditionalJump && cn.funcs.any (fun f => !(g.get p).funcs.contains f) then
    [onNode "InvalidJumpToFunction" cn.node]
  else []

def unreachableDiag (cn : CNode) : Diag :=
  { code := "unreachable-code", sev := "Warning", title := "Unreachable line of code",
    range := cn.node.tok.range, file := cn.node.tok.file,
    desc := "There is no path to this instruction.", text := cn.node.tok.text }

def controlFlowAt (g : Cfg) (cn : CNode) : List Diag :=
  if cn.node.isFunctionEntry then cn.prevs.flatMap (entryPredDiags g cn)
  else if !cn.node.isProgramEntry && cn.prevs.isEmpty then [unreachableDiag cn]
  else []

def lintControlFlow (g : Cfg) : List Diag := g.nodes.toList.flatMap (controlFlowAt g)

def garbageAt (g : Cfg) (i : Nat) : List Diag :=
  let cn := g.get i
  if cn.node.isProgramEntry then
    usageDiags "InvalidUseBeforeAssignment" g i (RegSet.diff cn.liveIn programArgsSet)
  else
    match cn.funcs.filterMap (fun e => if e == i then g.funcOfEntry e else none) with
    | f :: _ =>
      let garbage := RegSet.diff (RegSet.diff cn.liveIn (funcArguments g f)) calleeSavedSet
      usageDiags "InvalidUseBeforeAssignment" g i garbage
    | [] => []

def lintGarbageInput (g : Cfg) : List Diag := (List.range g.nodes.size).flatMap (garbageAt g)

/-- `StackCheckPass`: stops at the first node whose stack pointer is unknown / not sp-relative /
    above the entry value. -/
def lintStack (g : Cfg) : List Diag :=
  let rec go (l : List CNode) (acc : List Diag) : List Diag :=
    match l with
    | [] => acc
    | cn :: rest =>
      match AMap.get cn.regOut 2 with
      | none => acc ++ [onNode "UnknownStack" cn.node]
      | some (.ors r off) =>
        if r != 2 then acc ++ [onNode "InvalidStackPointer" cn.node]
        else if (0#32).slt off then acc ++ [onNode "InvalidStackPosition" cn.node]
        else
          match cn.node.usesMemoryLocation with
          | some (r2, off2) =>
            if r2 == 2 && !((off2 + off).slt 0#32) then
              go rest (acc ++ [onNode "InvalidStackOffsetUsage" cn.node])
            else go rest acc
          | none => go rest acc
      | some _ => acc ++ [onNode "InvalidStackPointer" cn.node]
  go g.nodes.toList []

/-- `CalleeSavedRegisterCheck`: one visit per *label* of a function. -/
def calleeSavedAt (g : Cfg) (lf : String × Nat) : List Diag :=
  match g.funcOfEntry lf.2 with
  | none => []
  | some f =>
    let exitVals := (g.get f.exit).regIn
    (RegSet.toList calleeSavedSet).flatMap fun r =>
      if isOriginal exitVals r then []
      else (firstStore g f.exit r).map (onReg "OverwriteCalleeSavedRegister")

def lintCalleeSaved (g : Cfg) : List Diag := g.labelFunc.reverse.flatMap (calleeSavedAt g)

def garbageReadAt (cn : CNode) : List Diag :=
  (readsSet cn.node).filterMap fun rd =>
    if RegSet.mem savedSet rd.val && cn.node.usesMemoryLocation.isNone && isOriginal cn.regIn rd.val
    then some (onReg "InvalidUseBeforeAssignment" rd) else none

def lintCalleeSavedGarbageRead (g : Cfg) : List Diag := g.nodes.toList.flatMap garbageReadAt

def lintLostCalleeSaved (g : Cfg) : List Diag :=
  g.nodes.toList.filterMap fun cn =>
    match cn.node.writesTo with
    | some rd =>
      if RegSet.mem savedSet rd.val && !cn.funcs.isEmpty && isOriginal cn.regIn rd.val then
        let found := cn.memOut.any (fun p => p.2 == .ors rd.val 0#32) ||
                     cn.regOut.any (fun p => p.2 == .ors rd.val 0#32)
        if found then none else some (onReg "LostRegisterValue" rd)
      else none
    | none => none

/-- `a.token.range().cmp(&b.token.range()).then_with(|| a.name.cmp(&b.name))`, strict part:
    ranges compare by the raw offsets of their ends (a position's order is its offset, whatever
    the file), and the name decides between labels of different files at the same offsets -/
def labelBefore (a b : W String) : Bool :=
  decide (a.tok.range.start.raw < b.tok.range.start.raw) ||
  (a.tok.range.start.raw == b.tok.range.start.raw &&
    (decide (a.tok.range.stop.raw < b.tok.range.stop.raw) ||
     (a.tok.range.stop.raw == b.tok.range.stop.raw && decide (a.val < b.val))))

def firstLabelStep (acc : Option (W String)) (l : W String) : Option (W String) :=
  match acc with
  | none => some l
  | some m => if labelBefore l m then some l else some m

/-- `labels.iter().min_by(..)`: a function of the set of labels -/
def firstLabel (ls : List (W String)) : Option (W String) := ls.foldl firstLabelStep none

def lintOverlapping (g : Cfg) : List Diag :=
  (List.range g.nodes.size).filterMap fun i =>
    let cn := g.get i
    if cn.funcs.length > 1 && cn.funcs.contains i then
      match firstLabel cn.labels with
      | some l =>
        -- reported at the label written first
        some (lintDiag "NodeInManyFunctions" l.tok.range l.tok.file l.tok.text)
      | none => none
    else none

/-- `Manager::run_diagnostics` -/
def runLints (g : Cfg) : List Diag :=
  lintSaveToZero g ++ lintDeadValue g ++ lintInstructionInText g ++ lintEcall g ++
  lintControlFlow g ++ lintGarbageInput g ++ lintStack g ++ lintCalleeSaved g ++
  lintCalleeSavedGarbageRead g ++ lintLostCalleeSaved g ++ lintOverlapping g

def Diag.trace (tag : String) (d : Diag) : String :=
  let alts := if d.alts.isEmpty then "" else
    " alts=[" ++ ",".intercalate (d.alts.map fun a => locStr a.1 a.2) ++ "]"
  let site := match d.site with | some i => s!" site={i}" | none => ""
  s!"{tag} code={d.code} sev={d.sev} title={hexOfString d.title} at={locStr d.range d.file} desc={hexOfString d.desc} text={hexOfString d.text}{site}{alts}"

end Rva
