/-
  Rva.Model.Cfg — the control-flow graph and the graph passes:
  `Cfg::new_with_predefined_call_names` (cfg/graph.rs), `NodeDirectionPass` (gen/directions.rs),
  `EliminateDeadCodeDirectionsPass` (gen/dead_code.rs), `EcallTerminationPass`
  (gen/ecall_terminate.rs), `FunctionMarkupPass` (gen/function_annotations.rs).

  `Rc<CfgNode>` identities are indices into the node array; `HashSet<Rc<CfgNode>>` edge sets are
  duplicate-free index lists kept in ascending order.
-/
import Rva.Model.Node
namespace Rva

/-! ### register sets (`RegisterSet`: u32 bit mask) -/

abbrev RegSet := BitVec 32

namespace RegSet
def empty : RegSet := 0#32
def single (r : Reg) : RegSet := 1#32 <<< r
def mem (s : RegSet) (r : Reg) : Bool := s.getLsbD r
def ofList (l : List Reg) : RegSet := l.foldl (fun s r => s ||| single r) empty
def toList (s : RegSet) : List Reg := (List.range 32).filter (mem s)
def diff (a b : RegSet) : RegSet := a &&& ~~~b
def str (s : RegSet) : String := "[" ++ ",".intercalate ((toList s).map toString) ++ "]"
end RegSet

def programArgsSet : RegSet := RegSet.ofList Gen.programArgsSet
def temporarySet : RegSet := RegSet.ofList Gen.temporarySet
def argumentSet : RegSet := RegSet.ofList Gen.argumentSet
def returnSet : RegSet := RegSet.ofList Gen.returnSet
def allWritableSet : RegSet := RegSet.ofList Gen.allWritableSet
def savedSet : RegSet := RegSet.ofList Gen.savedSet
def spRaSet : RegSet := RegSet.ofList Gen.spRaSet
def returnAddrSet : RegSet := RegSet.ofList Gen.returnAddrSet
def callerSavedSet : RegSet := RegSet.ofList Gen.callerSavedSet
def constZeroSet : RegSet := RegSet.ofList Gen.constZeroSet
def calleeSavedSet : RegSet := RegSet.ofList Gen.calleeSavedSet
def ecallAlwaysArgumentSet : RegSet := RegSet.ofList Gen.ecallAlwaysArgumentSet

/-! ### abstract values (`AvailableValue`, `MemoryLocation`) -/

inductive AVal where
  | const (c : Word)
  | addr (l : String)
  | mem (l : String) (o : Word)
  | rs (r : Reg) (o : Word)
  | ors (r : Reg) (o : Word)
  | mr (r : Reg) (o : Word)
  | omr (r : Reg) (o : Word)
  | vcsr (c : Nat)
  | mcsr (c : Nat) (o : Word)
  deriving DecidableEq, Repr, Inhabited

inductive MemLoc where
  | stack (o : Word)
  | csr (c : Nat)
  | csro (c : Nat) (o : Word)
  deriving DecidableEq, Repr, Inhabited

def AVal.str : AVal → String
  | .const c => s!"c:{c.toInt}"
  | .addr l => s!"a:{hexOfString l}"
  | .mem l o => s!"m:{hexOfString l}:{o.toInt}"
  | .rs r o => s!"rs:{r}:{o.toInt}"
  | .ors r o => s!"ors:{r}:{o.toInt}"
  | .mr r o => s!"mr:{r}:{o.toInt}"
  | .omr r o => s!"omr:{r}:{o.toInt}"
  | .vcsr c => s!"vc:{c}"
  | .mcsr c o => s!"mc:{c}:{o.toInt}"

def MemLoc.str : MemLoc → String
  | .stack o => s!"so:{o.toInt}"
  | .csr c => s!"csr:{c}"
  | .csro c o => s!"csro:{c}:{o.toInt}"

/-- derived `Ord` of `MemoryLocation`: variant order, then fields (i32 signed, u32). -/
def MemLoc.lt : MemLoc → MemLoc → Bool
  | .stack a, .stack b => a.slt b
  | .stack _, _ => true
  | .csr _, .stack _ => false
  | .csr a, .csr b => a < b
  | .csr _, .csro .. => true
  | .csro a x, .csro b y => a < b || (a == b && x.slt y)
  | .csro .., _ => false

/-- `AvailableValueMap<K>` as an association list (at most one entry per key). -/
abbrev AMap (κ : Type) := List (κ × AVal)

namespace AMap
variable {κ : Type} [DecidableEq κ]
def get (m : AMap κ) (k : κ) : Option AVal := (m.find? (·.1 == k)).map (·.2)
def erase (m : AMap κ) (k : κ) : AMap κ := m.filter (·.1 != k)
def insert (m : AMap κ) (k : κ) (v : AVal) : AMap κ := (k, v) :: erase m k
/-- `extend`: entries of `o` overwrite. -/
def extend (m o : AMap κ) : AMap κ := o.foldl (fun acc p => insert acc p.1 p.2) m
/-- `&=`: keep the entries on which both agree. -/
def meet (m o : AMap κ) : AMap κ := m.filter fun p => get o p.1 == some p.2
/-- equality as finite maps -/
def sameAs (m o : AMap κ) : Bool :=
  m.all (fun p => get o p.1 == some p.2) && o.all (fun p => get m p.1 == some p.2)
end AMap

def insertSorted {α} (lt : α → α → Bool) (x : α) : List α → List α
  | [] => [x]
  | y :: ys => if lt x y then x :: y :: ys else y :: insertSorted lt x ys

def sortBy {α} (lt : α → α → Bool) (l : List α) : List α := l.foldr (insertSorted lt) []

def regMapStr (m : AMap Reg) : String :=
  let s := sortBy (fun a b => a.1 < b.1) m
  "{" ++ ",".intercalate (s.map fun p => s!"{p.1}={p.2.str}") ++ "}"

def memMapStr (m : AMap MemLoc) : String :=
  let s := sortBy (fun a b => MemLoc.lt a.1 b.1) m
  "{" ++ ",".intercalate (s.map fun p => s!"{p.1.str}={p.2.str}") ++ "}"

/-! ### the graph -/

structure CNode where
  node : Node
  labels : List (W String)
  isText : Bool
  nexts : List Nat := []
  prevs : List Nat := []
  funcs : List Nat := []        -- entry indices of the functions this node belongs to
  regIn : AMap Reg := []
  regOut : AMap Reg := []
  memIn : AMap MemLoc := []
  memOut : AMap MemLoc := []
  liveIn : RegSet := 0#32
  liveOut : RegSet := 0#32
  uDef : RegSet := 0#32
  deriving Repr, Inhabited

structure Func where
  entry : Nat
  exit : Nat
  nodes : List Nat
  defs : RegSet
  deriving Repr, Inhabited

structure Cfg where
  nodes : Array CNode
  funcs : List Func := []                 -- one per function entry, in node order
  labelFunc : List (String × Nat) := []   -- `label_function_map`: label ↦ entry index
  deriving Repr, Inhabited

inductive CfgErr where
  | labelsNotDefined (labels : List (W String))
  | duplicateLabel (l : W String)
  | unexpectedError
  deriving Repr, Inhabited

def insNat (x : Nat) : List Nat → List Nat
  | [] => [x]
  | y :: ys => if x < y then x :: y :: ys else if x == y then y :: ys else y :: insNat x ys

def Cfg.modify (g : Cfg) (i : Nat) (f : CNode → CNode) : Cfg :=
  { g with nodes := g.nodes.modify i f }

def Cfg.get (g : Cfg) (i : Nat) : CNode := g.nodes[i]!

def Cfg.addEdge (g : Cfg) (a b : Nat) : Cfg :=
  (g.modify a fun n => { n with nexts := insNat b n.nexts }).modify b
    fun n => { n with prevs := insNat a n.prevs }

/-! ### `Cfg::new_with_predefined_call_names` -/

def nameIn (s : List (W String)) (n : String) : Bool := s.any (·.val == n)
def addName (s : List (W String)) (w : W String) : List (W String) :=
  if nameIn s w.val then s else s ++ [w]     -- HashSet insert keeps the first token

def callNames (nodes : List Node) : List (W String) :=
  nodes.foldl (fun s n => match n.callsTo with | some w => addName s w | none => s) []
def jumpNames (nodes : List Node) : List (W String) :=
  nodes.foldl (fun s n => match n.jumpsTo with | some w => addName s w | none => s) []
def loadNames (nodes : List Node) : List (W String) :=
  nodes.foldl (fun s n => match n.readsAddressOf with | some w => addName s w | none => s) []
def labelNames (nodes : List Node) : List (W String) :=
  nodes.foldl (fun s n => match n with | .label w _ => addName s w | _ => s) []

structure BuildSt where
  out : Array CNode := #[]
  cur : List (W String) := []
  all : List String := []
  isText : Bool := true

def Node.fileOf (n : Node) : FileId := n.tok.file

/-- `call_names` including the predefined (interrupt handler) names -/
def allCallNames (nodes : List Node) (predefined : Option (List (W String))) : List (W String) :=
  (predefined.getD []).foldl addName (callNames nodes)

/-- `call_names ∪ jump_names ∪ load_names`. `HashSet::union` iterates the *larger* set first, so
    for a name in both sets the token of the larger set is the one that is kept. -/
def usedNames (nodes : List Node) (predefined : Option (List (W String))) : List (W String) :=
  let union (a b : List (W String)) : List (W String) :=
    if a.length ≥ b.length then b.foldl addName a else a.foldl addName b
  union (union (allCallNames nodes predefined) (jumpNames nodes)) (loadNames nodes)

/-- the used names that no label defines -/
def undefinedNames (nodes : List Node) (predefined : Option (List (W String))) : List (W String) :=
  (usedNames nodes predefined).filter fun w => !nameIn (labelNames nodes) w.val

/-- one source node of PASS 1 of `Cfg::new` -/
def buildStep (calls : List (W String)) (predefined : Option (List (W String))) (st : BuildSt) (node : Node) :
    Except CfgErr BuildSt :=
  match node with
  | .label name _ =>
    if st.all.contains name.val then .error (.duplicateLabel name)
    else .ok { st with cur := st.cur ++ [name], all := name.val :: st.all }
  | .directive _ .dataSection _ => .ok { st with isText := false }
  | .directive _ .textSection _ => .ok { st with isText := true }
  | .directive .. => .ok st
  | _ =>
    if st.cur.any (fun l => nameIn calls l.val) then
      let isInt := match predefined with
        | some p => st.cur.any (fun l => nameIn p l.val)
        | none => false
      let entry : CNode :=
        { node := .funcEntry node.fileOf node.tok isInt, labels := st.cur, isText := st.isText }
      let body : CNode := { node := node, labels := [], isText := st.isText }
      .ok { st with out := (st.out.push entry).push body, cur := [] }
    else
      .ok { st with out := st.out.push { node := node, labels := st.cur, isText := st.isText }, cur := [] }

def buildLoop (calls : List (W String)) (predefined : Option (List (W String))) :
    List Node → BuildSt → Except CfgErr BuildSt
  | [], st => .ok st
  | n :: rest, st =>
    match buildStep calls predefined st n with
    | .ok st' => buildLoop calls predefined rest st'
    | .error e => .error e

/-- PASS 1 of `Cfg::new`: one graph node per instruction, function entries in front of called labels -/
def buildNodes (nodes : List Node) (predefined : Option (List (W String))) : Except CfgErr Cfg :=
  match buildLoop (allCallNames nodes predefined) predefined nodes {} with
  | .ok st => .ok { nodes := st.out }
  | .error e => .error e

def buildCfg (nodes : List Node) (predefined : Option (List (W String))) : Except CfgErr Cfg :=
  if (undefinedNames nodes predefined).isEmpty then buildNodes nodes predefined
  else .error (.labelsNotDefined (undefinedNames nodes predefined))

/-! ### `NodeDirectionPass` -/

def findLabel (g : Cfg) (l : String) : Option Nat :=
  (List.range g.nodes.size).find? fun i => nameIn (g.get i).labels l

/-- One iteration of the `NodeDirectionPass` loop: the jump edge of node `i`, the fall-through
    edge from the previous node, and the new "previous node". -/
def dirStep (st : Cfg × Option Nat) (i : Nat) : Except CfgErr (Cfg × Option Nat) :=
  let g := st.1
  let n := (g.get i).node
  let jumped : Except CfgErr Cfg :=
    match n.jumpsTo with
    | some l =>
      match findLabel g l.val with
      | some j => .ok (g.addEdge i j)
      | none => .error .unexpectedError
    | none => .ok g
  match jumped with
  | .error e => .error e
  | .ok g1 =>
    let g2 := match st.2 with
      | some p => g1.addEdge p i
      | none => g1
    .ok (g2, if n.isReturn || n.isUnconditionalJump then none else some i)

def dirLoop : List Nat → Cfg × Option Nat → Except CfgErr (Cfg × Option Nat)
  | [], st => .ok st
  | i :: rest, st =>
    match dirStep st i with
    | .ok st' => dirLoop rest st'
    | .error e => .error e

def directions (g0 : Cfg) : Except CfgErr Cfg :=
  match dirLoop (List.range g0.nodes.size) (g0, none) with
  | .ok st => .ok st.1
  | .error e => .error e

/-! ### `EliminateDeadCodeDirectionsPass` (one sweep: the `old != nodes` test compares node
    identities, which never change) -/

def removeNat (x : Nat) (l : List Nat) : List Nat := l.filter (· != x)

/-- remove every out-edge of `i` (`for next in nexts { next.remove_prev(i) }; clear_nexts()`) -/
def Cfg.cutOut (g : Cfg) (i : Nat) : Cfg :=
  ((g.get i).nexts.foldl (fun g s => g.modify s fun m => { m with prevs := removeNat i m.prevs }) g).modify i
    fun m => { m with nexts := [] }

/-- remove every in-edge of `i` -/
def Cfg.cutIn (g : Cfg) (i : Nat) : Cfg :=
  ((g.get i).prevs.foldl (fun g p => g.modify p fun m => { m with nexts := removeNat i m.nexts }) g).modify i
    fun m => { m with prevs := [] }

def deadStep (g : Cfg) (i : Nat) : Cfg :=
  let n := (g.get i).node
  if n.isReturn || n.isIndirectJump || n.isAnyEntry then g
  else
    -- (an ecall may end the program: it is no dead end; an ecall nothing reaches is cut off like any node)
    let g1 := if (g.get i).nexts.isEmpty && !n.mightTerminate then g.cutIn i else g
    if (g1.get i).prevs.isEmpty then g1.cutOut i else g1

def deadSweep (g : Cfg) : Cfg := (List.range g.nodes.size).foldl deadStep g

/-- number of successor and predecessor entries: a sweep that cuts nothing leaves it unchanged -/
def edgeCount (g : Cfg) : Nat := g.nodes.toList.foldl (fun a cn => a + cn.nexts.length + cn.prevs.length) 0

/-- `while changed { sweep }`: a sweep that removed an edge is followed by another one -/
def deadLoop : Nat → Cfg → Cfg
  | 0, g => g
  | fuel + 1, g =>
    let g' := deadSweep g
    if edgeCount g' == edgeCount g then g' else deadLoop fuel g'

def deadCode (g : Cfg) : Cfg := deadLoop (edgeCount g + 1) g

/-! ### `EcallTerminationPass` -/

def knownEcall (n : CNode) : Option Word :=
  if n.node.isEcall then
    match AMap.get n.regIn Gen.ecallTypeReg with
    | some (.const c) => some c
    | _ => none
  else none

def isProgramExit (n : CNode) : Bool :=
  knownEcall n == some 10#32 || knownEcall n == some 93#32

/-- `CfgNode::known_ecall_signature` -/
def ecallSignature (n : CNode) : Option (RegSet × RegSet) :=
  match knownEcall n with
  | some c =>
    match Gen.ecallTable.find? (fun row => row.1 == c.toInt) with
    | some (_, ins, outs) => some (RegSet.ofList ins, RegSet.ofList outs)
    | none => none
  | none => none

def ecallStep (g : Cfg) (i : Nat) : Cfg := if isProgramExit (g.get i) then g.cutOut i else g

def ecallTerm (g : Cfg) : Cfg := (List.range g.nodes.size).foldl ecallStep g

/-! ### `FunctionMarkupPass`

  `mark_reachable` walks `CfgNextsIterator` (a stack-based DFS over `nexts`) and mutates while it
  walks: the first return met becomes the exit, every later one is rewired to jump to it.
  The order in which successors are pushed comes from a `HashSet`; `desc` selects one of two
  deterministic orders (ascending or descending push), so that both exits of a two-return
  function can be produced. -/

/-- the rewritten return keeps its own raw token (its location), whatever exit it now jumps to -/
def returnJump (found : CNode) (exitTok : RawTok) : Node :=
  let info : FTok := ⟨.symbol, "return", found.node.tok.text, found.node.tok.range, found.node.tok.file⟩
  .jumpLink ⟨"Jal", info⟩ ⟨0, info⟩ ⟨"<return>", info⟩ exitTok

structure MarkSt where
  g : Cfg
  stack : List Nat
  visited : List Nat := []
  insts : List Nat := []      -- reverse order
  defs : RegSet := 0#32
  ret : Option Nat := none

/-- an additional return `i` of a function whose exit is `r`: `i` becomes a jump to `r`
    (found_ret.nexts := {prev_ret}; prev_ret.prevs += found_ret; node := jump) -/
def rewireReturn (g : Cfg) (i r : Nat) : Cfg :=
  (g.modify i fun m => { m with nexts := [r], node := returnJump m m.node.tok }).modify r
    fun m => { m with prevs := insNat i m.prevs }

def markLoop (desc : Bool) (entry : Nat) : Nat → MarkSt → MarkSt
  | 0, st => st
  | fuel + 1, st =>
    match st.stack with
    | [] => st
    | i :: rest =>
      if st.visited.contains i then markLoop desc entry fuel { st with stack := rest }
      else
        let cn := st.g.get i
        -- push successors (captured before the node may be rewired, as the iterator does)
        let succ := if desc then cn.nexts.reverse else cn.nexts
        let stack' := succ.foldl (fun s x => x :: s) rest
        let g1 := st.g.modify i fun m => { m with funcs := insNat entry m.funcs }
        let defs := match cn.node.writesTo with
          | some rd => st.defs ||| RegSet.single rd.val
          | none => st.defs
        let st' : MarkSt := { st with g := g1, stack := stack', visited := i :: st.visited,
                                      insts := i :: st.insts, defs := defs }
        if cn.node.isReturn then
          match st.ret with
          | some r =>
            -- rewire: found_ret.nexts := {prev_ret}; prev_ret.prevs += found_ret; node := jump
            markLoop desc entry fuel { st' with g := rewireReturn g1 i r }
          | none => markLoop desc entry fuel { st' with ret := some i }
        else markLoop desc entry fuel st'

def markFuel (g : Cfg) : Nat := 4 * (g.nodes.size + 1) * (g.nodes.size + 1) + 16

/-- `FunctionMarkupPass` at one node index: nothing unless it is a function entry -/
def markStep (desc : Bool) (g : Cfg) (e : Nat) : Except CfgErr Cfg :=
  if !(g.get e).node.isFunctionEntry then .ok g
  else
    let labels := (g.get e).labels
    let st := markLoop desc e (markFuel g) { g := g, stack := [e] }
    match st.ret with
    | none => .error .unexpectedError
    | some r =>
      .ok { st.g with
        funcs := st.g.funcs ++ [{ entry := e, exit := r, nodes := st.insts.reverse, defs := st.defs }],
        labelFunc := labels.foldl (fun lf l => (l.val, e) :: lf.filter (·.1 != l.val)) st.g.labelFunc }

def markAll (desc : Bool) : List Nat → Cfg → Except CfgErr Cfg
  | [], g => .ok g
  | e :: rest, g =>
    match markStep desc g e with
    | .ok g' => markAll desc rest g'
    | .error err => .error err

def markup (desc : Bool) (g0 : Cfg) : Except CfgErr Cfg := markAll desc (List.range g0.nodes.size) g0

/-- did every walk of `markAll` end with an empty stack (i.e. within its fuel)? Decides the
    hypothesis of `body_is_reachable_set` for a concrete graph. -/
def markAllDone (desc : Bool) : List Nat → Cfg → Bool
  | [], _ => true
  | e :: rest, g =>
    let done := !(g.get e).node.isFunctionEntry ||
      (markLoop desc e (markFuel g) { g := g, stack := [e] }).stack.isEmpty
    match markStep desc g e with
    | .ok g' => done && markAllDone desc rest g'
    | .error _ => done

def Cfg.funcOfEntry (g : Cfg) (e : Nat) : Option Func := g.funcs.find? (·.entry == e)
def Cfg.funcOfLabel (g : Cfg) (l : String) : Option Func :=
  match g.labelFunc.find? (·.1 == l) with
  | some p => g.funcOfEntry p.2
  | none => none

/-- `CfgNode::calls_to_from_cfg` -/
def callsToFromCfg (g : Cfg) (n : CNode) : Option (Func × W String) :=
  match n.node.callsTo with
  | some name => (g.funcOfLabel name.val).map (·, name)
  | none =>
    match n.node.isSomeJumpToLabel with
    | some name => (g.funcOfLabel name.val).map (·, name)
    | none => none

end Rva
