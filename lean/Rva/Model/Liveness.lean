/-
  Rva.Model.Liveness — model of `LivenessPass` (analysis/liveness.rs).
-/
import Rva.Model.Available
namespace Rva

def unionOver (l : List RegSet) : RegSet := l.foldl (· ||| ·) 0#32

/-- `reduce(&)` over the u_def of the visited predecessors; empty when there is none. -/
def interOver (l : List RegSet) : RegSet :=
  match l with
  | [] => 0#32
  | x :: rest => rest.foldl (· &&& ·) x

def liveNode (g : Cfg) (visited : List Nat) (i : Nat) : Cfg × Bool :=
  let cn := g.get i
  let n := cn.node
  let liveOut := unionOver (cn.nexts.map fun s => (g.get s).liveIn)
  let c0 := liveOut != cn.liveOut
  let g := g.modify i fun m => { m with liveOut := liveOut }
  let udefPrev := interOver ((cn.prevs.filter visited.contains).map fun p => (g.get p).uDef)
  match callsToFromCfg g cn with
  | some (func, _) =>
    -- live_in[F_exit] |= live_out[n]
    let ex := g.get func.exit
    let exIn := liveOut ||| ex.liveIn
    let c1 := exIn != ex.liveIn
    let g := g.modify func.exit fun m => { m with liveIn := exIn }
    let uDef := (RegSet.diff udefPrev callerSavedSet) ||| ((g.get func.exit).uDef &&& returnSet)
    let liveIn := ((g.get func.entry).liveOut &&& argumentSet) |||
      (RegSet.diff liveOut n.killReg) ||| n.genReg
    let cur := g.get i
    let c2 := liveIn != cur.liveIn
    let c3 := uDef != cur.uDef
    (g.modify i fun m => { m with liveIn := liveIn, uDef := uDef }, c0 || c1 || c2 || c3)
  | none =>
    if n.isEcall then
      let (args, rets) := (ecallSignature cn).getD (0#32, 0#32)
      let uDef := (RegSet.diff udefPrev callerSavedSet) ||| rets
      let liveIn := (RegSet.diff liveOut callerSavedSet) ||| ecallAlwaysArgumentSet ||| args
      (g.modify i fun m => { m with liveIn := liveIn, uDef := uDef },
        c0 || liveIn != cn.liveIn || uDef != cn.uDef)
    else if n.isReturn then
      let liveIn := cn.liveIn ||| n.genReg
      let uDef := udefPrev
      (g.modify i fun m => { m with liveIn := liveIn, uDef := uDef },
        c0 || liveIn != cn.liveIn || uDef != cn.uDef)
    else if n.isFunctionEntry then
      let liveIn := (RegSet.diff liveOut n.killReg) ||| n.genReg
      let uDef := liveIn &&& argumentSet
      (g.modify i fun m => { m with liveIn := liveIn, uDef := uDef },
        c0 || liveIn != cn.liveIn || uDef != cn.uDef)
    else
      let uDef := udefPrev ||| n.killReg
      let liveIn := (RegSet.diff liveOut n.killReg) ||| n.genReg
      (g.modify i fun m => { m with liveIn := liveIn, uDef := uDef },
        c0 || liveIn != cn.liveIn || uDef != cn.uDef)

def liveSweep (g0 : Cfg) (visited0 : List Nat) : Cfg × List Nat × Bool :=
  (List.range g0.nodes.size).reverse.foldl (fun (acc : Cfg × List Nat × Bool) i =>
    let (g, vis, ch) := acc
    let (g', c) := liveNode g vis i
    (g', if vis.contains i then vis else i :: vis, ch || c)) (g0, visited0, false)

def liveLoop : Nat → Cfg → List Nat → Cfg × Bool
  | 0, g, _ => (g, false)
  | fuel + 1, g, vis =>
    let (g', vis', ch) := liveSweep g vis
    if ch then liveLoop fuel g' vis' else (g', true)

def liveFuel (g : Cfg) : Nat := 100 * (g.nodes.size + 2)

def liveness (g : Cfg) : Cfg × Bool := liveLoop (liveFuel g) g []

end Rva
