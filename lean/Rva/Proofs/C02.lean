/-
  C02 — liveness.

  * `liveNode_stable` (`live_stable_eq`): when updating a node reports no change, the documented
    equations hold at that node (all five cases of liveness.rs: call site, ecall, return,
    function entry, other).
  * `live_path_sound`: in any graph whose facts satisfy the equations, a register read at the end
    of a path of ordinary instructions, and not overwritten before on that path, is live at its
    start — the static half of "liveness covers every real use" (C03 supplies "every execution
    step is an edge").
-/
import Rva.Proofs.C03
import Rva.Model.Liveness
namespace Rva

/-- the liveness facts of a node -/
def CNode.live (n : CNode) : RegSet × RegSet := (n.liveIn, n.liveOut)

/-- per-kind kill and gen sets of the documented liveness equations -/
def liveKill (g : Cfg) (cn : CNode) : RegSet :=
  match callsToFromCfg g cn with
  | some _ => cn.node.killReg
  | none => if cn.node.isEcall then callerSavedSet
            else if cn.node.isReturn then RegSet.empty
            else cn.node.killReg

/-- **Equations at one node** (the five cases of `liveness.rs`). -/
def LiveEqAt (g : Cfg) (i : Nat) : Prop :=
  let cn := g.get i
  let n := cn.node
  cn.liveOut = unionOver (cn.nexts.map fun s => (g.get s).liveIn) ∧
  match callsToFromCfg g cn with
  | some (func, _) =>
    (g.get func.exit).liveIn = cn.liveOut ||| (g.get func.exit).liveIn ∧
    cn.liveIn = ((g.get func.entry).liveOut &&& argumentSet) ||| (RegSet.diff cn.liveOut n.killReg) ||| n.genReg
  | none =>
    if n.isEcall then
      cn.liveIn = (RegSet.diff cn.liveOut callerSavedSet) ||| ecallAlwaysArgumentSet |||
        ((ecallSignature cn).getD (0#32, 0#32)).1
    else if n.isReturn then cn.liveIn = cn.liveIn ||| n.genReg
    else cn.liveIn = (RegSet.diff cn.liveOut n.killReg) ||| n.genReg

theorem bne_false {α} [BEq α] [LawfulBEq α] (a b : α) : (a != b) = false ↔ a = b := by
  simp [bne]

theorem modify_noop (g : Cfg) (i : Nat) (f : CNode → CNode) (h : f (g.get i) = g.get i) :
    ∀ y, (g.modify i f).get y = g.get y := by
  intro y
  rw [Cfg.get_modify]
  split
  · rename_i hc; rw [← hc.1]; exact h
  · rfl

theorem callsTo_modify (g : Cfg) (i : Nat) (f : CNode → CNode) (cn : CNode) :
    callsToFromCfg (g.modify i f) cn = callsToFromCfg g cn := rfl

/-- **C02 (`live_stable_eq`, one node).** If updating a node reports no change, the liveness
    equations hold at that node. -/
theorem liveNode_stable (g : Cfg) (vis : List Nat) (i : Nat) (g' : Cfg)
    (h : liveNode g vis i = (g', false)) : LiveEqAt g i := by
  unfold liveNode at h
  simp only [] at h
  generalize hlo : unionOver (List.map (fun s => (g.get s).liveIn) (g.get i).nexts) = lo at h
  -- the graph after storing live_out
  generalize hg1 : (g.modify i fun m => { m with liveOut := lo }) = g1 at h
  have hc1 : callsToFromCfg g1 (g.get i) = callsToFromCfg g (g.get i) := by subst hg1; rfl
  rw [hc1] at h
  unfold LiveEqAt
  simp only []
  rw [hlo]
  cases hcall : callsToFromCfg g (g.get i) with
  | some p =>
    obtain ⟨func, name⟩ := p
    rw [hcall] at h
    simp only [] at h
    injection h with _ hch
    simp only [Bool.or_eq_false_iff, bne_false] at hch
    obtain ⟨⟨⟨h0, h1⟩, h2⟩, h3⟩ := hch
    have e1 : ∀ y, g1.get y = g.get y := by
      subst hg1
      exact modify_noop g i _ (by rw [h0])
    rw [e1] at h1
    have e2 : ∀ y, (g1.modify func.exit fun m => { m with liveIn := lo ||| (g.get func.exit).liveIn }).get y
        = g.get y := by
      intro y
      rw [modify_noop g1 func.exit _ (by rw [e1, h1]), e1]
    rw [e1] at h2
    simp only [e2] at h2
    refine ⟨h0.symm, ?_, ?_⟩
    · rw [← h0]; exact h1.symm
    · rw [← h0]; exact h2.symm
  | none =>
    rw [hcall] at h
    simp only [] at h
    by_cases he : (g.get i).node.isEcall = true
    · simp only [he, if_true] at h ⊢
      injection h with _ hch
      simp only [Bool.or_eq_false_iff, bne_false] at hch
      obtain ⟨⟨h0, h2⟩, _⟩ := hch
      refine ⟨h0.symm, ?_⟩
      rw [← h0]; exact h2.symm
    · have he' : (g.get i).node.isEcall = false := by simpa using he
      simp only [he', Bool.false_eq_true, if_false] at h ⊢
      by_cases hr : (g.get i).node.isReturn = true
      · simp only [hr, if_true] at h ⊢
        injection h with _ hch
        simp only [Bool.or_eq_false_iff, bne_false] at hch
        obtain ⟨⟨h0, h2⟩, _⟩ := hch
        exact ⟨h0.symm, h2.symm⟩
      · have hr' : (g.get i).node.isReturn = false := by simpa using hr
        simp only [hr', Bool.false_eq_true, if_false] at h ⊢
        by_cases hf : (g.get i).node.isFunctionEntry = true
        · simp only [hf, if_true] at h
          injection h with _ hch
          simp only [Bool.or_eq_false_iff, bne_false] at hch
          obtain ⟨⟨h0, h2⟩, _⟩ := hch
          refine ⟨h0.symm, ?_⟩
          rw [← h0]; exact h2.symm
        · have hf' : (g.get i).node.isFunctionEntry = false := by simpa using hf
          simp only [hf', Bool.false_eq_true, if_false] at h
          injection h with _ hch
          simp only [Bool.or_eq_false_iff, bne_false] at hch
          obtain ⟨⟨h0, h2⟩, _⟩ := hch
          refine ⟨h0.symm, ?_⟩
          rw [← h0]; exact h2.symm

theorem mem_or (a b : RegSet) (r : Reg) : RegSet.mem (a ||| b) r = (RegSet.mem a r || RegSet.mem b r) := by
  simp [RegSet.mem]

theorem mem_diff (a b : RegSet) (r : Reg) : RegSet.mem (RegSet.diff a b) r = (RegSet.mem a r && !RegSet.mem b r) := by
  simp only [RegSet.mem, RegSet.diff, BitVec.getLsbD_and, BitVec.getLsbD_not]
  by_cases h : r < 32
  · simp [h]
  · have : a.getLsbD r = false := BitVec.getLsbD_of_ge a r (Nat.le_of_not_lt h)
    simp [this]

theorem mem_unionOver (l : List RegSet) (r : Reg) :
    RegSet.mem (unionOver l) r = true ↔ ∃ x ∈ l, RegSet.mem x r = true := by
  unfold unionOver
  suffices ∀ (acc : RegSet), RegSet.mem (l.foldl (· ||| ·) acc) r = true ↔
      (RegSet.mem acc r = true ∨ ∃ x ∈ l, RegSet.mem x r = true) by
    have := this 0#32
    simpa [RegSet.mem] using this
  induction l with
  | nil => intro acc; simp
  | cons x xs ih =>
    intro acc
    simp only [List.foldl_cons, ih, mem_or, Bool.or_eq_true, List.mem_cons, exists_eq_or_imp]
    constructor
    · rintro ((h | h) | h)
      · exact Or.inl h
      · exact Or.inr (Or.inl h)
      · exact Or.inr (Or.inr h)
    · rintro (h | h | h)
      · exact Or.inl (Or.inl h)
      · exact Or.inl (Or.inr h)
      · exact Or.inr h

/-- Along an edge, what is live before the successor is live after the node. -/
theorem live_edge (g : Cfg) (i s : Nat) (h : LiveEqAt g i) (hs : s ∈ (g.get i).nexts) (r : Reg)
    (hr : RegSet.mem (g.get s).liveIn r = true) : RegSet.mem (g.get i).liveOut r = true := by
  rw [h.1, mem_unionOver]
  exact ⟨(g.get s).liveIn, List.mem_map.mpr ⟨s, hs, rfl⟩, hr⟩

/-- an ordinary instruction: not a call site (or jump to a function), not an ecall, not a return -/
def Ordinary (g : Cfg) (i : Nat) : Prop :=
  callsToFromCfg g (g.get i) = none ∧ (g.get i).node.isEcall = false ∧ (g.get i).node.isReturn = false

/-- At an ordinary instruction: live-in ⊇ gen ∪ (live-out − kill). -/
theorem live_transfer (g : Cfg) (i : Nat) (h : LiveEqAt g i) (ho : Ordinary g i) (r : Reg) :
    (RegSet.mem (g.get i).node.genReg r = true → RegSet.mem (g.get i).liveIn r = true) ∧
    (RegSet.mem (g.get i).liveOut r = true → RegSet.mem (g.get i).node.killReg r = false →
      RegSet.mem (g.get i).liveIn r = true) := by
  obtain ⟨hc, he, hr⟩ := ho
  have h2 := h.2
  simp only [hc, he, hr, Bool.false_eq_true, if_false] at h2
  constructor
  · intro hg; rw [h2, mem_or]; simp [hg]
  · intro hl hk; rw [h2, mem_or, mem_diff]; simp [hl, hk]

/-- A path of ordinary instructions along graph edges. -/
inductive LivePath (g : Cfg) (r : Reg) : Nat → Prop where
  | use (i : Nat) : Ordinary g i → RegSet.mem (g.get i).node.genReg r = true → LivePath g r i
  | step (i s : Nat) : Ordinary g i → s ∈ (g.get i).nexts →
      RegSet.mem (g.get i).node.killReg r = false → LivePath g r s → LivePath g r i

/-- **C02 (`live_path_sound`).** If the liveness equations hold everywhere, then a register
    that some path of ordinary instructions reads before any instruction on the path overwrites
    it is live at the start of the path. -/
theorem live_path_sound (g : Cfg) (heq : ∀ i, LiveEqAt g i) (r : Reg) (i : Nat)
    (p : LivePath g r i) : RegSet.mem (g.get i).liveIn r = true := by
  induction p with
  | use i ho hg => exact (live_transfer g i (heq i) ho r).1 hg
  | step i s ho hs hk _ ih =>
    exact (live_transfer g i (heq i) ho r).2 (live_edge g i s (heq i) hs r ih) hk

end Rva
