/-
  C11, second half — the body of a function is exactly what its entry reaches.

  `markLoop_closed`: when the walk of `mark_reachable` ends with an empty stack, the set of
  recorded instructions contains the entry and is closed under the successor relation of the
  graph the walk leaves behind (including the rewired additional returns) — so it contains
  every node reachable from the entry (`mark_complete`). `markLoop_reach`: conversely every
  recorded instruction is reachable from the entry (`mark_sound`). Together: the recorded body
  is the reachable set.
-/
import Rva.Proofs.C03b
namespace Rva

/-- reachability along `nexts` -/
inductive Reach (g : Cfg) (e : Nat) : Nat → Prop where
  | refl : Reach g e e
  | step (a b : Nat) : Reach g e a → b ∈ (g.get a).nexts → Reach g e b

/-- invariant of the walk for completeness: everything recorded has all its successors
    recorded or waiting on the stack; `insts` and `visited` are the same list; the entry is
    recorded or waiting -/
structure ClosedInv (e : Nat) (st : MarkSt) : Prop where
  same : st.insts = st.visited
  entry : e ∈ st.visited ∨ e ∈ st.stack
  closed : ∀ i ∈ st.visited, ∀ s ∈ (st.g.get i).nexts, s ∈ st.visited ∨ s ∈ st.stack
  ret : ∀ r, st.ret = some r → r ∈ st.visited ∧ r < st.g.nodes.size
  rnn : RetNoNext st.g

theorem mem_foldl_cons' (l rest : List Nat) (x : Nat) :
    x ∈ l.foldl (fun s y => y :: s) rest ↔ x ∈ l ∨ x ∈ rest := by
  induction l generalizing rest with
  | nil => simp
  | cons y ys ih => simp only [List.foldl_cons, ih, List.mem_cons]; constructor
                    · rintro (h | h | h) <;> simp [h]
                    · rintro ((h | h) | h) <;> simp [h]

theorem markLoop_closed (desc : Bool) (entry : Nat) (fuel : Nat) :
    ∀ st : MarkSt, ClosedInv entry st → ClosedInv entry (markLoop desc entry fuel st) := by
  induction fuel with
  | zero => intro st h; exact h
  | succ n ih =>
    intro st h
    unfold markLoop
    cases hs : st.stack with
    | nil => simp only []; exact h
    | cons i rest =>
      simp only []
      by_cases hv : st.visited.contains i = true
      · simp only [hv, if_true]
        have hiv : i ∈ st.visited := by simpa using hv
        apply ih
        refine ⟨h.same, ?_, ?_, h.ret, h.rnn⟩
        · rcases h.entry with he | he
          · exact Or.inl he
          · rw [hs] at he
            rcases List.mem_cons.mp he with he | he
            · exact Or.inl (he ▸ hiv)
            · exact Or.inr he
        · intro j hj s hsj
          rcases h.closed j hj s hsj with h1 | h1
          · exact Or.inl h1
          · rw [hs] at h1
            rcases List.mem_cons.mp h1 with h1 | h1
            · exact Or.inl (h1 ▸ hiv)
            · exact Or.inr h1
      · have hv' : st.visited.contains i = false := by simpa using hv
        simp only [hv', Bool.false_eq_true, if_false]
        have hni : i ∉ st.visited := by simpa using hv'
        have g1get : ∀ y, ((st.g.modify i fun m => { m with funcs := insNat entry m.funcs }).get y).nexts =
            (st.g.get y).nexts ∧
            ((st.g.modify i fun m => { m with funcs := insNat entry m.funcs }).get y).node = (st.g.get y).node := by
          intro y
          rw [Cfg.get_modify]
          split <;> exact ⟨rfl, rfl⟩
        generalize hg1 : (st.g.modify i fun m => { m with funcs := insNat entry m.funcs }) = g1 at g1get
        have hsz1 : g1.nodes.size = st.g.nodes.size := by rw [← hg1, Cfg.size_modify]
        have rnn1 : RetNoNext g1 := by
          intro y hy
          rw [(g1get y).2] at hy
          rw [(g1get y).1]
          exact h.rnn y hy
        -- the new stack holds all successors of i and the rest
        have hstack : ∀ s, s ∈ (st.g.get i).nexts ∨ s ∈ rest →
            s ∈ (if desc = true then (st.g.get i).nexts.reverse else (st.g.get i).nexts).foldl
              (fun s x => x :: s) rest := by
          intro s hs'
          rw [mem_foldl_cons']
          rcases hs' with h1 | h1
          · left; by_cases hd : desc = true <;> simp [hd, h1]
          · exact Or.inr h1
        -- closure for the graph g1 with i recorded and the new stack
        have hentry' : entry ∈ i :: st.visited ∨
            entry ∈ (if desc = true then (st.g.get i).nexts.reverse else (st.g.get i).nexts).foldl
              (fun s x => x :: s) rest := by
          rcases h.entry with he | he
          · exact Or.inl (List.mem_cons_of_mem _ he)
          · rw [hs] at he
            rcases List.mem_cons.mp he with he | he
            · exact Or.inl (he ▸ List.mem_cons_self)
            · exact Or.inr (hstack _ (Or.inr he))
        have hclosed1 : ∀ j ∈ i :: st.visited, ∀ s ∈ (g1.get j).nexts, s ∈ i :: st.visited ∨
            s ∈ (if desc = true then (st.g.get i).nexts.reverse else (st.g.get i).nexts).foldl
              (fun s x => x :: s) rest := by
          intro j hj s hsj
          rw [(g1get j).1] at hsj
          rcases List.mem_cons.mp hj with hj | hj
          · subst hj
            exact Or.inr (hstack _ (Or.inl hsj))
          · rcases h.closed j hj s hsj with h1 | h1
            · exact Or.inl (List.mem_cons_of_mem _ h1)
            · rw [hs] at h1
              rcases List.mem_cons.mp h1 with h1 | h1
              · exact Or.inl (h1 ▸ List.mem_cons_self)
              · exact Or.inr (hstack _ (Or.inr h1))
        by_cases hr : (st.g.get i).node.isReturn = true
        · simp only [hr, if_true]
          have hilt : i < st.g.nodes.size := by
            rcases Nat.lt_or_ge i st.g.nodes.size with hh | hh
            · exact hh
            · rw [Cfg.get_oob st.g i (Nat.not_lt.mpr hh), default_not_return] at hr
              exact absurd hr (by simp)
          cases hret : st.ret with
          | none =>
            simp only []
            apply ih
            refine ⟨by simp [h.same], hentry', hclosed1, ?_, rnn1⟩
            intro r hr'
            simp only [Option.some.injEq] at hr'
            subst hr'
            exact ⟨List.mem_cons_self, by rw [hsz1]; exact hilt⟩
          | some r =>
            simp only []
            obtain ⟨hrv, hrlt⟩ := h.ret r hret
            have hir : i ≠ r := fun e => hni (e ▸ hrv)
            have hi1 : i < g1.nodes.size := by rw [hsz1]; exact hilt
            have hr1 : r < g1.nodes.size := by rw [hsz1]; exact hrlt
            apply ih
            refine ⟨by simp [h.same], hentry', ?_, ?_, rewire_rnn g1 i r hir hi1 hr1 rnn1⟩
            · intro j hj s hsj
              rw [(rewire_get g1 i r hir hi1 hr1 j).1] at hsj
              by_cases hji : j = i
              · simp only [hji, if_true, List.mem_singleton] at hsj
                subst hsj
                exact Or.inl (List.mem_cons_of_mem _ hrv)
              · simp only [hji, if_false] at hsj
                exact hclosed1 j hj s hsj
            · intro r' hr'
              simp only [Option.some.injEq] at hr'
              subst hr'
              exact ⟨List.mem_cons_of_mem _ hrv, by simp only [rewire_size]; exact hr1⟩
        · have hr' : (st.g.get i).node.isReturn = false := by simpa using hr
          simp only [hr', Bool.false_eq_true, if_false]
          apply ih
          refine ⟨by simp [h.same], hentry', hclosed1, ?_, rnn1⟩
          intro r hret
          obtain ⟨h1, h2⟩ := h.ret r hret
          exact ⟨List.mem_cons_of_mem _ h1, by rw [hsz1]; exact h2⟩

/-- **C11 (`mark_complete`).** If the walk of a function ends because its stack is empty, every
    node the entry reaches in the resulting graph has been recorded as part of the function. -/
theorem mark_complete (desc : Bool) (g : Cfg) (e fuel : Nat) (hn : RetNoNext g)
    (hdone : (markLoop desc e fuel { g := g, stack := [e] }).stack = []) (n : Nat)
    (hreach : Reach (markLoop desc e fuel { g := g, stack := [e] }).g e n) :
    n ∈ (markLoop desc e fuel { g := g, stack := [e] }).insts := by
  have inv := markLoop_closed desc e fuel { g := g, stack := [e] }
    ⟨rfl, Or.inr List.mem_cons_self, fun i hi => by simp at hi, fun r hr => by simp at hr, hn⟩
  generalize markLoop desc e fuel { g := g, stack := [e] } = st at inv hdone hreach
  rw [inv.same]
  induction hreach with
  | refl =>
    rcases inv.entry with h | h
    · exact h
    · rw [hdone] at h; simp at h
  | step a b _ hab ih =>
    rcases inv.closed a ih b hab with h | h
    · exact h
    · rw [hdone] at h; simp at h


theorem Reach.mono {g g' : Cfg} {e x : Nat} (h : ∀ a b, b ∈ (g.get a).nexts → b ∈ (g'.get a).nexts)
    (hr : Reach g e x) : Reach g' e x := by
  induction hr with
  | refl => exact Reach.refl
  | step a b _ hab ih => exact Reach.step a b ih (h a b hab)

/-- invariant for the converse: everything recorded or waiting is reachable from the entry -/
structure ReachInv (e : Nat) (st : MarkSt) : Prop where
  vis : ∀ i ∈ st.visited, Reach st.g e i
  stk : ∀ i ∈ st.stack, Reach st.g e i
  same : st.insts = st.visited
  ret : ∀ r, st.ret = some r → r ∈ st.visited ∧ r < st.g.nodes.size
  rnn : RetNoNext st.g

theorem markLoop_reach (desc : Bool) (entry : Nat) (fuel : Nat) :
    ∀ st : MarkSt, ReachInv entry st → ReachInv entry (markLoop desc entry fuel st) := by
  induction fuel with
  | zero => intro st h; exact h
  | succ n ih =>
    intro st h
    unfold markLoop
    cases hs : st.stack with
    | nil => simp only []; exact h
    | cons i rest =>
      simp only []
      have hri : Reach st.g entry i := h.stk i (by rw [hs]; exact List.mem_cons_self)
      have hrrest : ∀ j ∈ rest, Reach st.g entry j := fun j hj => h.stk j (by rw [hs]; exact List.mem_cons_of_mem _ hj)
      by_cases hv : st.visited.contains i = true
      · simp only [hv, if_true]
        exact ih _ ⟨h.vis, hrrest, h.same, h.ret, h.rnn⟩
      · have hv' : st.visited.contains i = false := by simpa using hv
        simp only [hv', Bool.false_eq_true, if_false]
        have hni : i ∉ st.visited := by simpa using hv'
        have g1get : ∀ y, ((st.g.modify i fun m => { m with funcs := insNat entry m.funcs }).get y).nexts =
            (st.g.get y).nexts ∧
            ((st.g.modify i fun m => { m with funcs := insNat entry m.funcs }).get y).node = (st.g.get y).node := by
          intro y
          rw [Cfg.get_modify]
          split <;> exact ⟨rfl, rfl⟩
        generalize hg1 : (st.g.modify i fun m => { m with funcs := insNat entry m.funcs }) = g1 at g1get
        have hsz1 : g1.nodes.size = st.g.nodes.size := by rw [← hg1, Cfg.size_modify]
        have rnn1 : RetNoNext g1 := by
          intro y hy
          rw [(g1get y).2] at hy
          rw [(g1get y).1]
          exact h.rnn y hy
        have mono1 : ∀ x, Reach st.g entry x → Reach g1 entry x :=
          fun x hx => Reach.mono (fun a b hab => by rw [(g1get a).1]; exact hab) hx
        have hvis1 : ∀ j ∈ i :: st.visited, Reach g1 entry j := by
          intro j hj
          rcases List.mem_cons.mp hj with hj | hj
          · exact hj ▸ mono1 i hri
          · exact mono1 j (h.vis j hj)
        have hstk1 : ∀ j ∈ (if desc = true then (st.g.get i).nexts.reverse else (st.g.get i).nexts).foldl
              (fun s x => x :: s) rest, Reach g1 entry j := by
          intro j hj
          rw [mem_foldl_cons'] at hj
          rcases hj with hj | hj
          · have hj' : j ∈ (st.g.get i).nexts := by
              by_cases hd : desc = true
              · simp [hd] at hj; exact hj
              · simp [hd] at hj; exact hj
            exact mono1 j (Reach.step i j hri hj')
          · exact mono1 j (hrrest j hj)
        by_cases hr : (st.g.get i).node.isReturn = true
        · simp only [hr, if_true]
          have hilt : i < st.g.nodes.size := by
            rcases Nat.lt_or_ge i st.g.nodes.size with hh | hh
            · exact hh
            · rw [Cfg.get_oob st.g i (Nat.not_lt.mpr hh), default_not_return] at hr
              exact absurd hr (by simp)
          cases hret : st.ret with
          | none =>
            simp only []
            apply ih
            refine ⟨hvis1, hstk1, by simp [h.same], ?_, rnn1⟩
            intro r hr'
            simp only [Option.some.injEq] at hr'
            subst hr'
            exact ⟨List.mem_cons_self, by rw [hsz1]; exact hilt⟩
          | some r =>
            simp only []
            obtain ⟨hrv, hrlt⟩ := h.ret r hret
            have hir : i ≠ r := fun e => hni (e ▸ hrv)
            have hi1 : i < g1.nodes.size := by rw [hsz1]; exact hilt
            have hr1 : r < g1.nodes.size := by rw [hsz1]; exact hrlt
            have inexts : (g1.get i).nexts = [] := by
              rw [(g1get i).1]; exact h.rnn i hr
            -- rewiring only adds the edge i → r
            have mono3 : ∀ x, Reach g1 entry x → Reach (rewireReturn g1 i r) entry x := by
              intro x hx
              apply Reach.mono _ hx
              intro a b hab
              rw [(rewire_get g1 i r hir hi1 hr1 a).1]
              by_cases hai : a = i
              · subst hai; rw [inexts] at hab; simp at hab
              · simp only [hai, if_false]; exact hab
            apply ih
            refine ⟨fun j hj => mono3 j (hvis1 j hj), fun j hj => mono3 j (hstk1 j hj), by simp [h.same], ?_,
              rewire_rnn g1 i r hir hi1 hr1 rnn1⟩
            intro r' hr'
            simp only [Option.some.injEq] at hr'
            subst hr'
            exact ⟨List.mem_cons_of_mem _ hrv, by simp only [rewire_size]; exact hr1⟩
        · have hr' : (st.g.get i).node.isReturn = false := by simpa using hr
          simp only [hr', Bool.false_eq_true, if_false]
          apply ih
          refine ⟨hvis1, hstk1, by simp [h.same], ?_, rnn1⟩
          intro r hret
          obtain ⟨h1, h2⟩ := h.ret r hret
          exact ⟨List.mem_cons_of_mem _ h1, by rw [hsz1]; exact h2⟩

/-- **C11 (`mark_sound`).** Every instruction the walk records for a function is reachable from
    the function's entry (in the graph the walk leaves behind). -/
theorem mark_sound (desc : Bool) (g : Cfg) (e fuel : Nat) (hn : RetNoNext g) (n : Nat)
    (h : n ∈ (markLoop desc e fuel { g := g, stack := [e] }).insts) :
    Reach (markLoop desc e fuel { g := g, stack := [e] }).g e n := by
  have inv := markLoop_reach desc e fuel { g := g, stack := [e] }
    ⟨fun i hi => by simp at hi, fun i hi => by
        simp only [List.mem_singleton] at hi; subst hi; exact Reach.refl,
      rfl, fun r hr => by simp at hr, hn⟩
  rw [inv.same] at h
  exact inv.vis n h

/-- **C11 (`body_is_reachable_set`).** When the walk finishes, the recorded body of the function
    is exactly the set of nodes its entry reaches. -/
theorem body_is_reachable_set (desc : Bool) (g : Cfg) (e fuel : Nat) (hn : RetNoNext g)
    (hdone : (markLoop desc e fuel { g := g, stack := [e] }).stack = []) (n : Nat) :
    n ∈ (markLoop desc e fuel { g := g, stack := [e] }).insts ↔
      Reach (markLoop desc e fuel { g := g, stack := [e] }).g e n :=
  ⟨mark_sound desc g e fuel hn n, mark_complete desc g e fuel hn hdone n⟩


theorem reach_congr {g g' : Cfg} (h : ∀ y, g'.get y = g.get y) {e x : Nat} : Reach g e x ↔ Reach g' e x :=
  ⟨fun hr => Reach.mono (fun a b hab => by rw [h a]; exact hab) hr,
   fun hr => Reach.mono (fun a b hab => by rw [← h a]; exact hab) hr⟩

/-- **C11 (`markStep_body`).** One step of the markup pass at a function entry whose walk
    finished: exactly one function is added, it starts at that entry, and its recorded body is
    the set of nodes the entry reaches in the resulting graph. (`markAllDone`, evaluated by the
    driver for every generated program, decides the "walk finished" hypothesis.) -/
theorem markStep_body (desc : Bool) (g g' : Cfg) (e : Nat) (hn : RetNoNext g)
    (hfe : (g.get e).node.isFunctionEntry = true)
    (hdone : (markLoop desc e (markFuel g) { g := g, stack := [e] }).stack = [])
    (h : markStep desc g e = .ok g') :
    ∃ f, g'.funcs = g.funcs ++ [f] ∧ f.entry = e ∧ ∀ n, n ∈ f.nodes ↔ Reach g' e n := by
  unfold markStep at h
  simp only [hfe, Bool.not_true, Bool.false_eq_true, if_false] at h
  have hbody := body_is_reachable_set desc g e (markFuel g) hn hdone
  have hfuncs : (markLoop desc e (markFuel g) { g := g, stack := [e] }).g.funcs = g.funcs := by
    -- the walk only touches node fields
    suffices ∀ fuel (st : MarkSt), (markLoop desc e fuel st).g.funcs = st.g.funcs from this _ _
    intro fuel
    induction fuel with
    | zero => intro st; rfl
    | succ n ih =>
      intro st
      unfold markLoop
      split
      · rfl
      · split
        · exact ih _
        · simp only []
          split
          · split
            · rw [ih]; rfl
            · rw [ih]; rfl
          · rw [ih]; rfl
  generalize markLoop desc e (markFuel g) { g := g, stack := [e] } = st at h hbody hfuncs
  cases hr : st.ret with
  | none => rw [hr] at h; simp at h
  | some r =>
    rw [hr] at h
    simp only [] at h
    injection h with h
    subst h
    refine ⟨{ entry := e, exit := r, nodes := st.insts.reverse, defs := st.defs }, ?_, rfl, ?_⟩
    · simp only [hfuncs]
    · intro n
      simp only [List.mem_reverse]
      rw [hbody n]
      apply reach_congr
      intro y
      rfl


/-! ### functions are exactly the call targets -/

/-- every function entry of the constructed graph carries a label that is a call target -/
def EntriesCalled (calls : List (W String)) (a : Array CNode) : Prop :=
  ∀ c ∈ a.toList, c.node.isFunctionEntry = true → c.labels.any (fun l => nameIn calls l.val) = true

theorem entriesCalled_push (calls : List (W String)) (a : Array CNode) (c : CNode) (h : EntriesCalled calls a)
    (hc : c.node.isFunctionEntry = true → c.labels.any (fun l => nameIn calls l.val) = true) :
    EntriesCalled calls (a.push c) := by
  intro x hx
  simp only [Array.toList_push, List.mem_append, List.mem_singleton] at hx
  rcases hx with hx | hx
  · exact h x hx
  · subst hx; exact hc

theorem buildStep_entries (calls : List (W String)) (p : Option (List (W String))) (st st' : BuildSt) (n : Node)
    (hsrc : n.isFunctionEntry = false) (h : EntriesCalled calls st.out)
    (hs : buildStep calls p st n = .ok st') : EntriesCalled calls st'.out := by
  cases n with
  | label w t =>
    simp only [buildStep] at hs
    split at hs
    · exact absurd hs (by simp)
    · injection hs with hs; subst hs; exact h
  | directive d dir t =>
    cases dir <;> (simp only [buildStep] at hs; injection hs with hs; subst hs; exact h)
  | funcEntry f t b => simp [Node.isFunctionEntry] at hsrc
  | _ =>
    simp only [buildStep] at hs
    split at hs <;> (injection hs with hs; subst hs)
    · rename_i hcalled
      apply entriesCalled_push
      · apply entriesCalled_push _ _ _ h
        intro _; exact hcalled
      · intro hfe; simp [Node.isFunctionEntry] at hfe
    · apply entriesCalled_push _ _ _ h
      intro hfe; simp [Node.isFunctionEntry] at hfe

theorem buildLoop_entries (calls : List (W String)) (p : Option (List (W String))) (nodes : List Node)
    (hsrc : ∀ n ∈ nodes, n.isFunctionEntry = false) :
    ∀ (st st' : BuildSt), EntriesCalled calls st.out → buildLoop calls p nodes st = .ok st' →
      EntriesCalled calls st'.out := by
  induction nodes with
  | nil => intro st st' h hs; simp only [buildLoop] at hs; injection hs with hs; subst hs; exact h
  | cons n rest ih =>
    intro st st' h hs
    simp only [buildLoop] at hs
    cases h1 : buildStep calls p st n with
    | error e => rw [h1] at hs; simp at hs
    | ok st1 =>
      rw [h1] at hs
      exact ih (fun m hm => hsrc m (List.mem_cons_of_mem _ hm)) st1 st'
        (buildStep_entries calls p st st1 n (hsrc n List.mem_cons_self) h h1) hs

/-- **C11 (`function_entries_are_call_targets`).** In the graph built from parsed source (which
    contains no function-entry nodes of its own), every function entry carries a label that
    some `jal ra, …` / `call` — or, for interrupt handlers, the handler registration — names. -/
theorem function_entries_are_call_targets (nodes : List Node) (p : Option (List (W String))) (g : Cfg)
    (hsrc : ∀ n ∈ nodes, n.isFunctionEntry = false) (h : buildCfg nodes p = .ok g) :
    ∀ i, i < g.nodes.size → (g.get i).node.isFunctionEntry = true →
      (g.get i).labels.any (fun l => nameIn (allCallNames nodes p) l.val) = true := by
  unfold buildCfg at h
  split at h
  · unfold buildNodes at h
    cases hb : buildLoop (allCallNames nodes p) p nodes {} with
    | error e => rw [hb] at h; simp at h
    | ok st =>
      rw [hb] at h
      simp only [] at h
      injection h with h
      subst h
      have he := buildLoop_entries _ p nodes hsrc {} st (by intro c hc; simp at hc) hb
      intro i hi hfe
      have : (Cfg.get { nodes := st.out } i) ∈ st.out.toList := by
        simp only [Cfg.get]
        have hi' : i < st.out.size := hi
        simp [hi']
      exact he _ this hfe
  · exact absurd h (by simp)

/-! ### …and every node that carries a called label is a function entry -/

def CalledEntries (calls : List (W String)) (a : Array CNode) : Prop :=
  ∀ c ∈ a.toList, c.labels.any (fun l => nameIn calls l.val) = true → c.node.isFunctionEntry = true

theorem calledEntries_push (calls : List (W String)) (a : Array CNode) (c : CNode) (h : CalledEntries calls a)
    (hc : c.labels.any (fun l => nameIn calls l.val) = true → c.node.isFunctionEntry = true) :
    CalledEntries calls (a.push c) := by
  intro x hx
  simp only [Array.toList_push, List.mem_append, List.mem_singleton] at hx
  rcases hx with hx | hx
  · exact h x hx
  · subst hx; exact hc

theorem buildStep_called (calls : List (W String)) (p : Option (List (W String))) (st st' : BuildSt) (n : Node)
    (h : CalledEntries calls st.out) (hs : buildStep calls p st n = .ok st') : CalledEntries calls st'.out := by
  cases n with
  | label w t =>
    simp only [buildStep] at hs
    split at hs
    · exact absurd hs (by simp)
    · injection hs with hs; subst hs; exact h
  | directive w d t =>
    cases d <;> simp only [buildStep] at hs <;> (injection hs with hs; subst hs; exact h)
  | _ =>
    simp only [buildStep] at hs
    split at hs <;> (injection hs with hs; subst hs)
    · apply calledEntries_push
      · apply calledEntries_push _ _ _ h
        intro _; rfl
      · intro hc; simp at hc
    · rename_i hnot
      apply calledEntries_push _ _ _ h
      intro hc
      exact absurd hc hnot

theorem buildLoop_called (calls : List (W String)) (p : Option (List (W String))) (nodes : List Node) :
    ∀ (st st' : BuildSt), CalledEntries calls st.out → buildLoop calls p nodes st = .ok st' →
      CalledEntries calls st'.out := by
  induction nodes with
  | nil => intro st st' h hs; simp only [buildLoop] at hs; injection hs with hs; subst hs; exact h
  | cons n rest ih =>
    intro st st' h hs
    simp only [buildLoop] at hs
    cases h1 : buildStep calls p st n with
    | error e => rw [h1] at hs; simp at hs
    | ok st1 =>
      rw [h1] at hs
      exact ih st1 st' (buildStep_called calls p st st1 n h h1) hs

/-- **C11 (`called_labels_are_entries`).** In the graph built from parsed source, every node that
    carries a label named by a call (or by the handler registration) is a function entry. -/
theorem called_labels_are_entries (nodes : List Node) (p : Option (List (W String))) (g : Cfg)
    (h : buildCfg nodes p = .ok g) :
    ∀ i, i < g.nodes.size → (g.get i).labels.any (fun l => nameIn (allCallNames nodes p) l.val) = true →
      (g.get i).node.isFunctionEntry = true := by
  unfold buildCfg at h
  split at h
  · unfold buildNodes at h
    cases hb : buildLoop (allCallNames nodes p) p nodes {} with
    | error e => rw [hb] at h; simp at h
    | ok st =>
      rw [hb] at h
      simp only [] at h
      injection h with h
      subst h
      have he := buildLoop_called _ p nodes {} st (by intro c hc; simp at hc) hb
      intro i hi hl
      have : (Cfg.get { nodes := st.out } i) ∈ st.out.toList := by
        simp only [Cfg.get]
        have hi' : i < st.out.size := hi
        simp [hi']
      exact he _ this hl
  · exact absurd h (by simp)

/-- **C11 (`entry_iff_called`).** A node of the constructed graph is a function entry exactly when
    it carries a label that some call (or the handler registration) names. -/
theorem entry_iff_called (nodes : List Node) (p : Option (List (W String))) (g : Cfg)
    (hsrc : ∀ n ∈ nodes, n.isFunctionEntry = false) (h : buildCfg nodes p = .ok g) (i : Nat)
    (hi : i < g.nodes.size) :
    (g.get i).node.isFunctionEntry = true ↔
      (g.get i).labels.any (fun l => nameIn (allCallNames nodes p) l.val) = true :=
  ⟨function_entries_are_call_targets nodes p g hsrc h i hi, called_labels_are_entries nodes p g h i hi⟩

end Rva
