/-
  C04 — when is the report empty? `runLints_nil_iff`: the report is empty exactly when each of
  the eleven passes reports nothing; for the three passes that depend on no fixpoint the
  trigger is pinned exactly: `saveToZero_silent`, `invalidSegment_silent`, `unknownEcall_silent`
  (a pass is silent iff no node of the finished graph meets its condition).
  The remaining eight conditions, and the induction over the conforming family, are NOT proved
  (`C04_conforming_clean` below is the full statement, kept as a definition); they are checked
  on the real code over the conforming-by-construction generator whose grammar is the family.
-/
import Rva.Proofs.C05
import Rva.Model.Pipeline
namespace Rva

theorem runLints_nil_iff (g : Cfg) :
    runLints g = [] ↔
      lintSaveToZero g = [] ∧ lintDeadValue g = [] ∧ lintInstructionInText g = [] ∧ lintEcall g = [] ∧
      lintControlFlow g = [] ∧ lintGarbageInput g = [] ∧ lintStack g = [] ∧ lintCalleeSaved g = [] ∧
      lintCalleeSavedGarbageRead g = [] ∧ lintLostCalleeSaved g = [] ∧ lintOverlapping g = [] := by
  unfold runLints
  simp only [List.append_eq_nil_iff, and_assoc]

theorem filterMap_nil_iff {α β} (f : α → Option β) (l : List α) :
    l.filterMap f = [] ↔ ∀ x ∈ l, f x = none := by
  induction l with
  | nil => simp
  | cons x xs ih =>
    simp only [List.filterMap_cons, List.mem_cons, forall_eq_or_imp]
    cases hx : f x with
    | none => simp [ih]
    | some y => simp

/-- no computation writes the zero register ⇔ the pass is silent -/
theorem saveToZero_silent (g : Cfg) :
    lintSaveToZero g = [] ↔
      ∀ cn ∈ g.nodes.toList, ∀ rd, cn.node.writesTo = some rd → rd.val = 0 →
        cn.node.canSkipSaveChecks = true ∨ cn.node.isNop = true := by
  unfold lintSaveToZero
  rw [filterMap_nil_iff]
  constructor
  · intro h cn hcn rd hw h0
    have := h cn hcn
    simp only [hw, h0] at this
    by_cases hs : cn.node.canSkipSaveChecks = true
    · exact Or.inl hs
    · by_cases hn : cn.node.isNop = true
      · exact Or.inr hn
      · simp [hs, hn] at this
  · intro h cn hcn
    cases hw : cn.node.writesTo with
    | none => rfl
    | some rd =>
      by_cases h0 : rd.val = 0
      · rcases h cn hcn rd hw h0 with this | this
        · simp [h0, this]
        · simp [h0, this]
      · simp [h0]

/-- every instruction lies in `.text` ⇔ the pass is silent -/
theorem invalidSegment_silent (g : Cfg) :
    lintInstructionInText g = [] ↔ ∀ cn ∈ g.nodes.toList, cn.node.isInstruction = true → cn.isText = true := by
  unfold lintInstructionInText
  rw [filterMap_nil_iff]
  constructor
  · intro h cn hcn hi
    have := h cn hcn
    by_cases ht : cn.isText = true
    · exact ht
    · simp [hi, ht] at this
  · intro h cn hcn
    by_cases hi : cn.node.isInstruction = true
    · simp [hi, h cn hcn hi]
    · simp [hi]

/-- every ecall has a known constant number ⇔ the pass is silent -/
theorem unknownEcall_silent (g : Cfg) :
    lintEcall g = [] ↔ ∀ cn ∈ g.nodes.toList, cn.node.isEcall = true → (knownEcall cn).isSome = true := by
  unfold lintEcall
  rw [filterMap_nil_iff]
  constructor
  · intro h cn hcn he
    have := h cn hcn
    cases hk : knownEcall cn with
    | none => simp [he, hk] at this
    | some _ => rfl
  · intro h cn hcn
    by_cases he : cn.node.isEcall = true
    · have := h cn hcn he
      cases hk : knownEcall cn with
      | none => simp [hk] at this
      | some _ => simp [he]
    · simp [he]

theorem insertStable_ne_nil (x : Diag) (l : List Diag) : insertStable x l ≠ [] := by
  cases l with
  | nil => simp [insertStable]
  | cons y ys => unfold insertStable; split <;> simp

theorem sortDiags_nil_iff (l : List Diag) : sortDiags l = [] ↔ l = [] := by
  constructor
  · intro h
    cases hl : l.reverse with
    | nil => simpa using hl
    | cons x xs =>
      have : l = xs.reverse ++ [x] := by
        have := congrArg List.reverse hl; simpa using this
      subst this
      unfold sortDiags at h
      rw [List.foldl_append] at h
      simp only [List.foldl_cons, List.foldl_nil] at h
      exact absurd h (insertStable_ne_nil _ _)
  · intro h; subst h; rfl

/-- The whole run reports nothing exactly when: no parse error, the graph builds (no undefined
    label, no unexpected node), and none of the eleven passes reports. -/
theorem run_clean_iff (desc : Bool) (files : List (String × String)) (base : String) :
    (runAll desc files base).1 = [] ↔
      (parseFiles files base).errors = [] ∧
      ((∃ g, genFullCfg desc (parseFiles files base).nodes = .ok g ∧ runLints g = []) ∨
       (∃ s, genFullCfg desc (parseFiles files base).nodes = .error (.hang s))) := by
  unfold runAll
  simp only
  split
  · rename_i g hg
    simp [sortDiags_nil_iff, hg]
  · rename_i e hg
    simp [sortDiags_nil_iff, hg]
  · rename_i s hg
    simp [sortDiags_nil_iff, hg]

/-- The full statement of C04 for a family `Conforming` of programs with a rendering to source
    files: kept visible, not proved (see header). -/
def C04_conforming_clean (Conforming : Type) (render : Conforming → List (String × String)) : Prop :=
  ∀ p : Conforming, (runAll false (render p) ((render p).head!.1)).1 = []

end Rva
