/-
  C05 / C04 — trigger and silence conditions of the lint passes that read analysis facts.

  For each pass below: `X_reported` — whenever the stated condition holds at a node of the
  finished graph, a diagnostic of that kind is produced, located on the offending operand or
  instruction; `X_silent` — the pass reports nothing exactly when no node meets the condition
  (so, with `runLints_nil_iff`, "zero diagnostics" is characterised by conditions on the facts).
  Covered: dead assignment, lost callee-saved value, read of an unassigned saved register,
  node in many functions, unreachable code, entering a function by a jump / as first
  instruction, the stack-position stops.
-/
import Rva.Proofs.C04
import Rva.Proofs.FirstLabel
namespace Rva

theorem code_of (variant code : String) (r : Range) (f : FileId) (t : String) (alts : List (Range × FileId))
    (h : ((Gen.lintCodes.find? (·.1 == variant)).map (·.2)).getD "?" = code) :
    (lintDiag variant r f t alts).code = code := by
  simp only [lintDiag, h]

theorem range_mem (n i : Nat) (h : i < n) : i ∈ List.range n := by simpa using h

/-! ### dead assignment -/

/-- the condition: an instruction that is not a call site writes a register that is not live
    afterwards -/
def DeadAssign (g : Cfg) (i : Nat) (d : W Reg) : Prop :=
  callsToFromCfg g (g.get i) = none ∧ (g.get i).node.writesTo = some d ∧
  RegSet.mem (g.get i).liveOut d.val = false ∧ (g.get i).node.canSkipSaveChecks = false ∧ d.val ≠ 0

theorem deadAssignment_reported (g : Cfg) (i : Nat) (hi : i < g.nodes.size) (d : W Reg)
    (h : DeadAssign g i d) :
    ∃ x ∈ lintDeadValue g, x.code = "dead-assignment" ∧ x.range = d.tok.range ∧ x.file = d.tok.file := by
  obtain ⟨hc, hw, hl, hs, hz⟩ := h
  refine ⟨onReg "DeadAssignment" d, ?_, code_of _ _ _ _ _ _ (by decide), rfl, rfl⟩
  unfold lintDeadValue
  rw [List.mem_flatMap]
  exact ⟨i, range_mem _ _ hi, by simp [deadValueAt, hc, hw, hl, hs, hz]⟩

/-- no dead assignment and no use of a clobbered register after a call ⇔ the pass is silent -/
theorem deadValue_silent (g : Cfg) :
    lintDeadValue g = [] ↔ ∀ i, i < g.nodes.size →
      (∀ d, ¬ DeadAssign g i d) ∧
      (∀ f nm, callsToFromCfg g (g.get i) = some (f, nm) →
        usageDiags "InvalidUseAfterCall" g i
          ((RegSet.diff callerSavedSet (funcReturns g f)) &&& (g.get i).liveOut) = []) := by
  unfold lintDeadValue
  rw [List.flatMap_eq_nil_iff]
  constructor
  · intro h i hi
    have hh := h i (range_mem _ _ hi)
    constructor
    · intro d ⟨hc, hw, hl, hs, hz⟩
      simp [deadValueAt, hc, hw, hl, hs, hz] at hh
    · intro f nm hc
      simpa [deadValueAt, hc] using hh
  · intro h i hi
    have hi' : i < g.nodes.size := by simpa using hi
    obtain ⟨h1, h2⟩ := h i hi'
    unfold deadValueAt
    simp only []
    cases hc : callsToFromCfg g (g.get i) with
    | some p =>
      obtain ⟨f, nm⟩ := p
      simp [h2 f nm hc]
    | none =>
      simp only []
      cases hw : (g.get i).node.writesTo with
      | none => rfl
      | some d =>
        simp only []
        split
        · rename_i hcond
          simp only [Bool.and_eq_true, Bool.not_eq_true', bne_iff_ne, ne_eq] at hcond
          exact absurd ⟨hc, hw, hcond.1.1, hcond.1.2, hcond.2⟩ (h1 d)
        · rfl

/-! ### lost callee-saved value -/

def LostValue (cn : CNode) (rd : W Reg) : Prop :=
  cn.node.writesTo = some rd ∧ RegSet.mem savedSet rd.val = true ∧ cn.funcs ≠ [] ∧
  isOriginal cn.regIn rd.val = true ∧
  cn.memOut.any (fun p => p.2 == .ors rd.val 0#32) = false ∧
  cn.regOut.any (fun p => p.2 == .ors rd.val 0#32) = false

theorem lostRegister_reported (g : Cfg) (i : Nat) (hi : i < g.nodes.size) (rd : W Reg)
    (h : LostValue (g.get i) rd) :
    ∃ x ∈ lintLostCalleeSaved g, x.code = "lost-register-value" ∧ x.range = rd.tok.range ∧
      x.file = rd.tok.file := by
  obtain ⟨hw, hsv, hf, ho, hm, hr⟩ := h
  refine ⟨onReg "LostRegisterValue" rd, ?_, code_of _ _ _ _ _ _ (by decide), rfl, rfl⟩
  unfold lintLostCalleeSaved
  rw [List.mem_filterMap]
  refine ⟨g.get i, get_mem_toList g i hi, ?_⟩
  have hf' : (g.get i).funcs.isEmpty = false := by
    cases h : (g.get i).funcs with
    | nil => exact absurd h hf
    | cons _ _ => rfl
  simp [hw, hsv, hf', ho, hm, hr]

theorem lostRegister_silent (g : Cfg) :
    lintLostCalleeSaved g = [] ↔ ∀ cn ∈ g.nodes.toList, ∀ rd, ¬ LostValue cn rd := by
  unfold lintLostCalleeSaved
  rw [filterMap_nil_iff]
  constructor
  · intro h cn hcn rd ⟨hw, hsv, hf, ho, hm, hr⟩
    have := h cn hcn
    have hf' : cn.funcs.isEmpty = false := by
      cases hh : cn.funcs with
      | nil => exact absurd hh hf
      | cons _ _ => rfl
    simp [hw, hsv, hf', ho, hm, hr] at this
  · intro h cn hcn
    cases hw : cn.node.writesTo with
    | none => rfl
    | some rd =>
      simp only []
      split
      · rename_i hcond
        simp only [Bool.and_eq_true, Bool.not_eq_true'] at hcond
        split
        · rfl
        · rename_i hfound
          exfalso
          simp only [Bool.or_eq_true, not_or, Bool.not_eq_true] at hfound
          have hf : cn.funcs ≠ [] := by
            intro e; rw [e] at hcond; simp at hcond
          exact h cn hcn rd ⟨hw, hcond.1.1, hf, hcond.2, hfound.1, hfound.2⟩
      · rfl

/-! ### node in many functions -/

theorem overlapping_reported (g : Cfg) (i : Nat) (hi : i < g.nodes.size)
    (hn : (g.get i).funcs.length > 1) (he : (g.get i).funcs.contains i = true)
    (hl : (g.get i).labels ≠ []) :
    ∃ l ∈ (g.get i).labels, (∀ x ∈ (g.get i).labels, labelBefore x l = false) ∧
      ∃ x ∈ lintOverlapping g, x.code = "node-in-many-functions" ∧ x.range = l.tok.range ∧ x.file = l.tok.file := by
  obtain ⟨l, hf, hmem, hmin⟩ := firstLabel_spec _ hl
  refine ⟨l, hmem, hmin, lintDiag "NodeInManyFunctions" l.tok.range l.tok.file l.tok.text, ?_,
      code_of _ _ _ _ _ _ (by decide), rfl, rfl⟩
  unfold lintOverlapping
  rw [List.mem_filterMap]
  refine ⟨i, range_mem _ _ hi, ?_⟩
  simp only [hn, he, decide_true, Bool.and_self, if_true]
  rw [hf]

/-- **C11, last clause, the half that holds (`overlapping_report_sound`).** Sharing is never reported
    where none exists: every 'Node in many functions' item belongs to a function entry with at least
    two owning functions. (The converse is `overlapping_reported` for entries; for a tail shared through
    plain jumps it is false of the code: known finding F-16.) -/
theorem overlapping_report_sound (g : Cfg) (x : Diag) (hx : x ∈ lintOverlapping g) :
    ∃ i, i < g.nodes.size ∧ (g.get i).funcs.length > 1 ∧ (g.get i).funcs.contains i = true := by
  unfold lintOverlapping at hx
  rw [List.mem_filterMap] at hx
  obtain ⟨i, hi, hx⟩ := hx
  refine ⟨i, List.mem_range.mp hi, ?_⟩
  by_cases hc : ((g.get i).funcs.length > 1 && (g.get i).funcs.contains i) = true
  · simp only [Bool.and_eq_true, decide_eq_true_eq] at hc
    exact hc
  · simp only [hc] at hx
    simp at hx

/-! ### control flow: unreachable code, entering a function other than by a call -/

theorem unreachable_reported (g : Cfg) (i : Nat) (hi : i < g.nodes.size)
    (hfe : (g.get i).node.isFunctionEntry = false) (hpe : (g.get i).node.isProgramEntry = false)
    (hp : (g.get i).prevs = []) :
    ∃ x ∈ lintControlFlow g, x.code = "unreachable-code" ∧ x.range = (g.get i).node.tok.range ∧
      x.file = (g.get i).node.tok.file := by
  refine ⟨unreachableDiag (g.get i), ?_, rfl, rfl, rfl⟩
  unfold lintControlFlow
  rw [List.mem_flatMap]
  exact ⟨g.get i, get_mem_toList g i hi, by simp [controlFlowAt, hfe, hpe, hp]⟩

theorem jumpToFunction_reported (g : Cfg) (i p : Nat) (hi : i < g.nodes.size)
    (hfe : (g.get i).node.isFunctionEntry = true) (hf : (g.get i).funcs ≠ [])
    (hp : p ∈ (g.get i).prevs) (hnp : (g.get p).node.isProgramEntry = false)
    (hj : (g.get p).node.isUnconditionalJump = true)
    (hout : ∃ f ∈ (g.get i).funcs, f ∉ (g.get p).funcs) :
    ∃ x ∈ lintControlFlow g, x.code = "invalid-jump-to-function" ∧ x.range = (g.get i).node.tok.range ∧
      x.file = (g.get i).node.tok.file := by
  refine ⟨onNode "InvalidJumpToFunction" (g.get i).node, ?_, code_of _ _ _ _ _ _ (by decide), rfl, rfl⟩
  unfold lintControlFlow
  rw [List.mem_flatMap]
  refine ⟨g.get i, get_mem_toList g i hi, ?_⟩
  simp only [controlFlowAt, hfe, if_true]
  rw [List.mem_flatMap]
  refine ⟨p, hp, ?_⟩
  have hf' : (g.get i).funcs.isEmpty = false := by
    cases h : (g.get i).funcs with
    | nil => exact absurd h hf
    | cons _ _ => rfl
  obtain ⟨f, hfm, hfn⟩ := hout
  simp [entryPredDiags, hf', hnp, hj]
  exact ⟨f, hfm, hfn⟩

theorem functionFirst_reported (g : Cfg) (i p : Nat) (hi : i < g.nodes.size)
    (hfe : (g.get i).node.isFunctionEntry = true) (hf : (g.get i).funcs ≠ [])
    (hp : p ∈ (g.get i).prevs) (hpe : (g.get p).node.isProgramEntry = true) :
    ∃ x ∈ lintControlFlow g, x.code = "first-instruction-is-function" ∧
      x.range = (g.get i).node.tok.range ∧ x.file = (g.get i).node.tok.file := by
  refine ⟨onNode "FirstInstructionIsFunction" (g.get i).node, ?_, code_of _ _ _ _ _ _ (by decide), rfl, rfl⟩
  unfold lintControlFlow
  rw [List.mem_flatMap]
  refine ⟨g.get i, get_mem_toList g i hi, ?_⟩
  simp only [controlFlowAt, hfe, if_true]
  rw [List.mem_flatMap]
  refine ⟨p, hp, ?_⟩
  have hf' : (g.get i).funcs.isEmpty = false := by
    cases h : (g.get i).funcs with
    | nil => exact absurd h hf
    | cons _ _ => rfl
  simp only [entryPredDiags, hf', Bool.false_eq_true, if_false, hpe, if_true, List.mem_map]
  cases h : (g.get i).funcs with
  | nil => exact absurd h hf
  | cons a _ => exact ⟨a, List.mem_cons_self, trivial⟩

/-- every instruction other than the program entry has a predecessor, and no function entry is
    reached from the program entry or by an unconditional jump from outside one of the functions it
    belongs to ⇔ the pass is silent -/
theorem controlFlow_silent (g : Cfg) :
    lintControlFlow g = [] ↔ ∀ cn ∈ g.nodes.toList,
      (cn.node.isFunctionEntry = true → ∀ p ∈ cn.prevs, cn.funcs = [] ∨
        ((g.get p).node.isProgramEntry = false ∧
          ((g.get p).node.isUnconditionalJump = false ∨ ∀ f ∈ cn.funcs, f ∈ (g.get p).funcs))) ∧
      (cn.node.isFunctionEntry = false → cn.node.isProgramEntry = false → cn.prevs ≠ []) := by
  unfold lintControlFlow
  rw [List.flatMap_eq_nil_iff]
  constructor
  · intro h cn hcn
    have hh := h cn hcn
    constructor
    · intro hfe p hp
      simp only [controlFlowAt, hfe, if_true, List.flatMap_eq_nil_iff] at hh
      have := hh p hp
      unfold entryPredDiags at this
      by_cases hf : cn.funcs = []
      · exact Or.inl hf
      · right
        have hf' : cn.funcs.isEmpty = false := by
          cases h : cn.funcs with
          | nil => exact absurd h hf
          | cons _ _ => rfl
        simp only [hf', Bool.false_eq_true, if_false] at this
        by_cases hpe : (g.get p).node.isProgramEntry = true
        · simp only [hpe, if_true, List.map_eq_nil_iff] at this
          exact absurd this hf
        · have hpe' : (g.get p).node.isProgramEntry = false := by simpa using hpe
          simp only [hpe', Bool.false_eq_true, if_false] at this
          by_cases hj : (g.get p).node.isUnconditionalJump = true
          · simp [hj] at this
            exact ⟨hpe', Or.inr this⟩
          · exact ⟨hpe', Or.inl (by simpa using hj)⟩
    · intro hfe hpe hp
      simp [controlFlowAt, hfe, hpe, hp] at hh
  · intro h cn hcn
    obtain ⟨h1, h2⟩ := h cn hcn
    unfold controlFlowAt
    by_cases hfe : cn.node.isFunctionEntry = true
    · simp only [hfe, if_true, List.flatMap_eq_nil_iff]
      intro p hp
      unfold entryPredDiags
      rcases h1 hfe p hp with hf | ⟨hpe, hj | hall⟩
      · simp [hf]
      · simp [hpe, hj]
      · have hany : (cn.funcs.any fun f => !(g.get p).funcs.contains f) = false := by
          rw [List.any_eq_false]
          intro f hfm
          simpa using hall f hfm
        simp only [hpe, hany, Bool.and_false, Bool.false_eq_true, if_false]
        split <;> rfl
    · have hfe' : cn.node.isFunctionEntry = false := by simpa using hfe
      simp only [hfe', Bool.false_eq_true, if_false]
      by_cases hpe : cn.node.isProgramEntry = true
      · simp [hpe]
      · have hpe' : cn.node.isProgramEntry = false := by simpa using hpe
        have := h2 hfe' hpe'
        have hemp : cn.prevs.isEmpty = false := by
          cases hh : cn.prevs with
          | nil => exact absurd hh this
          | cons _ _ => rfl
        simp [hpe', hemp]

/-! ### read of a saved register that still holds its entry value -/

def GarbageRead (cn : CNode) (rd : W Reg) : Prop :=
  rd ∈ readsSet cn.node ∧ RegSet.mem savedSet rd.val = true ∧ cn.node.usesMemoryLocation = none ∧
  isOriginal cn.regIn rd.val = true

theorem garbageRead_reported (g : Cfg) (i : Nat) (hi : i < g.nodes.size) (rd : W Reg)
    (h : GarbageRead (g.get i) rd) :
    ∃ x ∈ lintCalleeSavedGarbageRead g, x.code = "invalid-use-before-assignment" ∧
      x.range = rd.tok.range ∧ x.file = rd.tok.file := by
  obtain ⟨hr, hs, hm, ho⟩ := h
  refine ⟨onReg "InvalidUseBeforeAssignment" rd, ?_, code_of _ _ _ _ _ _ (by decide), rfl, rfl⟩
  unfold lintCalleeSavedGarbageRead
  rw [List.mem_flatMap]
  refine ⟨g.get i, get_mem_toList g i hi, ?_⟩
  unfold garbageReadAt
  rw [List.mem_filterMap]
  exact ⟨rd, hr, by simp [hs, hm, ho]⟩

theorem garbageRead_silent (g : Cfg) :
    lintCalleeSavedGarbageRead g = [] ↔ ∀ cn ∈ g.nodes.toList, ∀ rd, ¬ GarbageRead cn rd := by
  unfold lintCalleeSavedGarbageRead
  rw [List.flatMap_eq_nil_iff]
  constructor
  · intro h cn hcn rd ⟨hr, hs, hm, ho⟩
    have := h cn hcn
    unfold garbageReadAt at this
    rw [filterMap_nil_iff] at this
    have := this rd hr
    simp [hs, hm, ho] at this
  · intro h cn hcn
    unfold garbageReadAt
    rw [filterMap_nil_iff]
    intro rd hr
    split
    · rename_i hcond
      simp only [Bool.and_eq_true, Option.isNone_iff_eq_none] at hcond
      exact absurd ⟨hr, hcond.1.1, hcond.1.2, hcond.2⟩ (h cn hcn rd)
    · rfl


/-! ### stack position (the pass stops at the first node whose stack pointer is not a known
    position at or below the entry value) -/

/-- the stack pointer after the node is the entry value plus a non-positive offset -/
def StackOk (cn : CNode) : Prop :=
  ∃ off, AMap.get cn.regOut 2 = some (.ors 2 off) ∧ (0#32).slt off = false

/-- what an OK node contributes: an access at or above the entry stack pointer -/
def stackUse (cn : CNode) (off : Word) : List Diag :=
  match cn.node.usesMemoryLocation with
  | some (r2, off2) =>
    if r2 == 2 && !((off2 + off).slt 0#32) then [onNode "InvalidStackOffsetUsage" cn.node] else []
  | none => []

theorem stack_go_ok (cn : CNode) (rest : List CNode) (acc : List Diag) (off : Word)
    (h1 : AMap.get cn.regOut 2 = some (.ors 2 off)) (h2 : (0#32).slt off = false) :
    lintStack.go (cn :: rest) acc = lintStack.go rest (acc ++ stackUse cn off) := by
  rw [lintStack.go]
  simp only [h1, h2]
  unfold stackUse
  cases hu : cn.node.usesMemoryLocation with
  | none => simp
  | some p =>
    obtain ⟨r2, off2⟩ := p
    simp only [bne_self_eq_false, Bool.false_eq_true, if_false]
    split <;> simp

theorem stack_go_acc (l : List CNode) (acc : List Diag) (d : Diag) (h : d ∈ acc) : d ∈ lintStack.go l acc := by
  induction l generalizing acc with
  | nil => rw [lintStack.go]; exact h
  | cons cn rest ih =>
    rw [lintStack.go]
    split
    · exact List.mem_append_left _ h
    · split
      · exact List.mem_append_left _ h
      · split
        · exact List.mem_append_left _ h
        · split
          · split
            · exact ih _ (List.mem_append_left _ h)
            · exact ih _ h
          · exact ih _ h
    · exact List.mem_append_left _ h

/-- **the first bad stack position is reported**: all nodes before `cn` keep sp at a known
    position at or below the entry value, `cn` does not ⇒ a stack diagnostic on `cn` -/
theorem stack_first_stop (g : Cfg) (pre post : List CNode) (cn : CNode)
    (hsplit : g.nodes.toList = pre ++ cn :: post) (hpre : ∀ c ∈ pre, StackOk c) (hbad : ¬ StackOk cn) :
    ∃ x ∈ lintStack g, x.range = cn.node.tok.range ∧ x.file = cn.node.tok.file ∧
      (x.code = "unknown-stack" ∨ x.code = "invalid-stack-pointer" ∨ x.code = "invalid-stack-position") := by
  unfold lintStack
  rw [hsplit]
  suffices ∀ acc, ∃ x ∈ lintStack.go (pre ++ cn :: post) acc, x.range = cn.node.tok.range ∧
      x.file = cn.node.tok.file ∧
      (x.code = "unknown-stack" ∨ x.code = "invalid-stack-pointer" ∨ x.code = "invalid-stack-position") from this []
  clear hsplit
  induction pre with
  | nil =>
    intro acc
    simp only [List.nil_append]
    rw [lintStack.go]
    cases hsp : AMap.get cn.regOut 2 with
    | none =>
      exact ⟨onNode "UnknownStack" cn.node, by simp, rfl, rfl, Or.inl (code_of _ _ _ _ _ _ (by decide))⟩
    | some v =>
      cases v with
      | ors r off =>
        simp only []
        by_cases hr : r = 2
        · subst hr
          simp only [bne_self_eq_false, Bool.false_eq_true, if_false]
          by_cases hpos : (0#32).slt off = true
          · simp only [hpos, if_true]
            exact ⟨onNode "InvalidStackPosition" cn.node, by simp, rfl, rfl,
              Or.inr (Or.inr (code_of _ _ _ _ _ _ (by decide)))⟩
          · exact absurd ⟨off, hsp, by simpa using hpos⟩ hbad
        · have : (r != 2) = true := by simpa using hr
          simp only [this, if_true]
          exact ⟨onNode "InvalidStackPointer" cn.node, by simp, rfl, rfl,
            Or.inr (Or.inl (code_of _ _ _ _ _ _ (by decide)))⟩
      | _ =>
        exact ⟨onNode "InvalidStackPointer" cn.node, by simp, rfl, rfl,
          Or.inr (Or.inl (code_of _ _ _ _ _ _ (by decide)))⟩
  | cons c cs ih =>
    intro acc
    obtain ⟨off, h1, h2⟩ := hpre c List.mem_cons_self
    simp only [List.cons_append]
    rw [stack_go_ok c _ acc off h1 h2]
    exact ih (fun x hx => hpre x (List.mem_cons_of_mem _ hx)) _

/-- **an access at or above the entry stack pointer is reported**, as long as the stack
    pointer is known up to and including that node -/
theorem stackOffset_reported (g : Cfg) (pre post : List CNode) (cn : CNode) (off off2 : Word)
    (hsplit : g.nodes.toList = pre ++ cn :: post) (hpre : ∀ c ∈ pre, StackOk c)
    (h1 : AMap.get cn.regOut 2 = some (.ors 2 off)) (h2 : (0#32).slt off = false)
    (hu : cn.node.usesMemoryLocation = some (2, off2)) (hover : (off2 + off).slt 0#32 = false) :
    ∃ x ∈ lintStack g, x.code = "invalid-stack-offset-usage" ∧ x.range = cn.node.tok.range ∧
      x.file = cn.node.tok.file := by
  unfold lintStack
  rw [hsplit]
  suffices ∀ acc, ∃ x ∈ lintStack.go (pre ++ cn :: post) acc, x.code = "invalid-stack-offset-usage" ∧
      x.range = cn.node.tok.range ∧ x.file = cn.node.tok.file from this []
  clear hsplit
  induction pre with
  | nil =>
    intro acc
    simp only [List.nil_append]
    rw [stack_go_ok cn post acc off h1 h2]
    refine ⟨onNode "InvalidStackOffsetUsage" cn.node, ?_, code_of _ _ _ _ _ _ (by decide), rfl, rfl⟩
    apply stack_go_acc
    simp [stackUse, hu, hover]
  | cons c cs ih =>
    intro acc
    obtain ⟨o, e1, e2⟩ := hpre c List.mem_cons_self
    simp only [List.cons_append]
    rw [stack_go_ok c _ acc o e1 e2]
    exact ih (fun x hx => hpre x (List.mem_cons_of_mem _ hx)) _

end Rva
