/-
  C13 — an end-of-line comment is invisible to the parse loop.

  `parseStep_local` (C15b) says that a statement which is not a data directive or a macro definition is
  read the same way whatever follows its tokens. So the statement followed by a comment token and the
  statement followed directly by the rest of the file leave the loop in the same state: the same node is
  recorded, the comment token is consumed by a step that records nothing (`blank_item_invisible`).
  The statements excluded by `PlainHead` are exactly where the code does differ: a data list that
  continues on the next line is ended by a comment (known finding F-69).
-/
import Rva.Proofs.C13b
import Rva.Proofs.C15b
namespace Rva

/-- **C13 (`trailing_comment_invisible`).** A statement (not a data directive, not a macro definition)
    that parses to a node from exactly its own tokens, followed by a comment token: the parse loop
    reaches the same state as for the statement without the comment - same nodes, same errors, same
    remaining text - for every continuation of the file, every stack of including files and every
    accumulated result. -/
theorem trailing_comment_invisible (stmt : List PItem) (hp : PlainHead stmt) (n : Node)
    (hok : parseStep stmt = (.ok n, [])) (hinc : n.includePath = none)
    (c : FTok) (hc : c.kind = .comment) (fuel : Nat) (rest : List PItem)
    (below : List (List PItem)) (r : Reader) (nodes : List Node) (errs : List ParseErr) :
    parseLoop (fuel + 2) ((stmt ++ .tok c :: rest) :: below) r nodes errs =
      parseLoop (fuel + 1) ((stmt ++ rest) :: below) r nodes errs := by
  have hne : (parseStep stmt).1 ≠ .error .unexpectedEOF := by rw [hok]; simp
  have h1 := parseStep_local stmt (.tok c :: rest) hp hne
  have h2 := parseStep_local stmt rest hp hne
  rw [hok] at h1 h2
  simp only [List.nil_append] at h1 h2
  rw [parseLoop, h1]
  simp only [hinc]
  rw [blank_item_invisible fuel (.tok c) ⟨c, rfl, Or.inr hc⟩]
  rw [parseLoop, h2]
  simp only [hinc]

/-- the same for a malformed statement that is reported where it stands and the rest of whose line is
    discarded: what is discarded includes the comment -/
theorem recover_comment (rem : List PItem) (c : FTok) (hc : c.kind = .comment) (rest : List PItem)
    (hrem : ∀ it ∈ rem, ∀ t, it = .tok t → t.kind ≠ .newline) :
    recover (rem ++ .tok c :: rest) = recover (rem ++ rest) := by
  induction rem with
  | nil =>
    simp only [List.nil_append]
    rw [recover]
    simp [hc]
  | cons it rem ih =>
    have ih' := ih (fun x hx => hrem x (List.mem_cons_of_mem _ hx))
    cases it with
    | tok t =>
      have hk : t.kind ≠ .newline := hrem (.tok t) List.mem_cons_self t rfl
      simp only [List.cons_append, recover]
      have : (t.kind == TokKind.newline) = false := by
        cases h : t.kind <;> simp_all
      simp [this, ih']
    | strErr a b c' => simp only [List.cons_append, recover]; exact ih'
    | unexpected a => simp only [List.cons_append, recover]; exact ih'

/-! non-vacuity: `nop` meets the hypotheses of `trailing_comment_invisible` -/
def nopTok : FTok := { kind := .symbol, payload := "nop", text := "nop", range := ⟨⟨0, 0, 0⟩, ⟨0, 2, 2⟩⟩, file := 0 }
example : (parseStep [.tok nopTok]).2 = [] := by decide
example : (match (parseStep [.tok nopTok]).1 with | .ok n => n.includePath.isNone | _ => false) = true := by decide
example : PlainHead [.tok nopTok] := by
  intro t rest d h hk _
  simp only [List.cons.injEq, PItem.tok.injEq] at h
  obtain ⟨rfl, _⟩ := h
  simp [nopTok] at hk

end Rva
