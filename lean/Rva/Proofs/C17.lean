/-
  C17 — numeric literals mean what they say.

  `imm_spec`: the model of `Imm::from_str` accepts a literal exactly when the integer it denotes
  (`Spec.denote`, unbounded) fits in 32 bits, and then returns its low 32 bits. Hence nothing is
  truncated or wrapped to a different number (`imm_sound`), everything that fits is accepted in
  every notation (`imm_complete`, `notation_independent`), and everything else is rejected
  (`imm_rejects`). The digit loop with its overflow check is `parseU32Digits_eq`.

  Hypothesis `'+' ∉ normLit s`: Rust's `u32::from_str_radix` accepts one leading '+'. No token
  the lexer produces contains '+' (`isSymbolItem`), so source text cannot reach that case; the
  direct API can, and the correspondence check exercises it.
-/
import Rva.Spec.Literal
namespace Rva
open Spec


theorem foldl_ge (r : Nat) (hr : 1 ≤ r) (ds : List Nat) (a : Nat) :
    a ≤ ds.foldl (fun a d => a * r + d) a := by
  induction ds generalizing a with
  | nil => simp
  | cons d ds ih =>
    simp only [List.foldl_cons]
    have h1 : a ≤ a * r + d := by
      have : a * 1 ≤ a * r := Nat.mul_le_mul_left a hr
      omega
    exact Nat.le_trans h1 (ih _)

theorem parseU32Digits_eq (r : Nat) (hr : 1 ≤ r) (cs : List Char) (acc : Nat) (hacc : acc < 2 ^ 32) :
    parseU32Digits r cs acc =
      match cs.mapM (digitVal r) with
      | none => none
      | some ds =>
        let v := ds.foldl (fun a d => a * r + d) acc
        if v < 2 ^ 32 then some v else none := by
  induction cs generalizing acc with
  | nil => simp [parseU32Digits, hacc]
  | cons c cs ih =>
    simp only [parseU32Digits, List.mapM_cons]
    cases hd : digitVal r c with
    | none => simp
    | some d =>
      simp only [Option.pure_def, Option.bind_eq_bind, Option.bind_some]
      by_cases hlt : acc * r + d < 2 ^ 32
      · simp only [hlt, if_true]
        rw [ih _ hlt]
        cases hm : cs.mapM (digitVal r) with
        | none => simp
        | some ds => rfl
      · simp only [hlt, if_false]
        cases hm : cs.mapM (digitVal r) with
        | none => simp
        | some ds =>
          have := foldl_ge r hr ds (acc * r + d)
          have h2 : ¬ (List.foldl (fun a d => a * r + d) (acc * r + d) ds < 2 ^ 32) := by omega
          simp [List.foldl_cons, h2]


theorem signedMagnitude_eq (neg : Bool) (m : Nat) (hm : m < 2 ^ 32) :
    signedMagnitude neg m = fits32 (signed neg m) := by
  unfold signedMagnitude fits32
  generalize hv : signed neg m = v
  have hv' : (if neg = true then -(m : Int) else (m : Int)) = v := hv
  rw [hv']
  by_cases h1 : -(2:Int) ^ 31 ≤ v ∧ v < 2 ^ 31
  · rw [if_pos h1, if_pos (by omega)]
  · rw [if_neg h1]
    by_cases h2 : (0:Int) ≤ v ∧ v < 2 ^ 32
    · rw [if_pos h2, if_pos (by omega)]
    · rw [if_neg h2, if_neg (by omega)]

theorem digitVal_minus (r : Nat) : digitVal r '-' = none := by
  simp [digitVal]

theorem parseU32_eq (r : Nat) (hr : 1 ≤ r) (cs : List Char) (hplus : '+' ∉ cs) :
    parseU32 r cs = (natOfDigits r cs).bind (fun m => if m < 2 ^ 32 then some m else none) := by
  unfold parseU32 natOfDigits
  split
  · simp
  · simp at hplus
  · simp [digitVal_minus]
  · simp at hplus
  · rename_i s h1 h2 h3 h4
    have hne : cs ≠ [] := by intro h; exact h1 h
    rw [parseU32Digits_eq r hr cs 0 (by decide)]
    cases hm : cs.mapM (digitVal r) with
    | none => simp [hne]
    | some ds => simp [hne, digitsValue]


theorem fits32_big (neg : Bool) (m : Nat) (hm : ¬ m < 2 ^ 32) :
    fits32 (signed neg m) = none := by
  unfold fits32 signed
  cases neg <;> simp only [Bool.false_eq_true, if_false, if_true] <;> rw [if_neg (by omega)]

/-- parse-then-sign equals denote-then-fit, for one radix. -/
theorem mag_eq (r : Nat) (hr : 1 ≤ r) (neg : Bool) (ds : List Char) (hplus : '+' ∉ ds) :
    (parseU32 r ds).bind (signedMagnitude neg) =
      ((natOfDigits r ds).map (signed neg)).bind fits32 := by
  rw [parseU32_eq r hr ds hplus]
  cases natOfDigits r ds with
  | none => rfl
  | some m =>
    simp only [Option.bind_some, Option.map_some]
    by_cases hm : m < 2 ^ 32
    · rw [if_pos hm]; exact signedMagnitude_eq neg m hm
    · rw [if_neg hm, fits32_big neg m hm]; rfl

theorem natOfDigits_minus (r : Nat) (ds : List Char) (h : ds.head? = some '-') :
    natOfDigits r ds = none := by
  match ds, h with
  | c :: rest, h =>
    simp at h; subst h
    simp [natOfDigits, digitVal_minus]

theorem branch_eq (r : Nat) (hr : 1 ≤ r) (neg : Bool) (ds : List Char) (hplus : '+' ∉ ds) :
    (if ds.head? == some '-' then none else (parseU32 r ds).bind (signedMagnitude neg)) =
      ((natOfDigits r ds).map (signed neg)).bind fits32 := by
  by_cases h : ds.head? = some '-'
  · simp [h, natOfDigits_minus r ds h]
  · have : (ds.head? == some '-') = false := by simpa using h
    rw [this]; exact mag_eq r hr neg ds hplus

theorem imm_body_eq (neg : Bool) (s : List Char) (hplus : '+' ∉ s) :
    immBody neg s = (denoteBody neg s).bind fits32 := by
  unfold immBody denoteBody
  by_cases hz : (s == "zero".toList) = true
  · rw [if_pos hz, if_pos hz]; cases neg <;> rfl
  · rw [if_neg hz, if_neg hz]
    split
    · rename_i ds
      have hp' : '+' ∉ ds := by
        intro h; exact hplus (List.mem_cons_of_mem _ (List.mem_cons_of_mem _ h))
      exact branch_eq 16 (by decide) neg ds hp'
    · rename_i ds
      have hp' : '+' ∉ ds := by
        intro h; exact hplus (List.mem_cons_of_mem _ (List.mem_cons_of_mem _ h))
      exact branch_eq 2 (by decide) neg ds hp'
    · rename_i h1 h2
      have hm : magnitude s = natOfDigits 10 s := by
        unfold magnitude
        split
        · exact (h1 _ rfl).elim
        · exact (h2 _ rfl).elim
        · rfl
      rw [hm]
      exact branch_eq 10 (by decide) neg _ hplus

theorem imm_core_eq (s : List Char) (hplus : '+' ∉ s) :
    immCore s = (denoteCore s).bind fits32 := by
  unfold immCore denoteCore
  split
  · rename_i rest
    exact imm_body_eq true rest (by intro h; exact hplus (List.mem_cons_of_mem _ h))
  · rename_i h1
    split
    all_goals first
      | exact (h1 _ rfl).elim
      | exact imm_body_eq false s hplus

/-- **C17 main theorem.** -/
theorem imm_spec (s : List Char) (hplus : '+' ∉ normLit s) :
    immFromChars s = (denote s).bind fits32 :=
  imm_core_eq (normLit s) hplus

/-- Accepted literals are never truncated or wrapped to a different number: the value is the
    low 32 bits of the denoted integer, and that integer fits in 32 bits. -/
theorem imm_sound (s : List Char) (hplus : '+' ∉ normLit s) (v : Word)
    (h : immFromChars s = some v) :
    ∃ d : Int, denote s = some d ∧ -(2 : Int) ^ 31 ≤ d ∧ d < (2 : Int) ^ 32 ∧ v = BitVec.ofInt 32 d := by
  rw [imm_spec s hplus] at h
  cases hd : denote s with
  | none => rw [hd] at h; simp at h
  | some d =>
    rw [hd] at h
    simp only [Option.bind_some, fits32] at h
    by_cases hr : -(2 : Int) ^ 31 ≤ d ∧ d < (2 : Int) ^ 32
    · rw [if_pos hr] at h
      exact ⟨d, rfl, hr.1, hr.2, (Option.some.inj h).symm⟩
    · rw [if_neg hr] at h; simp at h

/-- Every literal whose value fits in 32 bits is accepted, in every notation. -/
theorem imm_complete (s : List Char) (hplus : '+' ∉ normLit s) (d : Int)
    (hd : denote s = some d) (h1 : -(2 : Int) ^ 31 ≤ d) (h2 : d < (2 : Int) ^ 32) :
    immFromChars s = some (BitVec.ofInt 32 d) := by
  rw [imm_spec s hplus, hd]
  simp only [Option.bind_some, fits32]
  rw [if_pos ⟨h1, h2⟩]

/-- Malformed literals and literals that do not fit in 32 bits are rejected. -/
theorem imm_rejects (s : List Char) (hplus : '+' ∉ normLit s)
    (h : denote s = none ∨ ∃ d, denote s = some d ∧ (d < -(2 : Int) ^ 31 ∨ (2 : Int) ^ 32 ≤ d)) :
    immFromChars s = none := by
  rw [imm_spec s hplus]
  rcases h with h | ⟨d, hd, hr⟩
  · rw [h]; rfl
  · rw [hd]
    simp only [Option.bind_some, fits32]
    rw [if_neg (by omega)]

/-- The same value written in different notations is read identically. -/
theorem notation_independent (s t : List Char) (hs : '+' ∉ normLit s) (ht : '+' ∉ normLit t)
    (h : denote s = denote t) : immFromChars s = immFromChars t := by
  rw [imm_spec s hs, imm_spec t ht, h]

/-! Non-vacuity: concrete literals meet the hypotheses and hit every branch. -/
example : immFromChars "-0x80000000".toList = some (BitVec.intMin 32) := by decide
example : immFromChars "-2147483648".toList = some (BitVec.intMin 32) := by decide
example : immFromChars "0xFFFFFFFF".toList = some (-1#32) := by decide
example : immFromChars "4294967295".toList = some (-1#32) := by decide
example : immFromChars "-0xFFFFFFFF".toList = none := by decide
example : immFromChars "4294967296".toList = none := by decide
example : immFromChars "0b101".toList = some 5#32 := by decide
example : denote "-0X10".toList = some (-16) := by decide
example : '+' ∉ normLit " 0x1F ".toList := by decide

end Rva
