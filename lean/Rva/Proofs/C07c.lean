/-
  C07 at the parser level — where a failed statement's error points.

  `EH s0 K tk m`: run from any state whose items are a suffix of the statement's initial items
  `s0`, with every token of `K` (the tokens the surrounding code already holds) *near* — the token
  of an item consumed so far or of the first item not yet consumed (a look-ahead) — the parser
  computation `m` ends with every token of its error (or, on success, every token `tk` extracts
  from its result) near as well. Consequence (`parseStep_error_located`): the token a reported
  parse error carries is the token of one of the items the failed statement consumed, or of the
  very next one; it is never a token from further down the file or from an earlier statement.
-/
import Rva.Proofs.C07b
namespace Rva

def PItem.ftok : PItem → FTok
  | .tok t => t
  | .strErr t _ _ => t
  | .unexpected t => t

/-- the token a parser error carries (the location of the reported parse error) -/
def LexErr.toks : LexErr → List FTok
  | .expected _ t | .isNewline t | .ignoredWithWarning t | .unexpectedToken t | .unexpectedError t
  | .unknownDirective t | .unsupportedDirective t | .invalidString t _ _ => [t]
  | .ignoredWithoutWarning | .unexpectedEOF | .needTwoNodes _ _ => []

/-- `t` is the token of one of the first `s0.length - cur.length + 1` items of `s0`: an item
    consumed on the way from `s0` to `cur`, or the first item of `cur` -/
def Near (s0 cur : List PItem) (t : FTok) : Prop :=
  ∃ i, i ≤ s0.length - cur.length ∧ (s0[i]?).map PItem.ftok = some t

theorem Near.mono {s0 cur cur' : List PItem} {t : FTok} (h : Near s0 cur t) (hs : cur' <:+ cur) :
    Near s0 cur' t := by
  obtain ⟨i, hi, ht⟩ := h
  have := hs.length_le
  exact ⟨i, by omega, ht⟩

theorem suffix_head {s0 : List PItem} {it : PItem} {rest : List PItem} (h : it :: rest <:+ s0) :
    s0[s0.length - (it :: rest).length]? = some it := by
  obtain ⟨pre, hp⟩ := h
  subst hp
  simp

def EH {α} (s0 : List PItem) (K : List FTok) (tk : α → List FTok) (m : P α) : Prop :=
  ∀ s : PState, s.items <:+ s0 → (∀ t ∈ K, Near s0 s.items t) →
    match runP m s with
    | (.ok a, s') => ∀ t ∈ tk a, Near s0 s'.items t
    | (.error e, s') => ∀ t ∈ e.toks, Near s0 s'.items t

theorem eh_pure {α} (s0 : List PItem) (K : List FTok) (tk : α → List FTok) (a : α)
    (h : ∀ t ∈ tk a, t ∈ K) : EH s0 K tk (pure a : P α) := by
  intro s _ hK
  rw [runP_pure]
  exact fun t ht => hK t (h t ht)

theorem eh_throw {α} (s0 : List PItem) (K : List FTok) (tk : α → List FTok) (e : LexErr)
    (h : ∀ t ∈ e.toks, t ∈ K) : EH s0 K tk (throw e : P α) := by
  intro s _ hK
  rw [runP_throw]
  exact fun t ht => hK t (h t ht)

theorem eh_bind {α β} {s0 : List PItem} {K : List FTok} {tk : α → List FTok} {tk' : β → List FTok}
    {m : P α} {f : α → P β} (hg : Good m) (hm : EH s0 K tk m) (hf : ∀ a, EH s0 (tk a ++ K) tk' (f a)) :
    EH s0 K tk' (m >>= f) := by
  intro s hs hK
  rw [runP_bind]
  have h1 := hm s hs hK
  have g1 := (hg s).1
  cases h : runP m s with
  | mk r s' =>
    rw [h] at h1 g1
    cases r with
    | ok a =>
      simp only [] at h1 ⊢
      refine hf a s' (g1.trans hs) ?_
      intro t ht
      rcases List.mem_append.mp ht with ht | ht
      · exact h1 t ht
      · exact (hK t ht).mono g1
    | error e =>
      simp only [] at h1 ⊢
      exact h1

/-! ### primitives -/

theorem eh_get (s0 : List PItem) (K : List FTok) : EH s0 K (fun _ => []) (get : P PState) := by
  intro s _ _
  have : runP (get : P PState) s = (.ok s, s) := rfl
  rw [this]
  intro t ht; simp at ht

theorem eh_getAny (s0 : List PItem) (K : List FTok) : EH s0 K (fun t => [t]) getAny := by
  intro s hs _
  unfold getAny
  cases hi : s.items with
  | nil =>
    simp [runP, hi, bind, ExceptT.bind, ExceptT.mk, ExceptT.bindCont, ExceptT.run,
      StateT.bind, StateT.run, get, getThe, MonadStateOf.get, StateT.get, liftM, monadLift, MonadLift.monadLift,
      ExceptT.lift, pure, StateT.pure, throw, throwThe, MonadExceptOf.throw, Functor.map, StateT.map,
      LexErr.toks]
  | cons it rest =>
    rw [hi] at hs
    have hh := suffix_head hs
    have hl := hs.length_le
    have near : Near s0 rest it.ftok := ⟨s0.length - (it :: rest).length, by simp at hl ⊢; omega, by rw [hh]; rfl⟩
    cases it <;>
    simp [runP, hi, bind, ExceptT.bind, ExceptT.mk, ExceptT.bindCont, ExceptT.run,
      StateT.bind, StateT.run, get, getThe, MonadStateOf.get, StateT.get, liftM, monadLift, MonadLift.monadLift,
      ExceptT.lift, set, StateT.set, pure, StateT.pure, ExceptT.pure, throw, throwThe, MonadExceptOf.throw,
      Functor.map, StateT.map, LexErr.toks] <;> exact near

theorem eh_peekAny (s0 : List PItem) (K : List FTok) : EH s0 K (fun t => [t]) peekAny := by
  intro s hs _
  unfold peekAny
  cases hi : s.items with
  | nil =>
    simp [runP, hi, bind, ExceptT.bind, ExceptT.mk, ExceptT.bindCont, ExceptT.run,
      StateT.bind, StateT.run, get, getThe, MonadStateOf.get, StateT.get, liftM, monadLift, MonadLift.monadLift,
      ExceptT.lift, pure, StateT.pure, throw, throwThe, MonadExceptOf.throw, Functor.map, StateT.map,
      LexErr.toks]
  | cons it rest =>
    rw [hi] at hs
    have hh := suffix_head hs
    have near : Near s0 (it :: rest) it.ftok := ⟨s0.length - (it :: rest).length, Nat.le_refl _, by rw [hh]; rfl⟩
    cases it <;>
    simp [runP, hi, bind, ExceptT.bind, ExceptT.mk, ExceptT.bindCont, ExceptT.run,
      StateT.bind, StateT.run, get, getThe, MonadStateOf.get, StateT.get, liftM, monadLift, MonadLift.monadLift,
      ExceptT.lift, pure, StateT.pure, ExceptT.pure, throw, throwThe, MonadExceptOf.throw,
      Functor.map, StateT.map, LexErr.toks] <;> exact near

theorem eh_liftE {α} (s0 : List PItem) (K : List FTok) (tk : α → List FTok) (t : FTok)
    (e : Except LexErr α) (ht : t ∈ K)
    (h : (∀ a, e = .ok a → tk a = [t]) ∧ (∀ x, e = .error x → x.toks = [t])) : EH s0 K tk (liftE e) := by
  cases e with
  | ok a => exact eh_pure s0 K tk a (by rw [h.1 a rfl]; simpa using ht)
  | error x => exact eh_throw s0 K tk x (by rw [h.2 x rfl]; simpa using ht)

theorem asReg_toks (t : FTok) :
    (∀ w, t.asReg = .ok w → [w.tok] = [t]) ∧ (∀ x, t.asReg = .error x → x.toks = [t]) := by
  unfold FTok.asReg; cases t.kind <;> (try cases regFromStr t.payload) <;>
    exact ⟨fun w h => by cases h <;> rfl, fun x h => by cases h <;> rfl⟩

theorem asImm_toks (t : FTok) :
    (∀ w, t.asImm = .ok w → [w.tok] = [t]) ∧ (∀ x, t.asImm = .error x → x.toks = [t]) := by
  unfold FTok.asImm; cases t.immVal <;>
    exact ⟨fun w h => by cases h <;> rfl, fun x h => by cases h <;> rfl⟩

theorem asLabel_toks (t : FTok) :
    (∀ w, t.asLabel = .ok w → [w.tok] = [t]) ∧ (∀ x, t.asLabel = .error x → x.toks = [t]) := by
  unfold FTok.asLabel; cases t.kind <;> (try cases labelFromStr t.payload) <;>
    exact ⟨fun w h => by cases h <;> rfl, fun x h => by cases h <;> rfl⟩

theorem asCsrImm_toks (t : FTok) :
    (∀ w, t.asCsrImm = .ok w → [w.tok] = [t]) ∧ (∀ x, t.asCsrImm = .error x → x.toks = [t]) := by
  unfold FTok.asCsrImm; cases t.kind <;> (try cases csrFromStr t.payload) <;>
    exact ⟨fun w h => by cases h <;> rfl, fun x h => by cases h <;> rfl⟩

theorem asString_toks (t : FTok) :
    (∀ w, t.asString = .ok w → [w.tok] = [t]) ∧ (∀ x, t.asString = .error x → x.toks = [t]) := by
  unfold FTok.asString; cases t.kind <;>
    exact ⟨fun w h => by cases h <;> rfl, fun x h => by cases h <;> rfl⟩

theorem eh_getReg (s0 : List PItem) (K : List FTok) : EH s0 K (fun w => [w.tok]) getReg :=
  eh_bind good_getAny (eh_getAny s0 K) (fun t => eh_liftE _ _ _ t _ (by simp) (asReg_toks t))
theorem eh_getImm (s0 : List PItem) (K : List FTok) : EH s0 K (fun w => [w.tok]) getImm :=
  eh_bind good_getAny (eh_getAny s0 K) (fun t => eh_liftE _ _ _ t _ (by simp) (asImm_toks t))
theorem eh_getLabel (s0 : List PItem) (K : List FTok) : EH s0 K (fun w => [w.tok]) getLabel :=
  eh_bind good_getAny (eh_getAny s0 K) (fun t => eh_liftE _ _ _ t _ (by simp) (asLabel_toks t))
theorem eh_getCsrImm (s0 : List PItem) (K : List FTok) : EH s0 K (fun w => [w.tok]) getCsrImm :=
  eh_bind good_getAny (eh_getAny s0 K) (fun t => eh_liftE _ _ _ t _ (by simp) (asCsrImm_toks t))
theorem eh_getString (s0 : List PItem) (K : List FTok) : EH s0 K (fun w => [w.tok]) getString :=
  eh_bind good_getAny (eh_getAny s0 K) (fun t => eh_liftE _ _ _ t _ (by simp) (asString_toks t))

theorem eh_expectRParen (s0 : List PItem) (K : List FTok) : EH s0 K (fun _ => []) expectRParen := by
  unfold expectRParen
  refine eh_bind good_getAny (eh_getAny s0 K) (fun t => ?_)
  split
  · exact eh_pure _ _ _ _ (by simp)
  · exact eh_throw _ _ _ _ (by simp [LexErr.toks])

theorem eh_rawNow (s0 : List PItem) (K : List FTok) : EH s0 K (fun _ => []) rawNow := by
  unfold rawNow
  exact eh_bind good_get (eh_get s0 K) (fun _ => eh_pure _ _ _ _ (by simp))

theorem eh_dropBad (s0 : List PItem) (K : List FTok) : EH s0 K (fun _ => []) dropBad := by
  intro s _ _
  rw [runP_dropBad]
  intro t ht; simp at ht

theorem eh_pseudoBranch (s0 : List PItem) (K : List FTok) (i : String) (m : FTok) (a b : W Reg) (l : W String) :
    EH s0 K (fun _ => []) (pseudoBranch i m a b l) := by
  unfold pseudoBranch
  exact eh_bind good_rawNow (eh_rawNow s0 K) (fun _ => eh_pure _ _ _ _ (by simp))

attribute [local irreducible] Good EH getReg getImm getLabel getCsrImm getString getAny peekAny expectRParen rawNow
  pseudoBranch liftE dropBad

macro "eh_step" : tactic => `(tactic| first
  | exact good_dropBad | exact eh_dropBad _ _
  | exact good_getReg | exact good_getImm | exact good_getLabel | exact good_getCsrImm | exact good_getString
  | exact good_getAny | exact good_peekAny | exact good_expectRParen | exact good_rawNow | exact good_get
  | exact eh_getReg _ _ | exact eh_getImm _ _ | exact eh_getLabel _ _ | exact eh_getCsrImm _ _
  | exact eh_getString _ _ | exact eh_getAny _ _ | exact eh_peekAny _ _ | exact eh_expectRParen _ _
  | exact eh_rawNow _ _ | exact eh_get _ _
  | exact eh_pseudoBranch _ _ _ _ _ _ _
  | (refine eh_pure _ _ _ _ ?_; simp; done)
  | (refine eh_throw _ _ _ _ ?_; simp [LexErr.toks]; done)
  | apply eh_bind
  | intro _
  | split)

set_option maxHeartbeats 8000000 in
theorem parseInst_eh (s0 : List PItem) (m : FTok) (v : String) :
    EH s0 [m] (fun _ => []) (parseInst m v) := by
  unfold parseInst
  repeat' eh_step

theorem dataLoop_eh (s0 : List PItem) (fuel : Nat) : ∀ acc K, EH s0 K (fun _ => []) (dataLoop fuel acc) := by
  induction fuel with
  | zero => intro acc K; unfold dataLoop; exact eh_pure _ _ _ _ (by simp)
  | succ n ih =>
    intro acc K
    unfold dataLoop
    repeat' (first | exact ih _ _ | eh_step)

theorem macroLoop_eh (s0 : List PItem) (fuel : Nat) : ∀ K, EH s0 K (fun _ => []) (macroLoop fuel) := by
  induction fuel with
  | zero => intro K; unfold macroLoop; exact eh_pure _ _ _ _ (by simp)
  | succ n ih =>
    intro K
    unfold macroLoop
    repeat' (first | exact ih _ | eh_step)

theorem parseDirective_eh (s0 : List PItem) (m : FTok) (d : String) :
    EH s0 [m] (fun _ => []) (parseDirective m d) := by
  unfold parseDirective
  repeat' (first | exact dataLoop_good _ _ | exact macroLoop_good _ | exact dataLoop_eh _ _ _ _
                 | exact macroLoop_eh _ _ _ | eh_step)

theorem parseNodeK_eh (s0 : List PItem) (m : FTok) : EH s0 [m] (fun _ => []) (parseNodeK m) := by
  unfold parseNodeK
  repeat' (first | exact parseInst_eh _ _ _ | exact parseDirective_eh _ _ _ | eh_step)

theorem parseNode_eh (s0 : List PItem) : EH s0 [] (fun _ => []) parseNode := by
  rw [parseNode_eq]
  exact eh_bind good_getAny (eh_getAny s0 []) (fun m => parseNodeK_eh s0 m)

end Rva

namespace Rva

/-- **C07 (`parseStep_error_located`).** When a statement fails to parse, the token its error
    carries — the location of the reported parse error — is the token of one of the items that
    statement consumed, or of the first item it left (a look-ahead it refused): with `k` items
    consumed it is one of `items[0..k]`. A reported error never points into an earlier statement,
    nor further down the file than the first unread item. -/
theorem parseStep_error_located (items : List PItem) (e : LexErr)
    (h : (parseStep items).1 = .error e) :
    ∀ t ∈ e.toks, ∃ i, i ≤ items.length - (parseStep items).2.length ∧
      (items[i]?).map PItem.ftok = some t := by
  rw [parseStep_eq] at h ⊢
  have := parseNode_eh items { items := items } (List.suffix_refl _) (by simp)
  cases hr : runP parseNode { items := items } with
  | mk r s' =>
    rw [hr] at this h
    simp only [] at h
    subst h
    simp only [] at this
    exact this

/-- …in particular it is the token of an item of the statement's own input. -/
theorem parseStep_error_in_items (items : List PItem) (e : LexErr)
    (h : (parseStep items).1 = .error e) :
    ∀ t ∈ e.toks, ∃ it ∈ items, it.ftok = t := by
  intro t ht
  obtain ⟨i, _, hi⟩ := parseStep_error_located items e h t ht
  cases hg : items[i]? with
  | none => rw [hg] at hi; simp at hi
  | some it =>
    rw [hg] at hi
    simp only [Option.map_some, Option.some.injEq] at hi
    exact ⟨it, List.mem_of_getElem? hg, hi⟩

end Rva

namespace Rva

/-- **C07 (`parseLoop_keeps`).** What the parse loop has collected is never dropped or reordered
    later: for every stack of pending item lists, reader state and fuel, the nodes and the parse
    errors collected so far are a prefix of the nodes and errors of the final result. -/
theorem parseLoop_keeps (fuel : Nat) : ∀ (stack : List (List PItem)) (r : Reader) (nodes : List Node)
    (errs : List ParseErr),
    nodes.reverse <+: (parseLoop fuel stack r nodes errs).nodes ∧
    errs.reverse <+: (parseLoop fuel stack r nodes errs).errors := by
  induction fuel with
  | zero => intro stack r nodes errs; unfold parseLoop; exact ⟨List.prefix_refl _, List.prefix_refl _⟩
  | succ n ih =>
    intro stack r nodes errs
    cases stack with
    | nil => unfold parseLoop; exact ⟨List.prefix_refl _, List.prefix_refl _⟩
    | cons top below =>
      have grow : ∀ (l : List Node) (x : Node), l.reverse <+: (x :: l).reverse := by
        intro l x; simp
      have growE : ∀ (l : List ParseErr) (x : ParseErr), l.reverse <+: (x :: l).reverse := by
        intro l x; simp
      unfold parseLoop
      split
      · split
        · split
          · exact ih _ _ _ _
          · exact ⟨(ih _ _ _ _).1, (growE _ _).trans (ih _ _ _ _).2⟩
        · exact ⟨(grow _ _).trans (ih _ _ _ _).1, (ih _ _ _ _).2⟩
      · split
        all_goals first
          | exact ih _ _ _ _
          | exact ⟨(ih _ _ _ _).1, (growE _ _).trans (ih _ _ _ _).2⟩
          | exact ⟨((grow _ _).trans (grow _ _)).trans (ih _ _ _ _).1, (ih _ _ _ _).2⟩

end Rva

namespace Rva

/-- the parse error the loop records for a statement that failed with `e` (none for a blank line,
    a comment, the end of the input and the two-node expansion) -/
def LexErr.reported : LexErr → Option ParseErr
  | .expected ex got => some (.expected ex got)
  | .unexpectedToken got => some (.unexpectedToken got)
  | .unexpectedError t => some (.unexpectedError t)
  | .unknownDirective t => some (.unknownDirective t)
  | .ignoredWithWarning t | .unsupportedDirective t => some (.unsupported t)
  | .invalidString t k p => some (.invalidString t k p)
  | .isNewline _ | .unexpectedEOF | .needTwoNodes _ _ | .ignoredWithoutWarning => none

/-- **C07 (`failed_statement_reported`).** A statement that fails with an error of a reportable
    kind is in the final list of parse errors, whatever the rest of the input does: with
    `parseStep_error_located`, every failed statement is named by a parse error located on one of
    the items it consumed (or the first one it refused). -/
theorem failed_statement_reported (fuel : Nat) (top : List PItem) (below : List (List PItem)) (r : Reader)
    (nodes : List Node) (errs : List ParseErr) (e : LexErr) (rest : List PItem) (pe : ParseErr)
    (h : parseStep top = (.error e, rest)) (hpe : e.reported = some pe) :
    pe ∈ (parseLoop (fuel + 1) (top :: below) r nodes errs).errors := by
  have key : ∀ (stack : List (List PItem)),
      pe ∈ (parseLoop fuel stack r nodes (pe :: errs)).errors := by
    intro stack
    have := (parseLoop_keeps fuel stack r nodes (pe :: errs)).2
    exact this.subset (by simp)
  unfold parseLoop
  rw [h]
  cases e <;> simp only [LexErr.reported, Option.some.injEq] at hpe <;> (try subst hpe) <;>
    first
    | exact key _
    | (simp at hpe)

end Rva

namespace Rva

/-- a result with `nodes` / `errs` (both collected in reverse) put in front of what it already holds -/
def ParseOut.shift (nodes : List Node) (errs : List ParseErr) (o : ParseOut) : ParseOut :=
  ⟨nodes.reverse ++ o.nodes, errs.reverse ++ o.errors, o.reader⟩

theorem acc_branch (n : Nat) (st : List (List PItem)) (r : Reader)
    (ih : ∀ (st : List (List PItem)) (r : Reader) (nodes : List Node) (errs : List ParseErr),
      parseLoop n st r nodes errs = ParseOut.shift nodes errs (parseLoop n st r [] []))
    (dn : List Node) (de : List ParseErr) (nodes : List Node) (errs : List ParseErr) :
    parseLoop n st r (dn ++ nodes) (de ++ errs) = ParseOut.shift nodes errs (parseLoop n st r dn de) := by
  rw [ih st r (dn ++ nodes) (de ++ errs), ih st r dn de]
  simp [ParseOut.shift, List.reverse_append, List.append_assoc]

/-- **C07 (`parseLoop_acc`).** What the parse loop has collected so far plays no part in what it
    collects next: the result from any accumulators is the result from empty ones with the
    accumulated nodes and errors in front. -/
theorem parseLoop_acc (fuel : Nat) : ∀ (st : List (List PItem)) (r : Reader) (nodes : List Node)
    (errs : List ParseErr),
    parseLoop fuel st r nodes errs = ParseOut.shift nodes errs (parseLoop fuel st r [] []) := by
  induction fuel with
  | zero => intro st r nodes errs; simp [parseLoop, ParseOut.shift]
  | succ n ih =>
    intro st r nodes errs
    cases st with
    | nil => simp [parseLoop, ParseOut.shift]
    | cons top below =>
      cases hps : parseStep top with
      | mk res rest =>
        cases res with
        | ok x =>
          cases hi : x.includePath with
          | none =>
            simp only [parseLoop, hps, hi]
            exact acc_branch n _ _ ih [x] [] nodes errs
          | some path =>
            cases himp : r.importFile path.val with
            | mk ir r' =>
              cases ir with
              | ok ft =>
                obtain ⟨fid, text⟩ := ft
                simp only [parseLoop, hps, hi, himp]
                exact acc_branch n _ _ ih [] [] nodes errs
              | error e =>
                simp only [parseLoop, hps, hi, himp]
                exact acc_branch n _ _ ih [] [e.toParseErr path] nodes errs
        | error e =>
          cases e <;> simp only [parseLoop, hps] <;>
            first
            | exact acc_branch n _ _ ih [] [] nodes errs
            | exact acc_branch n _ _ ih [] [_] nodes errs
            | exact acc_branch n _ _ ih [_, _] [] nodes errs

end Rva
