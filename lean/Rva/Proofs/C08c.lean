/-
  C08 — decoding: which operand goes where, for every operand value.

  For the instruction classes of the format table (`format_table_correct`), the statement parser
  builds, from the operand tokens in the order the assembly manual writes them, the node whose
  destination, source registers and immediate are those operands - for every register and every
  immediate.
-/
import Rva.Proofs.C09b
namespace Rva

/-- the parser's state after taking the tokens `ts` (all of them tokens) in front of `rest` -/
def afterToks (raw : RawTok) (ts : List FTok) (rest : List PItem) : PState :=
  { items := rest, raw := rawAfter raw (ts.map PItem.tok) }

theorem runP_getAny_tok (t : FTok) (rest : List PItem) (raw : RawTok) :
    runP getAny { items := .tok t :: rest, raw := raw } = (.ok t, afterToks raw [t] rest) := by
  simp [runP, getAny, afterToks, rawAfter, rawStep, bind, ExceptT.bind, ExceptT.mk, ExceptT.bindCont, ExceptT.run,
    StateT.bind, StateT.run, get, getThe, MonadStateOf.get, StateT.get, liftM, monadLift, MonadLift.monadLift,
    ExceptT.lift, set, StateT.set, pure, StateT.pure, ExceptT.pure, Functor.map, StateT.map]

theorem runP_liftE_ok {α} (a : α) (s : PState) : runP (liftE (.ok a : Except LexErr α)) s = (.ok a, s) := rfl

theorem runP_getReg_tok (t : FTok) (r : W Reg) (h : t.asReg = .ok r) (rest : List PItem) (raw : RawTok) :
    runP getReg { items := .tok t :: rest, raw := raw } = (.ok r, afterToks raw [t] rest) := by
  unfold getReg
  rw [runP_bind, runP_getAny_tok]
  simp only [h]
  rfl

theorem runP_getImm_tok (t : FTok) (v : W Word) (h : t.asImm = .ok v) (rest : List PItem) (raw : RawTok) :
    runP getImm { items := .tok t :: rest, raw := raw } = (.ok v, afterToks raw [t] rest) := by
  unfold getImm
  rw [runP_bind, runP_getAny_tok]
  simp only [h]
  rfl

theorem runP_getLabel_tok (t : FTok) (v : W String) (h : t.asLabel = .ok v) (rest : List PItem) (raw : RawTok) :
    runP getLabel { items := .tok t :: rest, raw := raw } = (.ok v, afterToks raw [t] rest) := by
  unfold getLabel
  rw [runP_bind, runP_getAny_tok]
  simp only [h]
  rfl

theorem afterToks_step (raw : RawTok) (ts : List FTok) (t : FTok) (rest : List PItem) :
    afterToks (afterToks raw ts (.tok t :: rest)).raw [t] rest = afterToks raw (ts ++ [t]) rest := by
  simp [afterToks, rawAfter, List.foldl_append]

/-- **C08 (`decode_arith`).** `op rd, rs1, rs2`: destination, first and second source in the order
    written, for every register-register mnemonic and all registers. -/
theorem decode_arith (m : FTok) (v sub : String) (hv : instType v = some ("Arith", sub))
    (a b c : FTok) (ra rb rc : W Reg) (ha : a.asReg = .ok ra) (hb : b.asReg = .ok rb) (hc : c.asReg = .ok rc)
    (rest : List PItem) (raw : RawTok) :
    runP (parseInst m v) { items := .tok a :: .tok b :: .tok c :: rest, raw := raw } =
      (.ok (.arith ⟨sub, m⟩ ra rb rc (afterToks raw [a, b, c] rest).raw), afterToks raw [a, b, c] rest) := by
  unfold parseInst
  simp only [hv]
  rw [runP_bind, runP_getReg_tok a ra ha]
  simp only []
  rw [runP_bind, show afterToks raw [a] (.tok b :: .tok c :: rest) = { items := .tok b :: .tok c :: rest, raw := (afterToks raw [a] (.tok b :: .tok c :: rest)).raw } from rfl,
    runP_getReg_tok b rb hb]
  simp only []
  rw [runP_bind, show afterToks (afterToks raw [a] (.tok b :: .tok c :: rest)).raw [b] (.tok c :: rest) = { items := .tok c :: rest, raw := (afterToks (afterToks raw [a] (.tok b :: .tok c :: rest)).raw [b] (.tok c :: rest)).raw } from rfl,
    runP_getReg_tok c rc hc]
  simp only []
  rw [runP_bind, runP_rawNow]
  simp only [runP_pure, wi]
  simp [afterToks, rawAfter, List.foldl_cons]

theorem runP_getCsrImm_tok (t : FTok) (v : W Nat) (h : t.asCsrImm = .ok v) (rest : List PItem) (raw : RawTok) :
    runP getCsrImm { items := .tok t :: rest, raw := raw } = (.ok v, afterToks raw [t] rest) := by
  unfold getCsrImm
  rw [runP_bind, runP_getAny_tok]
  simp only [h]
  rfl

theorem afterToks_eta (raw : RawTok) (ts : List FTok) (rest : List PItem) :
    afterToks raw ts rest = { items := rest, raw := (afterToks raw ts rest).raw } := rfl

/-- **C08 (`decode_iarith`).** `op rd, rs1, imm`. -/
theorem decode_iarith (m : FTok) (v sub : String) (hv : instType v = some ("IArith", sub))
    (a b c : FTok) (ra rb : W Reg) (ic : W Word) (ha : a.asReg = .ok ra) (hb : b.asReg = .ok rb)
    (hc : c.asImm = .ok ic) (rest : List PItem) (raw : RawTok) :
    runP (parseInst m v) { items := .tok a :: .tok b :: .tok c :: rest, raw := raw } =
      (.ok (.iarith ⟨sub, m⟩ ra rb ic (afterToks raw [a, b, c] rest).raw), afterToks raw [a, b, c] rest) := by
  unfold parseInst
  simp only [hv]
  rw [runP_bind, runP_getReg_tok a ra ha]
  simp only []
  rw [runP_bind, afterToks_eta, runP_getReg_tok b rb hb]
  simp only []
  rw [runP_bind, afterToks_eta, runP_getImm_tok c ic hc]
  simp only []
  rw [runP_bind, runP_rawNow]
  simp only [runP_pure, wi]
  simp [afterToks, rawAfter, List.foldl_cons]

/-- **C08 (`decode_branch`).** `bxx rs1, rs2, label`. -/
theorem decode_branch (m : FTok) (v sub : String) (hv : instType v = some ("Branch", sub))
    (a b c : FTok) (ra rb : W Reg) (lc : W String) (ha : a.asReg = .ok ra) (hb : b.asReg = .ok rb)
    (hc : c.asLabel = .ok lc) (rest : List PItem) (raw : RawTok) :
    runP (parseInst m v) { items := .tok a :: .tok b :: .tok c :: rest, raw := raw } =
      (.ok (.branch ⟨sub, m⟩ ra rb lc (afterToks raw [a, b, c] rest).raw), afterToks raw [a, b, c] rest) := by
  unfold parseInst
  simp only [hv]
  rw [runP_bind, runP_getReg_tok a ra ha]
  simp only []
  rw [runP_bind, afterToks_eta, runP_getReg_tok b rb hb]
  simp only []
  rw [runP_bind, afterToks_eta, runP_getLabel_tok c lc hc]
  simp only []
  rw [runP_bind, runP_rawNow]
  simp only [runP_pure, wi]
  simp [afterToks, rawAfter, List.foldl_cons]

/-- **C08 (`decode_upper`).** `lui / auipc rd, imm20`: the operand that fits the 20-bit field is
    placed in the upper 20 bits; one that does not fit is rejected on the literal. -/
theorem decode_upper (m : FTok) (v sub : String) (hv : instType v = some ("UpperArith", sub))
    (a b : FTok) (ra : W Reg) (ib : W Word) (ha : a.asReg = .ok ra) (hb : b.asImm = .ok ib)
    (rest : List PItem) (raw : RawTok) :
    runP (parseInst m v) { items := .tok a :: .tok b :: rest, raw := raw } =
      (if upperFits ib.val then
        .ok (.iarith ⟨sub, m⟩ ra (x0 m) ⟨ib.val <<< 12, ib.tok⟩ (afterToks raw [a, b] rest).raw)
       else .error (.expected ["IMMEDIATE"] ib.tok), afterToks raw [a, b] rest) := by
  unfold parseInst
  simp only [hv]
  rw [runP_bind, runP_getReg_tok a ra ha]
  simp only []
  rw [runP_bind, afterToks_eta, runP_getImm_tok b ib hb]
  simp only []
  by_cases hf : upperFits ib.val = true
  · simp only [hf, Bool.not_true, Bool.false_eq_true, if_false, if_true]
    rw [runP_bind, runP_rawNow]
    simp only [runP_pure, wi]
    simp [afterToks, rawAfter, List.foldl_cons]
  · have hf' : upperFits ib.val = false := by simpa using hf
    simp only [hf', Bool.not_false, if_true, Bool.false_eq_true, if_false, runP_throw]
    simp [afterToks, rawAfter, List.foldl_cons]

/-- **C08 (`decode_csr`).** `csrrx rd, csr, rs1`. -/
theorem decode_csr (m : FTok) (v sub : String) (hv : instType v = some ("Csr", sub))
    (a b c : FTok) (ra : W Reg) (cb : W Nat) (rc : W Reg) (ha : a.asReg = .ok ra) (hb : b.asCsrImm = .ok cb)
    (hc : c.asReg = .ok rc) (rest : List PItem) (raw : RawTok) :
    runP (parseInst m v) { items := .tok a :: .tok b :: .tok c :: rest, raw := raw } =
      (.ok (.csr ⟨sub, m⟩ ra cb rc (afterToks raw [a, b, c] rest).raw), afterToks raw [a, b, c] rest) := by
  unfold parseInst
  simp only [hv]
  rw [runP_bind, runP_getReg_tok a ra ha]
  simp only []
  rw [runP_bind, afterToks_eta, runP_getCsrImm_tok b cb hb]
  simp only []
  rw [runP_bind, afterToks_eta, runP_getReg_tok c rc hc]
  simp only []
  rw [runP_bind, runP_rawNow]
  simp only [runP_pure, wi]
  simp [afterToks, rawAfter, List.foldl_cons]

/-- **C08 (`decode_csri`).** `csrrxi rd, csr, imm`. -/
theorem decode_csri (m : FTok) (v sub : String) (hv : instType v = some ("CsrI", sub))
    (a b c : FTok) (ra : W Reg) (cb : W Nat) (ic : W Word) (ha : a.asReg = .ok ra) (hb : b.asCsrImm = .ok cb)
    (hc : c.asImm = .ok ic) (rest : List PItem) (raw : RawTok) :
    runP (parseInst m v) { items := .tok a :: .tok b :: .tok c :: rest, raw := raw } =
      (.ok (.csri ⟨sub, m⟩ ra cb ic (afterToks raw [a, b, c] rest).raw), afterToks raw [a, b, c] rest) := by
  unfold parseInst
  simp only [hv]
  rw [runP_bind, runP_getReg_tok a ra ha]
  simp only []
  rw [runP_bind, afterToks_eta, runP_getCsrImm_tok b cb hb]
  simp only []
  rw [runP_bind, afterToks_eta, runP_getImm_tok c ic hc]
  simp only []
  rw [runP_bind, runP_rawNow]
  simp only [runP_pure, wi]
  simp [afterToks, rawAfter, List.foldl_cons]

theorem runP_peekAny_tok (t : FTok) (rest : List PItem) (raw : RawTok) :
    runP peekAny { items := .tok t :: rest, raw := raw } = (.ok t, { items := .tok t :: rest, raw := raw }) := by
  simp [runP, peekAny, bind, ExceptT.bind, ExceptT.mk, ExceptT.bindCont, ExceptT.run,
    StateT.bind, StateT.run, get, getThe, MonadStateOf.get, StateT.get, liftM, monadLift, MonadLift.monadLift,
    ExceptT.lift, pure, StateT.pure, ExceptT.pure, Functor.map, StateT.map]

theorem runP_expectRParen_tok (t : FTok) (h : t.isRParen = true) (rest : List PItem) (raw : RawTok) :
    runP expectRParen { items := .tok t :: rest, raw := raw } = (.ok (), afterToks raw [t] rest) := by
  unfold expectRParen
  rw [runP_bind, runP_getAny_tok]
  simp only [h, if_true]
  rfl

/-- **C08 (`decode_load`).** `lx rd, imm(rs1)`: destination, then offset and base. -/
theorem decode_load (m : FTok) (v sub : String) (hv : instType v = some ("Load", sub))
    (a b lp c rp : FTok) (ra : W Reg) (ib : W Word) (rc : W Reg) (ha : a.asReg = .ok ra) (hb : b.asImm = .ok ib)
    (hlp : lp.isLParen = true) (hc : c.asReg = .ok rc) (hrp : rp.isRParen = true)
    (rest : List PItem) (raw : RawTok) :
    runP (parseInst m v) { items := .tok a :: .tok b :: .tok lp :: .tok c :: .tok rp :: rest, raw := raw } =
      (.ok (.load ⟨sub, m⟩ ra rc ib (afterToks raw [a, b, lp, c, rp] rest).raw),
       afterToks raw [a, b, lp, c, rp] rest) := by
  unfold parseInst
  simp only [hv]
  rw [runP_bind, runP_getReg_tok a ra ha]
  simp only []
  rw [runP_bind, afterToks_eta, runP_getAny_tok]
  simp only [hb]
  rw [runP_bind, afterToks_eta, runP_peekAny_tok]
  simp only [hlp, if_true]
  rw [runP_bind, runP_getAny_tok]
  simp only []
  rw [runP_bind, afterToks_eta, runP_getReg_tok c rc hc]
  simp only []
  rw [runP_bind, afterToks_eta, runP_expectRParen_tok rp hrp]
  simp only []
  rw [runP_bind, runP_rawNow]
  simp only [runP_pure, wi]
  simp [afterToks, rawAfter, List.foldl_cons]

/-- **C08 (`decode_store`).** `sx rs2, imm(rs1)`: the stored register first, then offset and base. -/
theorem decode_store (m : FTok) (v sub : String) (hv : instType v = some ("Store", sub))
    (a b lp c rp : FTok) (ra : W Reg) (ib : W Word) (rc : W Reg) (ha : a.asReg = .ok ra) (hb : b.asImm = .ok ib)
    (hlp : lp.isLParen = true) (hc : c.asReg = .ok rc) (hrp : rp.isRParen = true)
    (rest : List PItem) (raw : RawTok) :
    runP (parseInst m v) { items := .tok a :: .tok b :: .tok lp :: .tok c :: .tok rp :: rest, raw := raw } =
      (.ok (.store ⟨sub, m⟩ rc ra ib (afterToks raw [a, b, lp, c, rp] rest).raw),
       afterToks raw [a, b, lp, c, rp] rest) := by
  unfold parseInst
  simp only [hv]
  rw [runP_bind, runP_getReg_tok a ra ha]
  simp only []
  rw [runP_bind, afterToks_eta, runP_getAny_tok]
  simp only [hb]
  rw [runP_bind, afterToks_eta, runP_peekAny_tok]
  simp only [hlp, if_true]
  rw [runP_bind, runP_getAny_tok]
  simp only []
  rw [runP_bind, afterToks_eta, runP_getReg_tok c rc hc]
  simp only []
  rw [runP_bind, afterToks_eta, runP_expectRParen_tok rp hrp]
  simp only []
  rw [runP_bind, runP_rawNow]
  simp only [runP_pure, wi]
  simp [afterToks, rawAfter, List.foldl_cons]

end Rva
