/-
  C08, pseudo-instructions — the expansion the parser chooses for each pseudo-instruction has the
  meaning the RISC-V assembly manual gives the pseudo-instruction, under RV32IM semantics, for all
  register operands and all machine states:
  * `pseudoRR_meaning`: `mv, neg, not, seqz, snez, sgtz, sltz`;
  * `pseudoBZ_meaning`: `beqz, bnez, bltz, bgtz, bgez, blez`;
  * `pseudoB2_meaning`: `bgt, ble, bgtu, bleu`.
  (The expansion functions are the ones the parser model calls; the model is tied to the real
  parser by the correspondence check.)
-/
import Rva.Proofs.C01Transfer
import Rva.Model.Parser
namespace Rva

/-- what the manual says the pseudo-instruction computes from its source operand -/
def Spec.pseudoRR : String → Word → Option Word
  | "Mv", x => some x
  | "Neg", x => some (0#32 - x)
  | "Not", x => some (~~~x)
  | "Seqz", x => some (if x = 0#32 then 1#32 else 0#32)
  | "Snez", x => some (if x = 0#32 then 0#32 else 1#32)
  | "Sgtz", x => some (if 0 < x.toInt then 1#32 else 0#32)
  | "Sltz", x => some (if x.toInt < 0 then 1#32 else 0#32)
  | _, _ => none

/-- when a base branch instruction is taken (unprivileged ISA manual, 2.5) -/
def Spec.branchTaken : String → Word → Word → Option Bool
  | "Beq", a, b => some (a = b)
  | "Bne", a, b => some (a ≠ b)
  | "Blt", a, b => some (a.toInt < b.toInt)
  | "Bge", a, b => some (a.toInt ≥ b.toInt)
  | "Bltu", a, b => some (a.toNat < b.toNat)
  | "Bgeu", a, b => some (a.toNat ≥ b.toNat)
  | _, _, _ => none

/-- when the manual says a compare-with-zero branch is taken -/
def Spec.pseudoBZ : String → Word → Option Bool
  | "Beqz", x => some (x = 0#32)
  | "Bnez", x => some (x ≠ 0#32)
  | "Bltz", x => some (x.toInt < 0)
  | "Bgtz", x => some (x.toInt > 0)
  | "Bgez", x => some (x.toInt ≥ 0)
  | "Blez", x => some (x.toInt ≤ 0)
  | _, _ => none

/-- … and a swapped two-register branch -/
def Spec.pseudoB2 : String → Word → Word → Option Bool
  | "Bgt", a, b => some (a.toInt > b.toInt)
  | "Ble", a, b => some (a.toInt ≤ b.toInt)
  | "Bgtu", a, b => some (a.toNat > b.toNat)
  | "Bleu", a, b => some (a.toNat ≤ b.toNat)
  | _, _, _ => none

theorem ult_one (x : BitVec 32) : x.ult 1#32 = decide (x = 0#32) := by
  have e : (x = 0#32) ↔ x.toNat = 0 := by
    constructor
    · intro h; rw [h]; rfl
    · intro h; exact BitVec.eq_of_toNat_eq (by simpa using h)
  simp only [BitVec.ult, BitVec.toNat_ofNat, decide_eq_decide]
  rw [e]; omega
theorem zero_ult (x : BitVec 32) : (0#32).ult x = !decide (x = 0#32) := by
  have e : (x = 0#32) ↔ x.toNat = 0 := by
    constructor
    · intro h; rw [h]; rfl
    · intro h; exact BitVec.eq_of_toNat_eq (by simpa using h)
  by_cases hx : x = 0#32
  · subst hx; rfl
  · have : x.toNat ≠ 0 := fun h => hx (e.mpr h)
    simp only [BitVec.ult, BitVec.toNat_ofNat, hx, decide_false, Bool.not_false, decide_eq_true_eq]
    omega
theorem xor_m1 (x : BitVec 32) : x ^^^ 4294967295#32 = ~~~x := by
  have : (4294967295#32 : BitVec 32) = BitVec.allOnes 32 := by decide
  rw [this, BitVec.xor_allOnes]
theorem zero_slt (x : BitVec 32) : (0#32).slt x = decide (0 < x.toInt) := by
  simp [BitVec.slt]
theorem slt_zero (x : BitVec 32) : x.slt 0#32 = decide (x.toInt < 0) := by
  simp [BitVec.slt]

theorem opOf_facts : Spec.opOf "Addi" = some .add ∧ Spec.opOf "Sub" = some .sub ∧ Spec.opOf "Xori" = some .xor ∧
    Spec.opOf "Sltiu" = some .sltu ∧ Spec.opOf "Sltu" = some .sltu ∧ Spec.opOf "Slt" = some .slt := by decide

/-- **C08 (`pseudoRR_meaning`).** For each of `mv, neg, not, seqz, snez, sgtz, sltz`: the node
    the parser builds writes to `rd` exactly the value the manual assigns to the
    pseudo-instruction, for all registers and states (x0 reads as zero). -/
theorem pseudoRR_meaning (sub : String) (m : FTok) (rd rs : W Reg) (raw : RawTok) (n : Node) (s : MState)
    (w : Word) (hz : s.reg 0 = 0#32) (hn : pseudoRR sub m rd rs raw = some n)
    (hw : Spec.pseudoRR sub (s.reg rs.val) = some w) : plainValue s n = some (rd.val, w) := by
  obtain ⟨h1, h2, h3, h4, h5, h6⟩ := opOf_facts
  unfold pseudoRR at hn
  split at hn <;> (try (injection hn with hn; subst hn)) <;> simp only [Spec.pseudoRR] at hw <;>
    (try (injection hw with hw; subst hw))
  · -- mv = addi rd, rs, 0
    simp only [plainValue, wi, imm0, h1, ← operate_rv32]
    simp [operate]
  · -- neg = sub rd, x0, rs
    simp only [plainValue, wi, x0, h2, hz, ← operate_rv32]
    simp [operate]
  · -- not = xori rd, rs, -1
    simp only [plainValue, wi, h3, ← operate_rv32]
    simp [operate, xor_m1]
  · -- seqz = sltiu rd, rs, 1
    simp only [plainValue, wi, h4, ← operate_rv32]
    simp only [String.reduceEq, if_false, operate, boolWord, Option.map_some, ult_one]
    by_cases hx : s.reg rs.val = 0#32 <;> simp [hx]
  · -- snez = sltu rd, x0, rs
    simp only [plainValue, wi, x0, h5, hz, ← operate_rv32]
    simp only [operate, boolWord, Option.map_some, zero_ult]
    by_cases hx : s.reg rs.val = 0#32 <;> simp [hx]
  · -- sgtz = slt rd, x0, rs
    simp only [plainValue, wi, x0, h6, hz, ← operate_rv32]
    simp only [operate, boolWord, Option.map_some, zero_slt]
    by_cases hx : 0 < (s.reg rs.val).toInt <;> simp [hx]
  · -- sltz = slt rd, rs, x0
    simp only [plainValue, wi, x0, h6, hz, ← operate_rv32]
    simp only [operate, boolWord, Option.map_some, slt_zero]
    by_cases hx : (s.reg rs.val).toInt < 0 <;> simp [hx]
  · simp at hn


theorem toInt_zero32 : (0#32 : BitVec 32).toInt = 0 := by decide
theorem toNat_zero32 : (0#32 : BitVec 32).toNat = 0 := by decide

/-- **C08 (`pseudoBZ_meaning`).** `beqz, bnez, bltz, bgtz, bgez, blez`: the base branch and
    operand order the parser chooses is taken exactly when the manual says the
    pseudo-instruction branches (x0 reads as zero). -/
theorem pseudoBZ_meaning (sub : String) (m : FTok) (r : W Reg) (i : String) (a b : W Reg) (s : MState)
    (t : Bool) (hz : s.reg 0 = 0#32) (hn : pseudoBZ sub m r = some (i, a, b))
    (hw : Spec.pseudoBZ sub (s.reg r.val) = some t) :
    Spec.branchTaken i (s.reg a.val) (s.reg b.val) = some t := by
  unfold pseudoBZ at hn
  split at hn
  · simp only [Option.some.injEq, Prod.mk.injEq] at hn
    obtain ⟨e1, e2, e3⟩ := hn
    subst e1; subst e2; subst e3
    simp only [Spec.pseudoBZ] at hw
    injection hw with hw; subst hw
    simp [Spec.branchTaken, x0, hz]
  · simp only [Option.some.injEq, Prod.mk.injEq] at hn
    obtain ⟨e1, e2, e3⟩ := hn
    subst e1; subst e2; subst e3
    simp only [Spec.pseudoBZ] at hw
    injection hw with hw; subst hw
    simp [Spec.branchTaken, x0, hz]
  · simp only [Option.some.injEq, Prod.mk.injEq] at hn
    obtain ⟨e1, e2, e3⟩ := hn
    subst e1; subst e2; subst e3
    simp only [Spec.pseudoBZ] at hw
    injection hw with hw; subst hw
    simp [Spec.branchTaken, x0, hz, toInt_zero32]
  · simp only [Option.some.injEq, Prod.mk.injEq] at hn
    obtain ⟨e1, e2, e3⟩ := hn
    subst e1; subst e2; subst e3
    simp only [Spec.pseudoBZ] at hw
    injection hw with hw; subst hw
    simp [Spec.branchTaken, x0, hz, toInt_zero32]
  · simp only [Option.some.injEq, Prod.mk.injEq] at hn
    obtain ⟨e1, e2, e3⟩ := hn
    subst e1; subst e2; subst e3
    simp only [Spec.pseudoBZ] at hw
    injection hw with hw; subst hw
    simp [Spec.branchTaken, x0, hz, toInt_zero32]
  · simp only [Option.some.injEq, Prod.mk.injEq] at hn
    obtain ⟨e1, e2, e3⟩ := hn
    subst e1; subst e2; subst e3
    simp only [Spec.pseudoBZ] at hw
    injection hw with hw; subst hw
    simp [Spec.branchTaken, x0, hz, toInt_zero32]
  · -- `sgez` has no documented meaning: nothing is claimed
    simp [Spec.pseudoBZ] at hw
  · simp at hn

/-- **C08 (`pseudoB2_meaning`).** `bgt, ble, bgtu, bleu`: the swapped base branch is taken exactly
    when the manual says. -/
theorem pseudoB2_meaning (sub : String) (x y : W Reg) (i : String) (a b : W Reg) (s : MState) (t : Bool)
    (hn : pseudoB2 sub x y = some (i, a, b))
    (hw : Spec.pseudoB2 sub (s.reg x.val) (s.reg y.val) = some t) :
    Spec.branchTaken i (s.reg a.val) (s.reg b.val) = some t := by
  unfold pseudoB2 at hn
  split at hn
  · simp only [Option.some.injEq, Prod.mk.injEq] at hn
    obtain ⟨e1, e2, e3⟩ := hn
    subst e1; subst e2; subst e3
    simp only [Spec.pseudoB2] at hw
    injection hw with hw; subst hw
    simp [Spec.branchTaken]
  · simp only [Option.some.injEq, Prod.mk.injEq] at hn
    obtain ⟨e1, e2, e3⟩ := hn
    subst e1; subst e2; subst e3
    simp only [Spec.pseudoB2] at hw
    injection hw with hw; subst hw
    simp [Spec.branchTaken]
  · simp only [Option.some.injEq, Prod.mk.injEq] at hn
    obtain ⟨e1, e2, e3⟩ := hn
    subst e1; subst e2; subst e3
    simp only [Spec.pseudoB2] at hw
    injection hw with hw; subst hw
    simp [Spec.branchTaken]
  · simp only [Option.some.injEq, Prod.mk.injEq] at hn
    obtain ⟨e1, e2, e3⟩ := hn
    subst e1; subst e2; subst e3
    simp only [Spec.pseudoB2] at hw
    injection hw with hw; subst hw
    simp [Spec.branchTaken]
  · simp at hn

end Rva
