/-
  C14 — renaming within a convention class.

  `class_membership_equivariant`: for every admissible renaming σ (keeps each register in its
  class: temporaries among temporaries, saved among saved, everything else fixed) and each of
  the twelve register sets of the *generated* table, `r ∈ S ↔ σ r ∈ S` — so kill/gen sets,
  convention checks and lint triggers that are built from these sets commute with σ.
  `admissible_fixes_args`: σ fixes the registers of the ecall signature table.
  The pipeline-level statement (diags (rename p) = rename (diags p)) is carried by the
  metamorphic check on the real code over sampled permutations and all transpositions.
-/
import Rva.Proofs.Tables
import Rva.Model.Available
namespace Rva

theorem mem_single (x r : Nat) (hr : r < 32) : RegSet.mem (RegSet.single x) r = decide (r = x) := by
  unfold RegSet.mem RegSet.single
  rw [BitVec.getLsbD_shiftLeft]
  by_cases h : r = x
  · subst h; simp [hr]
  · by_cases h2 : r < x
    · simp [h, hr, h2]
    · have h3 : r - x ≠ 0 := by omega
      simp [h, hr, h2, BitVec.getLsbD_one, h3]

theorem mem_ofList (l : List Nat) (r : Nat) (hr : r < 32) :
    RegSet.mem (RegSet.ofList l) r = l.contains r := by
  unfold RegSet.ofList
  suffices ∀ acc : RegSet, RegSet.mem (l.foldl (fun s x => s ||| RegSet.single x) acc) r =
      (RegSet.mem acc r || l.contains r) by
    have := this RegSet.empty
    simpa [RegSet.empty, RegSet.mem] using this
  induction l with
  | nil => intro acc; simp
  | cons x xs ih =>
    intro acc
    simp only [List.foldl_cons, ih, List.contains_cons]
    have : RegSet.mem (acc ||| RegSet.single x) r = (RegSet.mem acc r || RegSet.mem (RegSet.single x) r) := by
      simp [RegSet.mem]
    rw [this, mem_single x r hr]
    by_cases h : r = x
    · simp [h]
    · have hb : (r == x) = false := by simpa using h
      simp [h, hb]

/-- an admissible renaming of registers: a map on 0..31 that keeps every register in its
    convention class (fixes zero, ra, sp, gp, tp and the argument registers; moves temporaries
    among temporaries and saved registers among saved registers) -/
def Admissible (σ : Nat → Nat) : Prop := ∀ r, r < 32 → σ r < 32 ∧ sameClass r (σ r) = true

/-- **C14.** Every register set the analyses and lints consult is invariant under every
    admissible renaming: `r ∈ S ↔ σ r ∈ S`. -/
theorem class_membership_equivariant (σ : Nat → Nat) (hσ : Admissible σ) :
    ∀ cs ∈ Gen.classSets, ∀ r, r < 32 →
      RegSet.mem (RegSet.ofList cs.2) r = RegSet.mem (RegSet.ofList cs.2) (σ r) := by
  intro cs hcs r hr
  have ⟨h1, h2⟩ := hσ r hr
  rw [mem_ofList _ _ hr, mem_ofList _ _ h1]
  exact class_sets_invariant cs hcs r (by simpa using hr) (σ r) (by simpa using h1) h2

/-- An admissible renaming fixes every register mentioned by the ecall signature table. -/
theorem admissible_fixes_args (σ : Nat → Nat) (hσ : Admissible σ) (r : Nat) (hr : r ∈ Spec.arguments) :
    σ r = r := by
  have hlt : r < 32 := by
    have : ∀ x ∈ Spec.arguments, x < 32 := by decide
    exact this r hr
  have ⟨_, h2⟩ := hσ r hlt
  have key : ∀ a ∈ Spec.arguments, ∀ b ∈ List.range 32, sameClass a b = true → b = a := by decide
  exact key r hr (σ r) (by simpa using (hσ r hlt).1) h2

end Rva
