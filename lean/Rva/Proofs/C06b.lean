/-
  C06 — parsing terminates on every input and every include graph.

  `parseLoop_fuel_indep`: the result of the parse loop does not depend on its fuel once the fuel
  is at least the measure `mu` (twice the number of unread items on the lexer stack plus one per
  open file, plus twice the length of every file not yet read plus eight per such file): every step
  of the loop lowers the measure - it consumes an item (`parseStep_progress`), closes a file, or
  opens a file that had not been read (a file is never opened twice: self-inclusion and cycles
  are refused by the reader). `parseFiles_terminates`: the fuel `parseFiles` starts with is
  enough, so the loop always ends because the stack is empty.
-/
import Rva.Proofs.C07b
import Rva.Proofs.C06
namespace Rva

def listW (l : List PItem) : Nat := 2 * l.length + 1
def stackW (st : List (List PItem)) : Nat := (st.map listW).sum
def fileW (f : String × String) : Nat := 2 * f.2.length + 8
def unreadW (r : Reader) : Nat := ((r.files.filter fun f => !r.read.contains f.1).map fileW).sum
def mu (st : List (List PItem)) (r : Reader) : Nat := stackW st + unreadW r

theorem stackW_cons (l : List PItem) (st : List (List PItem)) : stackW (l :: st) = listW l + stackW st := by
  simp [stackW]

/-! ### the lexer yields at most one item per character, plus one -/

theorem lexAll_length (src : Array Char) (c : Cursor) : (lexAll src c).length ≤ src.size - c.pos + 1 := by
  fun_induction lexAll src c with
  | case1 c h => simp
  | case2 c it c' h hg ih =>
    simp only [List.length_cons]
    omega
  | case3 c it c' h hg => simp

theorem lexFile_length (text : String) (f : FileId) : (lexFile text f).length ≤ text.length + 2 := by
  unfold lexFile
  simp only [List.length_map]
  unfold lexString
  split
  · have := lexAll_length text.toList.toArray Cursor.init
    have hp : Cursor.init.pos = 0 := rfl
    simp only [List.size_toArray, String.length_toList, hp] at this
    omega
  · have := lexAll_length (text ++ "\n").toList.toArray Cursor.init
    have hp : Cursor.init.pos = 0 := rfl
    simp only [List.size_toArray, String.length_toList, String.length_append, hp] at this
    have h1 : ("\n" : String).length = 1 := by decide
    omega

/-! ### importing a file -/

theorem sum_filter_remove {α} (w : α → Nat) (p q : α → Bool) (x : α) (hq : ∀ y, q y = true → p y = true)
    (hpx : p x = true) (hqx : q x = false) :
    ∀ l : List α, x ∈ l → ((l.filter q).map w).sum + w x ≤ ((l.filter p).map w).sum := by
  have mono : ∀ l : List α, ((l.filter q).map w).sum ≤ ((l.filter p).map w).sum := by
    intro l
    induction l with
    | nil => simp
    | cons y ys ih =>
      simp only [List.filter_cons]
      by_cases h1 : q y = true
      · simp [h1, hq y h1]; omega
      · by_cases h2 : p y = true
        · simp [h1, h2]; omega
        · simp [h1, h2]; exact ih
  intro l hx
  induction l with
  | nil => simp at hx
  | cons y ys ih =>
    simp only [List.filter_cons]
    rcases List.mem_cons.mp hx with e | e
    · subst e
      have := mono ys
      simp [hpx, hqx]; omega
    · have := ih e
      by_cases h1 : q y = true
      · simp [h1, hq y h1]; omega
      · by_cases h2 : p y = true
        · simp [h1, h2]; omega
        · simp [h1, h2]; exact this

/-- a failed import leaves the reader as it was; a successful one takes a file that had not been
    read out of the unread set -/
theorem importFile_spec (r : Reader) (path : String) :
    (∃ e, r.importFile path = (.error e, r)) ∨
    (∃ fid text r', r.importFile path = (.ok (fid, text), r') ∧ r'.files = r.files ∧
      unreadW r' + (2 * text.length + 8) ≤ unreadW r) := by
  unfold Reader.importFile
  split
  · exact Or.inl ⟨_, rfl⟩
  · split
    · exact Or.inl ⟨_, rfl⟩
    · rename_i hnr
      split
      · rename_i n t hf
        right
        refine ⟨_, _, _, rfl, rfl, ?_⟩
        have hmem : (n, t) ∈ r.files := List.mem_of_find?_eq_some hf
        have hname : n = path := by
          have := List.find?_some hf
          simpa using this
        have hnotread : r.read.contains n = false := by
          rw [hname]; simpa using hnr
        unfold unreadW
        simp only []
        have := sum_filter_remove fileW (fun f => !r.read.contains f.1)
          (fun f => !(r.read ++ [n]).contains f.1) (n, t)
          (by
            intro y hy
            simp only [Bool.not_eq_true', List.contains_eq_mem, List.mem_append, List.mem_singleton,
              decide_eq_false_iff_not, not_or] at hy ⊢
            exact hy.1)
          (by simpa using hnotread)
          (by simp)
          r.files hmem
        simpa [fileW] using this
      · exact Or.inl ⟨_, rfl⟩

/-! ### every step of the loop lowers the measure -/

theorem parseStep_len (top : List PItem) : (parseStep top).2.length ≤ top.length ∧
    (top ≠ [] → (parseStep top).2.length + 1 ≤ top.length) := by
  cases top with
  | nil =>
    have := (parseStep_suffix []).length_le
    exact ⟨this, fun h => absurd rfl h⟩
  | cons it rest =>
    have := parseStep_shorter it rest
    exact ⟨by omega, fun _ => by omega⟩

theorem parseStep_nil_eof (top : List PItem) (h : top = []) : (parseStep top).1 = .error .unexpectedEOF := by
  subst h
  simp [parseStep, parseNode, getAny, bind, ExceptT.bind, ExceptT.mk, ExceptT.bindCont, ExceptT.run,
    StateT.bind, StateT.run, get, getThe, MonadStateOf.get, StateT.get, liftM, monadLift, MonadLift.monadLift,
    ExceptT.lift, pure, StateT.pure, throw, throwThe, MonadExceptOf.throw, Id.run, Functor.map, StateT.map]

/-- the loop's own result once the stack is empty -/
theorem parseLoop_nil (fuel : Nat) (r : Reader) (nodes : List Node) (errs : List ParseErr) :
    parseLoop fuel [] r nodes errs = ⟨nodes.reverse, errs.reverse, r⟩ := by
  cases fuel <;> rfl

theorem stackW_pos (l : List PItem) (st : List (List PItem)) : 1 ≤ stackW (l :: st) := by
  rw [stackW_cons]; unfold listW; omega

/-- **C06 (`parseLoop_fuel_indep`).** With at least `mu stack reader` fuel the parse loop gives the
    result it gives with any larger amount: it ends because its stack is empty, never because the
    fuel ran out. -/
theorem parseLoop_fuel_indep (fuel : Nat) : ∀ (fuel' : Nat) (st : List (List PItem)) (r : Reader)
    (nodes : List Node) (errs : List ParseErr), mu st r ≤ fuel → mu st r ≤ fuel' →
    parseLoop fuel st r nodes errs = parseLoop fuel' st r nodes errs := by
  induction fuel with
  | zero =>
    intro fuel' st r nodes errs h _
    cases st with
    | nil => rw [parseLoop_nil, parseLoop_nil]
    | cons l t => have := stackW_pos l t; unfold mu at h; omega
  | succ n ih =>
    intro fuel' st r nodes errs h h'
    cases st with
    | nil => rw [parseLoop_nil, parseLoop_nil]
    | cons top below =>
      cases fuel' with
      | zero => have := stackW_pos top below; unfold mu at h'; omega
      | succ n' =>
        have hmu : mu (top :: below) r = listW top + stackW below + unreadW r := by
          unfold mu; rw [stackW_cons]
        rw [hmu] at h h'
        have hlen := parseStep_len top
        have heof := parseStep_eof top
        -- the three shapes the next stack can take
        have keep : ∀ (l : List PItem) (nodes' : List Node) (errs' : List ParseErr),
            l.length + 1 ≤ top.length →
            parseLoop n (l :: below) r nodes' errs' = parseLoop n' (l :: below) r nodes' errs' := by
          intro l nodes' errs' hl
          apply ih <;> (unfold mu; rw [stackW_cons]; unfold listW at *; omega)
        have pop : ∀ (nodes' : List Node) (errs' : List ParseErr),
            parseLoop n below r nodes' errs' = parseLoop n' below r nodes' errs' := by
          intro nodes' errs'
          apply ih <;> (unfold mu; unfold listW at *; omega)
        have hrec : ∀ l : List PItem, (recover l).length ≤ l.length := recover_shorter
        unfold parseLoop
        cases hps : parseStep top with
        | mk res rest =>
          rw [hps] at hlen heof
          simp only [] at hlen heof
          have hne : top ≠ [] ∨ top = [] := by
            cases top with
            | nil => exact Or.inr rfl
            | cons _ _ => exact Or.inl (by simp)
          cases res with
          | ok x =>
            -- a node was parsed: the list was not empty
            have htop : top ≠ [] := by
              rcases hne with h1 | h1
              · exact h1
              · have := parseStep_nil_eof top h1; rw [hps] at this; simp at this
            have hl := hlen.2 htop
            simp only []
            cases hinc : x.includePath with
            | none => simp only []; exact keep rest _ _ hl
            | some path =>
              simp only []
              rcases importFile_spec r path.val with ⟨e, he⟩ | ⟨fid, text, r', he, _, hw⟩
              · rw [he]; simp only []; exact keep rest _ _ hl
              · rw [he]
                simp only []
                apply ih <;>
                  (unfold mu; rw [stackW_cons, stackW_cons]; unfold listW at *
                   have := lexFile_length text fid
                   omega)
          | error e =>
            simp only []
            rcases hne with htop | htop
            · have hl := hlen.2 htop
              cases e with
              | expected ex got =>
                simp only []
                split
                · exact keep rest _ _ hl
                · exact keep (recover rest) _ _ (by have := hrec rest; omega)
              | isNewline t => simp only []; exact keep rest _ _ hl
              | unexpectedToken got => simp only []; exact keep (recover rest) _ _ (by have := hrec rest; omega)
              | unexpectedEOF => simp only []; exact pop _ _
              | needTwoNodes a b => simp only []; exact keep rest _ _ hl
              | unexpectedError t => simp only []; exact keep (recover rest) _ _ (by have := hrec rest; omega)
              | unknownDirective t => simp only []; exact keep (recover rest) _ _ (by have := hrec rest; omega)
              | ignoredWithWarning t => simp only []; exact keep (recover rest) _ _ (by have := hrec rest; omega)
              | unsupportedDirective t => simp only []; exact keep (recover rest) _ _ (by have := hrec rest; omega)
              | ignoredWithoutWarning => simp only []; exact keep rest _ _ hl
              | invalidString t k p => simp only []; exact keep (recover rest) _ _ (by have := hrec rest; omega)
            · -- the top file is used up: the only outcome is end-of-input, and the file is closed
              have hr := parseStep_nil_eof top htop
              rw [hps] at hr
              simp only [Except.error.injEq] at hr
              subst hr
              simp only []
              exact pop _ _

theorem foldl_fuel (files : List (String × String)) (a : Nat) :
    files.foldl (fun a f => a + 2 * f.2.length + 8) a = a + (files.map fileW).sum := by
  induction files generalizing a with
  | nil => simp
  | cons f fs ih => simp only [List.foldl_cons, ih, List.map_cons, List.sum_cons, fileW]; omega

theorem unreadW_fresh (files : List (String × String)) :
    unreadW { files := files } = (files.map fileW).sum := by
  unfold unreadW
  have : (fun f : String × String => !([] : List String).contains f.1) = fun _ => true := by
    funext f; simp
  rw [this]
  have hf : ∀ l : List (String × String), l.filter (fun _ => true) = l := by
    intro l; induction l with
    | nil => rfl
    | cons x xs ih => simp [List.filter_cons]
  rw [hf]

/-- **C06 (`parseFiles_terminates`).** The fuel `parseFiles` gives its loop is enough for every
    set of files and every include graph among them (self-inclusion, cycles, missing files, any
    depth): with any additional fuel the loop returns the same nodes, errors and reader - it ends
    because the lexer stack is empty. -/
theorem parseFiles_terminates (files : List (String × String)) (base : String) (fid : FileId) (text : String)
    (r' : Reader) (h : ({ files := files } : Reader).importFile base = (.ok (fid, text), r')) (extra : Nat)
    (nodes : List Node) (errs : List ParseErr) :
    parseLoop (files.foldl (fun a f => a + 2 * f.2.length + 8) 16 + extra) [lexFile text fid] r' nodes errs =
      parseLoop (files.foldl (fun a f => a + 2 * f.2.length + 8) 16) [lexFile text fid] r' nodes errs := by
  have hmu : mu [lexFile text fid] r' ≤ files.foldl (fun a f => a + 2 * f.2.length + 8) 16 := by
    rw [foldl_fuel]
    rcases importFile_spec { files := files } base with ⟨e, he⟩ | ⟨fid', text', r'', he, _, hw⟩
    · rw [he] at h; simp at h
    · rw [he] at h
      simp only [Prod.mk.injEq, Except.ok.injEq] at h
      obtain ⟨⟨_, ht⟩, hr⟩ := h
      subst ht; subst hr
      rw [unreadW_fresh] at hw
      unfold mu
      rw [stackW_cons]
      unfold listW stackW
      have := lexFile_length text' fid
      simp only [List.map_nil, List.sum_nil]
      omega
  exact parseLoop_fuel_indep _ _ _ _ _ _ (by omega) hmu

end Rva
