/-
  C06 — the parts of "terminates without crashing" that are theorems about the model:
  * the lexer makes progress on every call and never leaves the text (`lexNext_progress`,
    `lexAll_guard`, Proofs/LexTotal): no recursion, at most one step per character;
  * constant folding is total and its 64-bit intermediate products cannot overflow
    (`mulh_product_exact`, `mulhsu_product_exact`, `operate_rv32`, Proofs/C08);
  * literal parsing is total and rejects instead of wrapping (`imm_spec`, Proofs/C17);
  * `recover_shorter`: error recovery never lengthens the remaining input, and
    `parseStep`-independent facts about the parse loop's fuel are checked by correspondence.
  Rust stack depth, allocator behaviour and wall-clock time cannot be exhibited by the model;
  they are observed on the real binaries by the check (watchdog, both build profiles, size
  doubling).
-/
import Rva.Proofs.LexTotal
import Rva.Proofs.C08
import Rva.Proofs.C17
import Rva.Proofs.C07
namespace Rva

/-- Recovery consumes input: what is left is never longer than what was there. -/
theorem recover_shorter (l : List PItem) : (recover l).length ≤ l.length := by
  obtain ⟨pre, h⟩ := recover_suffix l
  have := congrArg List.length h
  simp at this
  omega

end Rva
