/-
  C01, the layers together — `exec_sound_all`: register claims and stack-slot claims hold along
  every execution through register-to-register instructions, branches, jumps, returns, word
  stores through the stack pointer, word loads, calls (callee contract), environment calls
  (environment contract) and the start of an activation at an entry node. Not covered: CSR
  instructions and sub-word memory accesses.
-/
import Rva.Proofs.C01Mem
namespace Rva

/-- at an entry node the memory out-map is empty -/
theorem entry_memOut_nil (cn : CNode) (inReg : AMap Reg) (inMem : AMap MemLoc) (regOut : AMap Reg)
    (he : cn.node.isAnyEntry = true) : nodeMemOut cn inReg inMem regOut = [] := by
  unfold nodeMemOut
  simp only [he, if_true]
  have hz : zeroConsts ([] : AMap MemLoc) inMem = [] := by
    unfold zeroConsts
    induction inMem with
    | nil => rfl
    | cons p ps ih =>
      simp only [List.foldl_cons]
      have : zeroStep ([] : AMap MemLoc) p = [] := by
        unfold zeroStep
        split <;> simp [AMap.get]
      rw [this]; exact ih
  rw [hz]
  have hp : rulePushValueToCsrMemory cn.node [] regOut = [] := by
    unfold rulePushValueToCsrMemory
    have : cn.node.storesToMemory = none := by
      cases h : cn.node <;> rw [h] at he <;> simp [Node.isAnyEntry, Node.storesToMemory] at he ⊢
    rw [this]
  rw [hp]
  rfl

theorem mem_or' (a b : RegSet) (r : Reg) : RegSet.mem (a ||| b) r = (RegSet.mem a r || RegSet.mem b r) := by
  simp [RegSet.mem]

theorem mem_ecallKills_of_ovSet (cn : CNode) (inReg : AMap Reg) (he : cn.node.isEcall = true) (r : Reg)
    (hr : RegSet.mem (ovSet { cn with regIn := inReg }) r = false) : r ∉ ecallKills cn inReg := by
  unfold ovSet at hr
  unfold ecallKills
  have hcall : cn.node.callsTo = none := by
    cases h : cn.node <;> rw [h] at he <;> simp [Node.isEcall, Node.callsTo] at he ⊢
  simp only [hcall, Option.isSome_none, Bool.false_eq_true, if_false, he, Bool.true_and] at hr
  cases hsig : ecallSignature { cn with regIn := inReg } with
  | some p =>
    obtain ⟨a, rets⟩ := p
    rw [hsig] at hr
    simp only [] at hr ⊢
    intro hm
    rw [mem_toList] at hm
    rw [mem_or'] at hr
    simp [hm.2] at hr
  | none =>
    rw [hsig] at hr
    simp only [] at hr ⊢
    simp only [if_true] at hr ⊢
    intro hm
    have hlt : r < 32 := by
      simp only [List.mem_cons, List.mem_nil_iff, or_false] at hm
      rcases hm with rfl | rfl <;> decide
    rw [mem_or', mem_ofList [10, 11] r hlt] at hr
    have : ([10, 11] : List Nat).contains r = true := by simpa using hm
    simp [this] at hr
    simp only [List.mem_cons, List.mem_nil_iff, or_false] at hm
    rcases hm with h | h
    · exact hr.2.1 h
    · exact hr.2.2 h

/-- one machine step, all supported instruction kinds -/
inductive AStep (g : Cfg) (i : Nat) (s s' : MState) : Prop where
  | mem : MStep g i s s' → AStep g i s s'
  | call (inst : W String) (rd : W Reg) (name : W String) (t : RawTok) :
      (g.get i).node = .jumpLink inst rd name t → rd.val = 1 →
      (∀ r, r ∉ Gen.callerSavedSet → r ≠ 1 → s'.reg r = s.reg r) →
      s'.entry = s.entry → s'.addr = s.addr →
      (∀ off v, AMap.get (g.get i).memIn (.stack off) = some v →
        s'.mem (s.entry 2 + off) = s.mem (s.entry 2 + off)) → AStep g i s s'
  | ecall : (g.get i).node.isEcall = true →
      (∀ r, r ∉ ecallKills (g.get i) (g.get i).regIn → s'.reg r = s.reg r) →
      s'.entry = s.entry → s'.addr = s.addr →
      (∀ off v, AMap.get (g.get i).memIn (.stack off) = some v →
        s'.mem (s.entry 2 + off) = s.mem (s.entry 2 + off)) → AStep g i s s'
  | entry : (g.get i).node.isAnyEntry = true →
      ((g.get i).node.isFunctionEntry = true ∨ (g.get i).regIn = []) →
      (∀ r, s'.entry r = s'.reg r) → s'.reg 0 = 0#32 → AStep g i s s'

inductive AExec (g : Cfg) (V : List Nat) (i0 : Nat) (s0 : MState) : Nat → MState → Prop where
  | start : AExec g V i0 s0 i0 s0
  | step (i j : Nat) (s s' : MState) : AExec g V i0 s0 i s → AStep g i s s' →
      i ∈ V → j ∈ V → i ∈ (g.get j).prevs → AExec g V i0 s0 j s'


/-- **C01 (`exec_sound_all`).** In a finished run whose facts are a fixed point (`GoodFactsM`,
    decided per program by the model), along every execution — any number of steps, any
    branching, looping, calling — through register-to-register instructions, branches, jumps,
    returns, word stores through a stack pointer at a known position, word loads, calls whose
    callee keeps the contract, environment calls that write only the registers the analysis
    forgets, and entries: every constant / label-address / entry-relative register claim and every
    stack-slot claim attached to the node about to execute is true in the machine state. -/
theorem exec_sound_all (g : Cfg) (V : List Nat) (hf : GoodFactsM g V) (i0 : Nat) (s0 : MState)
    (h0 : Sound s0 (g.get i0).regIn) (h0m : MemSound s0 (g.get i0).memIn)
    (h0e : s0.entry 0 = 0#32) (h0z : s0.reg 0 = 0#32) (j : Nat) (s' : MState)
    (he : AExec g V i0 s0 j s') :
    Sound s' (g.get j).regIn ∧ MemSound s' (g.get j).memIn ∧ s'.entry 0 = 0#32 ∧ s'.reg 0 = 0#32 := by
  induction he with
  | start => exact ⟨h0, h0m, h0e, h0z⟩
  | step i j s s' _ hstep hi hj hedge ih =>
    obtain ⟨ihs, ihm, ihe, ihz⟩ := ih
    have hboth : Sound s' (g.get i).regOut ∧ MemSound s' (g.get i).memOut ∧ s'.entry 0 = 0#32 ∧
        s'.reg 0 = 0#32 := by
      cases hstep with
      | mem hm => exact mstep_out_sound g V hf i hi s s' ihs ihm ihe ihz hm
      | call inst rd name t hn hrd hc hentry haddr hslots =>
        have hz' : s'.reg 0 = 0#32 := by rw [hc 0 (by decide) (by decide)]; exact ihz
        refine ⟨?_, ?_, by rw [hentry]; exact ihe, hz'⟩
        · exact sound_of_get_eq s' _ _ (hf.eqOut i hi)
            (call_transfer_sound (g.get i) _ _ s s' inst rd name t hn hrd ihe ihs
              (fun r h1 h2 _ => hc r h1 h2) hentry haddr)
        · apply memSound_of_get_eq s' _ _ (hf.eqMemOut i hi)
          have hne : (g.get i).node.isAnyEntry = false := by rw [hn]; rfl
          have hgm : (g.get i).node.genMemoryValue = none := by rw [hn]; rfl
          apply mem_silent_sound (g.get i) _ _ _ s s' hne hgm (hf.wfMemIn i) ihs ihm ihz ihe hentry haddr
          · intro r hr
            -- what a call overwrites: the caller-saved registers and ra
            have hov : ovSet { g.get i with regIn := (g.get i).regIn } =
                (g.get i).node.killReg ||| returnAddrSet := by
              unfold ovSet
              have hcall : (g.get i).node.callsTo = some name := by rw [hn]; simp [Node.callsTo, hrd]
              have hec : (g.get i).node.isEcall = false := by rw [hn]; rfl
              have hsig : ecallSignature { g.get i with regIn := (g.get i).regIn } = none := by
                unfold ecallSignature knownEcall; simp [hec]
              simp [hcall, hec, hsig]
            rw [hov, mem_or'] at hr
            simp only [Bool.or_eq_false_iff] at hr
            have hk : RegSet.toList (g.get i).node.killReg = Gen.callerSavedSet := by
              unfold Node.killReg
              have hcall : (g.get i).node.callsTo = some name := by rw [hn]; simp [Node.callsTo, hrd]
              simp only [hcall, Option.isSome_some, Bool.true_or, if_true]
              exact callerKill_list
            by_cases hlt : r < 32
            · apply hc r
              · intro hm
                rw [← hk, mem_toList] at hm
                rw [hm.2] at hr; simp at hr
              · intro h1
                subst h1
                have : RegSet.mem returnAddrSet 1 = true := by decide
                rw [this] at hr; simp at hr
            · apply hc r
              · intro hm
                have : ∀ x ∈ Gen.callerSavedSet, x < 32 := by decide
                exact hlt (this r hm)
              · intro h1; subst h1; exact hlt (by decide)
          · exact hslots
      | ecall hec henv hentry haddr hslots =>
        have hz' : s'.reg 0 = 0#32 := by
          by_cases h0 : (0 : Reg) ∈ ecallKills (g.get i) (g.get i).regIn
          · -- x0 is hard-wired: the environment cannot change it either; the analysis never lists it
            exfalso
            have := ecall_preRules (g.get i) (g.get i).regIn hec
            -- the forgotten registers come from the table / are a0, a1: none is x0
            unfold ecallKills at h0
            split at h0
            · rename_i a rets hsig
              rw [mem_toList] at h0
              unfold ecallSignature at hsig
              split at hsig
              · rename_i c _
                split at hsig
                · rename_i row hrow
                  simp only [Option.some.injEq, Prod.mk.injEq] at hsig
                  obtain ⟨_, hr⟩ := hsig
                  have hmem := List.mem_of_find?_eq_some hrow
                  have hno : ∀ row ∈ Gen.ecallTable, (0 : Nat) ∉ row.2.2 := by decide
                  rw [← hr, mem_ofList _ 0 (by decide)] at h0
                  exact hno _ hmem (by simpa using h0.2)
                · simp at hsig
              · simp at hsig
            · simp at h0
          · rw [henv 0 h0]; exact ihz
        refine ⟨?_, ?_, by rw [hentry]; exact ihe, hz'⟩
        · exact sound_of_get_eq s' _ _ (hf.eqOut i hi)
            (ecall_transfer_sound (g.get i) _ _ s s' hec ihe ihs (fun r h1 _ => henv r h1) hentry haddr)
        · apply memSound_of_get_eq s' _ _ (hf.eqMemOut i hi)
          have hne : (g.get i).node.isAnyEntry = false := by
            cases h : (g.get i).node <;> rw [h] at hec <;> simp [Node.isEcall, Node.isAnyEntry] at hec ⊢
          have hgm : (g.get i).node.genMemoryValue = none := by
            cases h : (g.get i).node <;> rw [h] at hec <;> simp [Node.isEcall, Node.genMemoryValue] at hec ⊢
          apply mem_silent_sound (g.get i) _ _ _ s s' hne hgm (hf.wfMemIn i) ihs ihm ihz ihe hentry haddr
          · intro r hr
            exact henv r (mem_ecallKills_of_ovSet (g.get i) _ hec r hr)
          · exact hslots
      | entry hen hempty hact hz =>
        refine ⟨?_, ?_, by rw [hact 0]; exact hz, hz⟩
        · apply sound_of_get_eq s' _ _ (hf.eqOut i hi)
          exact entry_transfer_sound (g.get i) _ _ s' hen hempty hact hz
        · apply memSound_of_get_eq s' _ _ (hf.eqMemOut i hi)
          rw [entry_memOut_nil _ _ _ _ hen]
          intro off v hget
          simp [AMap.get] at hget
    obtain ⟨hout, hmout, hent, hzero⟩ := hboth
    refine ⟨?_, ?_, hent, hzero⟩
    · apply sound_of_get_eq s' _ _ (hf.eqIn j hj)
      apply meetOver_sound s' _ _ (g.get i).regOut _ hout
      · intro m hm
        obtain ⟨p, _, rfl⟩ := List.mem_map.mp hm
        exact hf.wfOut p
      · apply List.mem_map.mpr
        refine ⟨i, ?_, rfl⟩
        rw [List.mem_filter]
        exact ⟨hedge, by simpa using hi⟩
    · apply memSound_of_get_eq s' _ _ (hf.eqMemIn j hj)
      apply meetOver_memSound s' _ _ (g.get i).memOut _ hmout
      · intro m hm
        obtain ⟨p, _, rfl⟩ := List.mem_map.mp hm
        exact hf.wfMemOut p
      · apply List.mem_map.mpr
        refine ⟨i, ?_, rfl⟩
        rw [List.mem_filter]
        exact ⟨hedge, by simpa using hi⟩

end Rva
