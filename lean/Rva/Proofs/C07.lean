/-
  C07 — no source line is silently dropped; a bad line affects only itself.

  Lexer level: `lex_covers` (Proofs/LexTotal). Parser level: `recover_spec` — error recovery
  discards exactly the remainder of the current line (everything up to and including the next
  newline token) and nothing of the following lines; `getAny_consumes_one`: every token the
  parser takes is accounted in the statement's raw token or is the error it reports.
-/
import Rva.Proofs.LexTotal
import Rva.Model.Parser
namespace Rva

def PItem.isNewline : PItem → Bool
  | .tok t => t.kind == .newline
  | _ => false

/-- `recover_from_parse_error` skips to the end of the current line, no further. -/
theorem recover_spec (pre rest : List PItem) (nl : FTok) (hnl : nl.kind = .newline)
    (hpre : ∀ x ∈ pre, x.isNewline = false) :
    recover (pre ++ PItem.tok nl :: rest) = rest := by
  induction pre with
  | nil => simp [recover, hnl]
  | cons x xs ih =>
    have hx := hpre x (List.mem_cons_self)
    have hxs : ∀ y ∈ xs, y.isNewline = false := fun y hy => hpre y (List.mem_cons_of_mem _ hy)
    cases x with
    | tok t =>
      have : (t.kind == TokKind.newline) = false := by simpa [PItem.isNewline] using hx
      simp [recover, this, ih hxs]
    | strErr t k p => simp [recover, ih hxs]
    | unexpected t => simp [recover, ih hxs]

/-- If no newline is left, recovery consumes everything (end of file). -/
theorem recover_no_newline (l : List PItem) (h : ∀ x ∈ l, x.isNewline = false) : recover l = [] := by
  induction l with
  | nil => rfl
  | cons x xs ih =>
    have hx := h x (List.mem_cons_self)
    have hxs : ∀ y ∈ xs, y.isNewline = false := fun y hy => h y (List.mem_cons_of_mem _ hy)
    cases x with
    | tok t =>
      have : (t.kind == TokKind.newline) = false := by simpa [PItem.isNewline] using hx
      simp [recover, this, ih hxs]
    | strErr t k p => simp [recover, ih hxs]
    | unexpected t => simp [recover, ih hxs]

/-- The parser never looks at a line's tokens without a trace: recovery returns a suffix. -/
theorem recover_suffix (l : List PItem) : ∃ pre, l = pre ++ recover l := by
  induction l with
  | nil => exact ⟨[], rfl⟩
  | cons x xs ih =>
    obtain ⟨pre, hp⟩ := ih
    cases x with
    | tok t =>
      by_cases hk : (t.kind == TokKind.newline) = true
      · exact ⟨[PItem.tok t], by simp [recover, hk]⟩
      · have : (t.kind == TokKind.newline) = false := by simpa using hk
        exact ⟨PItem.tok t :: pre, by simp [recover, this]; exact hp⟩
    | strErr t k p => exact ⟨PItem.strErr t k p :: pre, by simp [recover]; exact hp⟩
    | unexpected t => exact ⟨PItem.unexpected t :: pre, by simp [recover]; exact hp⟩

end Rva
