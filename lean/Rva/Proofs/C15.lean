/-
  C15 — include faults.

  * `toParseErr_located`: every reader fault becomes a parse error located on the token of the
    path written in the directive.
  * `include_fault_one_error`: when the reader refuses the file of an `.include`, the parse loop
    records exactly that one error, keeps every node and error collected so far, does not enter
    any file, and continues with the statement after the directive.
  * `import_twice_refused`: the in-memory reader hands out a file at most once, so self- and
    cyclic inclusion is answered with `FileAlreadyRead` (→ "Cyclic dependency").
  Textual-inclusion equivalence for whole include trees is carried by the metamorphic check
  (split vs pasted) on the real code with both readers, and the model correspondence.
-/
import Rva.Model.Parser
namespace Rva

theorem toParseErr_located (e : ReaderErr) (path : W String) : (e.toParseErr path).tok = path.tok := by
  cases e <;> rfl

/-- One step of the parse loop at an `.include` whose file the reader refuses. -/
theorem include_fault_one_error (fuel : Nat) (top : List PItem) (below : List (List PItem)) (r r' : Reader)
    (nodes : List Node) (errs : List ParseErr) (x : Node) (rest : List PItem) (path : W String)
    (e : ReaderErr)
    (hstep : parseStep top = (.ok x, rest)) (hinc : x.includePath = some path)
    (himp : r.importFile path.val = (.error e, r')) :
    parseLoop (fuel + 1) (top :: below) r nodes errs =
      parseLoop fuel (rest :: below) r' nodes (e.toParseErr path :: errs) := by
  rw [parseLoop]
  simp only [hstep, hinc, himp]

/-- …and when the reader delivers the file, its tokens are parsed next, in place. -/
theorem include_enters_file (fuel : Nat) (top : List PItem) (below : List (List PItem)) (r r' : Reader)
    (nodes : List Node) (errs : List ParseErr) (x : Node) (rest : List PItem) (path : W String)
    (fid : FileId) (text : String)
    (hstep : parseStep top = (.ok x, rest)) (hinc : x.includePath = some path)
    (himp : r.importFile path.val = (.ok (fid, text), r')) :
    parseLoop (fuel + 1) (top :: below) r nodes errs =
      parseLoop fuel (lexFile text fid :: rest :: below) r' nodes errs := by
  rw [parseLoop]
  simp only [hstep, hinc, himp]

/-- The reader never hands out the same file twice. -/
theorem import_twice_refused (r r' : Reader) (p : String) (fid : FileId) (text : String)
    (h : r.importFile p = (.ok (fid, text), r')) :
    ∃ e, (r'.importFile p).1 = .error e := by
  unfold Reader.importFile at h
  split at h
  · cases h
  · split at h
    · cases h
    · split at h
      · rename_i n t hf
        injection h with h1 h2
        subst h2
        have hn : n = p := by
          have := List.find?_some hf
          simpa using this
        unfold Reader.importFile
        split
        · exact ⟨_, rfl⟩
        · rename_i hio
          have : (r.read ++ [n]).contains p = true := by
            subst hn; simp
          simp only [this, if_true]
          exact ⟨_, rfl⟩
      · cases h

end Rva
