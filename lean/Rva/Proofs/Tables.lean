/-
  Theorems over the *generated* tables (tie (A)): they are re-checked by the kernel against
  what the Rust source says on every run. Used by C05, C08, C13, C14, C18, C19.
-/
import Rva.Gen.Tables
import Rva.Spec.Asm
import Rva.Spec.Ecalls
namespace Rva
open Spec

/-! ### C08: operators and formats -/

/-- Every RV32IM computational instruction is folded with the operator the manual gives it. -/
theorem mathOp_table_correct :
    ∀ p ∈ Spec.mathOps, (Gen.mathOp.find? (·.1 == p.1)).map (·.2) = some p.2 := by decide

/-- …and nothing else is folded, except the RV64 `w` forms. -/
theorem mathOp_table_only :
    ∀ p ∈ Gen.mathOp, p ∈ Spec.mathOps ∨ p.1 ∈ Spec.rv64Only := by decide

/-- Only `add`, `addi`, `sub` are applied to entry-relative values. -/
theorem scalarOp_table_correct : Gen.scalarOp = Spec.scalarOps := by decide

/-- Every base mnemonic has the instruction format the manual gives it. -/
theorem format_table_correct :
    ∀ p ∈ Spec.formats, (Gen.instTypes.find? (·.1 == p.1)).map (·.2.1) = some p.2 := by decide

/-- The mnemonic table is a function: no spelling is listed twice. -/
theorem mnemonics_nodup : (Gen.mnemonics.map (·.1)).Nodup := by decide

/-! ### C13/C14: registers -/

theorem regNames_total : ∀ n ∈ List.range 32, (Gen.regNames.any (·.2 == n)) = true := by decide

/-- Numeric and ABI spellings denote the same register. -/
theorem reg_alias :
    ∀ p ∈ Spec.abiNames,
      (Gen.regNames.find? (·.1 == p.2)).map (·.2) = some p.1 ∧
      (Gen.regNames.find? (·.1 == "x" ++ toString p.1)).map (·.2) = some p.1 := by decide

theorem regDisplay_correct : Gen.regDisplay = Spec.abiNames := by decide
theorem regToNum_id : ∀ p ∈ Gen.regToNum, p.1 = p.2 := by decide
theorem regFromNum_id : ∀ p ∈ Gen.regFromNum, p.1 = p.2 := by decide

theorem class_sets_match_abi :
    Gen.temporarySet = Spec.temporaries ∧ Gen.savedSet = Spec.saved ∧
    Gen.argumentSet = Spec.arguments ∧ Gen.returnSet = Spec.arguments ∧
    Gen.spRaSet = [1, 2] ∧ Gen.returnAddrSet = [1] ∧ Gen.constZeroSet = [0] ∧
    Gen.programArgsSet = [10, 11] ∧ Gen.ecallAlwaysArgumentSet = [17] ∧ Gen.ecallTypeReg = 17 := by
  decide

/-- Two registers are interchangeable under a same-class renaming. -/
def sameClass (r s : Nat) : Bool :=
  r == s || (Spec.temporaries.contains r && Spec.temporaries.contains s) ||
    (Spec.saved.contains r && Spec.saved.contains s)

/-- **C14 (tables).** Each of the twelve register sets the analyses use is a union of classes:
    membership is invariant under exchanging two temporaries or two saved registers. -/
theorem class_sets_invariant :
    ∀ cs ∈ Gen.classSets, ∀ r ∈ List.range 32, ∀ s ∈ List.range 32,
      sameClass r s = true → (cs.2.contains r = cs.2.contains s) := by decide

/-- The ecall signature table only mentions argument registers (fixed by every admissible
    renaming). -/
theorem ecall_table_args_only :
    ∀ row ∈ Gen.ecallTable, (∀ r ∈ row.2.1, r ∈ Spec.arguments) ∧ (∀ r ∈ row.2.2, r ∈ Spec.arguments) := by
  decide

/-- **C02/C01 (tables).** For every RARS environment call of the independent table, the code's
    signature table lists exactly the registers the environment reads and writes. -/
theorem ecall_table_matches_rars :
    ∀ row ∈ Spec.rarsEcalls, Gen.ecallTable.find? (fun r => r.1 == row.1) = some row := by decide

/-! ### C05/C18: diagnostics tables -/

theorem lint_codes_nodup : (Gen.lintCodes.map (·.2)).Nodup := by decide
theorem lint_titles_nonempty : ∀ p ∈ Gen.lintTitles, p.2 ≠ "" := by decide
theorem lint_tables_total :
    ∀ p ∈ Gen.lintCodes, (Gen.lintTitles.any (·.1 == p.1)) = true ∧
      (Gen.lintSeverities.any (·.1 == p.1)) = true := by decide
/-- one severity per kind -/
theorem lint_severity_functional : (Gen.lintSeverities.map (·.1)).Nodup := by decide

/-! ### C19: serialization tags -/

/-- The serde tags of `AvailableValue` are pairwise distinct. -/
theorem value_tags_nodup : (Gen.valueTags.map (·.2.1)).Nodup := by decide

end Rva
