/-
  C01, fourth layer — calls, environment calls and entries in the execution theorem.

  * `call_transfer_sound`: at a call site the analysis forgets every caller-saved register and
    `ra`; whatever it still claims is true after the call, provided the callee keeps the
    contract (it returns with all other registers as they were).
  * `ecall_transfer_sound`: at an `ecall` the analysis forgets the result registers of the call
    (from its signature table when the number is a known constant, `a0`/`a1` when it is not);
    whatever it still claims is true afterwards, provided the environment writes only the
    registers the analysis forgot. `ecallKill_covers_rars`: for every documented RARS call those
    are exactly the registers the call writes (independent table, `Spec/Ecalls`), and `a0`/`a1`
    cover every documented call.
  * `entry_transfer_sound`: the seeds at a function / program entry ("callee-saved registers
    hold their entry values") are true when the entry values are the current ones.
  `exec_sound_full` extends `exec_sound` with these steps.
-/
import Rva.Proofs.C01Path
import Rva.Proofs.C14
namespace Rva

/-! ### the registers a node's transfer forgets -/

theorem callerKill_list :
    RegSet.toList (RegSet.diff callerSavedSet constZeroSet) = Gen.callerSavedSet := by decide

theorem returnAddr_list : RegSet.toList returnAddrSet = [1] := by decide

/-- the map before the rules at a call site: the in-map without the caller-saved registers
    and `ra` -/
theorem call_preRules (cn : CNode) (inReg : AMap Reg) (i : W String) (rd : W Reg)
    (name : W String) (t : RawTok) (hn : cn.node = .jumpLink i rd name t) (hrd : rd.val = 1) :
    preRules cn inReg = [1].foldl AMap.erase (Gen.callerSavedSet.foldl AMap.erase inReg) := by
  unfold preRules
  have hcall : cn.node.callsTo = some name := by rw [hn]; simp [Node.callsTo, hrd]
  have hfe : cn.node.isFunctionEntry = false := by rw [hn]; rfl
  have hhe : cn.node.isHandlerFunctionEntry = false := by rw [hn]; rfl
  have hpe : cn.node.isProgramEntry = false := by rw [hn]; rfl
  have hec : cn.node.isEcall = false := by rw [hn]; rfl
  have hgen : cn.node.genRegValue = none := by rw [hn]; rfl
  have hsig : ecallSignature { cn with regIn := inReg } = none := by
    unfold ecallSignature knownEcall; simp [hec]
  have hkill : RegSet.toList cn.node.killReg = Gen.callerSavedSet := by
    unfold Node.killReg
    simp only [hcall, Option.isSome_some, Bool.true_or, if_true]
    exact callerKill_list
  simp only [hcall, hhe, hfe, hpe, hec, hsig, hgen, hkill, returnAddr_list, insertGen, Option.isSome_some,
    Bool.false_eq_true, if_false, if_true, Bool.false_and]

/-- **a call site is sound** under the callee's contract: the callee returns with every
    register other than the caller-saved ones and `ra` unchanged -/
theorem call_transfer_sound (cn : CNode) (inReg : AMap Reg) (inMem : AMap MemLoc) (s s' : MState)
    (i : W String) (rd : W Reg) (name : W String) (t : RawTok)
    (hn : cn.node = .jumpLink i rd name t) (hrd : rd.val = 1)
    (he0 : s.entry 0 = 0#32) (hs : Sound s inReg)
    (hcontract : ∀ r, r ∉ Gen.callerSavedSet → r ≠ 1 → r ≠ 0 → s'.reg r = s.reg r)
    (hentry : s'.entry = s.entry) (haddr : s'.addr = s.addr) :
    Sound s' (nodeRegOut cn inReg inMem) := by
  have hpre := call_preRules cn inReg i rd name t hn hrd
  have hw : cn.node.writesTo = some rd := by rw [hn]; rfl
  apply rules_sound cn inReg inMem s' ⟨by rw [hn]; rfl, fun _ _ => by rw [hn]; rfl⟩
    (by rw [hentry]; exact he0)
  · rw [hpre]
    intro k val hk0 hget
    rw [AMap.get_foldl_erase, AMap.get_foldl_erase] at hget
    by_cases h1 : k ∈ [1]
    · simp [h1] at hget
    · simp only [h1, if_false] at hget
      by_cases h2 : k ∈ Gen.callerSavedSet
      · simp [h2] at hget
      · simp only [h2, if_false] at hget
        exact claim_frame s s' k val (hcontract k h2 (by simpa using h1) hk0) hentry haddr (hs k val hget)
  · intro rd' x hw' _ hx
    rw [hw] at hw'
    have : rd' = rd := (Option.some.inj hw').symm
    subst this
    rw [hpre, hrd, AMap.get_foldl_erase] at hx
    simp at hx
  · intro rd' v _ _ hm
    rw [hn] at hm
    simp [mathResult] at hm

/-! ### environment calls -/

/-- the registers the transfer function forgets at an `ecall` -/
def ecallKills (cn : CNode) (inReg : AMap Reg) : List Reg :=
  match ecallSignature { cn with regIn := inReg } with
  | some (_, rets) => RegSet.toList rets
  | none => [10, 11]

theorem ecall_preRules (cn : CNode) (inReg : AMap Reg) (he : cn.node.isEcall = true) :
    preRules cn inReg = (ecallKills cn inReg).foldl AMap.erase inReg := by
  obtain ⟨i, t, hn⟩ : ∃ i t, cn.node = .basic i t := by
    cases hc : cn.node <;> rw [hc] at he <;> simp [Node.isEcall] at he
    exact ⟨_, _, rfl⟩
  unfold preRules ecallKills
  have hcall : cn.node.callsTo = none := by rw [hn]; rfl
  have hfe : cn.node.isFunctionEntry = false := by rw [hn]; rfl
  have hhe : cn.node.isHandlerFunctionEntry = false := by rw [hn]; rfl
  have hpe : cn.node.isProgramEntry = false := by rw [hn]; rfl
  have hgen : cn.node.genRegValue = none := by rw [hn]; rfl
  have hw : cn.node.writesTo = none := by rw [hn]; rfl
  have hkill : RegSet.toList cn.node.killReg = [] := by
    unfold Node.killReg
    simp only [hcall, hfe, hw, Option.isSome_none, Bool.or_self, Bool.false_eq_true, if_false]
    decide
  simp only [hcall, hhe, hfe, hpe, he, hgen, hkill, insertGen, Option.isSome_none, Bool.false_eq_true,
    if_false, Bool.true_and, List.foldl_nil]
  cases hsig : ecallSignature { cn with regIn := inReg } with
  | some p => obtain ⟨a, rets⟩ := p; rfl
  | none => simp

/-- **an `ecall` is sound** provided the environment writes only registers the analysis forgot
    there (see `ecallKill_covers_rars` for what that means for the documented calls) -/
theorem ecall_transfer_sound (cn : CNode) (inReg : AMap Reg) (inMem : AMap MemLoc) (s s' : MState)
    (he : cn.node.isEcall = true) (he0 : s.entry 0 = 0#32) (hs : Sound s inReg)
    (henv : ∀ r, r ∉ ecallKills cn inReg → r ≠ 0 → s'.reg r = s.reg r)
    (hentry : s'.entry = s.entry) (haddr : s'.addr = s.addr) :
    Sound s' (nodeRegOut cn inReg inMem) := by
  obtain ⟨i, t, hn⟩ : ∃ i t, cn.node = .basic i t := by
    cases hc : cn.node <;> rw [hc] at he <;> simp [Node.isEcall] at he
    exact ⟨_, _, rfl⟩
  have hw : cn.node.writesTo = none := by rw [hn]; rfl
  apply rules_sound cn inReg inMem s' ⟨by rw [hn]; rfl, fun _ _ => by rw [hn]; rfl⟩
    (by rw [hentry]; exact he0)
  · rw [ecall_preRules cn inReg he]
    intro k val hk0 hget
    rw [AMap.get_foldl_erase] at hget
    by_cases hk : k ∈ ecallKills cn inReg
    · simp [hk] at hget
    · simp only [hk, if_false] at hget
      exact claim_frame s s' k val (henv k hk hk0) hentry haddr (hs k val hget)
  · intro rd x hw' _ _
    rw [hw] at hw'; simp at hw'
  · intro rd v hw' _ _
    rw [hw] at hw'; simp at hw'

/-- every documented RARS call writes only `a0` / `a1` (so forgetting those two covers an
    `ecall` whose number is unknown), and for a known number the table's result registers are
    the documented ones -/
theorem ecallKill_covers_rars :
    (∀ row ∈ Spec.rarsEcalls, ∀ r ∈ row.2.2, r ∈ [10, 11]) ∧
    (∀ row ∈ Spec.rarsEcalls, ∀ r ∈ row.2.2, r < 32) := by decide

/-- for a call number the analysis knows and RARS documents, the forgotten registers are
    exactly the documented result registers -/
theorem ecallKills_known (cn : CNode) (inReg : AMap Reg) (c : Word) (row : Int × List Nat × List Nat)
    (hk : knownEcall { cn with regIn := inReg } = some c) (hrow : row ∈ Spec.rarsEcalls)
    (hc : row.1 = c.toInt) : ∀ r, r ∈ ecallKills cn inReg ↔ r ∈ row.2.2 := by
  intro r
  have htab := ecall_table_matches_rars row hrow
  unfold ecallKills ecallSignature
  rw [hk]
  simp only []
  rw [← hc, htab]
  simp only []
  rw [mem_toList]
  constructor
  · intro ⟨hlt, hm⟩
    have := (mem_ofList row.2.2 r hlt).symm ▸ hm
    simpa using this
  · intro hr
    have hlt : r < 32 := ecallKill_covers_rars.2 row hrow r hr
    refine ⟨hlt, ?_⟩
    rw [mem_ofList row.2.2 r hlt]
    simpa using hr


/-- for a call number the table does not list (or an unknown one) the transfer forgets a0 and a1;
    every documented RARS call that is missing from the table writes, among the integer registers,
    only those two (`Spec.rarsUnlisted`, written from the RARS documentation), and none of them is
    in the table after all -/
theorem ecallKills_unlisted (cn : CNode) (inReg : AMap Reg)
    (hs : ecallSignature { cn with regIn := inReg } = none) : ecallKills cn inReg = [10, 11] := by
  unfold ecallKills; rw [hs]

theorem unlisted_covered :
    (∀ row ∈ Spec.rarsUnlisted, ∀ r ∈ row.2, r ∈ [10, 11]) ∧
    (∀ row ∈ Spec.rarsUnlisted, Gen.ecallTable.find? (fun r => r.1 == row.1) = none) := by decide

/-! ### entries -/

theorem get_extend_originals (m : AMap Reg) (l : List Reg) (k : Reg) :
    AMap.get (AMap.extend m (l.map fun r => (r, AVal.ors r 0#32))) k =
      if k ∈ l then some (.ors k 0#32) else AMap.get m k := by
  unfold AMap.extend
  induction l generalizing m with
  | nil => simp
  | cons x xs ih =>
    simp only [List.map_cons, List.foldl_cons, ih, List.mem_cons]
    by_cases h1 : k ∈ xs
    · simp [h1]
    · by_cases h2 : k = x
      · subst h2; simp [h1, AMap.get_insert_self]
      · have : x ≠ k := fun e => h2 e.symm
        simp [h1, h2, AMap.get_insert_ne m k x _ this]

/-- every claim in the map before the rules at a function's entry node (whatever came in), or at
    an entry node whose in-map is empty, is of the form "register r holds its entry value" -/
theorem entry_preRules_claims (cn : CNode) (inReg : AMap Reg) (hentry : cn.node.isAnyEntry = true)
    (hin : cn.node.isFunctionEntry = true ∨ inReg = [])
    (k : Reg) (val : AVal) (h : AMap.get (preRules cn inReg) k = some val) : val = .ors k 0#32 := by
  have hpre : preRules cn inReg = preRules cn [] := by
    rcases hin with hfe | he
    · unfold preRules
      simp only [hfe, if_true]
      have hec : cn.node.isEcall = false := by
        cases hc : cn.node <;> rw [hc] at hentry <;> simp [Node.isAnyEntry, Node.isEcall] at hentry ⊢
      have hs1 : ecallSignature { cn with regIn := inReg } = none := by
        unfold ecallSignature knownEcall; simp [hec]
      have hs2 : ecallSignature { cn with regIn := [] } = none := by
        unfold ecallSignature knownEcall; simp [hec]
      simp only [hs1, hs2, hec, Bool.false_and]
    · rw [he]
  rw [hpre] at h
  unfold preRules at h
  have hcall : cn.node.callsTo = none := by
    cases hc : cn.node <;> rw [hc] at hentry <;> simp [Node.isAnyEntry, Node.callsTo] at hentry ⊢
  have hec : cn.node.isEcall = false := by
    cases hc : cn.node <;> rw [hc] at hentry <;> simp [Node.isAnyEntry, Node.isEcall] at hentry ⊢
  have hgen : cn.node.genRegValue = none := by
    cases hc : cn.node <;> rw [hc] at hentry <;> simp [Node.isAnyEntry, Node.genRegValue] at hentry ⊢
  have hsig : ecallSignature { cn with regIn := [] } = none := by
    unfold ecallSignature knownEcall; simp [hec]
  have herase : ∀ l : List Reg, l.foldl AMap.erase ([] : AMap Reg) = [] := by
    intro l; induction l with
    | nil => rfl
    | cons x xs ih => simp only [List.foldl_cons]; exact ih
  simp only [hcall, hec, hsig, hgen, herase, insertGen, Option.isSome_none, Bool.false_eq_true, if_false,
    Bool.false_and] at h
  have step : ∀ (m : AMap Reg) (S : RegSet) (b : Bool),
      (∀ v, AMap.get m k = some v → v = .ors k 0#32) →
      ∀ v, AMap.get (if b = true then AMap.extend m (originals S) else m) k = some v → v = .ors k 0#32 := by
    intro m S b hm v hv
    cases b with
    | false => exact hm v hv
    | true =>
      simp only [if_true] at hv
      unfold originals at hv
      rw [get_extend_originals] at hv
      split at hv
      · exact (Option.some.inj hv).symm
      · exact hm v hv
  refine step _ spRaSet _ (step _ calleeSavedSet _ (step _ allWritableSet _ ?_)) val h
  intro v hv
  simp [AMap.get] at hv

/-- **entries are sound**: at a function's entry node - whatever the code that falls or jumps
    into it claims - and at a program entry reached with no incoming claims, the seeds hold as
    soon as the entry values are the current register values (the start of an activation) -/
theorem entry_transfer_sound (cn : CNode) (inReg : AMap Reg) (inMem : AMap MemLoc) (s' : MState)
    (hentry : cn.node.isAnyEntry = true) (hin : cn.node.isFunctionEntry = true ∨ inReg = [])
    (hact : ∀ r, s'.entry r = s'.reg r) (hz : s'.reg 0 = 0#32) :
    Sound s' (nodeRegOut cn inReg inMem) := by
  have hw : cn.node.writesTo = none := by
    cases hc : cn.node <;> rw [hc] at hentry <;> simp [Node.isAnyEntry, Node.writesTo] at hentry ⊢
  have hnm : cn.node.noMemRead := by
    constructor
    · cases hc : cn.node <;> rw [hc] at hentry <;> simp [Node.isAnyEntry, Node.readsFromMemory] at hentry ⊢
    · intro out inn
      cases hc : cn.node <;> rw [hc] at hentry <;> simp [Node.isAnyEntry, ruleExpandAddressForLoad] at hentry ⊢
  apply rules_sound cn inReg inMem s' hnm (by rw [hact 0]; exact hz)
  · intro k val _ hget
    rw [entry_preRules_claims cn inReg hentry hin k val hget]
    show s'.reg k = s'.entry k + 0#32
    rw [hact k]; simp
  · intro rd x hw' _ _
    rw [hw] at hw'; simp at hw'
  · intro rd v hw' _ _
    rw [hw] at hw'; simp at hw'

/-! ### the execution theorem with calls, environment calls and entries -/

/-- one machine step at node `i`: as `NodeStep`, plus a call that keeps the callee's contract, an
    environment call that writes only what the analysis forgets, and the start of an activation
    at an entry node -/
inductive NodeStep' (g : Cfg) (i : Nat) (s s' : MState) : Prop where
  | base : NodeStep g i s s' → NodeStep' g i s s'
  | call (inst : W String) (rd : W Reg) (name : W String) (t : RawTok) :
      (g.get i).node = .jumpLink inst rd name t → rd.val = 1 →
      (∀ r, r ∉ Gen.callerSavedSet → r ≠ 1 → r ≠ 0 → s'.reg r = s.reg r) →
      s'.entry = s.entry → s'.addr = s.addr → NodeStep' g i s s'
  | ecall : (g.get i).node.isEcall = true →
      (∀ r, r ∉ ecallKills (g.get i) (g.get i).regIn → r ≠ 0 → s'.reg r = s.reg r) →
      s'.entry = s.entry → s'.addr = s.addr → NodeStep' g i s s'
  | entry : (g.get i).node.isAnyEntry = true →
      ((g.get i).node.isFunctionEntry = true ∨ (g.get i).regIn = []) →
      (∀ r, s'.entry r = s'.reg r) → s'.reg 0 = 0#32 → NodeStep' g i s s'

inductive Exec' (g : Cfg) (V : List Nat) (i0 : Nat) (s0 : MState) : Nat → MState → Prop where
  | start : Exec' g V i0 s0 i0 s0
  | step (i j : Nat) (s s' : MState) : Exec' g V i0 s0 i s → NodeStep' g i s s' →
      i ∈ V → j ∈ V → i ∈ (g.get j).prevs → Exec' g V i0 s0 j s'

/-- **C01 (`exec_sound_full`).** As `exec_sound`, for executions that also contain calls (callee
    contract), environment calls (environment writes only the forgotten registers) and the
    start of an activation at a function or program entry. Not covered: loads and CSR
    instructions (claims that pass through memory). -/
theorem exec_sound_full_inv (g : Cfg) (V : List Nat) (hf : GoodFacts g V) (i0 : Nat) (s0 : MState)
    (h0 : Sound s0 (g.get i0).regIn) (h0e : s0.entry 0 = 0#32) (j : Nat) (s' : MState)
    (he : Exec' g V i0 s0 j s') : Sound s' (g.get j).regIn ∧ s'.entry 0 = 0#32 := by
  induction he with
  | start => exact ⟨h0, h0e⟩
  | step i j s s' _ hstep hi hj hedge ih =>
    obtain ⟨ihs, ihe⟩ := ih
    have hent : s'.entry 0 = 0#32 := by
      cases hstep with
      | base hb =>
        cases hb with
        | plain rd v _ _ _ hp => rw [hp.entry]; exact ihe
        | quiet _ _ hentry _ => rw [hentry]; exact ihe
      | call _ _ _ _ _ _ _ hentry _ => rw [hentry]; exact ihe
      | ecall _ _ hentry _ => rw [hentry]; exact ihe
      | entry _ _ hact hz => rw [hact 0]; exact hz
    have hout : Sound s' (g.get i).regOut := by
      apply sound_of_get_eq s' _ _ (hf.eqOut i hi)
      cases hstep with
      | base hb =>
        cases hb with
        | plain rd v hval hrd hz hp =>
          exact plain_transfer_sound (g.get i) _ _ s s' rd v hval hrd hz ihe ihs hp
        | quiet hq hreg hentry haddr =>
          exact quiet_transfer_sound (g.get i) _ _ s s' hq ihe ihs hreg hentry haddr
      | call inst rd name t hn hrd hc hentry haddr =>
        exact call_transfer_sound (g.get i) _ _ s s' inst rd name t hn hrd ihe ihs hc hentry haddr
      | ecall hec henv hentry haddr =>
        exact ecall_transfer_sound (g.get i) _ _ s s' hec ihe ihs henv hentry haddr
      | entry hen hempty hact hz =>
        exact entry_transfer_sound (g.get i) _ _ s' hen hempty hact hz
    refine ⟨?_, hent⟩
    apply sound_of_get_eq s' _ _ (hf.eqIn j hj)
    apply meetOver_sound s' _ _ (g.get i).regOut _ hout
    · intro m hm
      obtain ⟨p, _, rfl⟩ := List.mem_map.mp hm
      exact hf.wfOut p
    · apply List.mem_map.mpr
      refine ⟨i, ?_, rfl⟩
      rw [List.mem_filter]
      exact ⟨hedge, by simpa using hi⟩

/-- **C01 (`exec_sound_full`).** As `exec_sound`, for executions that also contain calls (callee
    contract), environment calls (environment writes only the forgotten registers) and the
    start of an activation at a function or program entry. Not covered: loads and CSR
    instructions (claims that pass through memory). -/
theorem exec_sound_full (g : Cfg) (V : List Nat) (hf : GoodFacts g V) (i0 : Nat) (s0 : MState)
    (h0 : Sound s0 (g.get i0).regIn) (h0e : s0.entry 0 = 0#32) (j : Nat) (s' : MState)
    (he : Exec' g V i0 s0 j s') : Sound s' (g.get j).regIn :=
  (exec_sound_full_inv g V hf i0 s0 h0 h0e j s' he).1

end Rva
