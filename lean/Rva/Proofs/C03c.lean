/-
  C03, the whole pipeline — `pipeline_symm`: for every list of parsed nodes for which
  `Manager::gen_full_cfg` succeeds, the graph it returns has successor and predecessor relations
  that are exact inverses (and every edge inside the node array). The proof follows the passes in
  the order of the code: construction (no edges), directions, dead-code pruning, value analysis
  (edges untouched), ecall termination, function markup with its rewiring, value analysis, ecall
  termination, liveness (edges untouched).
-/
import Rva.Proofs.C03b
import Rva.Proofs.C02Least
import Rva.Model.Pipeline
namespace Rva

/-- same instructions and edges -/
def EdgesSame (g g' : Cfg) : Prop :=
  ∀ y, (g'.get y).node = (g.get y).node ∧ (g'.get y).nexts = (g.get y).nexts ∧
       (g'.get y).prevs = (g.get y).prevs

theorem EdgesSame.refl (g : Cfg) : EdgesSame g g := fun _ => ⟨rfl, rfl, rfl⟩
theorem EdgesSame.trans {a b c : Cfg} (h1 : EdgesSame a b) (h2 : EdgesSame b c) : EdgesSame a c :=
  fun y => ⟨(h2 y).1.trans (h1 y).1, (h2 y).2.1.trans (h1 y).2.1, (h2 y).2.2.trans (h1 y).2.2⟩

theorem EdgesSame.symm' {g g' : Cfg} (h : EdgesSame g g') (hs : Symm g) : Symm g' := by
  intro a b; rw [(h a).2.1, (h b).2.2]; exact hs a b

theorem EdgesSame.rnn {g g' : Cfg} (h : EdgesSame g g') (hn : RetNoNext g) : RetNoNext g' := by
  intro y hy; rw [(h y).1] at hy; rw [(h y).2.1]; exact hn y hy

theorem edgesSame_modify (g : Cfg) (i : Nat) (f : CNode → CNode)
    (hf : ∀ m, (f m).node = m.node ∧ (f m).nexts = m.nexts ∧ (f m).prevs = m.prevs) :
    EdgesSame g (g.modify i f) := by
  intro y
  rw [Cfg.get_modify]
  split
  · exact hf _
  · exact ⟨rfl, rfl, rfl⟩

/-! ### the value analysis does not touch edges -/

theorem availNode_edges (g : Cfg) (vis : List Nat) (i : Nat) : EdgesSame g (availNode g vis i).1 := by
  unfold availNode
  simp only []
  split
  · exact EdgesSame.refl g
  · exact edgesSame_modify g i _ (fun _ => ⟨rfl, rfl, rfl⟩)

theorem availSweep_edges (g : Cfg) (vis : List Nat) : EdgesSame g (availSweep g vis).1 := by
  unfold availSweep
  generalize List.range g.nodes.size = l
  suffices ∀ (acc : Cfg × List Nat × Bool), EdgesSame g acc.1 →
      EdgesSame g (l.foldl (fun (acc : Cfg × List Nat × Bool) i =>
        let (g, vis, ch) := acc
        let (g', c, did) := availNode g vis i
        (g', if did && !vis.contains i then i :: vis else vis, ch || c)) acc).1 from
    this (g, vis, false) (EdgesSame.refl g)
  induction l with
  | nil => intro acc h; exact h
  | cons i rest ih =>
    intro acc h
    obtain ⟨ga, visa, cha⟩ := acc
    simp only [List.foldl_cons]
    apply ih
    exact EdgesSame.trans h (availNode_edges ga visa i)

theorem availLoop_edges (fuel : Nat) : ∀ (g : Cfg) (vis : List Nat), EdgesSame g (availLoop fuel g vis).1 := by
  induction fuel with
  | zero => intro g vis; exact EdgesSame.refl g
  | succ n ih =>
    intro g vis
    unfold availLoop
    have h := availSweep_edges g vis
    generalize availSweep g vis = r at h
    obtain ⟨g', vis', ch⟩ := r
    simp only []
    split
    · exact EdgesSame.trans h (ih g' vis')
    · exact h

theorem available_edges (g : Cfg) : EdgesSame g (available g).1 := availLoop_edges _ g []

theorem liveness_edges (g : Cfg) : EdgesSame g (liveness g).1 := by
  have top : Below g (fun _ => (BitVec.allOnes 32, BitVec.allOnes 32)) := by
    intro i
    constructor <;> intro r hr <;>
    · have hlt : r < 32 := by
        rcases Nat.lt_or_ge r 32 with h | hge
        · exact h
        · have : ∀ a : RegSet, a.getLsbD r = false := fun a => BitVec.getLsbD_of_ge a r hge
          simp [RegSet.mem, this] at hr
      show (BitVec.allOnes 32).getLsbD r = true
      rw [BitVec.getLsbD_allOnes]; simp [hlt]
  have h := (liveLoop_below g _ (preSol_top g) (liveFuel g) g [] (SameShape.refl g) top).2
  intro y
  obtain ⟨_, _, _, hn⟩ := h
  exact ⟨(hn y).1, (hn y).2.1, (hn y).2.2.1⟩


/-! ### construction yields a graph without edges -/

def NoEdgesArr (a : Array CNode) : Prop := ∀ c ∈ a.toList, c.nexts = [] ∧ c.prevs = []

theorem noEdges_push (a : Array CNode) (c : CNode) (h : NoEdgesArr a) (hc : c.nexts = [] ∧ c.prevs = []) :
    NoEdgesArr (a.push c) := by
  intro x hx
  simp only [Array.toList_push, List.mem_append, List.mem_singleton] at hx
  rcases hx with hx | hx
  · exact h x hx
  · subst hx; exact hc

theorem buildStep_noEdges (calls : List (W String)) (p : Option (List (W String))) (st st' : BuildSt) (n : Node)
    (h : NoEdgesArr st.out) (hs : buildStep calls p st n = .ok st') : NoEdgesArr st'.out := by
  cases n with
  | label w t =>
    simp only [buildStep] at hs
    split at hs
    · exact absurd hs (by simp)
    · injection hs with hs; subst hs; exact h
  | directive d dir t =>
    cases dir <;> (simp only [buildStep] at hs; injection hs with hs; subst hs; exact h)
  | _ =>
    simp only [buildStep] at hs
    split at hs <;> (injection hs with hs; subst hs)
    · exact noEdges_push _ _ (noEdges_push _ _ h ⟨rfl, rfl⟩) ⟨rfl, rfl⟩
    · exact noEdges_push _ _ h ⟨rfl, rfl⟩

theorem buildLoop_noEdges (calls : List (W String)) (p : Option (List (W String))) (nodes : List Node) :
    ∀ (st st' : BuildSt), NoEdgesArr st.out → buildLoop calls p nodes st = .ok st' → NoEdgesArr st'.out := by
  induction nodes with
  | nil => intro st st' h hs; simp only [buildLoop] at hs; injection hs with hs; subst hs; exact h
  | cons n rest ih =>
    intro st st' h hs
    simp only [buildLoop] at hs
    cases h1 : buildStep calls p st n with
    | error e => rw [h1] at hs; simp at hs
    | ok st1 =>
      rw [h1] at hs
      exact ih st1 st' (buildStep_noEdges calls p st st1 n h h1) hs

theorem buildCfg_noEdges (nodes : List Node) (p : Option (List (W String))) (g : Cfg)
    (h : buildCfg nodes p = .ok g) : ∀ i, (g.get i).nexts = [] ∧ (g.get i).prevs = [] := by
  unfold buildCfg at h
  split at h
  · unfold buildNodes at h
    cases hb : buildLoop (allCallNames nodes p) p nodes {} with
    | error e => rw [hb] at h; simp at h
    | ok st =>
      rw [hb] at h
      simp only [] at h
      injection h with h
      subst h
      have hne := buildLoop_noEdges _ p nodes {} st (by intro c hc; simp at hc) hb
      intro i
      by_cases hi : i < st.out.size
      · have : (Cfg.get { nodes := st.out } i) ∈ st.out.toList := by
          simp [Cfg.get, hi]
        exact hne _ this
      · rw [Cfg.get_oob _ i hi]; exact ⟨rfl, rfl⟩
  · exact absurd h (by simp)

/-! ### the whole pipeline -/

theorem liftCfg_ok {α} (e : Except CfgErr α) (a : α) (h : liftCfg e = .ok a) : e = .ok a := by
  cases e with
  | ok x => simp only [liftCfg] at h; injection h with h; subst h; rfl
  | error x => simp [liftCfg] at h

theorem runAvail_ok (stage : String) (g g' : Cfg) (h : runAvail stage g = .ok g') : g' = (available g).1 := by
  unfold runAvail at h
  split at h
  · rename_i gg heq; injection h with h; subst h; rw [heq]
  · exact absurd h (by simp)

/-- **C03 (`pipeline_symm`).** For every program for which the full pipeline succeeds, the
    finished graph's successor and predecessor relations are exact inverses. -/
theorem pipeline_symm (desc : Bool) (nodes : List Node) (g : Cfg)
    (h : genFullCfg desc nodes = .ok g) : Symm g := by
  unfold genFullCfg at h
  simp only [bind, Except.bind] at h
  -- stage 1 (only produces the handler names)
  split at h
  · exact absurd h (by simp)
  · split at h
    · exact absurd h (by simp)
    · split at h
      · exact absurd h (by simp)
      · -- stage 2
        split at h
        · exact absurd h (by simp)
        · rename_i g0 hg0
          split at h
          · exact absurd h (by simp)
          · rename_i g1 hg1
            split at h
            · exact absurd h (by simp)
            · rename_i g3 hg3
              split at h
              · exact absurd h (by simp)
              · rename_i g5 hg5
                split at h
                · exact absurd h (by simp)
                · rename_i g6 hg6
                  have e0 := liftCfg_ok _ _ hg0
                  have e1 := liftCfg_ok _ _ hg1
                  have e3 := runAvail_ok _ _ _ hg3
                  have e5 := liftCfg_ok _ _ hg5
                  have e6 := runAvail_ok _ _ _ hg6
                  -- construction: no edges
                  have s0 : Symm g0 := symm_of_no_edges g0 (buildCfg_noEdges _ _ g0 e0)
                  have n0 : RetNoNext g0 := fun i _ => (buildCfg_noEdges _ _ g0 e0 i).1
                  -- directions
                  have s1 : Symm g1 := directions_symm g0 g1 s0 e1
                  have n1 : RetNoNext g1 := directions_rnn g0 g1 n0 e1
                  -- dead code
                  have s2 : Symm (deadCode g1) := deadCode_symm g1 s1
                  have n2 : RetNoNext (deadCode g1) := (deadCode_shrinks g1).rnn n1
                  -- value analysis
                  have s3 : Symm g3 := by rw [e3]; exact (available_edges _).symm' s2
                  have n3 : RetNoNext g3 := by rw [e3]; exact (available_edges _).rnn n2
                  -- ecall termination
                  have s4 : Symm (ecallTerm g3) := ecallTerm_symm g3 s3
                  have n4 : RetNoNext (ecallTerm g3) := (ecallTerm_shrinks g3).rnn n3
                  -- markup
                  have s5 : Symm g5 := markup_symm desc _ g5 s4 n4 e5
                  -- value analysis, ecall termination
                  have s6 : Symm g6 := by rw [e6]; exact (available_edges _).symm' s5
                  have s7 : Symm (ecallTerm g6) := ecallTerm_symm g6 s6
                  -- liveness
                  split at h
                  · rename_i g8 hl
                    injection h with h
                    subst h
                    have : g8 = (liveness (ecallTerm g6)).1 := by rw [hl]
                    rw [this]
                    exact (liveness_edges _).symm' s7
                  · exact absurd h (by simp)

end Rva
