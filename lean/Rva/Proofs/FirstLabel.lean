/-
  The label a diagnostic about a set of labels is located at (`firstLabel`: 'Node in many
  functions', 'Labels not defined'): the minimum by (offsets, name). It is one of the labels, none
  comes before it, and it does not depend on the order in which the set is enumerated.
-/
import Rva.Model.Lints

namespace Rva

theorem labelBefore_irrefl (a : W String) : labelBefore a a = false := by
  simp [labelBefore, String.lt_irrefl]

theorem labelBefore_trans {a b c : W String} (h1 : labelBefore a b = true) (h2 : labelBefore b c = true) :
    labelBefore a c = true := by
  simp only [labelBefore, Bool.or_eq_true, Bool.and_eq_true, decide_eq_true_eq, beq_iff_eq] at *
  rcases h1 with h1 | ⟨e1, h1⟩
  · rcases h2 with h2 | ⟨e2, _⟩
    · left; omega
    · left; omega
  · rcases h2 with h2 | ⟨e2, h2⟩
    · left; omega
    · right
      refine ⟨by omega, ?_⟩
      rcases h1 with h1 | ⟨f1, h1⟩
      · rcases h2 with h2 | ⟨f2, _⟩
        · left; omega
        · left; omega
      · rcases h2 with h2 | ⟨f2, h2⟩
        · left; omega
        · right; exact ⟨by omega, String.lt_trans h1 h2⟩

/-- two labels neither of which comes before the other have the same offsets and the same name -/
theorem labelBefore_total {a b : W String} (h1 : labelBefore a b = false) (h2 : labelBefore b a = false) :
    a.tok.range.start.raw = b.tok.range.start.raw ∧ a.tok.range.stop.raw = b.tok.range.stop.raw ∧
      a.val = b.val := by
  simp only [labelBefore, Bool.or_eq_false_iff, Bool.and_eq_false_iff, decide_eq_false_iff_not,
    beq_eq_false_iff_ne, ne_eq] at h1 h2
  obtain ⟨a1, a2⟩ := h1
  obtain ⟨b1, b2⟩ := h2
  have e1 : a.tok.range.start.raw = b.tok.range.start.raw := by omega
  have a2' := a2.resolve_left (fun h => h e1)
  have b2' := b2.resolve_left (fun h => h e1.symm)
  have e2 : a.tok.range.stop.raw = b.tok.range.stop.raw := by omega
  have a3 := a2'.2.resolve_left (fun h => h e2)
  have b3 := b2'.2.resolve_left (fun h => h e2.symm)
  exact ⟨e1, e2, String.le_antisymm (String.not_lt.mp b3) (String.not_lt.mp a3)⟩

/-- the chosen label is one of the list and no label of the list comes before it -/
theorem firstLabel_spec (ls : List (W String)) (hne : ls ≠ []) :
    ∃ m, firstLabel ls = some m ∧ m ∈ ls ∧ ∀ x ∈ ls, labelBefore x m = false := by
  unfold firstLabel
  suffices ∀ (rest done : List (W String)) (acc : Option (W String)),
      (∀ a, acc = some a → a ∈ done ∧ ∀ x ∈ done, labelBefore x a = false) →
      (done ≠ [] → acc ≠ none) →
      done ++ rest ≠ [] →
      ∃ m, rest.foldl firstLabelStep acc = some m ∧ m ∈ done ++ rest ∧
        ∀ x ∈ done ++ rest, labelBefore x m = false by
    have := this ls [] none (fun a h => by simp at h) (fun h => absurd rfl h) (by simpa using hne)
    simpa using this
  intro rest
  induction rest with
  | nil =>
    intro done acc hinv hsome hne'
    simp only [List.append_nil] at hne' ⊢
    cases acc with
    | none => exact absurd rfl (hsome hne')
    | some a => exact ⟨a, rfl, (hinv a rfl).1, (hinv a rfl).2⟩
  | cons l rest ih =>
    intro done acc hinv hsome _
    simp only [List.foldl_cons]
    have hstep := ih (done ++ [l]) (firstLabelStep acc l) ?_ (by
      intro _
      unfold firstLabelStep
      cases acc with
      | none => simp
      | some a => simp only []; split <;> simp) (by simp)
    · simpa [List.append_assoc] using hstep
    · intro a ha
      unfold firstLabelStep at ha
      cases acc with
      | none =>
        simp only [Option.some.injEq] at ha
        subst ha
        have hd : done = [] := by
          cases hdn : done with
          | nil => rfl
          | cons d ds => exact absurd rfl (hsome (by rw [hdn]; simp))
        subst hd
        refine ⟨by simp, ?_⟩
        intro x hx
        simp only [List.nil_append, List.mem_singleton] at hx
        subst hx
        exact labelBefore_irrefl _
      | some m =>
        simp only [] at ha
        obtain ⟨hm, hmin⟩ := hinv m rfl
        split at ha
        · rename_i hlt
          simp only [Option.some.injEq] at ha
          subst ha
          refine ⟨by simp, ?_⟩
          intro x hx
          rcases List.mem_append.mp hx with hx | hx
          · cases hxl : labelBefore x l with
            | false => rfl
            | true =>
              have := labelBefore_trans hxl hlt
              rw [hmin x hx] at this
              exact absurd this (by simp)
          · simp only [List.mem_singleton] at hx
            subst hx
            exact labelBefore_irrefl _
        · rename_i hnlt
          simp only [Option.some.injEq] at ha
          subst ha
          refine ⟨List.mem_append_left _ hm, ?_⟩
          intro x hx
          rcases List.mem_append.mp hx with hx | hx
          · exact hmin x hx
          · simp only [List.mem_singleton] at hx
            subst hx
            simpa using hnlt

/-- **C10 (`firstLabel_order_free`).** The label the lint reports at does not depend on the order in
    which the node's labels are enumerated (they come out of a hash set): two enumerations of
    the same labels yield labels with the same name at the same offsets. -/
theorem firstLabel_order_free (l1 l2 : List (W String)) (hne : l1 ≠ [])
    (hsame : ∀ x, x ∈ l1 ↔ x ∈ l2) :
    ∃ m1 m2, firstLabel l1 = some m1 ∧ firstLabel l2 = some m2 ∧ m1.val = m2.val ∧
      m1.tok.range.start.raw = m2.tok.range.start.raw ∧ m1.tok.range.stop.raw = m2.tok.range.stop.raw := by
  have hne2 : l2 ≠ [] := by
    cases l1 with
    | nil => exact absurd rfl hne
    | cons a t => intro e; have := (hsame a).mp (by simp); rw [e] at this; simp at this
  obtain ⟨m1, h1, hm1, hmin1⟩ := firstLabel_spec l1 hne
  obtain ⟨m2, h2, hm2, hmin2⟩ := firstLabel_spec l2 hne2
  have t := labelBefore_total (hmin2 m1 ((hsame m1).mp hm1)) (hmin1 m2 ((hsame m2).mpr hm2))
  exact ⟨m1, m2, h1, h2, t.2.2, t.1, t.2.1⟩

/-- **C14 (`firstLabel_renaming`).** Within one file (labels at pairwise different offsets) the
    chosen label does not depend on what the labels are called: for any rewriting `f` of the
    labels that keeps the order of their offsets (a renaming moves offsets but not their order),
    the label chosen among the rewritten ones is the rewriting of the label chosen before. -/
theorem firstLabel_renaming (ls : List (W String)) (f : W String → W String)
    (hinj : ∀ a ∈ ls, ∀ b ∈ ls, a.tok.range.start.raw = b.tok.range.start.raw → a = b)
    (hord : ∀ a ∈ ls, ∀ b ∈ ls, (a.tok.range.start.raw < b.tok.range.start.raw ↔
      (f a).tok.range.start.raw < (f b).tok.range.start.raw)) :
    firstLabel (ls.map f) = (firstLabel ls).map f := by
  cases hl : ls with
  | nil => rfl
  | cons a0 t =>
    rw [← hl]
    have hne : ls ≠ [] := by rw [hl]; simp
    obtain ⟨m, h1, hm, hmin⟩ := firstLabel_spec ls hne
    obtain ⟨m', h2, hm', hmin'⟩ := firstLabel_spec (ls.map f) (by simpa using hne)
    rw [h1, h2]
    obtain ⟨x, hx, hfx⟩ := List.mem_map.mp hm'
    subst hfx
    have e1 := hmin x hx
    have e2 := hmin' (f m) (List.mem_map.mpr ⟨m, hm, rfl⟩)
    have n1 : ¬ x.tok.range.start.raw < m.tok.range.start.raw := by
      intro h; simp [labelBefore, h] at e1
    have n2 : ¬ m.tok.range.start.raw < x.tok.range.start.raw := by
      intro h
      have := (hord m hm x hx).mp h
      simp [labelBefore, this] at e2
    have : x = m := hinj x hx m hm (by omega)
    subst this
    rfl

end Rva
