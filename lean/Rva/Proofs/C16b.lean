/-
  C16 — where the generic, unlocated failure can come from.

  `directions_error`: the direction pass fails only with `UnexpectedError`, and only when some
  instruction jumps to a label that no instruction node carries (a label at the very end of a
  file or in front of data only — recorded finding F-18b). `markStep_error`: the markup pass fails
  only with `UnexpectedError`, and only at a function entry whose walk finds no return
  (finding F-18a). With `buildCfg_total` these are all the ways graph generation can fail.
-/
import Rva.Proofs.C16
import Rva.Proofs.C03b
import Rva.Proofs.C11b
namespace Rva

theorem addEdge_labels (g : Cfg) (a b y : Nat) : ((g.addEdge a b).get y).labels = (g.get y).labels := by
  unfold Cfg.addEdge
  rw [Cfg.get_modify]
  split
  · simp only []
    rw [Cfg.get_modify]; split <;> rfl
  · rw [Cfg.get_modify]; split <;> rfl

theorem findLabel_addEdge (g : Cfg) (a b : Nat) (l : String) : findLabel (g.addEdge a b) l = findLabel g l := by
  unfold findLabel
  rw [addEdge_size]
  congr 1
  funext i
  rw [addEdge_labels]

/-- the labels and instructions of the graph are those of `g0` -/
def SameNodes (g0 g : Cfg) : Prop :=
  g.nodes.size = g0.nodes.size ∧ ∀ y, (g.get y).labels = (g0.get y).labels ∧ (g.get y).node = (g0.get y).node

theorem sameNodes_addEdge (g0 g : Cfg) (a b : Nat) (h : SameNodes g0 g) : SameNodes g0 (g.addEdge a b) :=
  ⟨by rw [addEdge_size]; exact h.1, fun y => ⟨by rw [addEdge_labels]; exact (h.2 y).1,
    by rw [addEdge_node]; exact (h.2 y).2⟩⟩

theorem findLabel_sameNodes (g0 g : Cfg) (h : SameNodes g0 g) (l : String) : findLabel g l = findLabel g0 l := by
  unfold findLabel
  rw [h.1]
  congr 1
  funext i
  rw [(h.2 i).1]

theorem dirStep_error (g0 : Cfg) (st : Cfg × Option Nat) (i : Nat) (e : CfgErr) (hs : SameNodes g0 st.1)
    (h : dirStep st i = .error e) :
    e = .unexpectedError ∧ ∃ l, (g0.get i).node.jumpsTo = some l ∧ findLabel g0 l.val = none := by
  unfold dirStep at h
  simp only [] at h
  rw [(hs.2 i).2] at h
  cases hj : (g0.get i).node.jumpsTo with
  | none => rw [hj] at h; simp at h
  | some l =>
    rw [hj] at h
    simp only [] at h
    rw [findLabel_sameNodes g0 st.1 hs] at h
    cases hf : findLabel g0 l.val with
    | some j => rw [hf] at h; simp at h
    | none =>
      rw [hf] at h
      simp only [] at h
      injection h with h
      exact ⟨h.symm, l, rfl, hf⟩

theorem dirStep_sameNodes (g0 : Cfg) (st st' : Cfg × Option Nat) (i : Nat) (hs : SameNodes g0 st.1)
    (h : dirStep st i = .ok st') : SameNodes g0 st'.1 := by
  unfold dirStep at h
  simp only [] at h
  split at h
  · exact absurd h (by simp)
  · rename_i g1 hg1
    injection h with h
    subst h
    have h1 : SameNodes g0 g1 := by
      split at hg1
      · split at hg1
        · injection hg1 with hg1; subst hg1; exact sameNodes_addEdge g0 _ _ _ hs
        · exact absurd hg1 (by simp)
      · injection hg1 with hg1; subst hg1; exact hs
    simp only []
    split
    · exact sameNodes_addEdge g0 _ _ _ h1
    · exact h1

theorem dirLoop_error (g0 : Cfg) (l : List Nat) (st : Cfg × Option Nat) (e : CfgErr) (hs : SameNodes g0 st.1)
    (h : dirLoop l st = .error e) :
    e = .unexpectedError ∧ ∃ i ∈ l, ∃ lab, (g0.get i).node.jumpsTo = some lab ∧ findLabel g0 lab.val = none := by
  induction l generalizing st with
  | nil => simp [dirLoop] at h
  | cons i rest ih =>
    unfold dirLoop at h
    cases hd : dirStep st i with
    | error e' =>
      rw [hd] at h
      simp only [] at h
      injection h with h
      subst h
      obtain ⟨he, lab, h1, h2⟩ := dirStep_error g0 st i e' hs hd
      exact ⟨he, i, List.mem_cons_self, lab, h1, h2⟩
    | ok st1 =>
      rw [hd] at h
      simp only [] at h
      obtain ⟨he, j, hj, rest'⟩ := ih st1 (dirStep_sameNodes g0 st st1 i hs hd) h
      exact ⟨he, j, List.mem_cons_of_mem _ hj, rest'⟩

/-- **C16 (`directions_error`).** The direction pass can only fail with the generic error, and
    only because some instruction jumps to a label that is attached to no instruction. -/
theorem directions_error (g : Cfg) (e : CfgErr) (h : directions g = .error e) :
    e = .unexpectedError ∧
      ∃ i, i < g.nodes.size ∧ ∃ lab, (g.get i).node.jumpsTo = some lab ∧ findLabel g lab.val = none := by
  unfold directions at h
  split at h
  · exact absurd h (by simp)
  · rename_i e' he'
    injection h with h
    subst h
    obtain ⟨h1, i, hi, rest⟩ := dirLoop_error g _ (g, none) e' ⟨rfl, fun _ => ⟨rfl, rfl⟩⟩ he'
    exact ⟨h1, i, by simpa using hi, rest⟩

/-- **C16 (`markStep_error`).** The markup pass can only fail with the generic error, and only at
    a function entry whose walk ends without having met a return instruction. -/
theorem markStep_error (desc : Bool) (g : Cfg) (e : Nat) (err : CfgErr) (h : markStep desc g e = .error err) :
    err = .unexpectedError ∧ (g.get e).node.isFunctionEntry = true ∧
      (markLoop desc e (markFuel g) { g := g, stack := [e] }).ret = none := by
  unfold markStep at h
  split at h
  · exact absurd h (by simp)
  · rename_i hfe
    simp only [] at h
    cases hr : (markLoop desc e (markFuel g) { g := g, stack := [e] }).ret with
    | none =>
      rw [hr] at h
      simp only [] at h
      injection h with h
      exact ⟨h.symm, by simpa using hfe, rfl⟩
    | some r => rw [hr] at h; simp at h


/-- while no return has been met, nothing recorded is a return (and no instruction has been
    rewritten) -/
def NoRetInv (st : MarkSt) : Prop :=
  st.ret = none → ∀ i ∈ st.visited, (st.g.get i).node.isReturn = false

theorem markLoop_noret (desc : Bool) (entry : Nat) (fuel : Nat) :
    ∀ st : MarkSt, NoRetInv st → NoRetInv (markLoop desc entry fuel st) := by
  induction fuel with
  | zero => intro st h; exact h
  | succ n ih =>
    intro st h
    unfold markLoop
    cases hs : st.stack with
    | nil => simp only []; exact h
    | cons i rest =>
      simp only []
      by_cases hv : st.visited.contains i = true
      · simp only [hv, if_true]
        exact ih _ h
      · have hv' : st.visited.contains i = false := by simpa using hv
        simp only [hv', Bool.false_eq_true, if_false]
        have g1node : ∀ y, ((st.g.modify i fun m => { m with funcs := insNat entry m.funcs }).get y).node =
            (st.g.get y).node := by
          intro y; rw [Cfg.get_modify]; split <;> rfl
        by_cases hr : (st.g.get i).node.isReturn = true
        · simp only [hr, if_true]
          cases hret : st.ret with
          | none =>
            simp only []
            apply ih
            intro hn; simp at hn
          | some r =>
            simp only []
            apply ih
            intro hn
            simp at hn
        · have hr' : (st.g.get i).node.isReturn = false := by simpa using hr
          simp only [hr', Bool.false_eq_true, if_false]
          apply ih
          intro hn j hj
          simp only [] at hn hj ⊢
          rw [g1node]
          rcases List.mem_cons.mp hj with rfl | hj
          · exact hr'
          · exact h hn j hj

/-- **C16 (`markStep_error_no_return`).** When the markup pass fails at a function entry whose
    walk finished, no instruction reachable from that entry is a return: the one way to get the
    generic error out of this pass is a function that reaches no `ret`. -/
theorem markStep_error_no_return (desc : Bool) (g : Cfg) (e : Nat) (err : CfgErr) (hn : RetNoNext g)
    (h : markStep desc g e = .error err)
    (hdone : (markLoop desc e (markFuel g) { g := g, stack := [e] }).stack = []) :
    ∀ n, Reach (markLoop desc e (markFuel g) { g := g, stack := [e] }).g e n →
      ((markLoop desc e (markFuel g) { g := g, stack := [e] }).g.get n).node.isReturn = false := by
  obtain ⟨_, _, hret⟩ := markStep_error desc g e err h
  intro n hreach
  have hmem := mark_complete desc g e (markFuel g) hn hdone n hreach
  have inv := markLoop_noret desc e (markFuel g) { g := g, stack := [e] } (fun _ i hi => by simp at hi)
  have hclosed := markLoop_closed desc e (markFuel g) { g := g, stack := [e] }
    ⟨rfl, Or.inr List.mem_cons_self, fun i hi => by simp at hi, fun r hr => by simp at hr, hn⟩
  rw [hclosed.same] at hmem
  exact inv hret n hmem


theorem markAll_error (desc : Bool) (l : List Nat) : ∀ (g : Cfg) (e : CfgErr),
    markAll desc l g = .error e → e = .unexpectedError := by
  induction l with
  | nil => intro g e h; simp [markAll] at h
  | cons x rest ih =>
    intro g e h
    simp only [markAll] at h
    cases hm : markStep desc g x with
    | error err =>
      rw [hm] at h
      simp only [] at h
      injection h with h
      subst h
      exact (markStep_error desc g x err hm).1
    | ok g1 =>
      rw [hm] at h
      exact ih g1 e h

theorem liftCfg_error {α} (x : Except CfgErr α) (pe : PipeErr) (h : liftCfg x = .error pe) :
    ∃ e, x = .error e ∧ pe = .cfg e := by
  cases x with
  | ok a => simp [liftCfg] at h
  | error e => simp only [liftCfg] at h; injection h with h; exact ⟨e, rfl, h.symm⟩

theorem runAvail_error (stage : String) (g : Cfg) (pe : PipeErr) (h : runAvail stage g = .error pe) :
    ∃ s, pe = .hang s := by
  unfold runAvail at h
  split at h
  · exact absurd h (by simp)
  · injection h with h; exact ⟨stage, h.symm⟩

/-- **C16 (`pipeline_failure_sources`).** Whenever graph generation fails with an error (not a
    sweep bound), the error is one that construction raises — an undefined or duplicate label,
    characterised by `buildCfg_total` — or the generic error, which only the direction pass
    (`directions_error`: a jump to a label attached to no instruction) and the markup pass
    (`markStep_error`: a function entry that reaches no return) can raise. -/
theorem pipeline_failure_sources (desc : Bool) (nodes : List Node) (e : CfgErr)
    (h : genFullCfg desc nodes = .error (.cfg e)) :
    (∃ p, buildCfg nodes p = .error e) ∨ e = .unexpectedError := by
  unfold genFullCfg at h
  simp only [bind, Except.bind] at h
  -- stage 1
  cases h1 : liftCfg (buildCfg nodes none) with
  | error pe =>
    rw [h1] at h
    simp only [] at h
    injection h with h
    obtain ⟨e', he', hp⟩ := liftCfg_error _ _ h1
    rw [h] at hp
    injection hp with hp
    exact Or.inl ⟨none, by rw [he', hp]⟩
  | ok g1 =>
    rw [h1] at h
    simp only [] at h
    cases h2 : liftCfg (directions g1) with
    | error pe =>
      rw [h2] at h
      simp only [] at h
      injection h with h
      obtain ⟨e', he', hp⟩ := liftCfg_error _ _ h2
      rw [h] at hp
      injection hp with hp
      subst hp
      exact Or.inr (directions_error g1 e he').1
    | ok g1' =>
      rw [h2] at h
      simp only [] at h
      cases h3 : runAvail "stage1-available" g1' with
      | error pe =>
        rw [h3] at h
        simp only [] at h
        injection h with h
        obtain ⟨s, hs⟩ := runAvail_error _ _ _ h3
        rw [h] at hs; simp at hs
      | ok g1'' =>
        rw [h3] at h
        simp only [] at h
        -- stage 2
        cases h4 : liftCfg (buildCfg nodes (some (interruptHandlerNames g1''))) with
        | error pe =>
          rw [h4] at h
          simp only [] at h
          injection h with h
          obtain ⟨e', he', hp⟩ := liftCfg_error _ _ h4
          rw [h] at hp
          injection hp with hp
          exact Or.inl ⟨some (interruptHandlerNames g1''), by rw [he', hp]⟩
        | ok g =>
          rw [h4] at h
          simp only [] at h
          cases h5 : liftCfg (directions g) with
          | error pe =>
            rw [h5] at h
            simp only [] at h
            injection h with h
            obtain ⟨e', he', hp⟩ := liftCfg_error _ _ h5
            rw [h] at hp
            injection hp with hp
            subst hp
            exact Or.inr (directions_error g e he').1
          | ok g' =>
            rw [h5] at h
            simp only [] at h
            cases h6 : runAvail "available-1" (deadCode g') with
            | error pe =>
              rw [h6] at h
              simp only [] at h
              injection h with h
              obtain ⟨s, hs⟩ := runAvail_error _ _ _ h6
              rw [h] at hs; simp at hs
            | ok g3 =>
              rw [h6] at h
              simp only [] at h
              cases h7 : liftCfg (markup desc (ecallTerm g3)) with
              | error pe =>
                rw [h7] at h
                simp only [] at h
                injection h with h
                obtain ⟨e', he', hp⟩ := liftCfg_error _ _ h7
                rw [h] at hp
                injection hp with hp
                subst hp
                exact Or.inr (markAll_error desc _ _ e he')
              | ok g5 =>
                rw [h7] at h
                simp only [] at h
                cases h8 : runAvail "available-2" g5 with
                | error pe =>
                  rw [h8] at h
                  simp only [] at h
                  injection h with h
                  obtain ⟨s, hs⟩ := runAvail_error _ _ _ h8
                  rw [h] at hs; simp at hs
                | ok g6 =>
                  rw [h8] at h
                  simp only [] at h
                  split at h
                  · exact absurd h (by simp [pure, Except.pure])
                  · injection h with h; simp at h

end Rva
