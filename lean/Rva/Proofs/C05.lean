/-
  C05 — trigger lemmas (whole-pipeline lints that depend on no fixpoint): whenever the stated
  condition holds at a node of the finished graph, the diagnostic of that kind is produced and
  is located on the offending operand / instruction.
  * `saveToZero_reported`: a computation whose destination is x0 ⇒ `save-to-zero` on the `rd` token.
  * `invalidSegment_reported`: an instruction outside `.text` ⇒ `invalid-segment` on the instruction.
  * `unknownEcall_reported`: an ecall whose a7 is not a known constant ⇒ `unknown-ecall` on it.
  * `runLints_contains`: each pass's diagnostics are part of the final list.
  Code / title / severity tables: `lint_codes_nodup`, `lint_tables_total`,
  `lint_severity_functional` (Proofs/Tables, over the generated tables).
-/
import Rva.Proofs.Tables
import Rva.Proofs.C03
import Rva.Model.Lints
namespace Rva

theorem get_mem_toList (g : Cfg) (i : Nat) (hi : i < g.nodes.size) : g.get i ∈ g.nodes.toList := by
  unfold Cfg.get
  simp [hi]

theorem code_saveToZero (r : Range) (f : FileId) (t : String) :
    (lintDiag "SaveToZero" r f t).code = "save-to-zero" := by
  have h : ((Gen.lintCodes.find? (·.1 == "SaveToZero")).map (·.2)).getD "?" = "save-to-zero" := by decide
  simp only [lintDiag, h]
theorem code_invalidSegment (r : Range) (f : FileId) (t : String) :
    (lintDiag "InvalidSegment" r f t).code = "invalid-segment" := by
  have h : ((Gen.lintCodes.find? (·.1 == "InvalidSegment")).map (·.2)).getD "?" = "invalid-segment" := by decide
  simp only [lintDiag, h]
theorem code_unknownEcall (r : Range) (f : FileId) (t : String) :
    (lintDiag "UnknownEcall" r f t).code = "unknown-ecall" := by
  have h : ((Gen.lintCodes.find? (·.1 == "UnknownEcall")).map (·.2)).getD "?" = "unknown-ecall" := by decide
  simp only [lintDiag, h]

theorem saveToZero_reported (g : Cfg) (i : Nat) (hi : i < g.nodes.size) (rd : W Reg)
    (hw : (g.get i).node.writesTo = some rd) (h0 : rd.val = 0)
    (hs : (g.get i).node.canSkipSaveChecks = false) (hn : (g.get i).node.isNop = false) :
    ∃ d ∈ lintSaveToZero g, d.code = "save-to-zero" ∧ d.range = rd.tok.range ∧ d.file = rd.tok.file := by
  refine ⟨onReg "SaveToZero" rd, ?_, code_saveToZero _ _ _, rfl, rfl⟩
  unfold lintSaveToZero
  rw [List.mem_filterMap]
  exact ⟨g.get i, get_mem_toList g i hi, by simp [hw, h0, hs, hn]⟩

theorem invalidSegment_reported (g : Cfg) (i : Nat) (hi : i < g.nodes.size)
    (hinst : (g.get i).node.isInstruction = true) (hseg : (g.get i).isText = false) :
    ∃ d ∈ lintInstructionInText g, d.code = "invalid-segment" ∧ d.range = (g.get i).node.tok.range ∧
      d.file = (g.get i).node.tok.file := by
  refine ⟨onNode "InvalidSegment" (g.get i).node, ?_, code_invalidSegment _ _ _, rfl, rfl⟩
  unfold lintInstructionInText
  rw [List.mem_filterMap]
  exact ⟨g.get i, get_mem_toList g i hi, by simp [hinst, hseg]⟩

theorem unknownEcall_reported (g : Cfg) (i : Nat) (hi : i < g.nodes.size)
    (he : (g.get i).node.isEcall = true) (hk : knownEcall (g.get i) = none) :
    ∃ d ∈ lintEcall g, d.code = "unknown-ecall" ∧ d.range = (g.get i).node.tok.range ∧
      d.file = (g.get i).node.tok.file := by
  refine ⟨onNode "UnknownEcall" (g.get i).node, ?_, code_unknownEcall _ _ _, rfl, rfl⟩
  unfold lintEcall
  rw [List.mem_filterMap]
  exact ⟨g.get i, get_mem_toList g i hi, by simp [he, hk]⟩

/-- every pass's output is part of what `run_diagnostics` returns -/
theorem runLints_contains (g : Cfg) (d : Diag)
    (h : d ∈ lintSaveToZero g ∨ d ∈ lintInstructionInText g ∨ d ∈ lintEcall g) : d ∈ runLints g := by
  unfold runLints
  simp only [List.mem_append]
  rcases h with h | h | h
  · simp [h]
  · simp [h]
  · simp [h]

end Rva
