/-
  C16 — analysis failures are explained.

  * `undefined_label_reported`: if some label is used (called, jumped to, or loaded) but not
    defined, graph construction stops with `LabelsNotDefined` carrying *exactly* the used names
    that have no definition, each with the token of one of its uses — so the error names the
    labels and is located at an occurrence.
  * `cfgErrDiag_located`: the diagnostic built from `LabelsNotDefined` / `DuplicateLabel` is
    located on the token of such a label (a real file and range), only `UnexpectedError` is
    attached to no file.
-/
import Rva.Model.Pipeline
namespace Rva

theorem addName_mem (s : List (W String)) (w : W String) (n : String) :
    nameIn (addName s w) n = (nameIn s n || w.val == n) := by
  unfold addName
  by_cases h : nameIn s w.val = true
  · simp only [h, if_true]
    by_cases hn : (w.val == n) = true
    · have : w.val = n := by simpa using hn
      subst this; simp [h]
    · have : (w.val == n) = false := by simpa using hn
      simp [this]
  · have h' : nameIn s w.val = false := by simpa using h
    simp only [h', Bool.false_eq_true, if_false]
    simp [nameIn, List.any_append]

/-- **C16.** Undefined labels stop graph construction with an error that lists exactly the
    used-but-undefined names (with the token of a use). -/
theorem undefined_label_reported (nodes : List Node) (p : Option (List (W String)))
    (h : undefinedNames nodes p ≠ []) :
    buildCfg nodes p = .error (.labelsNotDefined (undefinedNames nodes p)) := by
  unfold buildCfg
  cases hu : undefinedNames nodes p with
  | nil => exact absurd hu h
  | cons x xs => simp

/-- every name reported as undefined is used somewhere and defined nowhere -/
theorem undefined_names_spec (nodes : List Node) (p : Option (List (W String))) (w : W String)
    (h : w ∈ undefinedNames nodes p) :
    w ∈ usedNames nodes p ∧ nameIn (labelNames nodes) w.val = false := by
  unfold undefinedNames at h
  have := List.mem_filter.mp h
  exact ⟨this.1, by simpa using this.2⟩

/-- …and when every used name is defined, construction does not fail with that error -/
theorem no_undefined_no_error (nodes : List Node) (p : Option (List (W String)))
    (h : undefinedNames nodes p = []) : buildCfg nodes p = buildNodes nodes p := by
  unfold buildCfg; simp [h]

/-- The diagnostic for an undefined or duplicate label is located on that label's token. -/
theorem cfgErrDiag_located :
    (∀ (l : W String), (cfgErrDiag (.duplicateLabel l)).file = l.tok.file ∧
        (cfgErrDiag (.duplicateLabel l)).range = l.tok.range ∧
        (cfgErrDiag (.duplicateLabel l)).title = s!"Duplicate label: {l.val}") ∧
    (∀ (l : W String) (ls : List (W String)),
        (cfgErrDiag (.labelsNotDefined (l :: ls))).file = l.tok.file ∧
        (cfgErrDiag (.labelsNotDefined (l :: ls))).range = l.tok.range) ∧
    (cfgErrDiag .unexpectedError).file = nilFile := by
  refine ⟨fun l => ⟨rfl, rfl, rfl⟩, fun l ls => ⟨rfl, rfl⟩, rfl⟩

end Rva
