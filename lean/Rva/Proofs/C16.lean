/-
  C16 — analysis failures are explained.

  * `undefined_label_reported`: if some label is used (called, jumped to, or loaded) but not
    defined, graph construction stops with `LabelsNotDefined` carrying *exactly* the used names
    that have no definition, each with the token of one of its uses — so the error names the
    labels and is located at an occurrence.
  * `cfgErrDiag_located`: the diagnostic built from `LabelsNotDefined` / `DuplicateLabel` is
    located on the token of such a label (a real file and range), only `UnexpectedError` is
    attached to no file.
-/
import Rva.Model.Pipeline
import Rva.Proofs.FirstLabel
namespace Rva

theorem addName_mem (s : List (W String)) (w : W String) (n : String) :
    nameIn (addName s w) n = (nameIn s n || w.val == n) := by
  unfold addName
  by_cases h : nameIn s w.val = true
  · simp only [h, if_true]
    by_cases hn : (w.val == n) = true
    · have : w.val = n := by simpa using hn
      subst this; simp [h]
    · have : (w.val == n) = false := by simpa using hn
      simp [this]
  · have h' : nameIn s w.val = false := by simpa using h
    simp only [h', Bool.false_eq_true, if_false]
    simp [nameIn, List.any_append]

/-- **C16.** Undefined labels stop graph construction with an error that lists exactly the
    used-but-undefined names (with the token of a use). -/
theorem undefined_label_reported (nodes : List Node) (p : Option (List (W String)))
    (h : undefinedNames nodes p ≠ []) :
    buildCfg nodes p = .error (.labelsNotDefined (undefinedNames nodes p)) := by
  unfold buildCfg
  cases hu : undefinedNames nodes p with
  | nil => exact absurd hu h
  | cons x xs => simp

/-- every name reported as undefined is used somewhere and defined nowhere -/
theorem undefined_names_spec (nodes : List Node) (p : Option (List (W String))) (w : W String)
    (h : w ∈ undefinedNames nodes p) :
    w ∈ usedNames nodes p ∧ nameIn (labelNames nodes) w.val = false := by
  unfold undefinedNames at h
  have := List.mem_filter.mp h
  exact ⟨this.1, by simpa using this.2⟩

/-- …and when every used name is defined, construction does not fail with that error -/
theorem no_undefined_no_error (nodes : List Node) (p : Option (List (W String)))
    (h : undefinedNames nodes p = []) : buildCfg nodes p = buildNodes nodes p := by
  unfold buildCfg; simp [h]

/-- The diagnostic for an undefined or duplicate label is located on that label's token; with
    several undefined labels, on the one written first (no other comes before it by offsets, the
    name deciding only between equal offsets in different files): a function of the set of labels,
    not of any iteration order, and the same instruction whatever the labels are called. -/
theorem cfgErrDiag_located :
    (∀ (l : W String), (cfgErrDiag (.duplicateLabel l)).file = l.tok.file ∧
        (cfgErrDiag (.duplicateLabel l)).range = l.tok.range ∧
        (cfgErrDiag (.duplicateLabel l)).title = s!"Duplicate label: {l.val}") ∧
    (∀ (ls : List (W String)), ls ≠ [] → ∃ m ∈ ls, (∀ x ∈ ls, labelBefore x m = false) ∧
        (cfgErrDiag (.labelsNotDefined ls)).file = m.tok.file ∧
        (cfgErrDiag (.labelsNotDefined ls)).range = m.tok.range) ∧
    (cfgErrDiag .unexpectedError).file = nilFile := by
  refine ⟨fun l => ⟨rfl, rfl, rfl⟩, ?_, rfl⟩
  intro ls hne
  obtain ⟨m, hm, hmem, hmin⟩ := firstLabel_spec ls hne
  refine ⟨m, hmem, hmin, ?_, ?_⟩ <;> simp [cfgErrDiag, hm]


/-! ### duplicate labels -/

/-- the label definitions of the source, in order, with their tokens -/
def labelDefs (nodes : List Node) : List (W String) :=
  nodes.filterMap fun n => match n with
    | .label w _ => some w
    | _ => none

def Node.isLabel : Node → Bool
  | .label .. => true
  | _ => false

theorem buildStep_other (calls : List (W String)) (p : Option (List (W String))) (st : BuildSt) (n : Node)
    (h : n.isLabel = false) : ∃ st', buildStep calls p st n = .ok st' ∧ st'.all = st.all := by
  cases n with
  | label w t => simp [Node.isLabel] at h
  | directive d dir t =>
    cases dir <;> exact ⟨_, rfl, rfl⟩
  | _ =>
    simp only [buildStep]
    split <;> exact ⟨_, rfl, rfl⟩

/-- **C16 (`buildLoop_spec`).** The scan over the source stops at the first label definition
    whose name was already defined — with `DuplicateLabel` carrying the token of that second
    definition — and if no name is defined twice it does not fail. -/
theorem buildLoop_spec (calls : List (W String)) (p : Option (List (W String))) (nodes : List Node) :
    ∀ st : BuildSt,
      ((∀ w ∈ labelDefs nodes, w.val ∉ st.all) ∧ ((labelDefs nodes).map (·.val)).Nodup →
        ∃ st', buildLoop calls p nodes st = .ok st') ∧
      (¬ ((∀ w ∈ labelDefs nodes, w.val ∉ st.all) ∧ ((labelDefs nodes).map (·.val)).Nodup) →
        ∃ w pre post, buildLoop calls p nodes st = .error (.duplicateLabel w) ∧
          labelDefs nodes = pre ++ w :: post ∧ (w.val ∈ st.all ∨ w.val ∈ pre.map (·.val))) := by
  induction nodes with
  | nil =>
    intro st
    refine ⟨fun _ => ⟨st, rfl⟩, fun h => ?_⟩
    exact absurd ⟨by simp [labelDefs], by simp [labelDefs]⟩ h
  | cons n rest ih =>
    intro st
    by_cases hl : n.isLabel = true
    · -- a label definition
      cases n with
      | label w t =>
        have hdefs : labelDefs (Node.label w t :: rest) = w :: labelDefs rest := by simp [labelDefs]
        by_cases hmem : w.val ∈ st.all
        · -- already defined: the scan stops here
          have hstep : buildLoop calls p (Node.label w t :: rest) st = .error (.duplicateLabel w) := by
            simp [buildLoop, buildStep, hmem]
          refine ⟨fun h => ?_, fun _ => ⟨w, [], labelDefs rest, hstep, by rw [hdefs]; rfl, Or.inl hmem⟩⟩
          exact absurd hmem (h.1 w (by rw [hdefs]; exact List.mem_cons_self))
        · have hstep : buildLoop calls p (Node.label w t :: rest) st =
              buildLoop calls p rest { st with cur := st.cur ++ [w], all := w.val :: st.all } := by
            simp [buildLoop, buildStep, hmem]
          obtain ⟨ih1, ih2⟩ := ih { st with cur := st.cur ++ [w], all := w.val :: st.all }
          rw [hstep, hdefs]
          constructor
          · intro ⟨h1, h2⟩
            apply ih1
            simp only [List.map_cons, List.nodup_cons, List.mem_map, not_exists, not_and] at h2
            refine ⟨fun x hx => ?_, h2.2⟩
            simp only [List.mem_cons, not_or]
            exact ⟨fun e => h2.1 x hx e, h1 x (List.mem_cons_of_mem _ hx)⟩
          · intro h
            have : ¬ ((∀ x ∈ labelDefs rest, x.val ∉ w.val :: st.all) ∧ ((labelDefs rest).map (·.val)).Nodup) := by
              intro ⟨g1, g2⟩
              apply h
              refine ⟨fun x hx => ?_, ?_⟩
              · rcases List.mem_cons.mp hx with rfl | hx
                · exact hmem
                · exact fun hm => g1 x hx (List.mem_cons_of_mem _ hm)
              · simp only [List.map_cons, List.nodup_cons, List.mem_map, not_exists, not_and]
                exact ⟨fun x hx e => g1 x hx (by rw [e]; exact List.mem_cons_self), g2⟩
            obtain ⟨w2, pre, post, e1, e2, e3⟩ := ih2 this
            refine ⟨w2, w :: pre, post, e1, by rw [e2]; rfl, ?_⟩
            rcases e3 with e3 | e3
            · rcases List.mem_cons.mp e3 with e3 | e3
              · exact Or.inr (by rw [e3]; simp)
              · exact Or.inl e3
            · exact Or.inr (by simp only [List.map_cons, List.mem_cons]; exact Or.inr e3)
      | _ => simp [Node.isLabel] at hl
    · have hl' : n.isLabel = false := by simpa using hl
      obtain ⟨st', hs1, hs2⟩ := buildStep_other calls p st n hl'
      have hdefs : labelDefs (n :: rest) = labelDefs rest := by
        cases n <;> simp [labelDefs, Node.isLabel] at hl' ⊢
      have hstep : buildLoop calls p (n :: rest) st = buildLoop calls p rest st' := by
        simp [buildLoop, hs1]
      rw [hstep, hdefs, ← hs2]
      exact ih st'

/-- **C16 (`duplicate_label_reported`).** A program in which some label name is defined twice is
    refused with `DuplicateLabel` carrying the token of a definition that repeats an earlier
    one. -/
theorem duplicate_label_reported (nodes : List Node) (p : Option (List (W String)))
    (h : ¬ ((labelDefs nodes).map (·.val)).Nodup) :
    ∃ w pre post, buildNodes nodes p = .error (.duplicateLabel w) ∧
      labelDefs nodes = pre ++ w :: post ∧ w.val ∈ pre.map (·.val) := by
  have := (buildLoop_spec (allCallNames nodes p) p nodes {}).2 (fun hh => h hh.2)
  obtain ⟨w, pre, post, e1, e2, e3⟩ := this
  refine ⟨w, pre, post, ?_, e2, ?_⟩
  · unfold buildNodes; rw [e1]
  · rcases e3 with e3 | e3
    · simp at e3
    · exact e3

/-- …and a program whose label names are pairwise distinct is never refused by this scan. -/
theorem no_duplicate_no_error (nodes : List Node) (p : Option (List (W String)))
    (h : ((labelDefs nodes).map (·.val)).Nodup) : ∃ g, buildNodes nodes p = .ok g := by
  obtain ⟨st', e⟩ := (buildLoop_spec (allCallNames nodes p) p nodes {}).1 ⟨fun w _ => by simp, h⟩
  exact ⟨{ nodes := st'.out }, by unfold buildNodes; rw [e]⟩


/-- **C16 (`buildCfg_total`).** Graph construction fails in exactly two situations, each with an
    error that names a label at an occurrence: a used name without definition, a name defined
    twice. In every other case it succeeds — it has no unexplained failure. -/
theorem buildCfg_total (nodes : List Node) (p : Option (List (W String))) :
    (undefinedNames nodes p ≠ [] ∧
        buildCfg nodes p = .error (.labelsNotDefined (undefinedNames nodes p))) ∨
    (undefinedNames nodes p = [] ∧ ¬ ((labelDefs nodes).map (·.val)).Nodup ∧
        ∃ w pre post, buildCfg nodes p = .error (.duplicateLabel w) ∧
          labelDefs nodes = pre ++ w :: post ∧ w.val ∈ pre.map (·.val)) ∨
    (undefinedNames nodes p = [] ∧ ((labelDefs nodes).map (·.val)).Nodup ∧ ∃ g, buildCfg nodes p = .ok g) := by
  by_cases hu : undefinedNames nodes p = []
  · rw [no_undefined_no_error nodes p hu]
    by_cases hd : ((labelDefs nodes).map (·.val)).Nodup
    · exact Or.inr (Or.inr ⟨hu, hd, no_duplicate_no_error nodes p hd⟩)
    · exact Or.inr (Or.inl ⟨hu, hd, duplicate_label_reported nodes p hd⟩)
  · exact Or.inl ⟨hu, undefined_label_reported nodes p hu⟩

end Rva
