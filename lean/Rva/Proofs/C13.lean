/-
  C13 — surface independence (the parts that are properties of single functions).

  * `skipWs_idem`, `lexNext_skipWs`: the token the lexer yields does not depend on where among
    the preceding blanks (spaces, tabs, commas, carriage returns) it starts: optional commas and
    any amount of spacing between tokens are invisible to the parser.
  * `inst_case_insensitive`, `directive_case_insensitive`: mnemonics and directive names are
    looked up after lower-casing, so spellings that differ only in letter case decode alike.
  * `reg_alias` (Tables): numeric and ABI register names denote the same register.
  * C17's `notation_independent`: immediates written in different notations are read alike.
  The composition over whole programs (same diagnostics on the same instructions) is carried by
  the metamorphic check on the real code and the model.
-/
import Rva.Proofs.Tables
import Rva.Proofs.C17
import Rva.Proofs.LexTotal
import Rva.Model.Parser
namespace Rva
open Cursor

theorem skipWs_stop (src : Array Char) (c : Cursor) :
    match src[(skipWs src c).pos]? with
    | some ch => isWs ch = false
    | none => True := by
  fun_induction skipWs src c with
  | case1 c ch hc hw ih => exact ih
  | case2 c ch hc hw => rw [hc]; simpa using hw
  | case3 c hc => rw [hc]; trivial

/-- Skipping blanks twice is skipping them once. -/
theorem skipWs_idem (src : Array Char) (c : Cursor) : skipWs src (skipWs src c) = skipWs src c := by
  have h := skipWs_stop src c
  generalize skipWs src c = d at h
  rw [skipWs]
  split
  · rename_i ch hc
    rw [hc] at h
    simp [h]
  · rfl

/-- **C13 (spacing, optional commas).** The next token is the same from every position among
    the blanks that precede it. -/
theorem lexNext_skipWs (src : Array Char) (c : Cursor) : lexNext src (skipWs src c) = lexNext src c := by
  unfold lexNext
  rw [skipWs_idem]

theorem blanks : isWs ' ' = true ∧ isWs '\t' = true ∧ isWs ',' = true ∧ isWs '\r' = true := by decide

/-- **C13 (mnemonic case).** -/
theorem inst_case_insensitive (s t : String) (h : lowerStr s = lowerStr t) :
    instFromStr s = instFromStr t := by
  unfold instFromStr; rw [h]

theorem directive_case_insensitive (s t : String) (h : lowerStr s = lowerStr t) :
    directiveFromStr s = directiveFromStr t := by
  unfold directiveFromStr; rw [h]

/-- **C13 (immediate notation).** A register-or-immediate token is read through `immFromStr`;
    equal denotations give equal immediates (C17). -/
theorem imm_notation (s t : String) (hs : '+' ∉ normLit s.toList) (ht : '+' ∉ normLit t.toList)
    (h : Spec.denote s.toList = Spec.denote t.toList) : immFromStr s = immFromStr t :=
  notation_independent s.toList t.toList hs ht h

end Rva
