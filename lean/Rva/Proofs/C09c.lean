/-
  C09 at the parser level — where the operands of a parsed instruction point.

  Every operand of an instruction node (registers, immediate, label, CSR, and the mnemonic itself)
  carries the token it was read from. `parseInst_ops`: each of those tokens is the token of an item
  the statement consumed (or the mnemonic, which `parseNode` consumed just before) - also for the
  operands that pseudo-instruction expansion makes up (`x0`, `ra`, a zero offset), which are placed on
  the mnemonic or on a neighbouring operand. A diagnostic located on an operand therefore points
  into the statement it is about, never at text of another statement.
-/
import Rva.Proofs.C07c
namespace Rva

/-- the tokens the operands of an instruction node carry -/
def Node.opToks : Node → List FTok
  | .arith i rd rs1 rs2 _ => [i.tok, rd.tok, rs1.tok, rs2.tok]
  | .iarith i rd rs1 imm _ => [i.tok, rd.tok, rs1.tok, imm.tok]
  | .jumpLink i rd name _ => [i.tok, rd.tok, name.tok]
  | .jumpLinkR i rd rs1 imm _ => [i.tok, rd.tok, rs1.tok, imm.tok]
  | .basic i _ => [i.tok]
  | .branch i rs1 rs2 name _ => [i.tok, rs1.tok, rs2.tok, name.tok]
  | .store i rs1 rs2 imm _ => [i.tok, rs1.tok, rs2.tok, imm.tok]
  | .load i rd rs1 imm _ => [i.tok, rd.tok, rs1.tok, imm.tok]
  | .loadAddr i rd name _ => [i.tok, rd.tok, name.tok]
  | .csr i rd c rs1 _ => [i.tok, rd.tok, c.tok, rs1.tok]
  | .csri i rd c imm _ => [i.tok, rd.tok, c.tok, imm.tok]
  | .label name _ => [name.tok]
  | _ => []

theorem asReg_ok_tok {t : FTok} {w : W Reg} (h : t.asReg = .ok w) : w.tok = t := by
  have := (asReg_toks t).1 w h; simpa using this
theorem asImm_ok_tok {t : FTok} {w : W Word} (h : t.asImm = .ok w) : w.tok = t := by
  have := (asImm_toks t).1 w h; simpa using this
theorem asLabel_ok_tok {t : FTok} {w : W String} (h : t.asLabel = .ok w) : w.tok = t := by
  have := (asLabel_toks t).1 w h; simpa using this

theorem pseudoRR_toks {sub : String} {m : FTok} {rd rs1 : W Reg} {raw : RawTok} {n : Node}
    (h : pseudoRR sub m rd rs1 raw = some n) : ∀ t ∈ n.opToks, t = m ∨ t = rd.tok ∨ t = rs1.tok := by
  unfold pseudoRR at h
  split at h <;> simp only [Option.some.injEq, reduceCtorEq] at h <;> subst h <;>
    simp [Node.opToks, wi, x0, imm0]

theorem pseudoBZ_toks {sub : String} {m : FTok} {r : W Reg} {i : String} {a b : W Reg}
    (h : pseudoBZ sub m r = some (i, a, b)) : (a.tok = m ∨ a.tok = r.tok) ∧ (b.tok = m ∨ b.tok = r.tok) := by
  unfold pseudoBZ at h
  split at h <;> simp only [Option.some.injEq, Prod.mk.injEq, reduceCtorEq] at h <;>
    (obtain ⟨_, ha, hb⟩ := h; subst ha; subst hb; simp [x0])

theorem pseudoB2_toks {sub : String} {x y : W Reg} {i : String} {a b : W Reg}
    (h : pseudoB2 sub x y = some (i, a, b)) : (a.tok = x.tok ∨ a.tok = y.tok) ∧ (b.tok = x.tok ∨ b.tok = y.tok) := by
  unfold pseudoB2 at h
  split at h <;> simp only [Option.some.injEq, Prod.mk.injEq, reduceCtorEq] at h <;>
    (obtain ⟨_, ha, hb⟩ := h; subst ha; subst hb; simp)

theorem eh_pseudoBranch_ops (s0 : List PItem) (K : List FTok) (i : String) (m : FTok) (a b : W Reg) (l : W String)
    (hm : m ∈ K) (ha : a.tok ∈ K) (hb : b.tok ∈ K) (hl : l.tok ∈ K) :
    EH s0 K Node.opToks (pseudoBranch i m a b l) := by
  unfold pseudoBranch
  refine eh_bind good_rawNow (eh_rawNow s0 K) (fun _ => eh_pure _ _ _ _ ?_)
  intro t ht
  simp only [Node.opToks, wi, List.mem_cons, List.mem_nil_iff, or_false] at ht
  rcases ht with rfl | rfl | rfl | rfl
  · simp [hm]
  · simp [ha]
  · simp [hb]
  · simp [hl]

end Rva

namespace Rva

attribute [local irreducible] Good EH getReg getImm getLabel getCsrImm getString getAny peekAny expectRParen rawNow
  pseudoBranch liftE

/-- the side condition of a leaf: every operand token of the node built is among the tokens held -/
macro "ops_side" : tactic => `(tactic| (
  intro t ht
  try (have e1 := asReg_ok_tok (by assumption))
  try (have e2 := asImm_ok_tok (by assumption))
  try (have e3 := asLabel_ok_tok (by assumption))
  try (have e4 := pseudoRR_toks (by assumption) t ht)
  simp only [Node.opToks, wi, x0, x1, imm0, List.mem_cons, List.mem_nil_iff, or_false, List.mem_append,
    List.nil_append, false_or] at *
  all_goals grind))

macro "ops_step" : tactic => `(tactic| first
  | exact good_getReg | exact good_getImm | exact good_getLabel | exact good_getCsrImm | exact good_getString
  | exact good_getAny | exact good_peekAny | exact good_expectRParen | exact good_rawNow | exact good_get
  | exact eh_getReg _ _ | exact eh_getImm _ _ | exact eh_getLabel _ _ | exact eh_getCsrImm _ _
  | exact eh_getString _ _ | exact eh_getAny _ _ | exact eh_peekAny _ _ | exact eh_expectRParen _ _
  | exact eh_rawNow _ _ | exact eh_get _ _
  | (refine eh_throw _ _ _ _ ?_; simp [LexErr.toks]; done)
  | (refine eh_pure _ _ _ _ ?_; ops_side)
  | (refine eh_pseudoBranch_ops _ _ _ _ _ _ _ ?_ ?_ ?_ ?_ <;>
      ((try (have hz := pseudoBZ_toks (by assumption))); (try (have hz2 := pseudoB2_toks (by assumption)));
       simp only [List.mem_cons, List.mem_nil_iff, or_false, List.mem_append, List.nil_append, false_or] at *;
       grind))
  | apply eh_bind
  | intro _
  | split)

set_option maxHeartbeats 16000000 in
theorem parseInst_ops (s0 : List PItem) (m : FTok) (v : String) :
    EH s0 [m] Node.opToks (parseInst m v) := by
  unfold parseInst
  repeat' ops_step

theorem parseDirective_ops (s0 : List PItem) (m : FTok) (d : String) :
    EH s0 [m] Node.opToks (parseDirective m d) := by
  unfold parseDirective
  repeat' (first | exact dataLoop_good _ _ | exact macroLoop_good _ | exact dataLoop_eh _ _ _ _
                 | exact macroLoop_eh _ _ _ | ops_step)

theorem parseNodeK_ops (s0 : List PItem) (m : FTok) : EH s0 [m] Node.opToks (parseNodeK m) := by
  unfold parseNodeK
  repeat' (first | exact parseInst_ops _ _ _ | exact parseDirective_ops _ _ _ | ops_step)

theorem parseNode_ops (s0 : List PItem) : EH s0 [] Node.opToks parseNode := by
  rw [parseNode_eq]
  exact eh_bind good_getAny (eh_getAny s0 []) (fun m => parseNodeK_ops s0 m)

end Rva

namespace Rva

/-- **C09 (`parseStep_operands_located`).** Every operand of a parsed statement - registers,
    immediate, label, CSR, the mnemonic, and the operands that pseudo-instruction expansion makes up -
    carries the token of one of the items that statement consumed (or of the first item it looked at
    and left): with `k` items consumed it is one of `items[0..k]`. A diagnostic placed on an operand
    points into the statement it is about. -/
theorem parseStep_operands_located (items : List PItem) (n : Node)
    (h : (parseStep items).1 = .ok n) :
    ∀ t ∈ n.opToks, ∃ i, i ≤ items.length - (parseStep items).2.length ∧
      (items[i]?).map PItem.ftok = some t := by
  rw [parseStep_eq] at h ⊢
  have := parseNode_ops items { items := items } (List.suffix_refl _) (by simp)
  cases hr : runP parseNode { items := items } with
  | mk r s' =>
    rw [hr] at this h
    simp only [] at h
    subst h
    simp only [] at this
    exact this

end Rva
