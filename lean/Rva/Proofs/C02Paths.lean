/-
  C02 — liveness along paths that contain calls and environment calls.

  `LivePathExt` extends `LivePath`: a register stays live backwards through a call site unless
  the call clobbers it (caller-saved), is live before a call when the callee reads it as an
  argument (it is in the callee's entry live-out), through an `ecall` unless caller-saved, and
  before an `ecall` whose documented arguments include it. `live_path_sound_ext`: in any solution of
  the equations, a register at the start of such a path is in the live-in set.
-/
import Rva.Proofs.C02Least
namespace Rva

theorem mem_and' (a b : RegSet) (r : Reg) : RegSet.mem (a &&& b) r = (RegSet.mem a r && RegSet.mem b r) := by
  simp [RegSet.mem]

/-- at a call site: live-in ⊇ (callee's entry live-out ∩ arguments) ∪ (live-out − kill) ∪ gen -/
theorem live_call (g : Cfg) (i : Nat) (f : Func) (nm : W String) (h : LiveEqAt g i)
    (hc : callsToFromCfg g (g.get i) = some (f, nm)) (r : Reg) :
    (RegSet.mem (g.get f.entry).liveOut r = true → RegSet.mem argumentSet r = true →
      RegSet.mem (g.get i).liveIn r = true) ∧
    (RegSet.mem (g.get i).liveOut r = true → RegSet.mem (g.get i).node.killReg r = false →
      RegSet.mem (g.get i).liveIn r = true) ∧
    (RegSet.mem (g.get i).liveOut r = true → RegSet.mem (g.get f.exit).liveIn r = true) := by
  have h2 := h.2
  simp only [hc] at h2
  obtain ⟨hex, hin⟩ := h2
  refine ⟨?_, ?_, ?_⟩
  · intro h1 ha
    rw [hin, mem_or, mem_or, mem_and']; simp [h1, ha]
  · intro hl hk
    rw [hin, mem_or, mem_or, mem_diff]; simp [hl, hk]
  · intro hl
    rw [hex, mem_or]; simp [hl]

/-- at an `ecall`: live-in ⊇ (live-out − caller-saved) ∪ {a7} ∪ documented arguments -/
theorem live_ecall (g : Cfg) (i : Nat) (h : LiveEqAt g i)
    (hc : callsToFromCfg g (g.get i) = none) (he : (g.get i).node.isEcall = true) (r : Reg) :
    (RegSet.mem (g.get i).liveOut r = true → RegSet.mem callerSavedSet r = false →
      RegSet.mem (g.get i).liveIn r = true) ∧
    (RegSet.mem ecallAlwaysArgumentSet r = true → RegSet.mem (g.get i).liveIn r = true) ∧
    (RegSet.mem ((ecallSignature (g.get i)).getD (0#32, 0#32)).1 r = true →
      RegSet.mem (g.get i).liveIn r = true) := by
  have h2 := h.2
  simp only [hc, he, if_true] at h2
  refine ⟨?_, ?_, ?_⟩
  · intro hl hk
    rw [h2, mem_or, mem_or, mem_diff]; simp [hl, hk]
  · intro ha
    rw [h2, mem_or, mem_or]; simp [ha]
  · intro ha
    rw [h2, mem_or]; simp [ha]

/-- paths through ordinary instructions, call sites and environment calls -/
inductive LivePathExt (g : Cfg) (r : Reg) : Nat → Prop where
  | use (i : Nat) : Ordinary g i → RegSet.mem (g.get i).node.genReg r = true → LivePathExt g r i
  | step (i s : Nat) : Ordinary g i → s ∈ (g.get i).nexts →
      RegSet.mem (g.get i).node.killReg r = false → LivePathExt g r s → LivePathExt g r i
  | callArg (i : Nat) (f : Func) (nm : W String) : callsToFromCfg g (g.get i) = some (f, nm) →
      RegSet.mem argumentSet r = true → RegSet.mem (g.get f.entry).liveOut r = true → LivePathExt g r i
  | callThrough (i s : Nat) (f : Func) (nm : W String) : callsToFromCfg g (g.get i) = some (f, nm) →
      s ∈ (g.get i).nexts → RegSet.mem (g.get i).node.killReg r = false → LivePathExt g r s → LivePathExt g r i
  | ecallArg (i : Nat) : callsToFromCfg g (g.get i) = none → (g.get i).node.isEcall = true →
      (RegSet.mem ecallAlwaysArgumentSet r = true ∨
       RegSet.mem ((ecallSignature (g.get i)).getD (0#32, 0#32)).1 r = true) → LivePathExt g r i
  | ecallThrough (i s : Nat) : callsToFromCfg g (g.get i) = none → (g.get i).node.isEcall = true →
      s ∈ (g.get i).nexts → RegSet.mem callerSavedSet r = false → LivePathExt g r s → LivePathExt g r i

/-- **C02 (`live_path_sound_ext`).** In any solution of the liveness equations, a register that is
    read — by an instruction, by a callee as an argument, or by the environment as a documented
    argument — at the end of a path on which no instruction, call or environment call overwrites it
    is live at the start of the path. -/
theorem live_path_sound_ext (g : Cfg) (heq : ∀ i, LiveEqAt g i) (r : Reg) (i : Nat)
    (p : LivePathExt g r i) : RegSet.mem (g.get i).liveIn r = true := by
  induction p with
  | use i ho hg => exact (live_transfer g i (heq i) ho r).1 hg
  | step i s ho hs hk _ ih =>
    exact (live_transfer g i (heq i) ho r).2 (live_edge g i s (heq i) hs r ih) hk
  | callArg i f nm hc ha hl => exact (live_call g i f nm (heq i) hc r).1 hl ha
  | callThrough i s f nm hc hs hk _ ih =>
    exact (live_call g i f nm (heq i) hc r).2.1 (live_edge g i s (heq i) hs r ih) hk
  | ecallArg i hc he ha =>
    rcases ha with ha | ha
    · exact (live_ecall g i (heq i) hc he r).2.1 ha
    · exact (live_ecall g i (heq i) hc he r).2.2 ha
  | ecallThrough i s hc he hs hk _ ih =>
    exact (live_ecall g i (heq i) hc he r).1 (live_edge g i s (heq i) hs r ih) hk

end Rva
