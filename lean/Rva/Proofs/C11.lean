/-
  C11 — function membership.

  `markLoop_own` / `mark_reachable_owner`: after `mark_reachable` has walked a function, every
  instruction it attributed to the function carries that function among its owners, all
  recorded indices and all edges stay inside the node array, and the remembered exit is a node of
  the graph — also across the in-walk mutation that turns a second return into a jump to the
  first one. (The converse inclusion and "body = reachable set" are carried by the
  correspondence check with an independent reachability oracle on the real graph.)
-/
import Rva.Proofs.C03
namespace Rva

/-- every recorded instruction of the function being marked carries that function as owner;
    all indices in play are inside the node array -/
def OwnInv (entry : Nat) (st : MarkSt) : Prop :=
  (∀ i ∈ st.insts, entry ∈ (st.g.get i).funcs) ∧ (∀ i ∈ st.stack, i < st.g.nodes.size) ∧
  (∀ a, ∀ b ∈ (st.g.get a).nexts, b < st.g.nodes.size) ∧ (∀ r, st.ret = some r → r < st.g.nodes.size)

theorem mem_foldl_cons (l rest : List Nat) (x : Nat) :
    x ∈ l.foldl (fun s y => y :: s) rest ↔ x ∈ l ∨ x ∈ rest := by
  induction l generalizing rest with
  | nil => simp
  | cons y ys ih => simp only [List.foldl_cons, ih, List.mem_cons]; constructor
                    · rintro (h | h | h) <;> simp [h]
                    · rintro ((h | h) | h) <;> simp [h]

theorem markLoop_own (desc : Bool) (entry : Nat) (fuel : Nat) (st : MarkSt) (h : OwnInv entry st) :
    OwnInv entry (markLoop desc entry fuel st) := by
  induction fuel generalizing st with
  | zero => exact h
  | succ n ih =>
    unfold markLoop
    split
    · exact h
    · rename_i i rest hstk
      obtain ⟨h1, h2, h3, h4⟩ := h
      have hi : i < st.g.nodes.size := h2 i (by rw [hstk]; exact List.mem_cons_self)
      have hrest : ∀ j ∈ rest, j < st.g.nodes.size :=
        fun j hj => h2 j (by rw [hstk]; exact List.mem_cons_of_mem _ hj)
      split
      · exact ih _ ⟨h1, hrest, h3, h4⟩
      · simp only []
        -- facts about the graph with i marked
        generalize hg1 : (st.g.modify i fun m => { m with funcs := insNat entry m.funcs }) = g1
        have hsz1 : g1.nodes.size = st.g.nodes.size := by subst hg1; exact Cfg.size_modify _ _ _
        have hf1 : ∀ j, entry ∈ (st.g.get j).funcs ∨ j = i → entry ∈ (g1.get j).funcs := by
          intro j hj; subst hg1; rw [Cfg.get_modify]
          by_cases hij : i = j
          · subst hij; simp [hi, mem_insNat]
          · simp only [hij, false_and, if_false]
            rcases hj with hj | hj
            · exact hj
            · exact absurd hj.symm hij
        have hn1 : ∀ a, (g1.get a).nexts = (st.g.get a).nexts := by
          intro a; subst hg1; rw [Cfg.get_modify]; split <;> rfl
        have hstack : ∀ (sz : Nat), sz = st.g.nodes.size →
            ∀ j ∈ (if desc = true then (st.g.get i).nexts.reverse else (st.g.get i).nexts).foldl
              (fun s x => x :: s) rest, j < sz := by
          intro sz hsz j hj
          rw [mem_foldl_cons] at hj
          rcases hj with hj | hj
          · have : j ∈ (st.g.get i).nexts := by
              by_cases hd : desc = true
              · simp [hd] at hj; exact hj
              · simp [hd] at hj; exact hj
            rw [hsz]; exact h3 i j this
          · rw [hsz]; exact hrest j hj
        have hins : ∀ j ∈ i :: st.insts, entry ∈ (g1.get j).funcs := by
          intro j hj
          rcases List.mem_cons.mp hj with hj | hj
          · exact hf1 j (Or.inr hj)
          · exact hf1 j (Or.inl (h1 j hj))
        split
        · split
          · -- a second return: rewire it to the remembered one
            rename_i r hr
            have hrlt : r < st.g.nodes.size := h4 r hr
            unfold rewireReturn
            apply ih
            refine ⟨?_, ?_, ?_, ?_⟩
            · intro j hj
              simp only []
              rw [Cfg.get_modify, Cfg.get_modify]
              have := hins j hj
              split <;> split <;> simpa using this
            · intro j hj
              simp only [Cfg.size_modify]
              exact hstack _ hsz1 j hj
            · intro a b hb
              simp only [Cfg.size_modify]
              rw [hsz1]
              have hn3 : ∀ (f1 f2 : CNode → CNode), (∀ m, (f1 m).nexts = [r]) → (∀ m, (f2 m).nexts = m.nexts) →
                  (((g1.modify i f1).modify r f2).get a).nexts =
                    if i = a then [r] else (st.g.get a).nexts := by
                intro f1 f2 hf1' hf2'
                rw [Cfg.get_modify, Cfg.get_modify, Cfg.size_modify, hsz1]
                by_cases hia : i = a
                · subst hia
                  by_cases hra : r = i
                  · simp [hra, hi, hf1', hf2']
                  · simp [hra, hi, hf1']
                · by_cases hra : r = a
                  · subst hra; simp [hia, hrlt, hf2', hn1]
                  · simp [hia, hra, hn1]
              simp only [] at hb
              rw [hn3 (fun m => { m with nexts := [r], node := returnJump m m.node.tok })
                (fun m => { m with prevs := insNat i m.prevs }) (fun _ => rfl) (fun _ => rfl)] at hb
              by_cases hia : i = a
              · simp [hia] at hb; omega
              · simp [hia] at hb; exact h3 a b hb
            · intro r' hr'
              simp only [Cfg.size_modify]
              rw [hsz1]; simp only [] at hr'; exact h4 r' hr'
          · -- the first return becomes the exit
            apply ih
            refine ⟨hins, fun j hj => hstack _ hsz1 j hj, ?_, ?_⟩
            · intro a b hb; rw [hn1] at hb; rw [hsz1]; exact h3 a b hb
            · intro r' hr'; simp only [] at hr'; injection hr' with hr'; subst hr'; rw [hsz1]; exact hi
        · apply ih
          refine ⟨hins, fun j hj => hstack _ hsz1 j hj, ?_, ?_⟩
          · intro a b hb; rw [hn1] at hb; rw [hsz1]; exact h3 a b hb
          · intro r' hr'; rw [hsz1]; exact h4 r' hr'


/-- **C11.** Starting the walk at a function entry of a graph whose prev/next relations are
    inverse: every instruction recorded for the function has the function among its owners. -/
theorem mark_reachable_owner (desc : Bool) (g : Cfg) (e fuel : Nat) (he : e < g.nodes.size)
    (hs : Symm g) :
    let st := markLoop desc e fuel { g := g, stack := [e] }
    ∀ i ∈ st.insts, e ∈ (st.g.get i).funcs := by
  have h0 : OwnInv e { g := g, stack := [e] } := by
    refine ⟨by simp, by simpa using he, fun a b hb => (hs.nexts_lt hb).2, by simp⟩
  exact (markLoop_own desc e fuel _ h0).1

end Rva
