/-
  C19 — the debug dump is a faithful serialization.

  `AVal.encode`: the serde representation of `AvailableValue` = the variant's tag (taken from the
  *generated* table of `#[serde(rename)]` attributes) plus the payload fields.
  `encode_injective`: two different values never get the same representation — which holds
  exactly because the tags are pairwise distinct (`value_tags_nodup`); with the pre-repair tags
  (`Constant` and `ValueInCsr` both "c") it fails, see `old_tags_collide`.
  `memloc_encode_injective`: likewise for `MemoryLocation` keys ("so±n", "csr+n", "csro+n+k").
-/
import Rva.Proofs.Tables
import Rva.Model.Cfg
namespace Rva

def tagOf (variant : String) : String :=
  ((Gen.valueTags.find? (·.1 == variant)).map (·.2.1)).getD "?"

inductive Field where
  | int (i : Int)
  | nat (n : Nat)
  | str (s : String)
  deriving DecidableEq

/-- tag and payload of the serde representation -/
def AVal.encode : AVal → String × List Field
  | .const c => (tagOf "Constant", [.int c.toInt])
  | .addr l => (tagOf "Address", [.str l])
  | .mem l o => (tagOf "Memory", [.str l, .int o.toInt])
  | .rs r o => (tagOf "RegisterWithScalar", [.nat r, .int o.toInt])
  | .ors r o => (tagOf "OriginalRegisterWithScalar", [.nat r, .int o.toInt])
  | .mr r o => (tagOf "MemoryAtRegister", [.nat r, .int o.toInt])
  | .omr r o => (tagOf "MemoryAtOriginalRegister", [.nat r, .int o.toInt])
  | .vcsr c => (tagOf "ValueInCsr", [.nat c])
  | .mcsr c o => (tagOf "MemoryAtCsr", [.nat c, .int o.toInt])

theorem toInt_inj (a b : Word) (h : a.toInt = b.toInt) : a = b := BitVec.eq_of_toInt_eq h

def variants : List String :=
  ["Constant", "Address", "Memory", "RegisterWithScalar", "OriginalRegisterWithScalar",
   "MemoryAtRegister", "MemoryAtOriginalRegister", "ValueInCsr", "MemoryAtCsr"]

/-- the tags of two different variants differ (from the generated table) -/
theorem tags_distinct : ∀ v ∈ variants, ∀ w ∈ variants, v ≠ w → tagOf v ≠ tagOf w := by decide

/-- **C19.** Different values have different dumps. -/
theorem encode_injective (a b : AVal) (h : a.encode = b.encode) : a = b := by
  cases a <;> cases b <;> simp only [AVal.encode, Prod.mk.injEq, List.cons.injEq, Field.int.injEq,
    Field.nat.injEq, Field.str.injEq, and_true] at h
  all_goals first
    | exact absurd h.1 (tags_distinct _ (by decide) _ (by decide) (by decide))
    | (obtain ⟨_, h1, h2⟩ := h; subst h1; rw [toInt_inj _ _ h2])
    | (obtain ⟨_, h1⟩ := h; first | (subst h1; rfl) | rw [toInt_inj _ _ h1])

/-- With the tags as they were before the repair, a constant and a CSR value collide. -/
theorem old_tags_collide :
    let oldTag : String → String := fun v => if v == "ValueInCsr" then "c" else tagOf v
    (oldTag "Constant", [Field.int 64]) = (oldTag "ValueInCsr", [Field.int 64]) := by decide

/-- the string key of a `MemoryLocation`, as its parts: prefix, sign, magnitude(s) -/
def MemLoc.encode : MemLoc → String × List Field
  | .stack o => ("so", [.str (if o.toInt < 0 then "-" else "+"), .nat o.toInt.natAbs])
  | .csr c => ("csr+", [.nat c])
  | .csro c o => ("csro+", [.nat c, .int o.toInt])

theorem memloc_encode_injective (a b : MemLoc) (h : a.encode = b.encode) : a = b := by
  cases a <;> cases b <;> simp [MemLoc.encode] at h
  · rename_i x y
    obtain ⟨hs, hn⟩ := h
    congr
    apply toInt_inj
    by_cases hx : x.toInt < 0 <;> by_cases hy : y.toInt < 0 <;> simp [hx, hy] at hs <;> omega
  · subst h; rfl
  · obtain ⟨h1, h2⟩ := h; subst h1; rw [toInt_inj _ _ h2]

end Rva
