/-
  C10 — the final ordering step.

  `sortDiags_sorted`, `sortDiags_perm`: the model of `diags.sort()` returns the same items,
  sorted by (file, start, end). `sorted_unique` / `sortDiags_order_independent`: when no two
  items share a position the output does not depend on the order in which the passes produced
  them — so hash-table iteration inside the lint passes cannot reach the output except through
  ties (the stable sort keeps their production order: the residual dependence, probed by the
  repeated-run check) and through the two sites where a *location* is chosen by hash order
  (Appendix B of DESIGN.md; known findings F-14, F-28).
-/
import Rva.Model.Pipeline
namespace Rva

/-- the sort key: rank of the file by name, then start offset, then end offset -/
def Diag.key (d : Diag) : Nat × Nat × Nat := (d.frank, d.range.start.raw, d.range.stop.raw)

def keyLt (a b : Nat × Nat × Nat) : Prop :=
  a.1 < b.1 ∨ (a.1 = b.1 ∧ (a.2.1 < b.2.1 ∨ (a.2.1 = b.2.1 ∧ a.2.2 < b.2.2)))

theorem diagLt_iff (a b : Diag) : diagLt a b = true ↔ keyLt a.key b.key := by
  simp [diagLt, keyLt, Diag.key]

theorem keyLt_trichotomy (a b : Nat × Nat × Nat) : keyLt a b ∨ a = b ∨ keyLt b a := by
  obtain ⟨a1, a2, a3⟩ := a
  obtain ⟨b1, b2, b3⟩ := b
  simp only [keyLt, Prod.mk.injEq]
  omega

theorem keyLt_trans (a b c : Nat × Nat × Nat) (h1 : keyLt a b) (h2 : keyLt b c) : keyLt a c := by
  obtain ⟨a1, a2, a3⟩ := a
  obtain ⟨b1, b2, b3⟩ := b
  obtain ⟨c1, c2, c3⟩ := c
  simp only [keyLt] at *
  omega

theorem keyLt_irrefl (a : Nat × Nat × Nat) : ¬ keyLt a a := by
  obtain ⟨a1, a2, a3⟩ := a
  simp only [keyLt]; omega

/-- non-decreasing in the sort key -/
def Sorted (l : List Diag) : Prop := l.Pairwise fun a b => ¬ keyLt b.key a.key

theorem mem_insertStable (x y : Diag) (l : List Diag) : y ∈ insertStable x l ↔ y = x ∨ y ∈ l := by
  induction l with
  | nil => simp [insertStable]
  | cons z zs ih =>
    unfold insertStable
    split
    · simp
    · simp [ih]; constructor
      · rintro (h | h | h) <;> simp [h]
      · rintro (h | h | h) <;> simp [h]

theorem insertStable_sorted (x : Diag) (l : List Diag) (h : Sorted l) : Sorted (insertStable x l) := by
  induction l with
  | nil => simp [insertStable, Sorted]
  | cons y ys ih =>
    unfold Sorted at h
    rw [List.pairwise_cons] at h
    unfold insertStable
    by_cases hlt : diagLt x y = true
    · simp only [hlt, if_true]
      unfold Sorted
      rw [List.pairwise_cons]
      refine ⟨?_, List.pairwise_cons.mpr h⟩
      intro z hz
      have hxy := (diagLt_iff x y).mp hlt
      rcases List.mem_cons.mp hz with rfl | hz
      · intro hc; exact keyLt_irrefl _ (keyLt_trans _ _ _ hxy hc)
      · intro hc
        exact h.1 z hz (keyLt_trans _ _ _ hc hxy)
    · have hlt' : diagLt x y = false := by simpa using hlt
      simp only [hlt', Bool.false_eq_true, if_false]
      unfold Sorted
      rw [List.pairwise_cons]
      refine ⟨?_, ih h.2⟩
      intro z hz
      rcases (mem_insertStable x z ys).mp hz with rfl | hz
      · intro hc; exact hlt ((diagLt_iff _ _).mpr hc)
      · exact h.1 z hz

theorem foldl_insert_sorted (l acc : List Diag) (h : Sorted acc) :
    Sorted (l.foldl (fun acc x => insertStable x acc) acc) := by
  induction l generalizing acc with
  | nil => exact h
  | cons x xs ih => exact ih _ (insertStable_sorted x acc h)

/-- **C10.** The final list is sorted by (file, start, end). -/
theorem sortDiags_sorted (l : List Diag) : Sorted (sortDiags l) :=
  foldl_insert_sorted l [] List.Pairwise.nil

theorem insertStable_perm (x : Diag) (l : List Diag) : (insertStable x l).Perm (x :: l) := by
  induction l with
  | nil => simp [insertStable]
  | cons y ys ih =>
    unfold insertStable
    split
    · exact List.Perm.refl _
    · exact (List.Perm.cons y ih).trans (List.Perm.swap x y ys)

theorem foldl_insert_perm (l acc : List Diag) :
    (l.foldl (fun acc x => insertStable x acc) acc).Perm (l ++ acc) := by
  induction l generalizing acc with
  | nil => simp
  | cons x xs ih =>
    simp only [List.foldl_cons]
    refine (ih _).trans ?_
    refine (List.Perm.append_left xs (insertStable_perm x acc)).trans ?_
    simp [List.perm_middle]

/-- **C10.** Sorting neither loses nor duplicates an item. -/
theorem sortDiags_perm (l : List Diag) : (sortDiags l).Perm l := by
  have := foldl_insert_perm l []
  simpa [sortDiags] using this


/-- **C10 (`sort_total_on_distinct`).** When no two items share a sort key, the sorted order is
    a function of the *set* of items: two sorted arrangements of the same items are equal. So the
    order in which the passes (and the hash tables they iterate) produced the items cannot reach
    the output. Ties are exactly the residual order dependence. -/
theorem sorted_unique (l1 l2 : List Diag) (h1 : Sorted l1) (h2 : Sorted l2) (hp : l1.Perm l2)
    (hk : (l1.map Diag.key).Nodup) : l1 = l2 := by
  induction l1 generalizing l2 with
  | nil => exact (List.Perm.nil_eq hp)
  | cons a l1' ih =>
    cases l2 with
    | nil => exact absurd hp.length_eq (by simp)
    | cons b l2' =>
      unfold Sorted at h1 h2
      rw [List.pairwise_cons] at h1 h2
      simp only [List.map_cons, List.nodup_cons] at hk
      have hab : a = b := by
        have ha : a ∈ b :: l2' := hp.subset List.mem_cons_self
        rcases List.mem_cons.mp ha with h | h
        · exact h
        · have hb : b ∈ a :: l1' := hp.symm.subset List.mem_cons_self
          rcases List.mem_cons.mp hb with h' | h'
          · exact h'.symm
          · have n1 : ¬ keyLt a.key b.key := h2.1 a h
            have n2 : ¬ keyLt b.key a.key := h1.1 b h'
            rcases keyLt_trichotomy a.key b.key with t | t | t
            · exact absurd t n1
            · exact absurd (List.mem_map.mpr ⟨b, h', t.symm⟩) hk.1
            · exact absurd t n2
      subst hab
      congr 1
      exact ih l2' h1.2 h2.2 (List.Perm.cons_inv hp) hk.2

/-- Corollary: any two input orders of the same items with pairwise different positions give
    the same final list. -/
theorem sortDiags_order_independent (l1 l2 : List Diag) (hp : l1.Perm l2)
    (hk : (l1.map Diag.key).Nodup) : sortDiags l1 = sortDiags l2 := by
  apply sorted_unique _ _ (sortDiags_sorted l1) (sortDiags_sorted l2)
  · exact (sortDiags_perm l1).trans (hp.trans (sortDiags_perm l2).symm)
  · exact ((sortDiags_perm l1).map Diag.key).nodup_iff.mpr hk

end Rva
