/-
  C03, markup pass — `FunctionMarkupPass` rewires the additional returns of a function to its
  exit while it walks the graph. `markLoop_symm`: the walk keeps prev/next exact inverses, for
  every graph, every stack and visiting history, provided return instructions have no
  successors (which is how the direction pass leaves them: `RetNoNext`); `markup_symm`: so does
  the whole pass over all function entries.
-/
import Rva.Proofs.C03
namespace Rva

/-- return instructions have no successors -/
def RetNoNext (g : Cfg) : Prop := ∀ i, (g.get i).node.isReturn = true → (g.get i).nexts = []

theorem default_not_return : (default : CNode).node.isReturn = false := rfl

theorem returnJump_not_return (m : CNode) (t : RawTok) : (returnJump m t).isReturn = false := rfl

/-- **C09 (`rewireReturn_keeps_locations`).** Rewiring an additional return to the function's exit
    changes no node's location: the jump that replaces the return carries the return's own raw
    token, every other node is untouched. -/
theorem rewireReturn_keeps_locations (g : Cfg) (i r k : Nat) :
    ((rewireReturn g i r).get k).node.tok = (g.get k).node.tok := by
  unfold rewireReturn
  rw [Cfg.get_modify, Cfg.size_modify]
  split
  · simp only []
    rw [Cfg.get_modify]
    split <;> rfl
  · rw [Cfg.get_modify]
    split <;> rfl

/-- edges and instruction kinds after rewiring the additional return `i` to the exit `r` -/
theorem rewire_get (g : Cfg) (i r : Nat) (hir : i ≠ r) (hi : i < g.nodes.size) (hr : r < g.nodes.size)
    (y : Nat) :
    ((rewireReturn g i r).get y).nexts = (if y = i then [r] else (g.get y).nexts) ∧
    ((rewireReturn g i r).get y).prevs = (if y = r then insNat i (g.get y).prevs else (g.get y).prevs) ∧
    (((rewireReturn g i r).get y).node.isReturn = true → (g.get y).node.isReturn = true ∧ y ≠ i) := by
  unfold rewireReturn
  rw [Cfg.get_modify, Cfg.size_modify]
  by_cases hyr : y = r
  · subst hyr
    have hyi : y ≠ i := fun e => hir e.symm
    have c1 : (y = y ∧ y < g.nodes.size) := ⟨rfl, hr⟩
    rw [if_pos c1, Cfg.get_modify]
    have c2 : ¬ (i = y ∧ y < g.nodes.size) := fun hh => hir hh.1
    rw [if_neg c2]
    simp only [hyi, if_false, if_true]
    exact ⟨trivial, trivial, fun hh => ⟨hh, hyi⟩⟩
  · have c1 : ¬ (r = y ∧ y < g.nodes.size) := fun hh => hyr hh.1.symm
    rw [if_neg c1, Cfg.get_modify]
    by_cases hyi : y = i
    · subst hyi
      have c2 : (y = y ∧ y < g.nodes.size) := ⟨rfl, hi⟩
      rw [if_pos c2]
      simp only [hyr, if_false, if_true]
      refine ⟨trivial, trivial, fun hh => ?_⟩
      rw [returnJump_not_return] at hh
      exact absurd hh (by simp)
    · have c2 : ¬ (i = y ∧ y < g.nodes.size) := fun hh => hyi hh.1.symm
      rw [if_neg c2]
      simp only [hyr, hyi, if_false]
      exact ⟨trivial, trivial, fun hh => ⟨hh, hyi⟩⟩

theorem rewire_size (g : Cfg) (i r : Nat) : (rewireReturn g i r).nodes.size = g.nodes.size := by
  unfold rewireReturn; rw [Cfg.size_modify, Cfg.size_modify]

/-- **rewiring an additional return keeps prev/next inverse** (the return had no successor) -/
theorem rewire_symm (g : Cfg) (i r : Nat) (hir : i ≠ r) (hi : i < g.nodes.size) (hr : r < g.nodes.size)
    (hs : Symm g) (hn : (g.get i).nexts = []) : Symm (rewireReturn g i r) := by
  intro a b
  rw [(rewire_get g i r hir hi hr a).1, (rewire_get g i r hir hi hr b).2.1]
  by_cases hai : a = i
  · subst hai
    simp only [if_true]
    by_cases hbr : b = r
    · subst hbr; simp [mem_insNat]
    · simp only [hbr, if_false, List.mem_singleton]
      constructor
      · intro e; exact absurd e (by simpa using hbr)
      · intro hm
        have := (hs a b).mpr hm
        rw [hn] at this
        simp at this
  · simp only [hai, if_false]
    by_cases hbr : b = r
    · subst hbr
      simp only [if_true, mem_insNat, hai, false_or]
      exact hs a b
    · simp only [hbr, if_false]
      exact hs a b

theorem rewire_rnn (g : Cfg) (i r : Nat) (hir : i ≠ r) (hi : i < g.nodes.size) (hr : r < g.nodes.size)
    (hn : RetNoNext g) : RetNoNext (rewireReturn g i r) := by
  intro y hy
  obtain ⟨hy1, hyi⟩ := (rewire_get g i r hir hi hr y).2.2 hy
  rw [(rewire_get g i r hir hi hr y).1]
  simp only [hyi, if_false]
  exact hn y hy1

/-- the invariant of the walk -/
structure MarkInv (st : MarkSt) : Prop where
  symm : Symm st.g
  rnn : RetNoNext st.g
  ret : ∀ r, st.ret = some r → r ∈ st.visited ∧ r < st.g.nodes.size

theorem markLoop_symm (desc : Bool) (entry : Nat) (fuel : Nat) :
    ∀ st : MarkSt, MarkInv st → MarkInv (markLoop desc entry fuel st) := by
  induction fuel with
  | zero => intro st h; exact h
  | succ n ih =>
    intro st h
    unfold markLoop
    cases hs : st.stack with
    | nil => simp only []; exact h
    | cons i rest =>
      simp only []
      by_cases hv : st.visited.contains i = true
      · simp only [hv, if_true]
        exact ih _ ⟨h.symm, h.rnn, h.ret⟩
      · have hv' : st.visited.contains i = false := by simpa using hv
        simp only [hv', Bool.false_eq_true, if_false]
        have hni : i ∉ st.visited := by simpa using hv'
        -- marking the owner changes no edge and no instruction
        have g1get : ∀ y, ((st.g.modify i fun m => { m with funcs := insNat entry m.funcs }).get y).nexts =
            (st.g.get y).nexts ∧
            ((st.g.modify i fun m => { m with funcs := insNat entry m.funcs }).get y).prevs = (st.g.get y).prevs ∧
            ((st.g.modify i fun m => { m with funcs := insNat entry m.funcs }).get y).node = (st.g.get y).node := by
          intro y
          rw [Cfg.get_modify]
          split <;> exact ⟨rfl, rfl, rfl⟩
        generalize hg1 : (st.g.modify i fun m => { m with funcs := insNat entry m.funcs }) = g1 at g1get
        have hsz1 : g1.nodes.size = st.g.nodes.size := by rw [← hg1, Cfg.size_modify]
        have symm1 : Symm g1 := by
          intro a b
          rw [(g1get a).1, (g1get b).2.1]
          exact h.symm a b
        have rnn1 : RetNoNext g1 := by
          intro y hy
          rw [(g1get y).2.2] at hy
          rw [(g1get y).1]
          exact h.rnn y hy
        by_cases hr : (st.g.get i).node.isReturn = true
        · simp only [hr, if_true]
          have hilt : i < st.g.nodes.size := by
            rcases Nat.lt_or_ge i st.g.nodes.size with hh | hh
            · exact hh
            · rw [Cfg.get_oob st.g i (Nat.not_lt.mpr hh), default_not_return] at hr
              exact absurd hr (by simp)
          cases hret : st.ret with
          | none =>
            simp only []
            apply ih
            refine ⟨symm1, rnn1, ?_⟩
            intro r hr'
            simp only [Option.some.injEq] at hr'
            subst hr'
            exact ⟨List.mem_cons_self, by rw [hsz1]; exact hilt⟩
          | some r =>
            simp only []
            obtain ⟨hrv, hrlt⟩ := h.ret r hret
            have hir : i ≠ r := fun e => hni (e ▸ hrv)
            have hi1 : i < g1.nodes.size := by rw [hsz1]; exact hilt
            have hr1 : r < g1.nodes.size := by rw [hsz1]; exact hrlt
            have inexts : (g1.get i).nexts = [] := by
              rw [(g1get i).1]; exact h.rnn i hr
            apply ih
            refine ⟨rewire_symm g1 i r hir hi1 hr1 symm1 inexts, rewire_rnn g1 i r hir hi1 hr1 rnn1, ?_⟩
            intro r' hr'
            simp only [Option.some.injEq] at hr'
            subst hr'
            exact ⟨List.mem_cons_of_mem _ hrv, by simp only [rewire_size]; exact hr1⟩
        · have hr' : (st.g.get i).node.isReturn = false := by simpa using hr
          simp only [hr', Bool.false_eq_true, if_false]
          apply ih
          refine ⟨symm1, rnn1, ?_⟩
          intro r hret
          obtain ⟨h1, h2⟩ := h.ret r hret
          exact ⟨List.mem_cons_of_mem _ h1, by rw [hsz1]; exact h2⟩

/-- one function entry -/
theorem markStep_symm (desc : Bool) (g g' : Cfg) (e : Nat) (hs : Symm g) (hn : RetNoNext g)
    (h : markStep desc g e = .ok g') : Symm g' ∧ RetNoNext g' := by
  unfold markStep at h
  split at h
  · injection h with h; subst h; exact ⟨hs, hn⟩
  · simp only [] at h
    have inv := markLoop_symm desc e (markFuel g) { g := g, stack := [e] } ⟨hs, hn, fun r hr => by simp at hr⟩
    generalize markLoop desc e (markFuel g) { g := g, stack := [e] } = st at h inv
    cases hr : st.ret with
    | none => rw [hr] at h; simp at h
    | some r =>
      rw [hr] at h
      simp only [] at h
      injection h with h
      subst h
      exact ⟨fun a b => inv.symm a b, fun i hi => inv.rnn i hi⟩

/-- **C03 (`markup_symm`).** The function markup pass — including its in-walk rewiring of
    additional returns — keeps the successor and predecessor relations exact inverses. -/
theorem markAll_symm (desc : Bool) (l : List Nat) : ∀ (g g' : Cfg), Symm g → RetNoNext g →
    markAll desc l g = .ok g' → Symm g' ∧ RetNoNext g' := by
  induction l with
  | nil => intro g g' hs hn h; simp only [markAll] at h; injection h with h; subst h; exact ⟨hs, hn⟩
  | cons e rest ih =>
    intro g g' hs hn h
    simp only [markAll] at h
    cases hm : markStep desc g e with
    | error err => rw [hm] at h; simp at h
    | ok g1 =>
      rw [hm] at h
      simp only [] at h
      obtain ⟨s1, n1⟩ := markStep_symm desc g g1 e hs hn hm
      exact ih g1 g' s1 n1 h

theorem markup_symm (desc : Bool) (g g' : Cfg) (hs : Symm g) (hn : RetNoNext g)
    (h : markup desc g = .ok g') : Symm g' :=
  (markAll_symm desc _ g g' hs hn h).1


/-! ### `RetNoNext` is established by the direction pass and kept by the edge-removing passes -/

/-- same instructions, and no node gains a successor -/
def Shrinks (g g' : Cfg) : Prop :=
  ∀ y, (g'.get y).node = (g.get y).node ∧ ∀ b ∈ (g'.get y).nexts, b ∈ (g.get y).nexts

theorem Shrinks.refl (g : Cfg) : Shrinks g g := fun _ => ⟨rfl, fun _ h => h⟩
theorem Shrinks.trans {a b c : Cfg} (h1 : Shrinks a b) (h2 : Shrinks b c) : Shrinks a c :=
  fun y => ⟨(h2 y).1.trans (h1 y).1, fun x hx => (h1 y).2 x ((h2 y).2 x hx)⟩

theorem Shrinks.rnn {g g' : Cfg} (h : Shrinks g g') (hn : RetNoNext g) : RetNoNext g' := by
  intro y hy
  rw [(h y).1] at hy
  have := hn y hy
  cases hl : (g'.get y).nexts with
  | nil => rfl
  | cons b bs =>
    have := (h y).2 b (by rw [hl]; exact List.mem_cons_self)
    rw [hn y hy] at this; simp at this

theorem dropPrevs_node (i : Nat) (l : List Nat) (g : Cfg) (y : Nat) :
    ((dropPrevs i l g).get y).node = (g.get y).node := by
  induction l generalizing g with
  | nil => rfl
  | cons s rest ih =>
    simp only [dropPrevs, List.foldl_cons] at *
    rw [ih, Cfg.get_modify]
    split <;> rfl

theorem dropNexts_node (i : Nat) (l : List Nat) (g : Cfg) (y : Nat) :
    ((dropNexts i l g).get y).node = (g.get y).node := by
  induction l generalizing g with
  | nil => rfl
  | cons s rest ih =>
    simp only [dropNexts, List.foldl_cons] at *
    rw [ih, Cfg.get_modify]
    split <;> rfl

theorem cutOut_shrinks (g : Cfg) (i : Nat) : Shrinks g (g.cutOut i) := by
  intro y
  rw [cutOut_eq, Cfg.get_modify]
  split
  · exact ⟨dropPrevs_node _ _ _ _, fun b hb => by simp at hb⟩
  · exact ⟨dropPrevs_node _ _ _ _, fun b hb => by rw [(dropPrevs_get i _ g y).1] at hb; exact hb⟩

theorem cutIn_shrinks (g : Cfg) (i : Nat) : Shrinks g (g.cutIn i) := by
  intro y
  rw [cutIn_eq, Cfg.get_modify]
  have hn := (dropNexts_get i (g.get i).prevs g y).2
  split
  · refine ⟨dropNexts_node _ _ _ _, fun b hb => ?_⟩
    simp only [] at hb
    rw [hn] at hb
    split at hb
    · exact ((mem_removeNat _ _ _).mp hb).1
    · exact hb
  · refine ⟨dropNexts_node _ _ _ _, fun b hb => ?_⟩
    rw [hn] at hb
    split at hb
    · exact ((mem_removeNat _ _ _).mp hb).1
    · exact hb

theorem deadStep_shrinks (g : Cfg) (i : Nat) : Shrinks g (deadStep g i) := by
  unfold deadStep
  simp only []
  split
  · exact Shrinks.refl g
  · have h1 : Shrinks g (if ((g.get i).nexts.isEmpty && !(g.get i).node.mightTerminate) = true then g.cutIn i else g) := by
      split
      · exact cutIn_shrinks g i
      · exact Shrinks.refl g
    generalize (if ((g.get i).nexts.isEmpty && !(g.get i).node.mightTerminate) = true then g.cutIn i else g) = g1 at h1
    split
    · exact Shrinks.trans h1 (cutOut_shrinks g1 i)
    · exact h1

theorem foldl_shrinks (f : Cfg → Nat → Cfg) (hf : ∀ g i, Shrinks g (f g i)) (l : List Nat) (g : Cfg) :
    Shrinks g (l.foldl f g) := by
  induction l generalizing g with
  | nil => exact Shrinks.refl g
  | cons x xs ih => exact Shrinks.trans (hf g x) (ih _)

theorem deadSweep_shrinks (g : Cfg) : Shrinks g (deadSweep g) := foldl_shrinks deadStep deadStep_shrinks _ g

theorem deadLoop_shrinks (fuel : Nat) : ∀ g, Shrinks g (deadLoop fuel g) := by
  induction fuel with
  | zero => intro g; exact Shrinks.refl g
  | succ n ih =>
    intro g
    unfold deadLoop
    simp only []
    split
    · exact deadSweep_shrinks g
    · exact Shrinks.trans (deadSweep_shrinks g) (ih _)

theorem deadCode_shrinks (g : Cfg) : Shrinks g (deadCode g) := deadLoop_shrinks _ g

theorem ecallStep_shrinks (g : Cfg) (i : Nat) : Shrinks g (ecallStep g i) := by
  unfold ecallStep; split
  · exact cutOut_shrinks g i
  · exact Shrinks.refl g

theorem ecallTerm_shrinks (g : Cfg) : Shrinks g (ecallTerm g) := foldl_shrinks ecallStep ecallStep_shrinks _ g


theorem addEdge_node (g : Cfg) (a b y : Nat) : ((g.addEdge a b).get y).node = (g.get y).node := by
  unfold Cfg.addEdge
  rw [Cfg.get_modify]
  split
  · simp only []
    rw [Cfg.get_modify]; split <;> rfl
  · rw [Cfg.get_modify]; split <;> rfl

theorem addEdge_nexts (g : Cfg) (a b y : Nat) (x : Nat) (hx : x ∈ ((g.addEdge a b).get y).nexts) :
    x ∈ (g.get y).nexts ∨ y = a := by
  unfold Cfg.addEdge at hx
  rw [Cfg.get_modify] at hx
  have key : ∀ x, x ∈ ((g.modify a fun n => { n with nexts := insNat b n.nexts }).get y).nexts →
      x ∈ (g.get y).nexts ∨ y = a := by
    intro x hx
    rw [Cfg.get_modify] at hx
    split at hx
    · rename_i hc; exact Or.inr hc.1.symm
    · exact Or.inl hx
  split at hx
  · exact key x hx
  · exact key x hx

/-- the direction pass never gives a return instruction a successor -/
def DirRnn (st : Cfg × Option Nat) : Prop :=
  RetNoNext st.1 ∧ ∀ p, st.2 = some p → (st.1.get p).node.isReturn = false

theorem jumpsTo_not_return (n : Node) (l : W String) (h : n.jumpsTo = some l) : n.isReturn = false := by
  cases n <;> simp [Node.jumpsTo] at h <;> rfl

theorem dirStep_rnn (st st' : Cfg × Option Nat) (i : Nat) (h : DirRnn st) (hs : dirStep st i = .ok st') :
    DirRnn st' := by
  obtain ⟨hn, hp⟩ := h
  unfold dirStep at hs
  simp only [] at hs
  have hj : ∀ g1, (match (st.1.get i).node.jumpsTo with
      | some l => match findLabel st.1 l.val with
        | some j => Except.ok (st.1.addEdge i j)
        | none => Except.error CfgErr.unexpectedError
      | none => Except.ok st.1) = Except.ok g1 →
      RetNoNext g1 ∧ ∀ y, (g1.get y).node = (st.1.get y).node := by
    intro g1 hg1
    split at hg1
    · rename_i l hl
      split at hg1
      · rename_i j _
        injection hg1 with hg1; subst hg1
        refine ⟨?_, fun y => addEdge_node _ _ _ _⟩
        intro y hy
        rw [addEdge_node] at hy
        cases hl' : ((st.1.addEdge i j).get y).nexts with
        | nil => rfl
        | cons x xs =>
          rcases addEdge_nexts st.1 i j y x (by rw [hl']; exact List.mem_cons_self) with h1 | h1
          · rw [hn y hy] at h1; simp at h1
          · subst h1; rw [jumpsTo_not_return _ l hl] at hy; simp at hy
      · exact absurd hg1 (by simp)
    · injection hg1 with hg1; subst hg1; exact ⟨hn, fun _ => rfl⟩
  split at hs
  · exact absurd hs (by simp)
  · rename_i g1 hg1
    obtain ⟨hn1, hnode1⟩ := hj g1 hg1
    injection hs with hs; subst hs
    constructor
    · simp only []
      split
      · rename_i p hpp
        intro y hy
        rw [addEdge_node, hnode1] at hy
        cases hl' : ((g1.addEdge p i).get y).nexts with
        | nil => rfl
        | cons x xs =>
          rcases addEdge_nexts g1 p i y x (by rw [hl']; exact List.mem_cons_self) with h1 | h1
          · rw [hn1 y (by rw [hnode1]; exact hy)] at h1; simp at h1
          · subst h1; rw [hp y hpp] at hy; simp at hy
      · exact hn1
    · intro p hpe
      simp only [] at hpe ⊢
      split at hpe
      · exact absurd hpe (by simp)
      · rename_i hcond
        injection hpe with hpe; subst hpe
        have : (st.1.get i).node.isReturn = false := by
          simp only [Bool.or_eq_true, not_or, Bool.not_eq_true] at hcond
          exact hcond.1
        split
        · rw [addEdge_node, hnode1]; exact this
        · rw [hnode1]; exact this

theorem dirLoop_rnn (l : List Nat) (st st' : Cfg × Option Nat) (h : DirRnn st)
    (hs : dirLoop l st = .ok st') : DirRnn st' := by
  induction l generalizing st with
  | nil => simp [dirLoop] at hs; subst hs; exact h
  | cons i rest ih =>
    unfold dirLoop at hs
    split at hs
    · rename_i st1 h1
      exact ih st1 (dirStep_rnn st st1 i h h1) hs
    · exact absurd hs (by simp)

theorem directions_rnn (g g' : Cfg) (h : RetNoNext g) (hd : directions g = .ok g') : RetNoNext g' := by
  unfold directions at hd
  split at hd
  · rename_i st hst
    injection hd with hd; subst hd
    exact (dirLoop_rnn _ (g, none) st ⟨h, fun p hp => by simp at hp⟩ hst).1
  · exact absurd hd (by simp)

end Rva
