/-
  C12 — stability under re-running passes.

  * `cutOut_facts` / `ecallStep_facts`: ecall termination changes no fact and no instruction.
  * `ecallStep_idem`: applying the ecall-termination step to a node twice is the same as once
    (edges, facts and instructions at every index).
  * with C02's `liveNode_stable`: a liveness update that reports no change leaves the equations
    satisfied, i.e. the state is a fixed point of the update.
-/
import Rva.Proofs.C03
import Rva.Proofs.C02
import Rva.Model.Pipeline
namespace Rva

/-- the analysis facts of a node (everything but edges) -/
def CNode.facts (n : CNode) : AMap Reg × AMap Reg × AMap MemLoc × AMap MemLoc × RegSet × RegSet × RegSet :=
  (n.regIn, n.regOut, n.memIn, n.memOut, n.liveIn, n.liveOut, n.uDef)

theorem dropPrevs_facts (i : Nat) (l : List Nat) (g : Cfg) (y : Nat) :
    ((dropPrevs i l g).get y).facts = (g.get y).facts ∧ ((dropPrevs i l g).get y).node = (g.get y).node := by
  induction l generalizing g with
  | nil => simp [dropPrevs]
  | cons s rest ih =>
    have := ih (g.modify s fun m => { m with prevs := removeNat i m.prevs })
    simp only [dropPrevs, List.foldl_cons] at *
    rw [this.1, this.2, Cfg.get_modify]
    split <;> simp [CNode.facts]

/-- Cutting edges changes no fact and no instruction. -/
theorem cutOut_facts (g : Cfg) (i y : Nat) :
    ((g.cutOut i).get y).facts = (g.get y).facts ∧ ((g.cutOut i).get y).node = (g.get y).node := by
  rw [cutOut_eq, Cfg.get_modify]
  have := dropPrevs_facts i (g.get i).nexts g y
  split
  · simp [CNode.facts] at *; exact this
  · exact this

theorem cutOut_nexts_self (g : Cfg) (i : Nat) : ((g.cutOut i).get i).nexts = [] := by
  rw [cutOut_eq, Cfg.get_modify]
  by_cases h : i < g.nodes.size
  · simp [dropPrevs_size, h]
  · simp [dropPrevs_size, h]
    rw [(dropPrevs_get i (g.get i).nexts g i).1, Cfg.get_oob g i h]; rfl

/-- two graphs with the same edges, facts and instructions at every index -/
def Cfg.same (g g' : Cfg) : Prop :=
  ∀ y, (g.get y).nexts = (g'.get y).nexts ∧ (g.get y).prevs = (g'.get y).prevs ∧
    (g.get y).facts = (g'.get y).facts ∧ (g.get y).node = (g'.get y).node

/-- Cutting the out-edges of a node twice is the same as once. -/
theorem cutOut_idem (g : Cfg) (i : Nat) : ((g.cutOut i).cutOut i).same (g.cutOut i) := by
  intro y
  have hn := cutOut_nexts_self g i
  rw [cutOut_eq (g.cutOut i) i, hn]
  simp only [dropPrevs, List.foldl_nil]
  rw [Cfg.get_modify]
  split
  · rename_i h
    have hy : i = y := h.1
    subst hy
    refine ⟨?_, rfl, rfl, rfl⟩
    simp [hn]
  · exact ⟨rfl, rfl, rfl, rfl⟩

theorem isProgramExit_cutOut (g : Cfg) (i y : Nat) :
    isProgramExit ((g.cutOut i).get y) = isProgramExit (g.get y) := by
  have := cutOut_facts g i y
  unfold isProgramExit knownEcall
  simp [CNode.facts] at this
  rw [this.2, this.1.1]

/-- **C12.** The ecall-termination step applied twice to a node is the same as once:
    re-running it removes no further edge and changes no fact. -/
theorem ecallStep_idem (g : Cfg) (i : Nat) : (ecallStep (ecallStep g i) i).same (ecallStep g i) := by
  unfold ecallStep
  by_cases h : isProgramExit (g.get i) = true
  · simp only [h, if_true]
    rw [isProgramExit_cutOut, h]
    simp only [if_true]
    exact cutOut_idem g i
  · have h' : isProgramExit (g.get i) = false := by simpa using h
    simp only [h', Bool.false_eq_true, if_false]
    intro y; exact ⟨rfl, rfl, rfl, rfl⟩

/-- **C12.** Ecall termination never changes a fact. -/
theorem ecallStep_facts (g : Cfg) (i y : Nat) : ((ecallStep g i).get y).facts = (g.get y).facts := by
  unfold ecallStep; split
  · exact (cutOut_facts g i y).1
  · rfl

end Rva
