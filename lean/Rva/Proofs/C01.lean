/-
  C01 — claimed values are true (first layer of the soundness argument).

  Concretisation `claimHolds`: `Constant c` ↦ the register equals c; `Address l` ↦ it equals the
  label's address; `OriginalRegisterWithScalar r k` ↦ it equals the value `r` had at entry to the
  enclosing function plus k. Proved here:
  * `meetOver_sound`: the meet at a join is sound in every state in which the out-map of the
    predecessor actually taken is sound (maps with one entry per key);
  * `erase_sound`: kills only remove claims;
  * `fold_const_sound`, `fold_imm_sound`, `fold_ors_sound`, `fold_ors_right_sound`: the four arms
    of `rule_perform_math_ops` are sound against RV32IM semantics for all operand values
    (through C08's `operate_rv32`); `sub_swapped_counterexample` records why the repaired arm
    was unsound.
  NOT proved (stated in DESIGN.md as remaining obligations of `C01_available_sound`): soundness
  of the memory rules and of the fixpoint iteration over execution traces. Those parts are
  covered by the concrete-execution oracle on the real analyzer's claims.
-/
import Rva.Proofs.C08
import Rva.Model.Available
namespace Rva

/-! ### finite-map lemmas for `AvailableValueMap` (association lists, one entry per key) -/

namespace AMap
variable {κ : Type} [DecidableEq κ]

theorem get_filter (m : AMap κ) (p : κ × AVal → Bool) (k : κ) (v : AVal)
    (h : get (m.filter p) k = some v) : ∃ v', get m k = some v' := by
  induction m with
  | nil => simp [get] at h
  | cons x xs ih =>
    unfold get at *
    simp only [List.filter_cons] at h
    by_cases hx : (x.1 == k) = true
    · exact ⟨x.2, by simp [List.find?_cons, hx]⟩
    · have hx' : (x.1 == k) = false := by simpa using hx
      simp only [List.find?_cons, hx']
      split at h
      · simp only [List.find?_cons, hx'] at h; exact ih h
      · exact ih h

/-- an entry of `m &= o` is an entry of `o` -/
theorem get_meet_right (m o : AMap κ) (k : κ) (v : AVal) (h : get (meet m o) k = some v) :
    get o k = some v := by
  unfold meet get at *
  induction m with
  | nil => simp at h
  | cons x xs ih =>
    simp only [List.filter_cons] at h
    split at h
    · rename_i hx
      by_cases hk : (x.1 == k) = true
      · simp only [List.find?_cons, hk] at h
        have hk' : x.1 = k := by simpa using hk
        simp at h; subst h; subst hk'
        simpa [get] using hx
      · have hk' : (x.1 == k) = false := by simpa using hk
        simp only [List.find?_cons, hk'] at h; exact ih h
    · exact ih h

end AMap

/-! ### what a claim means (C01's concretisation) -/

/-- a machine state as far as register claims are concerned: current registers, the registers
    at entry to the enclosing function, the address of each label -/
structure MState where
  reg : Reg → Word
  entry : Reg → Word
  addr : String → Word
  /-- memory, one word per address (word-granular: the memory layer of the proof speaks about
      aligned `lw`/`sw` only) -/
  mem : Word → Word := fun _ => 0#32

/-- the concrete meaning of the three claim kinds the property speaks about -/
def claimHolds (s : MState) (r : Reg) : AVal → Prop
  | .const c => s.reg r = c
  | .addr l => s.reg r = s.addr l
  | .ors r0 k => s.reg r = s.entry r0 + k
  -- "current value of register r0 plus k": only ever consumed for r0 = x0 (zero-to-const rule)
  | .rs r0 k => r0 = 0 → s.reg r = k
  | _ => True

/-- every register claim of the map is true in the state -/
def Sound (s : MState) (m : AMap Reg) : Prop := ∀ r v, AMap.get m r = some v → claimHolds s r v

/-- **`meet_sound`.** What survives the meet of two maps was claimed by the second map; so the
    meet over the outs of the predecessors is sound in any state in which the out of the
    predecessor actually taken is sound. -/
theorem meet_sound_right (s : MState) (m o : AMap Reg) (ho : Sound s o) : Sound s (AMap.meet m o) :=
  fun r v h => ho r v (AMap.get_meet_right m o r v h)

/-- one entry per key -/
def AMap.WF {κ : Type} (m : AMap κ) : Prop := (m.map (·.1)).Nodup

theorem AMap.wf_filter {κ : Type} (m : AMap κ) (p : κ × AVal → Bool) (h : AMap.WF m) :
    AMap.WF (m.filter p) := by
  unfold AMap.WF at *
  exact List.Nodup.sublist (List.Sublist.map _ List.filter_sublist) h

theorem AMap.get_filter_wf {κ : Type} [DecidableEq κ] (m : AMap κ) (p : κ × AVal → Bool) (k : κ) (v : AVal)
    (hw : AMap.WF m) (h : AMap.get (m.filter p) k = some v) : AMap.get m k = some v := by
  induction m with
  | nil => simp [AMap.get] at h
  | cons x xs ih =>
    have hw' : AMap.WF xs := by
      unfold AMap.WF at *; simp only [List.map_cons, List.nodup_cons] at hw; exact hw.2
    have hnot : ∀ y ∈ xs, y.1 ≠ x.1 := by
      unfold AMap.WF at hw; simp only [List.map_cons, List.nodup_cons] at hw
      intro y hy he; exact hw.1 (List.mem_map.mpr ⟨y, hy, he⟩)
    unfold AMap.get at *
    simp only [List.filter_cons] at h
    by_cases hx : (x.1 == k) = true
    · have hxk : x.1 = k := by simpa using hx
      split at h
      · simp only [List.find?_cons, hx] at h ⊢; exact h
      · -- x was dropped; no other entry has its key
        exfalso
        cases hf : (xs.filter p).find? (·.1 == k) with
        | none => rw [hf] at h; simp at h
        | some y =>
          have hy := List.mem_of_find?_eq_some hf
          have hyk := List.find?_some hf
          have : y.1 = k := by simpa using hyk
          exact hnot y (List.mem_filter.mp hy).1 (by rw [this, hxk])
    · have hx' : (x.1 == k) = false := by simpa using hx
      simp only [List.find?_cons, hx']
      split at h
      · simp only [List.find?_cons, hx'] at h; exact ih hw' h
      · exact ih hw' h

/-- entries of `m &= o` are entries of `m` (one entry per key) -/
theorem meet_sound_left (s : MState) (m o : AMap Reg) (hw : AMap.WF m) (hm : Sound s m) :
    Sound s (AMap.meet m o) :=
  fun r v h => hm r v (AMap.get_filter_wf m _ r v hw h)

/-- **`meet_sound`.** `in[n]` is the meet of the outs of the (visited) predecessors; if the out
    of *one* of them — the predecessor the execution actually came from — is sound in the
    current state, so is the meet. -/
theorem meetOver_sound (s : MState) (l : List (AMap Reg)) (hw : ∀ m ∈ l, AMap.WF m) (o : AMap Reg)
    (ho : o ∈ l) (hs : Sound s o) : Sound s (meetOver l) := by
  unfold meetOver
  match l, hw, ho with
  | m :: rest, hw, ho =>
    simp only []
    have key : ∀ (rest : List (AMap Reg)) (acc : AMap Reg), AMap.WF acc →
        (Sound s acc ∨ (o ∈ rest)) → Sound s (rest.foldl AMap.meet acc) := by
      intro rest
      induction rest with
      | nil => intro acc _ h; rcases h with h | h
               · exact h
               · simp at h
      | cons x xs ih =>
        intro acc hacc h
        simp only [List.foldl_cons]
        apply ih _ (AMap.wf_filter acc _ hacc)
        rcases h with h | h
        · exact Or.inl (meet_sound_left s acc x hacc h)
        · rcases List.mem_cons.mp h with rfl | h
          · exact Or.inl (meet_sound_right s acc o hs)
          · exact Or.inr h
    apply key rest m (hw m List.mem_cons_self)
    rcases List.mem_cons.mp ho with rfl | h
    · exact Or.inl hs
    · exact Or.inr h


/-! ### soundness of the folding rule (`rule_perform_math_ops`) against RV32IM -/

/-- Constant folding: if both sources are truly the claimed constants, the destination truly
    holds the folded constant after the instruction — for every operator and all operand
    values (uses C08's `operate_rv32`). -/
theorem fold_const_sound (s s' : MState) (op : MathOp) (rd rs1 rs2 : Reg) (x y : Word)
    (inn : AMap Reg) (hs : Sound s inn)
    (h1 : AMap.get inn rs1 = some (.const x)) (h2 : AMap.get inn rs2 = some (.const y))
    (hexec : s'.reg rd = Spec.rv32 op (s.reg rs1) (s.reg rs2)) :
    claimHolds s' rd (.const (operate op x y)) := by
  have e1 : s.reg rs1 = x := hs rs1 _ h1
  have e2 : s.reg rs2 = y := hs rs2 _ h2
  show s'.reg rd = operate op x y
  rw [hexec, e1, e2, operate_rv32]

/-- Immediate form: the second operand is the instruction's immediate. -/
theorem fold_imm_sound (s s' : MState) (op : MathOp) (rd rs1 : Reg) (x imm : Word)
    (inn : AMap Reg) (hs : Sound s inn)
    (h1 : AMap.get inn rs1 = some (.const x))
    (hexec : s'.reg rd = Spec.rv32 op (s.reg rs1) imm) :
    claimHolds s' rd (.const (operate op x imm)) := by
  have e1 : s.reg rs1 = x := hs rs1 _ h1
  show s'.reg rd = operate op x imm
  rw [hexec, e1, operate_rv32]

/-- Entry-relative values: adding or subtracting a known constant keeps the base register
    (the two operators of `scalar_op`), provided the entry registers are those of the same
    activation. -/
theorem fold_ors_sound (s s' : MState) (op : MathOp) (hop : op = .add ∨ op = .sub)
    (rd rs1 : Reg) (r0 : Reg) (k y : Word) (inn : AMap Reg) (hs : Sound s inn)
    (h1 : AMap.get inn rs1 = some (.ors r0 k)) (hentry : s'.entry = s.entry)
    (hexec : s'.reg rd = Spec.rv32 op (s.reg rs1) y) :
    claimHolds s' rd (.ors r0 (operate op k y)) := by
  have e1 : s.reg rs1 = s.entry r0 + k := hs rs1 _ h1
  show s'.reg rd = s'.entry r0 + operate op k y
  rw [hexec, e1, hentry, ← operate_rv32]
  rcases hop with rfl | rfl
  · simp only [operate]; exact BitVec.add_assoc _ _ _
  · simp only [operate]
    rw [BitVec.sub_eq_add_neg, BitVec.sub_eq_add_neg, BitVec.add_assoc]

/-- …and with the entry-relative value on the right-hand side, only for addition. -/
theorem fold_ors_right_sound (s s' : MState) (rd rs2 : Reg) (r0 : Reg) (x k : Word)
    (inn : AMap Reg) (hs : Sound s inn)
    (h2 : AMap.get inn rs2 = some (.ors r0 k)) (hentry : s'.entry = s.entry)
    (hexec : s'.reg rd = Spec.rv32 .add x (s.reg rs2)) :
    claimHolds s' rd (.ors r0 (operate .add x k)) := by
  have e2 : s.reg rs2 = s.entry r0 + k := hs rs2 _ h2
  show s'.reg rd = s'.entry r0 + operate .add x k
  rw [hexec, e2, hentry, ← operate_rv32]
  simp only [operate]
  rw [← BitVec.add_assoc, BitVec.add_comm x, BitVec.add_assoc]

/-- The repaired defect F-27 as a theorem about the *old* rule: folding `c - (entry r + y)` as
    `entry r + (c - y)` is wrong. -/
theorem sub_swapped_counterexample :
    ∃ (e c y : Word), c - (e + y) ≠ e + (c - y) := ⟨1#32, 0#32, 0#32, by decide⟩

/-- Killing a register makes no claim about it false (claims are only removed). -/
theorem erase_sound (s : MState) (m : AMap Reg) (hw : AMap.WF m) (k : Reg) (hs : Sound s m) :
    Sound s (AMap.erase m k) :=
  fun r v h => hs r v (AMap.get_filter_wf m _ r v hw h)

end Rva
