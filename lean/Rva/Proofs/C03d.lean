/-
  C03, which edges there are — `directions_edges` and `pipeline_edge_kinds`.

  `directions_edges`: on a graph without edges the direction pass creates *exactly* the
  fall-through edges (from every instruction that is neither a return nor an unconditional jump to
  the next node) and the jump edges (from every instruction that names a label to the node that
  carries the label): nothing else, nothing less.

  `pipeline_edge_kinds`: every edge of the finished graph is one of those, or the merge of an
  additional return into the return the function walk met first — the later passes only remove
  edges (dead-code pruning, ecall termination), leave them alone (value analysis, liveness) or
  rewire a return (function markup).
-/
import Rva.Proofs.C03c
import Rva.Proofs.C16b
import Rva.Proofs.C05b
namespace Rva

/-- `a → b` is a fall-through or the jump written in instruction `a` (in the graph as built) -/
def DirEdge (g0 : Cfg) (a b : Nat) : Prop :=
  (a + 1 = b ∧ b < g0.nodes.size ∧
      ((g0.get a).node.isReturn || (g0.get a).node.isUnconditionalJump) = false) ∨
  (a < g0.nodes.size ∧ ∃ l, (g0.get a).node.jumpsTo = some l ∧ findLabel g0 l.val = some b)

theorem addEdge_nexts_iff (g : Cfg) (a b y x : Nat) (ha : a < g.nodes.size) :
    x ∈ ((g.addEdge a b).get y).nexts ↔ (y = a ∧ x = b) ∨ x ∈ (g.get y).nexts := by
  unfold Cfg.addEdge
  rw [Cfg.get_modify, Cfg.get_modify]
  by_cases h1 : a = y <;> by_cases h2 : b = y <;> simp_all [mem_insNat, Cfg.size_modify] <;>
    (try split) <;> (try simp_all) <;> try omega

/-- state of the direction loop after the nodes `0 … k-1` -/
structure DirSpec (g0 : Cfg) (k : Nat) (st : Cfg × Option Nat) : Prop where
  same : SameNodes g0 st.1
  edges : ∀ a b, b ∈ (st.1.get a).nexts ↔
    ((a + 1 = b ∧ b < k ∧ ((g0.get a).node.isReturn || (g0.get a).node.isUnconditionalJump) = false) ∨
     (a < k ∧ ∃ l, (g0.get a).node.jumpsTo = some l ∧ findLabel g0 l.val = some b))
  prev : ∀ p, st.2 = some p ↔
    (p + 1 = k ∧ ((g0.get p).node.isReturn || (g0.get p).node.isUnconditionalJump) = false)

theorem dirStep_spec (g0 : Cfg) (k : Nat) (hk : k < g0.nodes.size) (st st' : Cfg × Option Nat)
    (h : DirSpec g0 k st) (hs : dirStep st k = .ok st') : DirSpec g0 (k + 1) st' := by
  obtain ⟨g, po⟩ := st
  have hsame := h.same
  have hedges := h.edges
  have hprev := h.prev
  simp only [] at hsame hedges hprev
  have hsz : g.nodes.size = g0.nodes.size := hsame.1
  unfold dirStep at hs
  simp only [] at hs
  rw [(hsame.2 k).2] at hs
  -- the jump edge
  cases hj : (g0.get k).node.jumpsTo with
  | some l =>
    rw [hj] at hs
    simp only [] at hs
    rw [findLabel_sameNodes g0 g hsame] at hs
    cases hf : findLabel g0 l.val with
    | none => rw [hf] at hs; simp at hs
    | some j =>
      rw [hf] at hs
      simp only [] at hs
      have hs1 : SameNodes g0 (g.addEdge k j) := sameNodes_addEdge g0 g k j hsame
      have hk1 : k < g.nodes.size := by omega
      cases hp : po with
      | none =>
        rw [hp] at hs
        simp only [] at hs
        injection hs with hs
        subst hs
        refine ⟨hs1, ?_, ?_⟩
        · intro a b
          simp only []
          rw [addEdge_nexts_iff g k j a b hk1, hedges a b]
          have hnp : ∀ p, ¬ (p + 1 = k ∧ ((g0.get p).node.isReturn || (g0.get p).node.isUnconditionalJump) = false) := by
            intro p hpp; have := (hprev p).2 hpp; rw [hp] at this; simp at this
          constructor
          · rintro (⟨rfl, rfl⟩ | ⟨h1, h2, h3⟩ | ⟨h1, h2⟩)
            · exact Or.inr ⟨by omega, l, hj, hf⟩
            · exact Or.inl ⟨h1, by omega, h3⟩
            · exact Or.inr ⟨by omega, h2⟩
          · rintro (⟨h1, h2, h3⟩ | ⟨h1, l', h2, h3⟩)
            · by_cases hb : b < k
              · exact Or.inr (Or.inl ⟨h1, hb, h3⟩)
              · exact absurd ⟨by omega, h3⟩ (hnp a)
            · by_cases ha : a < k
              · exact Or.inr (Or.inr ⟨ha, l', h2, h3⟩)
              · have : a = k := by omega
                subst this
                rw [hj] at h2; injection h2 with h2; subst h2
                rw [hf] at h3; injection h3 with h3
                exact Or.inl ⟨rfl, h3.symm⟩
        · intro p
          simp only []
          constructor
          · intro hq
            split at hq
            · exact absurd hq (by simp)
            · rename_i hstop
              injection hq with hq; subst hq
              exact ⟨rfl, by simpa using hstop⟩
          · rintro ⟨h1, h2⟩
            have : p = k := by omega
            subst this
            simp [h2]
      | some p0 =>
        rw [hp] at hs
        simp only [] at hs
        injection hs with hs
        subst hs
        have hp0 := (hprev p0).1 hp
        have hp0lt : p0 < (g.addEdge k j).nodes.size := by rw [addEdge_size]; omega
        refine ⟨sameNodes_addEdge g0 _ p0 k hs1, ?_, ?_⟩
        · intro a b
          simp only []
          rw [addEdge_nexts_iff _ p0 k a b hp0lt, addEdge_nexts_iff g k j a b hk1, hedges a b]
          constructor
          · rintro (⟨rfl, rfl⟩ | ⟨rfl, rfl⟩ | ⟨h1, h2, h3⟩ | ⟨h1, h2⟩)
            · exact Or.inl ⟨hp0.1, by omega, hp0.2⟩
            · exact Or.inr ⟨by omega, l, hj, hf⟩
            · exact Or.inl ⟨h1, by omega, h3⟩
            · exact Or.inr ⟨by omega, h2⟩
          · rintro (⟨h1, h2, h3⟩ | ⟨h1, l', h2, h3⟩)
            · by_cases hb : b < k
              · exact Or.inr (Or.inr (Or.inl ⟨h1, hb, h3⟩))
              · have hbk : b = k := by omega
                have : a = p0 := by omega
                exact Or.inl ⟨this, hbk⟩
            · by_cases ha : a < k
              · exact Or.inr (Or.inr (Or.inr ⟨ha, l', h2, h3⟩))
              · have : a = k := by omega
                subst this
                rw [hj] at h2; injection h2 with h2; subst h2
                rw [hf] at h3; injection h3 with h3
                exact Or.inr (Or.inl ⟨rfl, h3.symm⟩)
        · intro p
          simp only []
          constructor
          · intro hq
            split at hq
            · exact absurd hq (by simp)
            · rename_i hstop
              injection hq with hq; subst hq
              exact ⟨rfl, by simpa using hstop⟩
          · rintro ⟨h1, h2⟩
            have : p = k := by omega
            subst this
            simp [h2]
  | none =>
    rw [hj] at hs
    simp only [] at hs
    cases hp : po with
    | none =>
      rw [hp] at hs
      simp only [] at hs
      injection hs with hs
      subst hs
      refine ⟨hsame, ?_, ?_⟩
      · intro a b
        simp only []
        rw [hedges a b]
        have hnp : ∀ p, ¬ (p + 1 = k ∧ ((g0.get p).node.isReturn || (g0.get p).node.isUnconditionalJump) = false) := by
          intro p hpp; have := (hprev p).2 hpp; rw [hp] at this; simp at this
        constructor
        · rintro (⟨h1, h2, h3⟩ | ⟨h1, h2⟩)
          · exact Or.inl ⟨h1, by omega, h3⟩
          · exact Or.inr ⟨by omega, h2⟩
        · rintro (⟨h1, h2, h3⟩ | ⟨h1, l', h2, h3⟩)
          · by_cases hb : b < k
            · exact Or.inl ⟨h1, hb, h3⟩
            · exact absurd ⟨by omega, h3⟩ (hnp a)
          · by_cases ha : a < k
            · exact Or.inr ⟨ha, l', h2, h3⟩
            · have : a = k := by omega
              subst this
              rw [hj] at h2; simp at h2
      · intro p
        simp only []
        constructor
        · intro hq
          split at hq
          · exact absurd hq (by simp)
          · rename_i hstop
            injection hq with hq; subst hq
            exact ⟨rfl, by simpa using hstop⟩
        · rintro ⟨h1, h2⟩
          have : p = k := by omega
          subst this
          simp [h2]
    | some p0 =>
      rw [hp] at hs
      simp only [] at hs
      injection hs with hs
      subst hs
      have hp0 := (hprev p0).1 hp
      have hp0lt : p0 < g.nodes.size := by omega
      refine ⟨sameNodes_addEdge g0 _ p0 k hsame, ?_, ?_⟩
      · intro a b
        simp only []
        rw [addEdge_nexts_iff _ p0 k a b hp0lt, hedges a b]
        constructor
        · rintro (⟨rfl, rfl⟩ | ⟨h1, h2, h3⟩ | ⟨h1, h2⟩)
          · exact Or.inl ⟨hp0.1, by omega, hp0.2⟩
          · exact Or.inl ⟨h1, by omega, h3⟩
          · exact Or.inr ⟨by omega, h2⟩
        · rintro (⟨h1, h2, h3⟩ | ⟨h1, l', h2, h3⟩)
          · by_cases hb : b < k
            · exact Or.inr (Or.inl ⟨h1, hb, h3⟩)
            · have hbk : b = k := by omega
              have : a = p0 := by omega
              exact Or.inl ⟨this, hbk⟩
          · by_cases ha : a < k
            · exact Or.inr (Or.inr ⟨ha, l', h2, h3⟩)
            · have : a = k := by omega
              subst this
              rw [hj] at h2; simp at h2
      · intro p
        simp only []
        constructor
        · intro hq
          split at hq
          · exact absurd hq (by simp)
          · rename_i hstop
            injection hq with hq; subst hq
            exact ⟨rfl, by simpa using hstop⟩
        · rintro ⟨h1, h2⟩
          have : p = k := by omega
          subst this
          simp [h2]

theorem dirLoop_spec (g0 : Cfg) (m : Nat) : ∀ (k : Nat) (st st' : Cfg × Option Nat),
    k + m ≤ g0.nodes.size → DirSpec g0 k st → dirLoop (List.range' k m) st = .ok st' →
    DirSpec g0 (k + m) st' := by
  induction m with
  | zero =>
    intro k st st' _ h hs
    simp [List.range', dirLoop] at hs
    subst hs
    exact h
  | succ m ih =>
    intro k st st' hle h hs
    rw [List.range'_succ] at hs
    unfold dirLoop at hs
    cases hd : dirStep st k with
    | error e => rw [hd] at hs; simp at hs
    | ok st1 =>
      rw [hd] at hs
      simp only [] at hs
      have := ih (k + 1) st1 st' (by omega) (dirStep_spec g0 k (by omega) st st1 h hd) hs
      have e : k + 1 + m = k + (m + 1) := by omega
      rw [e] at this
      exact this

/-- **C03 (`directions_edges`).** On a graph without edges, the direction pass creates exactly
    the fall-through edges and the jump edges written in the instructions. -/
theorem directions_edges (g0 g1 : Cfg) (hno : ∀ i, (g0.get i).nexts = [] ∧ (g0.get i).prevs = [])
    (hd : directions g0 = .ok g1) :
    SameNodes g0 g1 ∧ ∀ a b, b ∈ (g1.get a).nexts ↔ DirEdge g0 a b := by
  unfold directions at hd
  split at hd
  · rename_i st hst
    injection hd with hd
    subst hd
    have h0 : DirSpec g0 0 (g0, none) := by
      refine ⟨⟨rfl, fun _ => ⟨rfl, rfl⟩⟩, ?_, ?_⟩
      · intro a b
        simp only []
        rw [(hno a).1]
        simp
      · intro p; simp
    rw [List.range_eq_range'] at hst
    have := dirLoop_spec g0 g0.nodes.size 0 (g0, none) st (by omega) h0 hst
    simp only [Nat.zero_add] at this
    refine ⟨this.same, ?_⟩
    intro a b
    rw [this.edges a b]
    unfold DirEdge
    constructor
    · rintro (h | h)
      · exact Or.inl h
      · exact Or.inr h
    · rintro (h | h)
      · exact Or.inl h
      · exact Or.inr h
  · exact absurd hd (by simp)

/-! ### edge kinds through the rest of the pipeline -/

/-- relative to the graph `D` right after the direction pass: every edge of `g` is an edge of `D`
    or leads from a return of `D` to a return of `D`; every instruction of `g` is the one of `D`,
    or a return of `D` that has been turned into a jump -/
structure Kinds (D g : Cfg) : Prop where
  edges : ∀ a b, b ∈ (g.get a).nexts →
    b ∈ (D.get a).nexts ∨ ((D.get a).node.isReturn = true ∧ (D.get b).node.isReturn = true)
  nodes : ∀ y, (g.get y).node = (D.get y).node ∨
    ((D.get y).node.isReturn = true ∧ (g.get y).node.isReturn = false)

theorem Kinds.refl (D : Cfg) : Kinds D D := ⟨fun _ _ h => Or.inl h, fun _ => Or.inl rfl⟩

theorem Kinds.shrinks {D g g' : Cfg} (k : Kinds D g) (h : Shrinks g g') : Kinds D g' :=
  ⟨fun a b hb => k.edges a b ((h a).2 b hb), fun y => by rw [(h y).1]; exact k.nodes y⟩

theorem Kinds.same {D g g' : Cfg} (k : Kinds D g) (h : EdgesSame g g') : Kinds D g' :=
  ⟨fun a b hb => k.edges a b (by rw [← (h a).2.1]; exact hb), fun y => by rw [(h y).1]; exact k.nodes y⟩

theorem Kinds.ret {D g : Cfg} (k : Kinds D g) (y : Nat) (h : (g.get y).node.isReturn = true) :
    (D.get y).node.isReturn = true := by
  rcases k.nodes y with e | ⟨e, _⟩
  · rw [← e]; exact h
  · exact e

theorem rewire_node (g : Cfg) (i r y : Nat) (hy : y ≠ i) :
    ((rewireReturn g i r).get y).node = (g.get y).node := by
  unfold rewireReturn
  rw [Cfg.get_modify]
  split
  · simp only []
    rw [Cfg.get_modify]
    have c : ¬ (i = y ∧ y < g.nodes.size) := fun hh => hy hh.1.symm
    rw [if_neg c]
  · rw [Cfg.get_modify]
    have c : ¬ (i = y ∧ y < g.nodes.size) := fun hh => hy hh.1.symm
    rw [if_neg c]

theorem rewire_kinds (D g : Cfg) (i r : Nat) (hir : i ≠ r) (hi : i < g.nodes.size) (hr : r < g.nodes.size)
    (k : Kinds D g) (hiret : (g.get i).node.isReturn = true) (hrret : (D.get r).node.isReturn = true) :
    Kinds D (rewireReturn g i r) := by
  refine ⟨?_, ?_⟩
  · intro a b hb
    rw [(rewire_get g i r hir hi hr a).1] at hb
    split at hb
    · rename_i hai
      subst hai
      simp only [List.mem_singleton] at hb
      subst hb
      exact Or.inr ⟨k.ret a hiret, hrret⟩
    · exact k.edges a b hb
  · intro y
    by_cases hy : y = i
    · subst hy
      right
      refine ⟨k.ret y hiret, ?_⟩
      cases hh : ((rewireReturn g y r).get y).node.isReturn with
      | false => rfl
      | true => exact absurd rfl ((rewire_get g y r hir hi hr y).2.2 hh).2
    · rw [rewire_node g i r y hy]
      exact k.nodes y

/-- invariant of the function walk, on top of `MarkInv` -/
structure KInv (D : Cfg) (st : MarkSt) : Prop where
  inv : MarkInv st
  kinds : Kinds D st.g
  retD : ∀ r, st.ret = some r → (D.get r).node.isReturn = true

theorem markLoop_kinds (D : Cfg) (desc : Bool) (entry : Nat) (fuel : Nat) :
    ∀ st : MarkSt, KInv D st → KInv D (markLoop desc entry fuel st) := by
  induction fuel with
  | zero => intro st h; exact h
  | succ n ih =>
    intro st h
    unfold markLoop
    cases hs : st.stack with
    | nil => simp only []; exact h
    | cons i rest =>
      simp only []
      by_cases hv : st.visited.contains i = true
      · simp only [hv, if_true]
        exact ih _ ⟨⟨h.inv.symm, h.inv.rnn, h.inv.ret⟩, h.kinds, h.retD⟩
      · have hv' : st.visited.contains i = false := by simpa using hv
        simp only [hv', Bool.false_eq_true, if_false]
        have hni : i ∉ st.visited := by simpa using hv'
        have g1get : ∀ y, ((st.g.modify i fun m => { m with funcs := insNat entry m.funcs }).get y).nexts =
            (st.g.get y).nexts ∧
            ((st.g.modify i fun m => { m with funcs := insNat entry m.funcs }).get y).prevs = (st.g.get y).prevs ∧
            ((st.g.modify i fun m => { m with funcs := insNat entry m.funcs }).get y).node = (st.g.get y).node := by
          intro y
          rw [Cfg.get_modify]
          split <;> exact ⟨rfl, rfl, rfl⟩
        generalize hg1 : (st.g.modify i fun m => { m with funcs := insNat entry m.funcs }) = g1 at g1get
        have hsz1 : g1.nodes.size = st.g.nodes.size := by rw [← hg1, Cfg.size_modify]
        have symm1 : Symm g1 := by
          intro a b
          rw [(g1get a).1, (g1get b).2.1]
          exact h.inv.symm a b
        have rnn1 : RetNoNext g1 := by
          intro y hy
          rw [(g1get y).2.2] at hy
          rw [(g1get y).1]
          exact h.inv.rnn y hy
        have kinds1 : Kinds D g1 :=
          h.kinds.same (fun y => ⟨(g1get y).2.2, (g1get y).1, (g1get y).2.1⟩)
        by_cases hr : (st.g.get i).node.isReturn = true
        · simp only [hr, if_true]
          have hilt : i < st.g.nodes.size := by
            rcases Nat.lt_or_ge i st.g.nodes.size with hh | hh
            · exact hh
            · rw [Cfg.get_oob st.g i (Nat.not_lt.mpr hh), default_not_return] at hr
              exact absurd hr (by simp)
          cases hret : st.ret with
          | none =>
            simp only []
            apply ih
            refine ⟨⟨symm1, rnn1, ?_⟩, kinds1, ?_⟩
            · intro r hr'
              simp only [Option.some.injEq] at hr'
              subst hr'
              exact ⟨List.mem_cons_self, by rw [hsz1]; exact hilt⟩
            · intro r hr'
              simp only [Option.some.injEq] at hr'
              subst hr'
              exact h.kinds.ret i hr
          | some r =>
            simp only []
            obtain ⟨hrv, hrlt⟩ := h.inv.ret r hret
            have hir : i ≠ r := fun e => hni (e ▸ hrv)
            have hi1 : i < g1.nodes.size := by rw [hsz1]; exact hilt
            have hr1 : r < g1.nodes.size := by rw [hsz1]; exact hrlt
            have inexts : (g1.get i).nexts = [] := by
              rw [(g1get i).1]; exact h.inv.rnn i hr
            have hiret1 : (g1.get i).node.isReturn = true := by rw [(g1get i).2.2]; exact hr
            apply ih
            refine ⟨⟨rewire_symm g1 i r hir hi1 hr1 symm1 inexts, rewire_rnn g1 i r hir hi1 hr1 rnn1, ?_⟩,
              rewire_kinds D g1 i r hir hi1 hr1 kinds1 hiret1 (h.retD r hret), ?_⟩
            · intro r' hr'
              simp only [Option.some.injEq] at hr'
              subst hr'
              exact ⟨List.mem_cons_of_mem _ hrv, by simp only [rewire_size]; exact hr1⟩
            · intro r' hr'
              simp only [Option.some.injEq] at hr'
              subst hr'
              exact h.retD r hret
        · have hr' : (st.g.get i).node.isReturn = false := by simpa using hr
          simp only [hr', Bool.false_eq_true, if_false]
          apply ih
          refine ⟨⟨symm1, rnn1, ?_⟩, kinds1, ?_⟩
          · intro r hret
            obtain ⟨h1, h2⟩ := h.inv.ret r hret
            exact ⟨List.mem_cons_of_mem _ h1, by rw [hsz1]; exact h2⟩
          · intro r hret
            exact h.retD r hret

theorem markStep_kinds (D : Cfg) (desc : Bool) (g g' : Cfg) (e : Nat) (hs : Symm g) (hn : RetNoNext g)
    (k : Kinds D g) (h : markStep desc g e = .ok g') : Kinds D g' := by
  unfold markStep at h
  split at h
  · injection h with h; subst h; exact k
  · simp only [] at h
    have inv := markLoop_kinds D desc e (markFuel g) { g := g, stack := [e] }
      ⟨⟨hs, hn, fun r hr => by simp at hr⟩, k, fun r hr => by simp at hr⟩
    generalize markLoop desc e (markFuel g) { g := g, stack := [e] } = st at h inv
    cases hr : st.ret with
    | none => rw [hr] at h; simp at h
    | some r =>
      rw [hr] at h
      simp only [] at h
      injection h with h
      subst h
      exact ⟨fun a b hb => inv.kinds.edges a b hb, fun y => inv.kinds.nodes y⟩

theorem markAll_kinds (D : Cfg) (desc : Bool) (l : List Nat) : ∀ (g g' : Cfg), Symm g → RetNoNext g →
    Kinds D g → markAll desc l g = .ok g' → Kinds D g' := by
  induction l with
  | nil => intro g g' _ _ k h; simp only [markAll] at h; injection h with h; subst h; exact k
  | cons e rest ih =>
    intro g g' hs hn k h
    simp only [markAll] at h
    cases hm : markStep desc g e with
    | error err => rw [hm] at h; simp at h
    | ok g1 =>
      rw [hm] at h
      simp only [] at h
      obtain ⟨s1, n1⟩ := markStep_symm desc g g1 e hs hn hm
      exact ih g1 g' s1 n1 (markStep_kinds D desc g g1 e hs hn k hm) h

theorem markup_kinds (D : Cfg) (desc : Bool) (g g' : Cfg) (hs : Symm g) (hn : RetNoNext g) (k : Kinds D g)
    (h : markup desc g = .ok g') : Kinds D g' :=
  markAll_kinds D desc _ g g' hs hn k h

/-- **C03 (`pipeline_edge_kinds`).** Every edge of the finished graph of every program is a
    fall-through, the jump written in the instruction, or the merge of an additional return into
    another return of the program (the function's exit); `g0` is the graph as constructed from
    the parsed nodes (same instructions and labels, no edges). -/
theorem pipeline_edge_kinds (desc : Bool) (nodes : List Node) (g : Cfg)
    (h : genFullCfg desc nodes = .ok g) :
    ∃ g0 p, buildCfg nodes p = .ok g0 ∧ ∀ a b, b ∈ (g.get a).nexts →
      DirEdge g0 a b ∨ ((g0.get a).node.isReturn = true ∧ (g0.get b).node.isReturn = true) := by
  unfold genFullCfg at h
  simp only [bind, Except.bind] at h
  split at h
  · exact absurd h (by simp)
  · split at h
    · exact absurd h (by simp)
    · split at h
      · exact absurd h (by simp)
      · split at h
        · exact absurd h (by simp)
        · rename_i g0 hg0
          split at h
          · exact absurd h (by simp)
          · rename_i g1 hg1
            split at h
            · exact absurd h (by simp)
            · rename_i g3 hg3
              split at h
              · exact absurd h (by simp)
              · rename_i g5 hg5
                split at h
                · exact absurd h (by simp)
                · rename_i g6 hg6
                  have e0 := liftCfg_ok _ _ hg0
                  have e1 := liftCfg_ok _ _ hg1
                  have e3 := runAvail_ok _ _ _ hg3
                  have e5 := liftCfg_ok _ _ hg5
                  have e6 := runAvail_ok _ _ _ hg6
                  have no0 := buildCfg_noEdges _ _ g0 e0
                  have s0 : Symm g0 := symm_of_no_edges g0 no0
                  have n0 : RetNoNext g0 := fun i _ => (no0 i).1
                  have s1 : Symm g1 := directions_symm g0 g1 s0 e1
                  have n1 : RetNoNext g1 := directions_rnn g0 g1 n0 e1
                  obtain ⟨same1, edges1⟩ := directions_edges g0 g1 no0 e1
                  have k1 : Kinds g1 g1 := Kinds.refl g1
                  have s2 : Symm (deadCode g1) := deadCode_symm g1 s1
                  have n2 : RetNoNext (deadCode g1) := (deadCode_shrinks g1).rnn n1
                  have k2 : Kinds g1 (deadCode g1) := k1.shrinks (deadCode_shrinks g1)
                  have s3 : Symm g3 := by rw [e3]; exact (available_edges _).symm' s2
                  have n3 : RetNoNext g3 := by rw [e3]; exact (available_edges _).rnn n2
                  have k3 : Kinds g1 g3 := by rw [e3]; exact k2.same (available_edges _)
                  have s4 : Symm (ecallTerm g3) := ecallTerm_symm g3 s3
                  have n4 : RetNoNext (ecallTerm g3) := (ecallTerm_shrinks g3).rnn n3
                  have k4 : Kinds g1 (ecallTerm g3) := k3.shrinks (ecallTerm_shrinks g3)
                  have k5 : Kinds g1 g5 := markup_kinds g1 desc _ g5 s4 n4 k4 e5
                  have k6 : Kinds g1 g6 := by rw [e6]; exact k5.same (available_edges _)
                  have k7 : Kinds g1 (ecallTerm g6) := k6.shrinks (ecallTerm_shrinks g6)
                  split at h
                  · rename_i g8 hl
                    injection h with h
                    subst h
                    have : g8 = (liveness (ecallTerm g6)).1 := by rw [hl]
                    have k8 : Kinds g1 g8 := by rw [this]; exact k7.same (liveness_edges _)
                    refine ⟨g0, _, e0, ?_⟩
                    intro a b hb
                    rcases k8.edges a b hb with hd | ⟨ha, hb'⟩
                    · exact Or.inl ((edges1 a b).1 hd)
                    · right
                      rw [← (same1.2 a).2, ← (same1.2 b).2]
                      exact ⟨ha, hb'⟩
                  · exact absurd h (by simp)

/-! ### "unreachable code" is only ever said of an instruction without an incoming edge -/

theorem entryPredDiags_code (g : Cfg) (cn : CNode) (p : Nat) :
    ∀ x ∈ entryPredDiags g cn p, x.code ≠ "unreachable-code" := by
  intro x hx
  unfold entryPredDiags at hx
  simp only [] at hx
  split at hx
  · simp at hx
  · split at hx
    · simp only [List.mem_map] at hx
      obtain ⟨_, _, rfl⟩ := hx
      rw [show (onNode "FirstInstructionIsFunction" cn.node).code = "first-instruction-is-function" from
        code_of _ _ _ _ _ _ (by decide)]
      decide
    · split at hx
      · simp only [List.mem_singleton] at hx
        subst hx
        rw [show (onNode "InvalidJumpToFunction" cn.node).code = "invalid-jump-to-function" from
          code_of _ _ _ _ _ _ (by decide)]
        decide
      · simp at hx

/-- **C03 (`unreachable_only_without_edge`).** Every 'unreachable code' item of the control-flow
    pass stands on a node of the finished graph that has no predecessor (and is neither the
    program entry nor a function entry); with `pipeline_symm`, no node has an edge to it. -/
theorem unreachable_only_without_edge (g : Cfg) (x : Diag) (hx : x ∈ lintControlFlow g)
    (hc : x.code = "unreachable-code") :
    ∃ cn ∈ g.nodes.toList, x = unreachableDiag cn ∧ cn.prevs = [] ∧ cn.node.isProgramEntry = false ∧
      cn.node.isFunctionEntry = false := by
  unfold lintControlFlow at hx
  rw [List.mem_flatMap] at hx
  obtain ⟨cn, hcn, hx⟩ := hx
  refine ⟨cn, hcn, ?_⟩
  unfold controlFlowAt at hx
  split at hx
  · rw [List.mem_flatMap] at hx
    obtain ⟨p, _, hp⟩ := hx
    exact absurd hc (entryPredDiags_code g cn p x hp)
  · rename_i hfe
    split at hx
    · rename_i hcond
      simp only [List.mem_singleton] at hx
      simp only [Bool.and_eq_true, Bool.not_eq_true', List.isEmpty_iff] at hcond
      exact ⟨hx, hcond.2, hcond.1, by simpa using hfe⟩
    · simp at hx

end Rva
