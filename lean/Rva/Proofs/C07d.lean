/-
  C07 — a malformed line is contained (parse-loop level).

  From the frame rule `parseStep_local` (C15b), the suffix invariant `parseStep_suffix` (C07b) and the
  location of parse errors `parseStep_error_in_items` (C07c): a line that fails to parse - a statement
  that is not a data directive or a macro definition and that does not run into the end of its line -
  costs exactly one recorded error, and the loop goes on with the first item of the next line, in the
  state it would be in if the line were not there.
-/
import Rva.Proofs.C07c
import Rva.Proofs.C15b
namespace Rva

/-- no item of the line is (or carries) a newline token -/
def NoNewline (l : List PItem) : Prop := ∀ it ∈ l, it.ftok.kind ≠ .newline

theorem NoNewline.suffix {l l' : List PItem} (h : NoNewline l) (hs : l' <:+ l) : NoNewline l' :=
  fun it hit => h it (hs.subset hit)

/-- error recovery discards the rest of the line and its newline, nothing of the next line -/
theorem recover_to_newline (rem : List PItem) (nl : FTok) (hnl : nl.kind = .newline) (rest : List PItem)
    (h : NoNewline rem) : recover (rem ++ .tok nl :: rest) = rest := by
  induction rem with
  | nil => simp [recover, hnl]
  | cons it rem ih =>
    have ih' := ih (fun x hx => h x (List.mem_cons_of_mem _ hx))
    cases it with
    | tok t =>
      have hk : t.kind ≠ .newline := h (.tok t) List.mem_cons_self
      have : (t.kind == TokKind.newline) = false := by
        cases hh : t.kind <;> simp_all
      simp only [List.cons_append, recover, this]
      simpa using ih'
    | strErr a b c => simp only [List.cons_append, recover]; exact ih'
    | unexpected a => simp only [List.cons_append, recover]; exact ih'

/-- **C07 (`malformed_line_contained`).** A line `bad` (no newline among its items; not a data
    directive or macro definition) whose statement fails with a reportable error without running into
    the end of the line, followed by its newline and the rest of the file: one step of the parse loop
    records exactly that one error and continues with the first item after the newline - the stack of
    including files, the reader, the nodes and the earlier errors are untouched. With `parseLoop_acc`
    the final result is the result for the file without the line, plus that error. -/
theorem malformed_line_contained (bad : List PItem) (hp : PlainHead bad) (hnn : NoNewline bad)
    (e : LexErr) (rem : List PItem) (pe : ParseErr)
    (h : parseStep bad = (.error e, rem)) (hne : e ≠ .unexpectedEOF) (hpe : e.reported = some pe)
    (nl : FTok) (hnl : nl.kind = .newline) (fuel : Nat) (rest : List PItem)
    (below : List (List PItem)) (r : Reader) (nodes : List Node) (errs : List ParseErr) :
    parseLoop (fuel + 1) ((bad ++ .tok nl :: rest) :: below) r nodes errs =
      parseLoop fuel (rest :: below) r nodes (pe :: errs) := by
  have hne' : (parseStep bad).1 ≠ .error .unexpectedEOF := by
    rw [h]; intro hc; exact hne (by injection hc)
  have hl := parseStep_local bad (.tok nl :: rest) hp hne'
  rw [h] at hl
  have hsuf : rem <:+ bad := by have := parseStep_suffix bad; rw [h] at this; exact this
  have hrec := recover_to_newline rem nl hnl rest (hnn.suffix hsuf)
  have htok : ∀ t ∈ e.toks, t.kind ≠ .newline := by
    intro t ht
    obtain ⟨it, hit, rfl⟩ := parseStep_error_in_items bad e (by rw [h]) t ht
    exact hnn it hit
  simp only [] at hl
  rw [parseLoop, hl]
  cases e <;> simp only [LexErr.reported, Option.some.injEq, reduceCtorEq] at hpe <;> (try subst hpe) <;>
    simp only [hrec]
  case expected ex got =>
    have : (got.kind == TokKind.newline) = false := by
      have := htok got (by simp [LexErr.toks])
      cases hh : got.kind <;> simp_all
    simp [this, hrec]

/-- **C07 (`malformed_line_only_adds_its_error`).** The same as a statement about results: parsing the
    file with the malformed line gives the nodes of the file without it and the errors of the file
    without it with the one error of that line put in at its place - nothing else differs. -/
theorem malformed_line_only_adds_its_error (bad : List PItem) (hp : PlainHead bad) (hnn : NoNewline bad)
    (e : LexErr) (rem : List PItem) (pe : ParseErr)
    (h : parseStep bad = (.error e, rem)) (hne : e ≠ .unexpectedEOF) (hpe : e.reported = some pe)
    (nl : FTok) (hnl : nl.kind = .newline) (fuel : Nat) (rest : List PItem)
    (below : List (List PItem)) (r : Reader) (nodes : List Node) (errs : List ParseErr) :
    let without := parseLoop fuel (rest :: below) r [] []
    parseLoop (fuel + 1) ((bad ++ .tok nl :: rest) :: below) r nodes errs =
      ⟨nodes.reverse ++ without.nodes, errs.reverse ++ pe :: without.errors, without.reader⟩ := by
  intro without
  rw [malformed_line_contained bad hp hnn e rem pe h hne hpe nl hnl, parseLoop_acc]
  simp [ParseOut.shift, without]

/-! non-vacuity: the line `foo` (no such instruction) meets the hypotheses -/
def fooTok : FTok := { kind := .symbol, payload := "foo", text := "foo", range := ⟨⟨0, 0, 0⟩, ⟨0, 2, 2⟩⟩, file := 0 }
theorem parseStep_foo : parseStep [.tok fooTok] = (.error (.expected ["INSTRUCTION"] fooTok), []) := by rfl
example : (LexErr.expected ["INSTRUCTION"] fooTok).reported = some (.expected ["INSTRUCTION"] fooTok) := rfl
example : NoNewline [.tok fooTok] := by
  intro it hit
  simp only [List.mem_singleton] at hit
  subst hit
  simp [PItem.ftok, fooTok]
example : PlainHead [.tok fooTok] := by
  intro t rest d h hk _
  simp only [List.cons.injEq, PItem.tok.injEq] at h
  obtain ⟨rfl, _⟩ := h
  simp [fooTok] at hk

end Rva
