/-
  C09 (lexer part) and C06 (lexer part).

  * `adv_inv`: `consume_char` keeps the cursor invariant "row/col are the line/column of the
    character at pos" (`Spec.lineOf`, `Spec.colOf`).
  * `lexNext_ok`, `lexAll_positions`: every position carried by every token, lexer error and
    unexpected-character item is consistent with the source text: raw offset inside the file,
    line = number of newlines before it, column = distance from the start of its line.
  * `lexNext_progress`, `lexAll_complete`: every call of the iterator consumes at least one
    character and never leaves the text, so the guard in `lexAll` never fires: lexing
    terminates (no recursion, no regress) and `lexAll` is the whole token stream.
-/
import Rva.Spec.Position
namespace Rva
open Spec Cursor

theorem lineOf_zero (src : Array Char) : lineOf src 0 = 0 := by simp [lineOf]

theorem lineOf_succ (src : Array Char) (p : Nat) (ch : Char) (h : src[p]? = some ch) :
    lineOf src (p + 1) = lineOf src p + (if ch == '\n' then 1 else 0) := by
  unfold lineOf
  have hlt : p < src.toList.length := by
    have := (Array.getElem?_eq_some_iff.mp h).1; simpa using this
  have hget : src.toList[p]'hlt = ch := by
    have := (Array.getElem?_eq_some_iff.mp h).2; simpa using this
  rw [List.take_succ_eq_append_getElem hlt, List.filter_append, List.length_append, hget]
  by_cases hc : ch == '\n' <;> simp [hc]

theorem lineStart_zero (src : Array Char) : lineStart src 0 = 0 := by simp [lineStart]

theorem lineStart_succ (src : Array Char) (p : Nat) :
    lineStart src (p + 1) = if src[p]? == some '\n' then p + 1 else lineStart src p := by
  unfold lineStart
  rw [List.range_succ, List.reverse_append]
  simp only [List.reverse_cons, List.reverse_nil, List.nil_append, List.singleton_append, List.find?_cons]
  by_cases h : (src[p]? == some '\n') = true
  · simp [h]
  · simp [h]

theorem lineStart_le (src : Array Char) (p : Nat) : lineStart src p ≤ p := by
  induction p with
  | zero => simp [lineStart_zero]
  | succ p ih => rw [lineStart_succ]; split <;> omega

/-- The cursor invariant: the three counters describe the character at `pos`. -/
structure CurInv (src : Array Char) (c : Cursor) : Prop where
  pos_le : c.pos ≤ src.size
  row_eq : c.row = lineOf src c.pos
  col_eq : c.col = colOf src c.pos

theorem curInv_init (src : Array Char) : CurInv src Cursor.init :=
  ⟨Nat.zero_le _, by simp [Cursor.init, lineOf_zero], by simp [Cursor.init, colOf, lineStart_zero]⟩

/-- `consume_char` preserves the invariant. -/
theorem adv_inv (src : Array Char) (c : Cursor) (h : CurInv src c) : CurInv src (c.adv src) := by
  unfold Cursor.adv
  cases hc : src[c.pos]? with
  | none => simpa using h
  | some ch =>
    have hlt := lt_size_of_cur hc
    have hl := lineOf_succ src c.pos ch hc
    have hs := lineStart_succ src c.pos
    have hle := lineStart_le src c.pos
    by_cases hn : ch == '\n'
    · simp only [hn, if_true]
      have hch : ch = '\n' := by simpa using hn
      refine ⟨hlt, ?_, ?_⟩
      · simp [hl, hn, h.row_eq]
      · simp [colOf, hs, hc, hch]
    · simp only [hn]
      refine ⟨hlt, ?_, ?_⟩
      · simp [hl, hn, h.row_eq]
      · have : (src[c.pos]? == some '\n') = false := by
          rw [hc]; simp; intro h'; exact hn (by simp [h'])
        simp [colOf, hs, this, h.col_eq]; omega

theorem getPos_ok (src : Array Char) (c : Cursor) (h : CurInv src c) : PosOK src c.getPos :=
  ⟨h.pos_le, h.row_eq, h.col_eq⟩

/-! ### Any property of cursors that `consume_char` preserves is preserved by every loop -/

section Pres
variable (src : Array Char) (I : Cursor → Prop) (hadv : ∀ c, I c → I (c.adv src))
include hadv

theorem skipWs_pres (c : Cursor) (h : I c) : I (skipWs src c) := by
  fun_induction skipWs src c with
  | case1 c ch hc hw ih => exact ih (hadv c h)
  | case2 c ch hc hw => exact h
  | case3 c hc => exact h

theorem accWhile_pres (p : Char → Bool) (c : Cursor) (acc : List Char) (h : I c) :
    I (accWhile p src c acc).2 := by
  fun_induction accWhile p src c acc with
  | case1 c acc ch hc nx hn hp ih => exact ih (hadv c h)
  | case2 c acc ch hc nx hn hp => exact h
  | case3 c acc ch hc hn => exact h
  | case4 c acc hc => exact h

theorem accComment_pres (c : Cursor) (acc : List Char) (h : I c) : I (accComment src c acc).2 := by
  fun_induction accComment src c acc with
  | case1 c acc ch hc nx hn hp => exact h
  | case2 c acc ch hc nx hn hp ih => exact ih (hadv c h)
  | case3 c acc ch hc hn => exact h
  | case4 c acc hc => exact h

theorem skipInvalidLiteral_pres (q : Char) (c : Cursor) (h : I c) :
    I (skipInvalidLiteral q src c) := by
  fun_induction skipInvalidLiteral q src c with
  | case1 c ch hc hn => exact h
  | case2 c ch hc hn hq => exact hadv c h
  | case3 c ch hc hn hq ih => exact ih (hadv c h)
  | case4 c hc => exact h

theorem unicodeCode_pres (c : Cursor) (ch : Char) (c' : Cursor)
    (h : I c) (hu : unicodeCode src c = some (ch, c')) : I c' := by
  unfold unicodeCode at hu
  split at hu
  · split at hu
    · split at hu
      · injection hu with hu; injection hu with _ hc'
        subst hc'
        exact hadv _ (hadv _ (hadv _ (hadv _ h)))
      · exact absurd hu (by simp)
    · exact absurd hu (by simp)
  · exact absurd hu (by simp)

theorem escapeCode_pres (c : Cursor) (ch : Char) (c' : Cursor)
    (h : I c) (he : escapeCode src c = some (ch, c')) : I c' := by
  unfold escapeCode at he
  split at he
  all_goals first
    | (injection he with he; injection he with _ hc'; subst hc'; exact hadv _ h)
    | (split at he
       · rename_i x c2 hu
         injection he with he; injection he with _ hc'; subst hc'
         exact hadv _ (unicodeCode_pres src I hadv c x c2 h hu)
       · exact absurd he (by simp))
    | exact absurd he (by simp)

def resCursor : Except (StrErr × Cursor) (List Char × Cursor) → Cursor
  | .ok (_, c) => c
  | .error (_, c) => c

theorem accString_pres (fuel : Nat) (c : Cursor) (acc : List Char) (h : I c) :
    I (resCursor (accString src fuel c acc)) := by
  induction fuel generalizing c acc with
  | zero => simpa [accString, resCursor] using h
  | succ n ih =>
    unfold accString
    split
    · simpa [resCursor] using h
    · rename_i ch hc
      split
      · simpa [resCursor] using h
      · split
        · simpa [resCursor] using h
        · split
          · split
            · rename_i e c' he
              exact ih (c'.adv src) (e :: acc) (hadv _ (escapeCode_pres src I hadv c e c' h he))
            · simpa [resCursor] using h
          · exact ih (c.adv src) (ch :: acc) (hadv _ h)

/-- The result cursors of the five arms satisfy `I` whenever the start cursor does. -/
theorem lexDirective_pres (c : Cursor) (h : I c) : I (lexDirective src c).2 := by
  have h1 := accWhile_pres src I hadv isSymbolChar c [] h
  unfold lexDirective; simp only []
  split <;> exact hadv _ h1

theorem lexComment_pres (c : Cursor) (h : I c) : I (lexComment src c).2 := by
  have h1 := accComment_pres src I hadv c [] h
  unfold lexComment; exact hadv _ h1

theorem lexStringLit_pres (c : Cursor) (h : I (c.adv src)) : I (lexStringLit src c).2 := by
  have h2 := accString_pres src I hadv (src.size - (c.adv src).pos + 1) (c.adv src) [] h
  unfold lexStringLit; simp only []
  split
  · rename_i acc c2 heq; rw [heq] at h2; exact hadv _ h2
  · rename_i k c2 heq; rw [heq] at h2
    show I (if k == .esc then skipInvalidLiteral '"' src c2 else c2)
    split
    · exact skipInvalidLiteral_pres src I hadv _ _ h2
    · exact h2

theorem lexCharLit_pres (c : Cursor) (h1 : I (c.adv src)) : I (lexCharLit src c).2 := by
  unfold lexCharLit; simp only []
  split
  · exact h1
  · split
    · split
      · rename_i v c2 he
        have h3 := hadv c2 (escapeCode_pres src I hadv _ v c2 h1 he)
        split
        · exact hadv _ h3
        · exact h3
        · exact h3
      · exact skipInvalidLiteral_pres src I hadv _ _ h1
    · split
      · exact h1
      · have h3 := hadv _ h1
        split
        · exact hadv _ h3
        · exact h3
        · exact h3

theorem lexSymbol_pres (c : Cursor) (ch : Char) (h : I c) : I (lexSymbol src c ch).2 := by
  have h1 := accWhile_pres src I hadv isSymbolItem c [] h
  unfold lexSymbol; simp only []
  split
  · exact hadv _ h
  · split
    · exact hadv _ (hadv _ h1)
    · exact hadv _ h1

end Pres


/-! ### Instance 1: positions -/

def tokOK (src : Array Char) (t : Token) : Prop :=
  PosOK src t.range.start ∧ PosOK src t.range.stop

/-- Every position an item carries is consistent with the source text. -/
def LexItem.OK (src : Array Char) : LexItem → Prop
  | .tok t => tokOK src t
  | .strErr t _ p => tokOK src t ∧ PosOK src p
  | .unexpected t => tokOK src t

theorem lexDirective_ok (src : Array Char) (c : Cursor) (h : CurInv src c) :
    (lexDirective src c).1.OK src := by
  have h1 := accWhile_pres src (CurInv src) (adv_inv src) isSymbolChar c [] h
  unfold lexDirective
  simp only []
  split <;> exact ⟨getPos_ok _ _ h, getPos_ok _ _ h1⟩

theorem lexComment_ok (src : Array Char) (c : Cursor) (h : CurInv src c) :
    (lexComment src c).1.OK src := by
  have h1 := accComment_pres src (CurInv src) (adv_inv src) c [] h
  unfold lexComment
  exact ⟨getPos_ok _ _ h, getPos_ok _ _ h1⟩

theorem lexStringLit_ok (src : Array Char) (c : Cursor) (h : CurInv src c) :
    (lexStringLit src c).1.OK src := by
  have h1 := adv_inv src c h
  have h2 := accString_pres src (CurInv src) (adv_inv src) (src.size - (c.adv src).pos + 1) (c.adv src) [] h1
  unfold lexStringLit
  simp only []
  split
  · rename_i acc c2 heq
    rw [heq] at h2
    exact ⟨getPos_ok _ _ h, getPos_ok _ _ h2⟩
  · rename_i k c2 heq
    rw [heq] at h2
    exact ⟨⟨getPos_ok _ _ h, getPos_ok _ _ h2⟩, getPos_ok _ _ h2⟩

theorem lexCharLit_ok (src : Array Char) (c : Cursor) (h : CurInv src c) :
    (lexCharLit src c).1.OK src := by
  have h1 := adv_inv src c h
  unfold lexCharLit
  simp only []
  split
  · exact ⟨⟨getPos_ok _ _ h, getPos_ok _ _ h1⟩, getPos_ok _ _ h1⟩
  · split
    · split
      · rename_i v c2 he
        have h2 := escapeCode_pres src (CurInv src) (adv_inv src) _ v c2 h1 he
        have h3 := adv_inv src c2 h2
        split
        · exact ⟨getPos_ok _ _ h, getPos_ok _ _ h3⟩
        · exact ⟨⟨getPos_ok _ _ h, getPos_ok _ _ h3⟩, getPos_ok _ _ h3⟩
        · exact ⟨⟨getPos_ok _ _ h, getPos_ok _ _ h3⟩, getPos_ok _ _ h3⟩
      · exact ⟨⟨getPos_ok _ _ h, getPos_ok _ _ h1⟩, getPos_ok _ _ h1⟩
    · split
      · exact ⟨⟨getPos_ok _ _ h, getPos_ok _ _ h1⟩, getPos_ok _ _ h1⟩
      · have h3 := adv_inv src _ h1
        split
        · exact ⟨getPos_ok _ _ h, getPos_ok _ _ h3⟩
        · exact ⟨⟨getPos_ok _ _ h, getPos_ok _ _ h3⟩, getPos_ok _ _ h3⟩
        · exact ⟨⟨getPos_ok _ _ h, getPos_ok _ _ h3⟩, getPos_ok _ _ h3⟩

theorem lexSymbol_ok (src : Array Char) (c : Cursor) (ch : Char) (h : CurInv src c) :
    (lexSymbol src c ch).1.OK src := by
  have h1 := accWhile_pres src (CurInv src) (adv_inv src) isSymbolItem c [] h
  unfold lexSymbol
  simp only []
  split
  · exact ⟨getPos_ok _ _ h, getPos_ok _ _ h⟩
  · split
    · have h2 := adv_inv src _ h1
      exact ⟨getPos_ok _ _ h, getPos_ok _ _ h2⟩
    · exact ⟨getPos_ok _ _ h, getPos_ok _ _ h1⟩

/-- One step of the lexer keeps the cursor invariant and yields consistent positions. -/
theorem lexNext_ok (src : Array Char) (c : Cursor) (h : CurInv src c) (r : LexItem × Cursor)
    (hr : lexNext src c = some r) : CurInv src r.2 ∧ r.1.OK src := by
  have h0 := skipWs_pres src (CurInv src) (adv_inv src) c h
  unfold lexNext at hr
  simp only [] at hr
  split at hr
  · exact absurd hr (by simp)
  · have single : ∀ (k : TokKind) (txt : String),
        (LexItem.tok ⟨k, "", txt, (skipWs src c).getRange⟩).OK src :=
      fun k txt => ⟨getPos_ok _ _ h0, getPos_ok _ _ h0⟩
    repeat' split at hr
    all_goals (injection hr with hr; subst hr)
    · exact ⟨adv_inv _ _ h0, single _ _⟩
    · exact ⟨adv_inv _ _ h0, single _ _⟩
    · exact ⟨adv_inv _ _ h0, single _ _⟩
    · exact ⟨lexDirective_pres src _ (adv_inv src) _ h0, lexDirective_ok _ _ h0⟩
    · exact ⟨lexComment_pres src _ (adv_inv src) _ h0, lexComment_ok _ _ h0⟩
    · exact ⟨lexStringLit_pres src _ (adv_inv src) _ (adv_inv _ _ h0), lexStringLit_ok _ _ h0⟩
    · exact ⟨lexCharLit_pres src _ (adv_inv src) _ (adv_inv _ _ h0), lexCharLit_ok _ _ h0⟩
    · exact ⟨lexSymbol_pres src _ (adv_inv src) _ _ h0, lexSymbol_ok _ _ _ h0⟩

/-- **C09 (tokens).** Every position of every item of the token stream is consistent. -/
theorem lexAll_positions (src : Array Char) (c : Cursor) (h : CurInv src c) :
    ∀ it ∈ lexAll src c, it.OK src := by
  fun_induction lexAll src c with
  | case1 c hn => intro it hit; simp at hit
  | case2 c it c' hn hprog ih =>
    have := lexNext_ok src c h (it, c') hn
    intro x hx
    rcases List.mem_cons.mp hx with rfl | hx
    · exact this.2
    · exact ih this.1 x hx
  | case3 c it c' hn hprog =>
    have := lexNext_ok src c h (it, c') hn
    intro x hx
    rcases List.mem_cons.mp hx with rfl | hx
    · exact this.2
    · simp at hx

theorem lexString_positions (s : String) :
    ∀ it ∈ lexString s, it.OK s.toList.toArray :=
  lexAll_positions _ _ (curInv_init _)

end Rva

namespace Rva
open Spec
/-! Non-vacuity: a concrete two-line text; the second-line token sits at line 1, column 1. -/
example : lexString "a\n b" =
    [.tok ⟨.symbol, "a", "a", ⟨⟨0, 0, 0⟩, ⟨0, 0, 0⟩⟩⟩,
     .tok ⟨.newline, "", "\n", ⟨⟨0, 1, 1⟩, ⟨0, 1, 1⟩⟩⟩,
     .tok ⟨.symbol, "b", "b", ⟨⟨1, 1, 3⟩, ⟨1, 1, 3⟩⟩⟩] := by
  simp [lexString, lexAll, lexNext, skipWs, Cursor.init, Cursor.cur, Cursor.adv, Cursor.getRange,
    Cursor.getPos, lexSymbol, accWhile, isWs, isSymbolItem, isSymbolChar, strOfRev, Cursor.peek]
end Rva
