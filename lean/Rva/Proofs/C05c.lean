/-
  C05 — the forward search for the first use (`error_ranges_for_first_usage`), simplest case:
  when the instruction right after a call site (its only successor) reads a clobbered register
  that is live after the call, `invalid-use-after-call` is reported on that operand.
-/
import Rva.Proofs.C05b
namespace Rva

/-- the search stops at the first level: the only successor of `start` reads `r` -/
theorem firstUsage_next (g : Cfg) (start j : Nat) (r : Reg) (hn : (g.get start).nexts = [j])
    (hj : j ≠ start) (hgen : RegSet.mem (g.get j).node.genReg r = true) :
    firstUsage g start r = [(readsSet (g.get j).node).find? (·.val == r)] := by
  unfold firstUsage
  rw [hn]
  unfold firstUsage.level
  have hvis : ([start] : List Nat).contains j = false := by simpa using hj
  simp only [List.foldl_cons, List.foldl_nil, hvis, Bool.false_or, List.contains_nil, Bool.false_eq_true,
    if_false, insNat]
  simp [hgen]

/-- **use after call is reported** when the use immediately follows the call -/
theorem useAfterCall_reported (g : Cfg) (i j : Nat) (hi : i < g.nodes.size) (f : Func) (nm : W String)
    (r : Reg) (w : W Reg) (hc : callsToFromCfg g (g.get i) = some (f, nm))
    (hn : (g.get i).nexts = [j]) (hj : j ≠ i)
    (hgen : RegSet.mem (g.get j).node.genReg r = true)
    (hread : (readsSet (g.get j).node).find? (·.val == r) = some w)
    (hout : r ∈ RegSet.toList ((RegSet.diff callerSavedSet (funcReturns g f)) &&& (g.get i).liveOut)) :
    ∃ x ∈ lintDeadValue g, x.code = "invalid-use-after-call" ∧ x.range = w.tok.range ∧ x.file = w.tok.file := by
  refine ⟨{ onReg "InvalidUseAfterCall" w with site := some i }, ?_, ?_, rfl, rfl⟩
  · unfold lintDeadValue
    rw [List.mem_flatMap]
    refine ⟨i, range_mem _ _ hi, ?_⟩
    simp only [deadValueAt, hc]
    rw [List.mem_map]
    refine ⟨onReg "InvalidUseAfterCall" w, ?_, rfl⟩
    unfold usageDiags
    rw [List.mem_flatMap]
    refine ⟨r, hout, ?_⟩
    unfold usageDiag
    rw [firstUsage_next g i j r hn hj hgen, hread]
    simp
  · show (lintDiag "InvalidUseAfterCall" w.tok.range w.tok.file w.tok.text []).code = "invalid-use-after-call"
    exact code_of "InvalidUseAfterCall" "invalid-use-after-call" _ _ _ _ (by decide)

/-! ### a saved register (or sp / ra) that is modified and not restored -/

theorem firstStore_go_acc (g : Cfg) (item : Reg) (fuel : Nat) :
    ∀ (queue visited : List Nat) (acc : List (W Reg)) (x : W Reg), x ∈ acc →
      x ∈ firstStore.go g item fuel queue visited acc := by
  induction fuel with
  | zero => intro q v acc x hx; simpa [firstStore.go] using hx
  | succ n ih =>
    intro q v acc x hx
    unfold firstStore.go
    cases q with
    | nil => exact hx
    | cons p rest =>
      simp only []
      split
      · exact ih _ _ _ x hx
      · split
        · split
          · exact ih _ _ _ x (List.mem_append_left _ hx)
          · exact ih _ _ _ x hx
        · exact ih _ _ _ x hx

/-- **overwritten callee-saved register is reported** on the instruction that wrote it, when that
    instruction directly precedes the function's exit: for every function (visited through one of
    its labels) and every callee-saved register - a saved register, sp or ra - that does not hold
    its entry value at the exit. -/
theorem overwriteCalleeSaved_reported (g : Cfg) (lf : String × Nat) (hlf : lf ∈ g.labelFunc) (f : Func)
    (hf : g.funcOfEntry lf.2 = some f) (r : Reg) (hr : r ∈ RegSet.toList calleeSavedSet)
    (hno : isOriginal (g.get f.exit).regIn r = false)
    (p : Nat) (rest : List Nat) (hp : (g.get f.exit).prevs = p :: rest) (hpe : p ≠ f.exit)
    (rd : W Reg) (hw : (g.get p).node.writesTo = some rd) (hrd : rd.val = r) :
    ∃ x ∈ lintCalleeSaved g, x.code = "overwrite-callee-saved-register" ∧ x.range = rd.tok.range ∧
      x.file = rd.tok.file := by
  refine ⟨onReg "OverwriteCalleeSavedRegister" rd, ?_, code_of _ _ _ _ _ _ (by decide), rfl, rfl⟩
  unfold lintCalleeSaved
  rw [List.mem_flatMap]
  refine ⟨lf, by simpa using hlf, ?_⟩
  unfold calleeSavedAt
  rw [hf]
  simp only [List.mem_flatMap]
  refine ⟨r, hr, ?_⟩
  simp only [hno, Bool.false_eq_true, if_false, List.mem_map]
  refine ⟨rd, ?_, rfl⟩
  unfold firstStore
  rw [hp]
  generalize 4 * (g.nodes.size + 1) * (g.nodes.size + 1) + 7 = fuel
  have e : 4 * (g.nodes.size + 1) * (g.nodes.size + 1) + 8 = (4 * (g.nodes.size + 1) * (g.nodes.size + 1) + 7) + 1 := by omega
  rw [e]
  unfold firstStore.go
  have hv : ([f.exit] : List Nat).contains p = false := by simpa using hpe
  simp only [hv, Bool.false_eq_true, if_false, hw, hrd, beq_self_eq_true, if_true]
  exact firstStore_go_acc g r _ _ _ _ rd (by simp)

/-! ### a register that was never assigned -/

/-- **read of a never-assigned register is reported** on the operand, when the read is the first
    instruction of the program: the register is live into the program entry and is not one of the
    program's own arguments. -/
theorem neverAssigned_reported (g : Cfg) (i j : Nat) (hi : i < g.nodes.size)
    (hpe : (g.get i).node.isProgramEntry = true) (r : Reg) (w : W Reg)
    (hn : (g.get i).nexts = [j]) (hj : j ≠ i)
    (hgen : RegSet.mem (g.get j).node.genReg r = true)
    (hread : (readsSet (g.get j).node).find? (·.val == r) = some w)
    (hlive : r ∈ RegSet.toList (RegSet.diff (g.get i).liveIn programArgsSet)) :
    ∃ x ∈ lintGarbageInput g, x.code = "invalid-use-before-assignment" ∧ x.range = w.tok.range ∧
      x.file = w.tok.file := by
  refine ⟨onReg "InvalidUseBeforeAssignment" w, ?_, code_of _ _ _ _ _ _ (by decide), rfl, rfl⟩
  unfold lintGarbageInput
  rw [List.mem_flatMap]
  refine ⟨i, range_mem _ _ hi, ?_⟩
  simp only [garbageAt, hpe, if_true]
  unfold usageDiags
  rw [List.mem_flatMap]
  refine ⟨r, hlive, ?_⟩
  unfold usageDiag
  rw [firstUsage_next g i j r hn hj hgen, hread]
  simp

end Rva

namespace Rva

/-- a straight line: every node of the list has the next one as its only successor -/
def Chain (g : Cfg) : List Nat → Prop
  | [] => True
  | [_] => True
  | a :: b :: rest => (g.get a).nexts = [b] ∧ Chain g (b :: rest)

/-- the first node of the line `path ++ [last]` -/
def hdOf (path : List Nat) (last : Nat) : Nat :=
  match path with
  | [] => last
  | p :: _ => p

theorem chain_cons (g : Cfg) (a : Nat) (path : List Nat) (last : Nat) (h : Chain g (a :: (path ++ [last]))) :
    (g.get a).nexts = [hdOf path last] ∧ Chain g (path ++ [last]) := by
  cases path with
  | nil => simpa [Chain, hdOf] using h
  | cons q qs => simpa [Chain, hdOf] using h

theorem level_chain (g : Cfg) (item : Reg) (last : Nat)
    (hlast : RegSet.mem (g.get last).node.genReg item = true) :
    ∀ (path : List Nat) (visited : List Nat) (fuel : Nat), path.length + 1 ≤ fuel →
      Chain g (path ++ [last]) → (path ++ [last]).Nodup →
      (∀ x ∈ path ++ [last], visited.contains x = false) →
      (∀ x ∈ path, RegSet.mem (g.get x).node.genReg item = false) →
      firstUsage.level g item fuel [hdOf path last] visited =
        [(readsSet (g.get last).node).find? (·.val == item)] := by
  intro path
  induction path with
  | nil =>
    intro visited fuel hf _ _ hv _
    cases fuel with
    | zero => omega
    | succ n =>
      have hvl : visited.contains last = false := hv last (by simp)
      have hm : last ∉ visited := by simpa using hvl
      unfold firstUsage.level
      simp [hdOf, hm, insNat, hlast]
  | cons p ps ih =>
    intro visited fuel hf hch hnd hv hno
    cases fuel with
    | zero => simp at hf
    | succ n =>
      have hvp : visited.contains p = false := hv p (by simp)
      have hnp : RegSet.mem (g.get p).node.genReg item = false := hno p (by simp)
      have hnext := chain_cons g p ps last (by simpa using hch)
      have hnd' : (ps ++ [last]).Nodup := by
        have := hnd; simp only [List.cons_append, List.nodup_cons] at this; exact this.2
      have hpn : p ∉ ps ++ [last] := by
        have := hnd; simp only [List.cons_append, List.nodup_cons] at this; exact this.1
      have hstep : firstUsage.level g item (n + 1) [hdOf (p :: ps) last] visited =
          firstUsage.level g item n [hdOf ps last] (visited ++ [p]) := by
        have hm : p ∉ visited := by simpa using hvp
        conv => lhs; unfold firstUsage.level
        simp [hdOf, hm, insNat, hnp, hnext.1]
      rw [hstep]
      apply ih (visited ++ [p]) n (by simp at hf ⊢; omega) hnext.2 hnd'
      · intro x hx
        have h1 := hv x (by simp only [List.cons_append, List.mem_cons]; exact Or.inr hx)
        have h2 : x ≠ p := fun e => hpn (e ▸ hx)
        simp only [List.contains_eq_mem, List.mem_append, List.mem_singleton, decide_eq_false_iff_not, not_or]
        exact ⟨by simpa using h1, h2⟩
      · intro x hx; exact hno x (by simp [hx])

/-- **C05 (`firstUsage_at_distance`).** The forward search finds a use at any distance down a straight
    line: if the nodes after `start` form a line of single successors none of which reads `r` until
    `last`, which does, the search returns exactly the token of that read. -/
theorem firstUsage_at_distance (g : Cfg) (start last : Nat) (path : List Nat) (r : Reg)
    (hlen : path.length ≤ g.nodes.size)
    (hch : Chain g (start :: (path ++ [last]))) (hnd : (start :: (path ++ [last])).Nodup)
    (hno : ∀ x ∈ path, RegSet.mem (g.get x).node.genReg r = false)
    (hlast : RegSet.mem (g.get last).node.genReg r = true) :
    firstUsage g start r = [(readsSet (g.get last).node).find? (·.val == r)] := by
  unfold firstUsage
  have hnext := chain_cons g start path last hch
  rw [hnext.1]
  have hnd' := (List.nodup_cons.mp hnd).2
  have hsn := (List.nodup_cons.mp hnd).1
  apply level_chain g r last hlast path [start] _ (by omega) hnext.2 hnd'
  · intro x hx
    have : x ≠ start := fun e => hsn (e ▸ hx)
    simpa using this
  · exact hno

/-- **use after call is reported at a distance**: the first instruction down the straight line after
    the call that reads the clobbered register gets the diagnostic, however far it is -/
theorem useAfterCall_reported_at_distance (g : Cfg) (i last : Nat) (path : List Nat) (hi : i < g.nodes.size)
    (f : Func) (nm : W String) (r : Reg) (w : W Reg)
    (hc : callsToFromCfg g (g.get i) = some (f, nm))
    (hlen : path.length ≤ g.nodes.size)
    (hch : Chain g (i :: (path ++ [last]))) (hnd : (i :: (path ++ [last])).Nodup)
    (hno : ∀ x ∈ path, RegSet.mem (g.get x).node.genReg r = false)
    (hgen : RegSet.mem (g.get last).node.genReg r = true)
    (hread : (readsSet (g.get last).node).find? (·.val == r) = some w)
    (hout : r ∈ RegSet.toList ((RegSet.diff callerSavedSet (funcReturns g f)) &&& (g.get i).liveOut)) :
    ∃ x ∈ lintDeadValue g, x.code = "invalid-use-after-call" ∧ x.range = w.tok.range ∧ x.file = w.tok.file := by
  refine ⟨{ onReg "InvalidUseAfterCall" w with site := some i }, ?_, ?_, rfl, rfl⟩
  · unfold lintDeadValue
    rw [List.mem_flatMap]
    refine ⟨i, range_mem _ _ hi, ?_⟩
    simp only [deadValueAt, hc]
    rw [List.mem_map]
    refine ⟨onReg "InvalidUseAfterCall" w, ?_, rfl⟩
    unfold usageDiags
    rw [List.mem_flatMap]
    refine ⟨r, hout, ?_⟩
    unfold usageDiag
    rw [firstUsage_at_distance g i last path r hlen hch hnd hno hgen, hread]
    simp
  · show (lintDiag "InvalidUseAfterCall" w.tok.range w.tok.file w.tok.text []).code = "invalid-use-after-call"
    exact code_of "InvalidUseAfterCall" "invalid-use-after-call" _ _ _ _ (by decide)

/-- **a never-assigned register is reported at a distance**: the first instruction down the straight
    line from the program entry that reads it gets the diagnostic -/
theorem neverAssigned_reported_at_distance (g : Cfg) (i last : Nat) (path : List Nat) (hi : i < g.nodes.size)
    (hpe : (g.get i).node.isProgramEntry = true) (r : Reg) (w : W Reg)
    (hlen : path.length ≤ g.nodes.size)
    (hch : Chain g (i :: (path ++ [last]))) (hnd : (i :: (path ++ [last])).Nodup)
    (hno : ∀ x ∈ path, RegSet.mem (g.get x).node.genReg r = false)
    (hgen : RegSet.mem (g.get last).node.genReg r = true)
    (hread : (readsSet (g.get last).node).find? (·.val == r) = some w)
    (hlive : r ∈ RegSet.toList (RegSet.diff (g.get i).liveIn programArgsSet)) :
    ∃ x ∈ lintGarbageInput g, x.code = "invalid-use-before-assignment" ∧ x.range = w.tok.range ∧
      x.file = w.tok.file := by
  refine ⟨onReg "InvalidUseBeforeAssignment" w, ?_, code_of _ _ _ _ _ _ (by decide), rfl, rfl⟩
  unfold lintGarbageInput
  rw [List.mem_flatMap]
  refine ⟨i, range_mem _ _ hi, ?_⟩
  simp only [garbageAt, hpe, if_true]
  unfold usageDiags
  rw [List.mem_flatMap]
  refine ⟨r, hlive, ?_⟩
  unfold usageDiag
  rw [firstUsage_at_distance g i last path r hlen hch hnd hno hgen, hread]
  simp

end Rva
