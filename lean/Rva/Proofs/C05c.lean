/-
  C05 — the forward search for the first use (`error_ranges_for_first_usage`), simplest case:
  when the instruction right after a call site (its only successor) reads a clobbered register
  that is live after the call, `invalid-use-after-call` is reported on that operand.
-/
import Rva.Proofs.C05b
namespace Rva

/-- the search stops at the first level: the only successor of `start` reads `r` -/
theorem firstUsage_next (g : Cfg) (start j : Nat) (r : Reg) (hn : (g.get start).nexts = [j])
    (hj : j ≠ start) (hgen : RegSet.mem (g.get j).node.genReg r = true) :
    firstUsage g start r = [(readsSet (g.get j).node).find? (·.val == r)] := by
  unfold firstUsage
  rw [hn]
  unfold firstUsage.level
  have hvis : ([start] : List Nat).contains j = false := by simpa using hj
  simp only [List.foldl_cons, List.foldl_nil, hvis, Bool.false_or, List.contains_nil, Bool.false_eq_true,
    if_false, insNat]
  simp [hgen]

/-- **use after call is reported** when the use immediately follows the call -/
theorem useAfterCall_reported (g : Cfg) (i j : Nat) (hi : i < g.nodes.size) (f : Func) (nm : W String)
    (r : Reg) (w : W Reg) (hc : callsToFromCfg g (g.get i) = some (f, nm))
    (hn : (g.get i).nexts = [j]) (hj : j ≠ i)
    (hgen : RegSet.mem (g.get j).node.genReg r = true)
    (hread : (readsSet (g.get j).node).find? (·.val == r) = some w)
    (hout : r ∈ RegSet.toList ((RegSet.diff callerSavedSet (funcReturns g f)) &&& (g.get i).liveOut)) :
    ∃ x ∈ lintDeadValue g, x.code = "invalid-use-after-call" ∧ x.range = w.tok.range ∧ x.file = w.tok.file := by
  refine ⟨{ onReg "InvalidUseAfterCall" w with site := some i }, ?_, ?_, rfl, rfl⟩
  · unfold lintDeadValue
    rw [List.mem_flatMap]
    refine ⟨i, range_mem _ _ hi, ?_⟩
    simp only [deadValueAt, hc]
    rw [List.mem_map]
    refine ⟨onReg "InvalidUseAfterCall" w, ?_, rfl⟩
    unfold usageDiags
    rw [List.mem_flatMap]
    refine ⟨r, hout, ?_⟩
    unfold usageDiag
    rw [firstUsage_next g i j r hn hj hgen, hread]
    simp
  · show (lintDiag "InvalidUseAfterCall" w.tok.range w.tok.file w.tok.text []).code = "invalid-use-after-call"
    exact code_of "InvalidUseAfterCall" "invalid-use-after-call" _ _ _ _ (by decide)

end Rva
