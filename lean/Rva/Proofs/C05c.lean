/-
  C05 — the forward search for the first use (`error_ranges_for_first_usage`), simplest case:
  when the instruction right after a call site (its only successor) reads a clobbered register
  that is live after the call, `invalid-use-after-call` is reported on that operand.
-/
import Rva.Proofs.C05b
namespace Rva

/-- the search stops at the first level: the only successor of `start` reads `r` -/
theorem firstUsage_next (g : Cfg) (start j : Nat) (r : Reg) (hn : (g.get start).nexts = [j])
    (hj : j ≠ start) (hgen : RegSet.mem (g.get j).node.genReg r = true) :
    firstUsage g start r = [(readsSet (g.get j).node).find? (·.val == r)] := by
  unfold firstUsage
  rw [hn]
  unfold firstUsage.level
  have hvis : ([start] : List Nat).contains j = false := by simpa using hj
  simp only [List.foldl_cons, List.foldl_nil, hvis, Bool.false_or, List.contains_nil, Bool.false_eq_true,
    if_false, insNat]
  simp [hgen]

/-- **use after call is reported** when the use immediately follows the call -/
theorem useAfterCall_reported (g : Cfg) (i j : Nat) (hi : i < g.nodes.size) (f : Func) (nm : W String)
    (r : Reg) (w : W Reg) (hc : callsToFromCfg g (g.get i) = some (f, nm))
    (hn : (g.get i).nexts = [j]) (hj : j ≠ i)
    (hgen : RegSet.mem (g.get j).node.genReg r = true)
    (hread : (readsSet (g.get j).node).find? (·.val == r) = some w)
    (hout : r ∈ RegSet.toList ((RegSet.diff callerSavedSet (funcReturns g f)) &&& (g.get i).liveOut)) :
    ∃ x ∈ lintDeadValue g, x.code = "invalid-use-after-call" ∧ x.range = w.tok.range ∧ x.file = w.tok.file := by
  refine ⟨{ onReg "InvalidUseAfterCall" w with site := some i }, ?_, ?_, rfl, rfl⟩
  · unfold lintDeadValue
    rw [List.mem_flatMap]
    refine ⟨i, range_mem _ _ hi, ?_⟩
    simp only [deadValueAt, hc]
    rw [List.mem_map]
    refine ⟨onReg "InvalidUseAfterCall" w, ?_, rfl⟩
    unfold usageDiags
    rw [List.mem_flatMap]
    refine ⟨r, hout, ?_⟩
    unfold usageDiag
    rw [firstUsage_next g i j r hn hj hgen, hread]
    simp
  · show (lintDiag "InvalidUseAfterCall" w.tok.range w.tok.file w.tok.text []).code = "invalid-use-after-call"
    exact code_of "InvalidUseAfterCall" "invalid-use-after-call" _ _ _ _ (by decide)

/-! ### a saved register (or sp / ra) that is modified and not restored -/

theorem firstStore_go_acc (g : Cfg) (item : Reg) (fuel : Nat) :
    ∀ (queue visited : List Nat) (acc : List (W Reg)) (x : W Reg), x ∈ acc →
      x ∈ firstStore.go g item fuel queue visited acc := by
  induction fuel with
  | zero => intro q v acc x hx; simpa [firstStore.go] using hx
  | succ n ih =>
    intro q v acc x hx
    unfold firstStore.go
    cases q with
    | nil => exact hx
    | cons p rest =>
      simp only []
      split
      · exact ih _ _ _ x hx
      · split
        · split
          · exact ih _ _ _ x (List.mem_append_left _ hx)
          · exact ih _ _ _ x hx
        · exact ih _ _ _ x hx

/-- **overwritten callee-saved register is reported** on the instruction that wrote it, when that
    instruction directly precedes the function's exit: for every function (visited through one of
    its labels) and every callee-saved register - a saved register, sp or ra - that does not hold
    its entry value at the exit. -/
theorem overwriteCalleeSaved_reported (g : Cfg) (lf : String × Nat) (hlf : lf ∈ g.labelFunc) (f : Func)
    (hf : g.funcOfEntry lf.2 = some f) (r : Reg) (hr : r ∈ RegSet.toList calleeSavedSet)
    (hno : isOriginal (g.get f.exit).regIn r = false)
    (p : Nat) (rest : List Nat) (hp : (g.get f.exit).prevs = p :: rest) (hpe : p ≠ f.exit)
    (rd : W Reg) (hw : (g.get p).node.writesTo = some rd) (hrd : rd.val = r) :
    ∃ x ∈ lintCalleeSaved g, x.code = "overwrite-callee-saved-register" ∧ x.range = rd.tok.range ∧
      x.file = rd.tok.file := by
  refine ⟨onReg "OverwriteCalleeSavedRegister" rd, ?_, code_of _ _ _ _ _ _ (by decide), rfl, rfl⟩
  unfold lintCalleeSaved
  rw [List.mem_flatMap]
  refine ⟨lf, by simpa using hlf, ?_⟩
  unfold calleeSavedAt
  rw [hf]
  simp only [List.mem_flatMap]
  refine ⟨r, hr, ?_⟩
  simp only [hno, Bool.false_eq_true, if_false, List.mem_map]
  refine ⟨rd, ?_, rfl⟩
  unfold firstStore
  rw [hp]
  generalize 4 * (g.nodes.size + 1) * (g.nodes.size + 1) + 7 = fuel
  have e : 4 * (g.nodes.size + 1) * (g.nodes.size + 1) + 8 = (4 * (g.nodes.size + 1) * (g.nodes.size + 1) + 7) + 1 := by omega
  rw [e]
  unfold firstStore.go
  have hv : ([f.exit] : List Nat).contains p = false := by simpa using hpe
  simp only [hv, Bool.false_eq_true, if_false, hw, hrd, beq_self_eq_true, if_true]
  exact firstStore_go_acc g r _ _ _ _ rd (by simp)

/-! ### a register that was never assigned -/

/-- **read of a never-assigned register is reported** on the operand, when the read is the first
    instruction of the program: the register is live into the program entry and is not one of the
    program's own arguments. -/
theorem neverAssigned_reported (g : Cfg) (i j : Nat) (hi : i < g.nodes.size)
    (hpe : (g.get i).node.isProgramEntry = true) (r : Reg) (w : W Reg)
    (hn : (g.get i).nexts = [j]) (hj : j ≠ i)
    (hgen : RegSet.mem (g.get j).node.genReg r = true)
    (hread : (readsSet (g.get j).node).find? (·.val == r) = some w)
    (hlive : r ∈ RegSet.toList (RegSet.diff (g.get i).liveIn programArgsSet)) :
    ∃ x ∈ lintGarbageInput g, x.code = "invalid-use-before-assignment" ∧ x.range = w.tok.range ∧
      x.file = w.tok.file := by
  refine ⟨onReg "InvalidUseBeforeAssignment" w, ?_, code_of _ _ _ _ _ _ (by decide), rfl, rfl⟩
  unfold lintGarbageInput
  rw [List.mem_flatMap]
  refine ⟨i, range_mem _ _ hi, ?_⟩
  simp only [garbageAt, hpe, if_true]
  unfold usageDiags
  rw [List.mem_flatMap]
  refine ⟨r, hlive, ?_⟩
  unfold usageDiag
  rw [firstUsage_next g i j r hn hj hgen, hread]
  simp

end Rva
