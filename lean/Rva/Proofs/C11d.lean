/-
  C11 / C06 — every graph the pipeline hands to the markup pass has at most two successors per
  node, so the function walk always finishes (`markLoop_terminates`), for every program:
  `pipeline_markup_terminates`.
-/
import Rva.Proofs.C11c
import Rva.Proofs.C03d
import Rva.Proofs.C16b
namespace Rva

theorem insNat_length_le (x : Nat) (l : List Nat) : (insNat x l).length ≤ l.length + 1 := by
  induction l with
  | nil => simp [insNat]
  | cons y ys ih =>
    unfold insNat
    split
    · simp
    · split
      · simp
      · simp only [List.length_cons]; omega

theorem addEdge_nexts_length (g : Cfg) (a b y : Nat) :
    ((g.addEdge a b).get y).nexts.length ≤ (g.get y).nexts.length + (if y = a then 1 else 0) := by
  unfold Cfg.addEdge
  rw [Cfg.get_modify]
  have key : ((g.modify a fun n => { n with nexts := insNat b n.nexts }).get y).nexts.length ≤
      (g.get y).nexts.length + (if y = a then 1 else 0) := by
    rw [Cfg.get_modify]
    split
    · rename_i hc
      simp only [hc.1.symm, if_true]
      exact insNat_length_le b _
    · omega
  split
  · exact key
  · exact key

/-- bound on the number of successors of node `a` after the nodes `0 … k-1` were processed -/
def degBound (k a : Nat) : Nat := if a + 1 < k then 2 else if a + 1 = k then 1 else 0

theorem degBound_mono (k a : Nat) : degBound k a ≤ degBound (k + 1) a := by
  unfold degBound
  by_cases h1 : a + 1 < k
  · have : a + 1 < k + 1 := by omega
    simp [h1, this]
  · by_cases h2 : a + 1 = k
    · have : a + 1 < k + 1 := by omega
      simp [h1, h2, this]
    · simp only [h1, h2, if_false]; omega

theorem degBound_self (k : Nat) : degBound k k + 1 ≤ degBound (k + 1) k := by
  unfold degBound
  have h1 : ¬ k + 1 < k := by omega
  have h2 : ¬ k + 1 = k := by omega
  have h3 : ¬ k + 1 < k + 1 := by omega
  simp [h1, h2, h3]

theorem degBound_prev (k p : Nat) (h : p + 1 = k) : degBound k p + 1 ≤ degBound (k + 1) p := by
  unfold degBound
  have h1 : ¬ p + 1 < k := by omega
  have h3 : p + 1 < k + 1 := by omega
  simp [h1, h, h3]

/-- successor counts while the direction loop runs -/
structure DirLen (k : Nat) (st : Cfg × Option Nat) : Prop where
  len : ∀ a, (st.1.get a).nexts.length ≤ degBound k a
  prev : ∀ p, st.2 = some p → p + 1 = k

theorem dirStep_len (k : Nat) (st st' : Cfg × Option Nat) (h : DirLen k st)
    (hs : dirStep st k = .ok st') : DirLen (k + 1) st' := by
  obtain ⟨g, po⟩ := st
  have hlen := h.len
  have hprev := h.prev
  simp only [] at hlen hprev
  unfold dirStep at hs
  simp only [] at hs
  -- the graph after the jump edge: at most one more successor at node k
  have step1 : ∀ g1, (match (g.get k).node.jumpsTo with
      | some l => match findLabel g l.val with
        | some j => Except.ok (g.addEdge k j)
        | none => Except.error CfgErr.unexpectedError
      | none => Except.ok g) = Except.ok g1 →
      ∀ y, (g1.get y).nexts.length ≤ (g.get y).nexts.length + (if y = k then 1 else 0) := by
    intro g1 hg1 y
    split at hg1
    · split at hg1
      · injection hg1 with hg1; subst hg1; exact addEdge_nexts_length g k _ y
      · exact absurd hg1 (by simp)
    · injection hg1 with hg1; subst hg1; omega
  split at hs
  · exact absurd hs (by simp)
  · rename_i g1 hg1
    have l1 := step1 g1 hg1
    injection hs with hs
    subst hs
    -- after the jump edge: bound at k+1 except that node k-1 may still get its fall-through edge
    have b1 : ∀ a, (g1.get a).nexts.length ≤ (if a = k then degBound (k + 1) a else degBound k a) := by
      intro a
      have h1 := l1 a
      have h0 := hlen a
      by_cases e : a = k
      · subst e
        simp only [if_true] at h1 ⊢
        have := degBound_self a
        omega
      · simp only [e, if_false] at h1 ⊢
        omega
    refine ⟨?_, ?_⟩
    · intro a
      simp only []
      cases hp : po with
      | none =>
        simp only []
        have := b1 a
        by_cases e : a = k
        · simp only [e, if_true] at this; rw [e]; exact this
        · simp only [e, if_false] at this
          exact Nat.le_trans this (degBound_mono k a)
      | some p =>
        simp only []
        have hpk := hprev p hp
        have l2 := addEdge_nexts_length g1 p k a
        have hb := b1 a
        by_cases e2 : a = p
        · subst e2
          have hak : ¬ a = k := by omega
          simp only [if_true] at l2
          simp only [hak, if_false] at hb
          have := degBound_prev k a hpk
          omega
        · simp only [e2, if_false] at l2
          by_cases e : a = k
          · simp only [e, if_true] at hb; rw [e] at l2 ⊢; omega
          · simp only [e, if_false] at hb
            have := degBound_mono k a
            omega
    · intro p hp
      simp only [] at hp
      split at hp
      · exact absurd hp (by simp)
      · injection hp with hp; omega

theorem dirLoop_len (m : Nat) : ∀ (k : Nat) (st st' : Cfg × Option Nat),
    DirLen k st → dirLoop (List.range' k m) st = .ok st' → DirLen (k + m) st' := by
  induction m with
  | zero =>
    intro k st st' h hs
    simp [List.range', dirLoop] at hs
    subst hs; exact h
  | succ m ih =>
    intro k st st' h hs
    rw [List.range'_succ] at hs
    unfold dirLoop at hs
    cases hd : dirStep st k with
    | error e => rw [hd] at hs; simp at hs
    | ok st1 =>
      rw [hd] at hs
      simp only [] at hs
      have := ih (k + 1) st1 st' (dirStep_len k st st1 h hd) hs
      have e : k + 1 + m = k + (m + 1) := by omega
      rw [e] at this
      exact this

/-- the direction pass gives every node at most two successors, all in range -/
theorem directions_outSmall (g0 g1 : Cfg) (hno : ∀ i, (g0.get i).nexts = [] ∧ (g0.get i).prevs = [])
    (hd : directions g0 = .ok g1) : OutSmall g1 := by
  obtain ⟨same, edges⟩ := directions_edges g0 g1 hno hd
  refine ⟨?_, ?_⟩
  · intro a
    unfold directions at hd
    split at hd
    · rename_i st hst
      injection hd with hd
      subst hd
      rw [List.range_eq_range'] at hst
      have h0 : DirLen 0 (g0, none) := ⟨fun a => by simp [(hno a).1], fun p hp => by simp at hp⟩
      have := (dirLoop_len g0.nodes.size 0 (g0, none) st h0 hst).len a
      unfold degBound at this
      split at this
      · exact this
      · split at this <;> omega
    · exact absurd hd (by simp)
  · intro a b hb
    rw [same.1]
    rcases (edges a b).1 hb with ⟨_, hlt, _⟩ | ⟨_, l, _, hf⟩
    · exact hlt
    · exact findLabel_lt g0 l.val b hf

/-! ### edge-removing passes keep it -/

/-- same size, and every successor list is a sublist of what it was -/
def NextsSub (g g' : Cfg) : Prop :=
  g'.nodes.size = g.nodes.size ∧ ∀ y, ((g'.get y).nexts).Sublist (g.get y).nexts

theorem NextsSub.refl (g : Cfg) : NextsSub g g := ⟨rfl, fun _ => List.Sublist.refl _⟩
theorem NextsSub.trans {a b c : Cfg} (h1 : NextsSub a b) (h2 : NextsSub b c) : NextsSub a c :=
  ⟨h2.1.trans h1.1, fun y => (h2.2 y).trans (h1.2 y)⟩

theorem NextsSub.outSmall {g g' : Cfg} (h : NextsSub g g') (hs : OutSmall g) : OutSmall g' :=
  ⟨fun a => Nat.le_trans (h.2 a).length_le (hs.deg a),
   fun a b hb => by rw [h.1]; exact hs.lt a b ((h.2 a).subset hb)⟩

theorem cutOut_nextsSub (g : Cfg) (i : Nat) : NextsSub g (g.cutOut i) := by
  refine ⟨?_, ?_⟩
  · rw [cutOut_eq, Cfg.size_modify, dropPrevs_size]
  · intro y
    rw [cutOut_eq, Cfg.get_modify]
    split
    · simp
    · rw [(dropPrevs_get i _ g y).1]
      exact List.Sublist.refl _

theorem removeNat_sublist (x : Nat) (l : List Nat) : (removeNat x l).Sublist l := by
  unfold removeNat; exact List.filter_sublist

theorem cutIn_nextsSub (g : Cfg) (i : Nat) : NextsSub g (g.cutIn i) := by
  refine ⟨?_, ?_⟩
  · rw [cutIn_eq, Cfg.size_modify, dropNexts_size]
  · intro y
    rw [cutIn_eq, Cfg.get_modify]
    have key : ((dropNexts i (g.get i).prevs g).get y).nexts.Sublist (g.get y).nexts := by
      rw [(dropNexts_get i _ g y).2]
      split
      · exact removeNat_sublist _ _
      · exact List.Sublist.refl _
    split
    · exact key
    · exact key

theorem deadStep_nextsSub (g : Cfg) (i : Nat) : NextsSub g (deadStep g i) := by
  unfold deadStep
  simp only []
  split
  · exact NextsSub.refl g
  · split
    · split
      · exact (cutIn_nextsSub g i).trans (cutOut_nextsSub _ i)
      · exact cutIn_nextsSub g i
    · split
      · exact cutOut_nextsSub g i
      · exact NextsSub.refl g

theorem foldl_nextsSub (f : Cfg → Nat → Cfg) (hf : ∀ g i, NextsSub g (f g i)) (l : List Nat) (g : Cfg) :
    NextsSub g (l.foldl f g) := by
  induction l generalizing g with
  | nil => exact NextsSub.refl g
  | cons i rest ih => exact (hf g i).trans (ih (f g i))

theorem deadSweep_nextsSub (g : Cfg) : NextsSub g (deadSweep g) := foldl_nextsSub deadStep deadStep_nextsSub _ g

theorem deadLoop_nextsSub (fuel : Nat) : ∀ g, NextsSub g (deadLoop fuel g) := by
  induction fuel with
  | zero => intro g; exact NextsSub.refl g
  | succ n ih =>
    intro g
    unfold deadLoop
    simp only []
    split
    · exact deadSweep_nextsSub g
    · exact (deadSweep_nextsSub g).trans (ih _)

theorem deadCode_nextsSub (g : Cfg) : NextsSub g (deadCode g) := deadLoop_nextsSub _ g

theorem ecallStep_nextsSub (g : Cfg) (i : Nat) : NextsSub g (ecallStep g i) := by
  unfold ecallStep
  split
  · exact cutOut_nextsSub g i
  · exact NextsSub.refl g

theorem ecallTerm_nextsSub (g : Cfg) : NextsSub g (ecallTerm g) := foldl_nextsSub ecallStep ecallStep_nextsSub _ g

theorem edgesSame_outSmall {g g' : Cfg} (h : EdgesSame g g') (hsz : g'.nodes.size = g.nodes.size)
    (hs : OutSmall g) : OutSmall g' :=
  ⟨fun a => by rw [(h a).2.1]; exact hs.deg a,
   fun a b hb => by rw [hsz]; exact hs.lt a b (by rw [← (h a).2.1]; exact hb)⟩

/-! ### the value analysis keeps the number of nodes -/

theorem availNode_size (g : Cfg) (vis : List Nat) (i : Nat) : (availNode g vis i).1.nodes.size = g.nodes.size := by
  unfold availNode
  simp only []
  split
  · rfl
  · exact Cfg.size_modify _ _ _

theorem availSweep_size (g : Cfg) (vis : List Nat) : (availSweep g vis).1.nodes.size = g.nodes.size := by
  unfold availSweep
  generalize List.range g.nodes.size = l
  suffices ∀ (acc : Cfg × List Nat × Bool), acc.1.nodes.size = g.nodes.size →
      (l.foldl (fun (acc : Cfg × List Nat × Bool) i =>
        let (g, vis, ch) := acc
        let (g', c, did) := availNode g vis i
        (g', if did && !vis.contains i then i :: vis else vis, ch || c)) acc).1.nodes.size = g.nodes.size from
    this (g, vis, false) rfl
  induction l with
  | nil => intro acc h; exact h
  | cons i rest ih =>
    intro acc h
    obtain ⟨ga, visa, cha⟩ := acc
    simp only [List.foldl_cons]
    apply ih
    simp only []
    rw [availNode_size]; exact h

theorem availLoop_size (fuel : Nat) : ∀ (g : Cfg) (vis : List Nat), (availLoop fuel g vis).1.nodes.size = g.nodes.size := by
  induction fuel with
  | zero => intro g vis; rfl
  | succ n ih =>
    intro g vis
    unfold availLoop
    have hs := availSweep_size g vis
    generalize availSweep g vis = r at hs
    obtain ⟨g', vis', ch⟩ := r
    simp only [] at hs ⊢
    split
    · rw [ih]; exact hs
    · exact hs

theorem available_size (g : Cfg) : (available g).1.nodes.size = g.nodes.size := availLoop_size _ g []

/-! ### the walks of the markup pass all finish -/

theorem markStep_outSmall (desc : Bool) (g g' : Cfg) (e : Nat) (he : e < g.nodes.size) (h : OutSmall g)
    (hs : markStep desc g e = .ok g') : OutSmall g' ∧ g'.nodes.size = g.nodes.size := by
  unfold markStep at hs
  split at hs
  · injection hs with hs; subst hs; exact ⟨h, rfl⟩
  · simp only [] at hs
    obtain ⟨_, hsm, hsz⟩ := markLoop_terminates desc g e he h
    generalize markLoop desc e (markFuel g) { g := g, stack := [e] } = st at hs hsm hsz
    cases hr : st.ret with
    | none => rw [hr] at hs; simp at hs
    | some r =>
      rw [hr] at hs
      simp only [] at hs
      injection hs with hs
      subst hs
      exact ⟨⟨fun a => hsm.deg a, fun a b hb => hsm.lt a b hb⟩, hsz⟩

/-- **C11 / C06 (`markAllDone_true`).** On a graph with at most two successors per node, every
    walk of the markup pass ends within its fuel: the decidable side condition `markAllDone` of
    `body_is_reachable_set` always holds. -/
theorem markAllDone_true (desc : Bool) (l : List Nat) : ∀ (g : Cfg), OutSmall g →
    (∀ e ∈ l, e < g.nodes.size) → markAllDone desc l g = true := by
  induction l with
  | nil => intro g _ _; rfl
  | cons e rest ih =>
    intro g h hl
    have he : e < g.nodes.size := hl e List.mem_cons_self
    unfold markAllDone
    simp only []
    have hdone : (!(g.get e).node.isFunctionEntry ||
        (markLoop desc e (markFuel g) { g := g, stack := [e] }).stack.isEmpty) = true := by
      rw [(markLoop_terminates desc g e he h).1]; simp
    rw [hdone]
    cases hm : markStep desc g e with
    | error _ => rfl
    | ok g' =>
      simp only [Bool.true_and]
      obtain ⟨h', hsz⟩ := markStep_outSmall desc g g' e he h hm
      exact ih g' h' (fun x hx => by rw [hsz]; exact hl x (List.mem_cons_of_mem _ hx))

theorem markup_done (desc : Bool) (g : Cfg) (h : OutSmall g) :
    markAllDone desc (List.range g.nodes.size) g = true :=
  markAllDone_true desc _ g h (fun e he => by simpa using he)

/-- **C11 / C06 (`pipeline_markup_terminates`).** For every program whose graph construction,
    direction pass and first value analysis succeed, the graph handed to the function markup has
    at most two successors per node, so every function walk finishes within its fuel - whatever
    the program. -/
theorem pipeline_markup_terminates (desc : Bool) (nodes : List Node) (p : Option (List (W String)))
    (g0 g1 : Cfg) (h0 : buildCfg nodes p = .ok g0) (h1 : directions g0 = .ok g1) :
    let g4 := ecallTerm (available (deadCode g1)).1
    OutSmall g4 ∧ markAllDone desc (List.range g4.nodes.size) g4 = true := by
  have no0 := buildCfg_noEdges _ _ g0 h0
  have s1 := directions_outSmall g0 g1 no0 h1
  have s2 := (deadCode_nextsSub g1).outSmall s1
  have hsz : (available (deadCode g1)).1.nodes.size = (deadCode g1).nodes.size := available_size _
  have s3 := edgesSame_outSmall (available_edges (deadCode g1)) hsz s2
  have s4 := (ecallTerm_nextsSub _).outSmall s3
  exact ⟨s4, markup_done desc _ s4⟩

/-! ### the theorems of C11b / C16b without their per-program hypothesis -/

/-- **C11 (`markStep_body_total`).** On every graph with at most two successors per node - every
    graph the pipeline hands to the markup pass (`pipeline_markup_terminates`) - one step of the
    markup pass at a function entry adds exactly one function whose recorded body is exactly the
    set of nodes the entry reaches in the resulting graph. -/
theorem markStep_body_total (desc : Bool) (g g' : Cfg) (e : Nat) (he : e < g.nodes.size) (hs : OutSmall g)
    (hn : RetNoNext g) (hfe : (g.get e).node.isFunctionEntry = true) (h : markStep desc g e = .ok g') :
    ∃ f, g'.funcs = g.funcs ++ [f] ∧ f.entry = e ∧ ∀ n, n ∈ f.nodes ↔ Reach g' e n :=
  markStep_body desc g g' e hn hfe (markLoop_terminates desc g e he hs).1 h

/-- **C16 (`markStep_error_total`).** On every such graph, when the markup pass fails at a function
    entry, no instruction reachable from that entry is a return. -/
theorem markStep_error_total (desc : Bool) (g : Cfg) (e : Nat) (he : e < g.nodes.size) (hs : OutSmall g)
    (err : CfgErr) (hn : RetNoNext g) (h : markStep desc g e = .error err) :
    ∀ n, Reach (markLoop desc e (markFuel g) { g := g, stack := [e] }).g e n →
      ((markLoop desc e (markFuel g) { g := g, stack := [e] }).g.get n).node.isReturn = false :=
  markStep_error_no_return desc g e err hn h (markLoop_terminates desc g e he hs).1

end Rva
