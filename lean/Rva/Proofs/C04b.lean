/-
  C04 — the remaining four passes: exact silence conditions.

  `stack_silent`, `calleeSaved_silent`, `garbageInput_silent`, `overlapping_silent`; with the
  seven of C04 / C05b this pins, for every finished graph, when *each* of the eleven passes is
  silent (`lints_silent_iff`). What stays unproved for C04 is that the facts of every conforming
  program meet these conditions.
-/
import Rva.Proofs.C04
import Rva.Proofs.C05b
namespace Rva

/-- a node the stack pass walks past without a word -/
def StackQuiet (cn : CNode) : Prop :=
  ∃ off, AMap.get cn.regOut 2 = some (.ors 2 off) ∧ (0#32).slt off = false ∧
    ∀ r2 off2, cn.node.usesMemoryLocation = some (r2, off2) → r2 = 2 → (off2 + off).slt 0#32 = true

theorem stackGo_nil_iff (l : List CNode) (acc : List Diag) :
    lintStack.go l acc = [] ↔ acc = [] ∧ ∀ cn ∈ l, StackQuiet cn := by
  induction l generalizing acc with
  | nil => simp [lintStack.go]
  | cons cn rest ih =>
    unfold lintStack.go
    cases h2 : AMap.get cn.regOut 2 with
    | none =>
      simp only []
      constructor
      · intro h; simp at h
      · rintro ⟨_, h⟩
        obtain ⟨off, e, _⟩ := h cn List.mem_cons_self
        rw [h2] at e; simp at e
    | some v =>
      cases v with
      | ors r off =>
        simp only []
        by_cases hr : r = 2
        · subst hr
          simp only [bne_self_eq_false, Bool.false_eq_true, if_false]
          by_cases hpos : (0#32).slt off = true
          · simp only [hpos, if_true]
            constructor
            · intro h; simp at h
            · rintro ⟨_, h⟩
              obtain ⟨off', e, hp, _⟩ := h cn List.mem_cons_self
              rw [h2] at e
              injection e with e; injection e with _ e
              subst e; rw [hpos] at hp; simp at hp
          · have hpos' : (0#32).slt off = false := by simpa using hpos
            simp only [hpos', Bool.false_eq_true, if_false]
            cases hm : cn.node.usesMemoryLocation with
            | none =>
              simp only []
              rw [ih]
              constructor
              · rintro ⟨ha, hq⟩
                refine ⟨ha, ?_⟩
                intro c hc
                rcases List.mem_cons.mp hc with e | e
                · subst e
                  exact ⟨off, h2, hpos', fun r2 off2 hh => by rw [hm] at hh; simp at hh⟩
                · exact hq c e
              · rintro ⟨ha, hq⟩
                exact ⟨ha, fun c hc => hq c (List.mem_cons_of_mem _ hc)⟩
            | some p =>
              obtain ⟨r2, off2⟩ := p
              simp only []
              by_cases hbad : (r2 == 2 && !((off2 + off).slt 0#32)) = true
              · simp only [hbad, if_true]
                rw [ih]
                constructor
                · rintro ⟨ha, _⟩; simp at ha
                · rintro ⟨_, hq⟩
                  obtain ⟨off', e, _, hu⟩ := hq cn List.mem_cons_self
                  rw [h2] at e
                  injection e with e; injection e with _ e
                  subst e
                  simp only [Bool.and_eq_true, beq_iff_eq, Bool.not_eq_true'] at hbad
                  have := hu r2 off2 hm hbad.1
                  rw [hbad.2] at this; simp at this
              · have hbad' : (r2 == 2 && !((off2 + off).slt 0#32)) = false := by simpa using hbad
                simp only [hbad', Bool.false_eq_true, if_false]
                rw [ih]
                constructor
                · rintro ⟨ha, hq⟩
                  refine ⟨ha, ?_⟩
                  intro c hc
                  rcases List.mem_cons.mp hc with e | e
                  · subst e
                    refine ⟨off, h2, hpos', ?_⟩
                    intro r2' off2' hh hr2
                    rw [hm] at hh
                    injection hh with hh
                    injection hh with e1 e2
                    subst e1; subst e2
                    subst hr2
                    simp only [beq_self_eq_true, Bool.true_and, Bool.not_eq_false'] at hbad'
                    exact hbad'
                  · exact hq c e
                · rintro ⟨ha, hq⟩
                  exact ⟨ha, fun c hc => hq c (List.mem_cons_of_mem _ hc)⟩
        · have hr' : (r != 2) = true := by simpa using hr
          simp only [hr', if_true]
          constructor
          · intro h; simp at h
          · rintro ⟨_, h⟩
            obtain ⟨off', e, _⟩ := h cn List.mem_cons_self
            rw [h2] at e
            injection e with e; injection e with e _
            exact absurd e hr
      | _ =>
        simp only []
        constructor
        · intro h; simp at h
        · rintro ⟨_, h⟩
          obtain ⟨off', e, _⟩ := h cn List.mem_cons_self
          rw [h2] at e; simp at e

/-- **C04 (`stack_silent`).** The stack pass is silent exactly when at every node the stack
    pointer is a known position at or below its value at entry, and every access through it lies
    strictly below that value. -/
theorem stack_silent (g : Cfg) : lintStack g = [] ↔ ∀ cn ∈ g.nodes.toList, StackQuiet cn := by
  unfold lintStack
  rw [stackGo_nil_iff]
  simp

theorem firstLabel_none_iff (ls : List (W String)) : firstLabel ls = none ↔ ls = [] := by
  constructor
  · intro h
    cases ls with
    | nil => rfl
    | cons a t =>
      obtain ⟨m, hm, _⟩ := firstLabel_spec (a :: t) (by simp)
      rw [h] at hm; simp at hm
  · intro h; subst h; rfl

/-- **C04 (`overlapping_silent`).** -/
theorem overlapping_silent (g : Cfg) :
    lintOverlapping g = [] ↔ ∀ i, i < g.nodes.size →
      ((g.get i).funcs.length > 1 → (g.get i).funcs.contains i = true → (g.get i).labels = []) := by
  unfold lintOverlapping
  rw [filterMap_nil_iff]
  constructor
  · intro h i hi h1 h2
    have := h i (by simp [hi])
    simp only [h1, h2, decide_true, Bool.and_self, if_true] at this
    cases hl : firstLabel (g.get i).labels with
    | none => exact (firstLabel_none_iff _).mp hl
    | some a => rw [hl] at this; simp at this
  · intro h i hi
    have hi' : i < g.nodes.size := by simpa using hi
    by_cases hc : ((g.get i).funcs.length > 1 && (g.get i).funcs.contains i) = true
    · simp only [hc, if_true]
      simp only [Bool.and_eq_true, decide_eq_true_eq] at hc
      rw [h i hi' hc.1 hc.2]
      rfl
    · have hc' : ((g.get i).funcs.length > 1 && (g.get i).funcs.contains i) = false := by simpa using hc
      simp only [hc', Bool.false_eq_true, if_false]

/-- **C04 (`calleeSaved_silent`).** Silent exactly when, at the exit of every function (visited
    once per label), every callee-saved register either holds its entry value or has no writer
    on any path back from the exit. -/
theorem calleeSaved_silent (g : Cfg) :
    lintCalleeSaved g = [] ↔ ∀ lf ∈ g.labelFunc, ∀ f, g.funcOfEntry lf.2 = some f →
      ∀ r ∈ RegSet.toList calleeSavedSet,
        isOriginal (g.get f.exit).regIn r = true ∨ firstStore g f.exit r = [] := by
  unfold lintCalleeSaved
  rw [List.flatMap_eq_nil_iff]
  constructor
  · intro h lf hlf f hf r hr
    have := h lf (by simpa using hlf)
    simp only [calleeSavedAt, hf, List.flatMap_eq_nil_iff] at this
    have := this r hr
    by_cases ho : isOriginal (g.get f.exit).regIn r = true
    · exact Or.inl ho
    · simp only [ho, Bool.false_eq_true, if_false, List.map_eq_nil_iff] at this
      exact Or.inr this
  · intro h lf hlf
    unfold calleeSavedAt
    cases hf : g.funcOfEntry lf.2 with
    | none => rfl
    | some f =>
      simp only [List.flatMap_eq_nil_iff]
      intro r hr
      rcases h lf (by simpa using hlf) f hf r hr with ho | hs
      · simp [ho]
      · by_cases ho : isOriginal (g.get f.exit).regIn r = true
        · simp [ho]
        · simp [ho, hs]

/-- **C04 (`garbageInput_silent`).** Silent exactly when no register that is live into the
    program entry beyond the program's arguments, or live into a function entry beyond its
    inferred arguments and the callee-saved registers, has a first use. -/
theorem garbageInput_silent (g : Cfg) :
    lintGarbageInput g = [] ↔ ∀ i, i < g.nodes.size → garbageAt g i = [] := by
  unfold lintGarbageInput
  rw [List.flatMap_eq_nil_iff]
  constructor
  · intro h i hi; exact h i (by simp [hi])
  · intro h i hi; exact h i (by simpa using hi)

theorem usageDiags_nil_iff (v : String) (g : Cfg) (i : Nat) (s : RegSet) :
    usageDiags v g i s = [] ↔ ∀ r ∈ RegSet.toList s, usageDiag v g i r = [] := by
  unfold usageDiags
  rw [List.flatMap_eq_nil_iff]

/-- **C04 (`lints_silent_iff`).** For every finished graph: the eleven passes together report
    nothing exactly when all eleven trigger conditions are absent. -/
theorem lints_silent_iff (g : Cfg) :
    runLints g = [] ↔
      -- 1 no computation targets the zero register (other than a `nop`)
      (∀ cn ∈ g.nodes.toList, ∀ rd, cn.node.writesTo = some rd → rd.val = 0 →
        cn.node.canSkipSaveChecks = true ∨ cn.node.isNop = true) ∧
      -- 2 no dead assignment, no use of a caller-saved register after a call
      (∀ i, i < g.nodes.size → (∀ d, ¬ DeadAssign g i d) ∧
        (∀ f nm, callsToFromCfg g (g.get i) = some (f, nm) →
          usageDiags "InvalidUseAfterCall" g i
            ((RegSet.diff callerSavedSet (funcReturns g f)) &&& (g.get i).liveOut) = [])) ∧
      -- 3 code lies in .text
      (∀ cn ∈ g.nodes.toList, cn.node.isInstruction = true → cn.isText = true) ∧
      -- 4 every ecall number is a known constant
      (∀ cn ∈ g.nodes.toList, cn.node.isEcall = true → (knownEcall cn).isSome = true) ∧
      -- 5 everything is reachable; functions are entered by calls only
      (∀ cn ∈ g.nodes.toList,
        (cn.node.isFunctionEntry = true → ∀ p ∈ cn.prevs, cn.funcs = [] ∨
          ((g.get p).node.isProgramEntry = false ∧
            ((g.get p).node.isUnconditionalJump = false ∨ ∀ f ∈ cn.funcs, f ∈ (g.get p).funcs))) ∧
        (cn.node.isFunctionEntry = false → cn.node.isProgramEntry = false → cn.prevs ≠ [])) ∧
      -- 6 nothing is read that the program / function was not given
      (∀ i, i < g.nodes.size → garbageAt g i = []) ∧
      -- 7 sp is a known position at or below entry, accesses lie below entry
      (∀ cn ∈ g.nodes.toList, StackQuiet cn) ∧
      -- 8 callee-saved registers hold their entry values at every exit
      (∀ lf ∈ g.labelFunc, ∀ f, g.funcOfEntry lf.2 = some f → ∀ r ∈ RegSet.toList calleeSavedSet,
        isOriginal (g.get f.exit).regIn r = true ∨ firstStore g f.exit r = []) ∧
      -- 9 no saved register is read while it still holds its entry value
      (∀ cn ∈ g.nodes.toList, ∀ rd, ¬ GarbageRead cn rd) ∧
      -- 10 no saved register is overwritten before it was stored
      (∀ cn ∈ g.nodes.toList, ∀ rd, ¬ LostValue cn rd) ∧
      -- 11 no labelled entry lies in several functions
      (∀ i, i < g.nodes.size →
        ((g.get i).funcs.length > 1 → (g.get i).funcs.contains i = true → (g.get i).labels = [])) := by
  rw [runLints_nil_iff, saveToZero_silent, deadValue_silent, invalidSegment_silent, unknownEcall_silent,
    controlFlow_silent, garbageInput_silent, stack_silent, calleeSaved_silent, garbageRead_silent,
    lostRegister_silent, overlapping_silent]

end Rva
