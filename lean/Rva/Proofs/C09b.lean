/-
  C09 at the parser level — the text range a statement accumulates.

  `Tracked m`: running the parser computation `m` consumes a prefix of the items, and the raw
  token (text, range, file) it has accumulated afterwards is the one obtained by folding the
  consumed items into the raw token it started with (`rawAfter`): nothing else ever touches it.
  For a statement that starts with a fresh accumulator and consumes tokens `t1 … tn`, the
  accumulated range therefore runs from the start of `t1` to the end of `tn`
  (`rawAfter_range`): "mnemonic through last operand".
-/
import Rva.Proofs.C07b
namespace Rva

/-- what `get_any` does to the accumulated raw token -/
def rawStep (raw : RawTok) (it : PItem) : RawTok :=
  match it with
  | .tok t =>
    if raw == RawTok.default then t.raw
    else ⟨raw.text ++ " " ++ t.text, ⟨raw.range.start, t.range.stop⟩, raw.file⟩
  | _ => raw

def rawAfter (raw : RawTok) (l : List PItem) : RawTok := l.foldl rawStep raw

def Tracked {α} (m : P α) : Prop :=
  ∀ s : PState, ∃ c, s.items = c ++ (runP m s).2.items ∧ (runP m s).2.raw = rawAfter s.raw c

theorem Tracked.spec {α} {m : P α} (h : Tracked m) (s : PState) :
    ∃ c, s.items = c ++ (runP m s).2.items ∧ (runP m s).2.raw = rawAfter s.raw c := h s

theorem tracked_pure {α} (a : α) : Tracked (pure a : P α) := by
  intro s; rw [runP_pure]; exact ⟨[], by simp, rfl⟩

theorem tracked_throw {α} (e : LexErr) : Tracked (throw e : P α) := by
  intro s; rw [runP_throw]; exact ⟨[], by simp, rfl⟩

theorem tracked_bind {α β} {m : P α} {f : α → P β} (hm : Tracked m) (hf : ∀ a, Tracked (f a)) :
    Tracked (m >>= f) := by
  intro s
  rw [runP_bind]
  obtain ⟨c1, h1, r1⟩ := hm s
  cases h : runP m s with
  | mk r s' =>
    rw [h] at h1 r1
    simp only [] at h1 r1
    cases r with
    | ok a =>
      simp only []
      obtain ⟨c2, h2, r2⟩ := hf a s'
      refine ⟨c1 ++ c2, ?_, ?_⟩
      · rw [h1, h2]; simp
      · rw [r2, r1]; simp [rawAfter, List.foldl_append]
    | error e =>
      simp only []
      exact ⟨c1, h1, r1⟩

theorem runP_get (s : PState) : runP (get : P PState) s = (.ok s, s) := rfl

theorem tracked_get : Tracked (get : P PState) := by
  intro s
  rw [runP_get]
  exact ⟨[], by simp, rfl⟩

theorem tracked_getAny : Tracked getAny := by
  intro s
  unfold getAny
  cases hs : s.items with
  | nil =>
    refine ⟨[], ?_, ?_⟩ <;>
    simp [runP, hs, bind, ExceptT.bind, ExceptT.mk, ExceptT.bindCont, ExceptT.run,
      StateT.bind, StateT.run, get, getThe, MonadStateOf.get, StateT.get, liftM, monadLift, MonadLift.monadLift,
      ExceptT.lift, pure, StateT.pure, throw, throwThe, MonadExceptOf.throw, Functor.map, StateT.map, rawAfter]
  | cons it rest =>
    refine ⟨[it], ?_, ?_⟩ <;> cases it <;>
    simp [runP, hs, bind, ExceptT.bind, ExceptT.mk, ExceptT.bindCont, ExceptT.run,
      StateT.bind, StateT.run, get, getThe, MonadStateOf.get, StateT.get, liftM, monadLift, MonadLift.monadLift,
      ExceptT.lift, set, StateT.set, pure, StateT.pure, ExceptT.pure, throw, throwThe, MonadExceptOf.throw,
      Functor.map, StateT.map, rawAfter, rawStep]

theorem tracked_peekAny : Tracked peekAny := by
  intro s
  unfold peekAny
  refine ⟨[], ?_, ?_⟩ <;>
  (cases hs : s.items with
   | nil =>
     simp [runP, hs, bind, ExceptT.bind, ExceptT.mk, ExceptT.bindCont, ExceptT.run,
       StateT.bind, StateT.run, get, getThe, MonadStateOf.get, StateT.get, liftM, monadLift, MonadLift.monadLift,
       ExceptT.lift, pure, StateT.pure, throw, throwThe, MonadExceptOf.throw, Functor.map, StateT.map, rawAfter]
   | cons it rest =>
     cases it <;>
     simp [runP, hs, bind, ExceptT.bind, ExceptT.mk, ExceptT.bindCont, ExceptT.run,
       StateT.bind, StateT.run, get, getThe, MonadStateOf.get, StateT.get, liftM, monadLift, MonadLift.monadLift,
       ExceptT.lift, pure, StateT.pure, ExceptT.pure, throw, throwThe, MonadExceptOf.throw,
       Functor.map, StateT.map, rawAfter])

theorem tracked_liftE {α} (e : Except LexErr α) : Tracked (liftE e) := by
  cases e with
  | ok a => exact tracked_pure a
  | error x => exact tracked_throw x

theorem tracked_getReg : Tracked getReg := tracked_bind tracked_getAny (fun _ => tracked_liftE _)
theorem tracked_getImm : Tracked getImm := tracked_bind tracked_getAny (fun _ => tracked_liftE _)
theorem tracked_getLabel : Tracked getLabel := tracked_bind tracked_getAny (fun _ => tracked_liftE _)
theorem tracked_getCsrImm : Tracked getCsrImm := tracked_bind tracked_getAny (fun _ => tracked_liftE _)
theorem tracked_getString : Tracked getString := tracked_bind tracked_getAny (fun _ => tracked_liftE _)

theorem tracked_expectRParen : Tracked expectRParen := by
  unfold expectRParen
  refine tracked_bind tracked_getAny (fun t => ?_)
  split
  · exact tracked_pure _
  · exact tracked_throw _

theorem tracked_rawNow : Tracked rawNow := by
  unfold rawNow
  exact tracked_bind tracked_get (fun _ => tracked_pure _)

theorem tracked_pseudoBranch (i : String) (m : FTok) (a b : W Reg) (l : W String) :
    Tracked (pseudoBranch i m a b l) := by
  unfold pseudoBranch
  exact tracked_bind tracked_rawNow (fun _ => tracked_pure _)

theorem tracked_dropBad : Tracked dropBad := by
  intro s
  rw [runP_dropBad]
  simp only []
  split
  · rename_i t k p rest heq
    exact ⟨[.strErr t k p], by simp [heq], by simp [rawAfter, rawStep]⟩
  · rename_i t rest heq
    exact ⟨[.unexpected t], by simp [heq], by simp [rawAfter, rawStep]⟩
  · exact ⟨[], by simp, rfl⟩

attribute [local irreducible] Tracked getReg getImm getLabel getCsrImm getString getAny peekAny expectRParen rawNow
  pseudoBranch liftE dropBad

macro "tr_step" : tactic => `(tactic| first
  | exact tracked_pure _
  | exact tracked_dropBad
  | exact tracked_getReg | exact tracked_getImm | exact tracked_getLabel | exact tracked_getCsrImm
  | exact tracked_getString | exact tracked_getAny | exact tracked_peekAny | exact tracked_expectRParen
  | exact tracked_rawNow | exact tracked_get
  | exact tracked_pseudoBranch _ _ _ _ _
  | exact tracked_throw _
  | apply tracked_bind
  | intro _
  | split)

set_option maxHeartbeats 4000000 in
theorem parseInst_tracked (m : FTok) (v : String) : Tracked (parseInst m v) := by
  unfold parseInst
  repeat' tr_step

theorem dataLoop_tracked (fuel : Nat) : ∀ acc, Tracked (dataLoop fuel acc) := by
  induction fuel with
  | zero => intro acc; unfold dataLoop; exact tracked_pure _
  | succ n ih =>
    intro acc
    unfold dataLoop
    repeat' (first | exact ih _ | tr_step)

theorem macroLoop_tracked (fuel : Nat) : Tracked (macroLoop fuel) := by
  induction fuel with
  | zero => unfold macroLoop; exact tracked_pure _
  | succ n ih =>
    unfold macroLoop
    repeat' (first | exact ih | tr_step)

theorem parseDirective_tracked (m : FTok) (d : String) : Tracked (parseDirective m d) := by
  unfold parseDirective
  repeat' (first | exact dataLoop_tracked _ _ | exact macroLoop_tracked _ | tr_step)

theorem parseNode_tracked : Tracked parseNode := by
  unfold parseNode
  repeat' (first | exact parseInst_tracked _ _ | exact parseDirective_tracked _ _ | tr_step)

/-! ### the node a successful statement parse returns carries the accumulated raw token -/

def EndsRaw (m : P Node) : Prop := ∀ s n s', runP m s = (.ok n, s') → n.tok = s'.raw

theorem EndsRaw.spec {m : P Node} (h : EndsRaw m) (s : PState) (n : Node) (s' : PState)
    (hr : runP m s = (.ok n, s')) : n.tok = s'.raw := h s n s' hr

theorem endsRaw_throw (e : LexErr) : EndsRaw (throw e : P Node) := by
  intro s n s' h; rw [runP_throw] at h; simp at h

theorem endsRaw_bind {α} {m : P α} {f : α → P Node} (hf : ∀ a, EndsRaw (f a)) : EndsRaw (m >>= f) := by
  intro s n s' h
  rw [runP_bind] at h
  cases hm : runP m s with
  | mk r s1 =>
    rw [hm] at h
    cases r with
    | ok a => exact hf a s1 n s' h
    | error e => simp at h

theorem runP_rawNow (s : PState) : runP rawNow s = (.ok s.raw, s) := by with_unfolding_all rfl

theorem endsRaw_rawNow_pure (g : RawTok → Node) (hg : ∀ raw, (g raw).tok = raw) :
    EndsRaw (rawNow >>= fun raw => pure (g raw)) := by
  intro s n s' h
  rw [runP_bind, runP_rawNow] at h
  simp only [runP_pure, Prod.mk.injEq, Except.ok.injEq] at h
  rw [← h.1, ← h.2]; exact hg _

theorem pseudoRR_tok (sub : String) (m : FTok) (rd rs1 : W Reg) (raw : RawTok) (n : Node)
    (h : pseudoRR sub m rd rs1 raw = some n) : n.tok = raw := by
  unfold pseudoRR at h
  split at h <;> first | (injection h with h; subst h; rfl) | (simp at h)

theorem endsRaw_pseudoRR (sub : String) (m : FTok) (rd rs1 : W Reg) (e : LexErr) :
    EndsRaw (rawNow >>= fun raw => match pseudoRR sub m rd rs1 raw with
      | some n => pure n
      | none => throw e) := by
  intro s n s' h
  rw [runP_bind, runP_rawNow] at h
  simp only [] at h
  cases hp : pseudoRR sub m rd rs1 s.raw with
  | none => rw [hp] at h; simp only [runP_throw] at h; simp at h
  | some x =>
    rw [hp] at h
    simp only [runP_pure, Prod.mk.injEq, Except.ok.injEq] at h
    rw [← h.1, ← h.2]
    exact pseudoRR_tok sub m rd rs1 s.raw x hp

theorem endsRaw_pseudoBranch (i : String) (m : FTok) (a b : W Reg) (l : W String) :
    EndsRaw (pseudoBranch i m a b l) := by
  unfold pseudoBranch
  exact endsRaw_rawNow_pure _ (fun _ => rfl)

attribute [local irreducible] EndsRaw

macro "er_step" : tactic => `(tactic| first
  | exact endsRaw_throw _
  | exact endsRaw_pseudoBranch _ _ _ _ _
  | exact endsRaw_pseudoRR _ _ _ _ _
  | exact endsRaw_rawNow_pure _ (fun _ => rfl)
  | apply endsRaw_bind
  | intro _
  | split)

set_option maxHeartbeats 4000000 in
theorem parseInst_endsRaw (m : FTok) (v : String) : EndsRaw (parseInst m v) := by
  unfold parseInst
  repeat' er_step

theorem parseDirective_endsRaw (m : FTok) (d : String) : EndsRaw (parseDirective m d) := by
  unfold parseDirective
  repeat' er_step

theorem parseNode_endsRaw : EndsRaw parseNode := by
  unfold parseNode
  repeat' (first | exact parseInst_endsRaw _ _ | exact parseDirective_endsRaw _ _ | er_step)

/-! ### what the accumulated range is -/

/-- the end of the last token among the items (or `d` if there is none) -/
def lastStop (d : Pos) (l : List PItem) : Pos :=
  l.foldl (fun acc it => match it with | .tok t => t.range.stop | _ => acc) d

theorem append_sp_ne (a b : String) : a ++ " " ++ b ≠ "" := by
  intro h
  have := congrArg String.length h
  simp only [String.length_append] at this
  have h1 : (" " : String).length = 1 := by decide
  have h2 : ("" : String).length = 0 := by decide
  omega

theorem rawStep_nondefault (raw : RawTok) (h : raw ≠ RawTok.default) (it : PItem) :
    rawStep raw it ≠ RawTok.default ∧ (rawStep raw it).range.start = raw.range.start ∧
    (rawStep raw it).file = raw.file ∧
    (rawStep raw it).range.stop = (match it with | .tok t => t.range.stop | _ => raw.range.stop) := by
  cases it with
  | tok t =>
    have hb : (raw == RawTok.default) = false := by simpa using h
    simp only [rawStep, hb, Bool.false_eq_true, if_false]
    refine ⟨?_, trivial, trivial, trivial⟩
    intro hd
    have := congrArg RawTok.text hd
    simp only [RawTok.default] at this
    exact append_sp_ne _ _ this
  | strErr t k p => exact ⟨h, rfl, rfl, rfl⟩
  | unexpected t => exact ⟨h, rfl, rfl, rfl⟩

theorem rawAfter_nondefault (l : List PItem) : ∀ (raw : RawTok), raw ≠ RawTok.default →
    rawAfter raw l ≠ RawTok.default ∧ (rawAfter raw l).range.start = raw.range.start ∧
    (rawAfter raw l).file = raw.file ∧ (rawAfter raw l).range.stop = lastStop raw.range.stop l := by
  induction l with
  | nil => intro raw h; exact ⟨h, rfl, rfl, rfl⟩
  | cons it rest ih =>
    intro raw h
    obtain ⟨h1, h2, h3, h4⟩ := rawStep_nondefault raw h it
    obtain ⟨i1, i2, i3, i4⟩ := ih (rawStep raw it) h1
    simp only [rawAfter, List.foldl_cons] at *
    refine ⟨i1, i2.trans h2, i3.trans h3, ?_⟩
    rw [i4, h4]
    simp only [lastStop, List.foldl_cons]

/-- **C09 (`rawAfter_range`).** Starting from a fresh accumulator, consuming the token `t1` and then
    the items `rest` leaves a raw token in `t1`'s file whose range starts where `t1` starts and
    ends where the last consumed token ends. -/
theorem rawAfter_range (t1 : FTok) (rest : List PItem) (h : t1.raw ≠ RawTok.default) :
    (rawAfter RawTok.default (.tok t1 :: rest)).range.start = t1.range.start ∧
    (rawAfter RawTok.default (.tok t1 :: rest)).file = t1.file ∧
    (rawAfter RawTok.default (.tok t1 :: rest)).range.stop = lastStop t1.range.stop rest := by
  have e : rawAfter RawTok.default (.tok t1 :: rest) = rawAfter t1.raw rest := by
    simp [rawAfter, rawStep]
  rw [e]
  obtain ⟨_, h2, h3, h4⟩ := rawAfter_nondefault rest t1.raw h
  exact ⟨h2, h3, h4⟩

/-- **C09 (`parseStep_node_range`).** The node a successful statement parse returns carries as its
    location exactly what the consumed items accumulate from a fresh accumulator: the statement's
    text from its first token (the mnemonic, label or directive name) through its last operand. -/
theorem parseStep_node_range (items : List PItem) (n : Node) (rest : List PItem)
    (h : parseStep items = (.ok n, rest)) :
    ∃ c, items = c ++ rest ∧ n.tok = rawAfter RawTok.default c := by
  rw [parseStep_eq] at h
  simp only [Prod.mk.injEq] at h
  obtain ⟨hr, hrest⟩ := h
  obtain ⟨c, hc, hraw⟩ := parseNode_tracked.spec { items := items }
  refine ⟨c, ?_, ?_⟩
  · rw [← hrest]; exact hc
  · have := parseNode_endsRaw.spec { items := items } n (runP parseNode { items := items }).2 (by
      rw [← hr])
    rw [this, hraw]
