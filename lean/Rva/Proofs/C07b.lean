/-
  C07 / C06 at the parser level — what one statement parse does to the item stream.

  `Good m`: running the parser computation `m` from any state leaves a *suffix* of the items it
  started with (items are only ever consumed from the front, never re-read, re-ordered or
  invented), and `m` reports the end of the input only when no item is left.
-/
import Rva.Model.Parser
namespace Rva

def runP {α} (m : P α) (s : PState) : Except LexErr α × PState := (ExceptT.run m).run s

def Good {α} (m : P α) : Prop :=
  ∀ s : PState, (runP m s).2.items <:+ s.items ∧
    ((runP m s).1 = .error .unexpectedEOF → (runP m s).2.items = [])

theorem Good.spec {α} {m : P α} (h : Good m) (s : PState) : (runP m s).2.items <:+ s.items ∧
    ((runP m s).1 = .error .unexpectedEOF → (runP m s).2.items = []) := h s

theorem runP_pure {α} (a : α) (s : PState) : runP (pure a : P α) s = (.ok a, s) := rfl

theorem runP_throw {α} (e : LexErr) (s : PState) : runP (throw e : P α) s = (.error e, s) := rfl

theorem runP_bind {α β} (m : P α) (f : α → P β) (s : PState) :
    runP (m >>= f) s = match runP m s with
      | (.ok a, s') => runP (f a) s'
      | (.error e, s') => (.error e, s') := by
  simp only [runP, bind, ExceptT.bind, ExceptT.mk, ExceptT.run, StateT.bind, StateT.run, ExceptT.bindCont]
  cases h : (m s) with
  | mk r s' =>
    cases r with
    | ok a => simp [h]
    | error e => simp [h, pure, StateT.pure]

theorem good_pure {α} (a : α) : Good (pure a : P α) := by
  intro s; rw [runP_pure]; exact ⟨List.suffix_refl _, fun h => by simp at h⟩

theorem good_throw {α} (e : LexErr) (he : e ≠ .unexpectedEOF) : Good (throw e : P α) := by
  intro s; rw [runP_throw]
  exact ⟨List.suffix_refl _, fun h => by simp only [Except.error.injEq] at h; exact absurd h he⟩

theorem good_bind {α β} {m : P α} {f : α → P β} (hm : Good m) (hf : ∀ a, Good (f a)) : Good (m >>= f) := by
  intro s
  rw [runP_bind]
  have h1 := hm s
  cases h : runP m s with
  | mk r s' =>
    rw [h] at h1
    cases r with
    | ok a =>
      simp only []
      have h2 := hf a s'
      exact ⟨h2.1.trans h1.1, h2.2⟩
    | error e =>
      simp only [] at h1 ⊢
      refine ⟨h1.1, fun hh => h1.2 ?_⟩
      simp only [Except.error.injEq] at hh ⊢
      exact hh

theorem good_get : Good (get : P PState) := by
  intro s; exact ⟨List.suffix_refl _, fun h => by simp [runP, get, getThe, MonadStateOf.get, liftM, monadLift, MonadLift.monadLift, ExceptT.lift, ExceptT.run, ExceptT.mk, StateT.get, StateT.run, Functor.map, StateT.map, StateT.bind, bind, pure, StateT.pure] at h⟩

theorem good_getAny : Good getAny := by
  intro s
  unfold getAny
  cases hs : s.items with
  | nil =>
    simp [runP, hs, bind, ExceptT.bind, ExceptT.mk, ExceptT.bindCont, ExceptT.run,
      StateT.bind, StateT.run, get, getThe, MonadStateOf.get, StateT.get, liftM, monadLift, MonadLift.monadLift,
      ExceptT.lift, pure, StateT.pure, ExceptT.pure, throw, throwThe, MonadExceptOf.throw, Functor.map, StateT.map]
  | cons it rest =>
    cases it <;>
    simp [runP, hs, bind, ExceptT.bind, ExceptT.mk, ExceptT.bindCont, ExceptT.run,
      StateT.bind, StateT.run, get, getThe, MonadStateOf.get, StateT.get, liftM, monadLift, MonadLift.monadLift,
      ExceptT.lift, set, StateT.set, pure, StateT.pure, ExceptT.pure, throw, throwThe, MonadExceptOf.throw,
      Functor.map, StateT.map, List.suffix_cons]

theorem getAny_consumes (s : PState) (it : PItem) (rest : List PItem) (hs : s.items = it :: rest) :
    (runP getAny s).2.items = rest := by
  unfold getAny
  cases it <;>
  simp [runP, hs, bind, ExceptT.bind, ExceptT.mk, ExceptT.bindCont, ExceptT.run,
    StateT.bind, StateT.run, get, getThe, MonadStateOf.get, StateT.get, liftM, monadLift, MonadLift.monadLift,
    ExceptT.lift, set, StateT.set, pure, StateT.pure, ExceptT.pure, throw, throwThe, MonadExceptOf.throw,
    Functor.map, StateT.map]

theorem good_peekAny : Good peekAny := by
  intro s
  unfold peekAny
  cases hs : s.items with
  | nil =>
    simp [runP, hs, bind, ExceptT.bind, ExceptT.mk, ExceptT.bindCont, ExceptT.run,
      StateT.bind, StateT.run, get, getThe, MonadStateOf.get, StateT.get, liftM, monadLift, MonadLift.monadLift,
      ExceptT.lift, pure, StateT.pure, ExceptT.pure, throw, throwThe, MonadExceptOf.throw, Functor.map, StateT.map]
  | cons it rest =>
    cases it <;>
    simp [runP, hs, bind, ExceptT.bind, ExceptT.mk, ExceptT.bindCont, ExceptT.run,
      StateT.bind, StateT.run, get, getThe, MonadStateOf.get, StateT.get, liftM, monadLift, MonadLift.monadLift,
      ExceptT.lift, pure, StateT.pure, ExceptT.pure, throw, throwThe, MonadExceptOf.throw,
      Functor.map, StateT.map]

theorem good_liftE {α} (e : Except LexErr α) (h : e ≠ .error .unexpectedEOF) : Good (liftE e) := by
  cases e with
  | ok a => exact good_pure a
  | error x => exact good_throw x (fun hx => h (by rw [hx]))

theorem asReg_ne (t : FTok) : t.asReg ≠ .error .unexpectedEOF := by
  unfold FTok.asReg; split <;> (try split) <;> simp

theorem asImm_ne (t : FTok) : t.asImm ≠ .error .unexpectedEOF := by
  unfold FTok.asImm; split <;> simp

theorem asLabel_ne (t : FTok) : t.asLabel ≠ .error .unexpectedEOF := by
  unfold FTok.asLabel; split <;> (try split) <;> simp

theorem asCsrImm_ne (t : FTok) : t.asCsrImm ≠ .error .unexpectedEOF := by
  unfold FTok.asCsrImm; split <;> (try split) <;> simp

theorem asString_ne (t : FTok) : t.asString ≠ .error .unexpectedEOF := by
  unfold FTok.asString; split <;> simp

theorem good_getReg : Good getReg := good_bind good_getAny (fun t => good_liftE _ (asReg_ne t))
theorem good_getImm : Good getImm := good_bind good_getAny (fun t => good_liftE _ (asImm_ne t))
theorem good_getLabel : Good getLabel := good_bind good_getAny (fun t => good_liftE _ (asLabel_ne t))
theorem good_getCsrImm : Good getCsrImm := good_bind good_getAny (fun t => good_liftE _ (asCsrImm_ne t))
theorem good_getString : Good getString := good_bind good_getAny (fun t => good_liftE _ (asString_ne t))

theorem good_expectRParen : Good expectRParen := by
  unfold expectRParen
  refine good_bind good_getAny (fun t => ?_)
  split
  · exact good_pure _
  · exact good_throw _ (by simp)

theorem good_rawNow : Good rawNow := by
  unfold rawNow
  exact good_bind good_get (fun _ => good_pure _)

theorem runP_dropBad (s : PState) : runP dropBad s = (.ok (), match s.items with
    | .strErr .. :: rest => { s with items := rest }
    | .unexpected .. :: rest => { s with items := rest }
    | _ => s) := rfl

theorem good_dropBad : Good dropBad := by
  intro s
  rw [runP_dropBad]
  refine ⟨?_, fun h => by simp at h⟩
  simp only []
  split
  · rename_i heq; rw [heq]; exact List.suffix_cons _ _
  · rename_i heq; rw [heq]; exact List.suffix_cons _ _
  · exact List.suffix_refl _

theorem good_pseudoBranch (i : String) (m : FTok) (a b : W Reg) (l : W String) : Good (pseudoBranch i m a b l) := by
  unfold pseudoBranch
  exact good_bind good_rawNow (fun _ => good_pure _)

attribute [local irreducible] Good getReg getImm getLabel getCsrImm getString getAny peekAny expectRParen rawNow
  pseudoBranch liftE dropBad

macro "good_step" : tactic => `(tactic| first
  | exact good_pure _
  | exact good_dropBad
  | exact good_getReg | exact good_getImm | exact good_getLabel | exact good_getCsrImm | exact good_getString
  | exact good_getAny | exact good_peekAny | exact good_expectRParen | exact good_rawNow | exact good_get
  | exact good_pseudoBranch _ _ _ _ _
  | (refine good_throw _ ?_; simp; done)
  | apply good_bind
  | intro _
  | split)

set_option maxHeartbeats 4000000 in
theorem parseInst_good (m : FTok) (v : String) : Good (parseInst m v) := by
  unfold parseInst
  repeat' good_step

theorem dataLoop_good (fuel : Nat) : ∀ acc, Good (dataLoop fuel acc) := by
  induction fuel with
  | zero => intro acc; unfold dataLoop; exact good_pure _
  | succ n ih =>
    intro acc
    unfold dataLoop
    repeat' (first | exact ih _ | good_step)

theorem macroLoop_good (fuel : Nat) : Good (macroLoop fuel) := by
  induction fuel with
  | zero => unfold macroLoop; exact good_pure _
  | succ n ih =>
    unfold macroLoop
    repeat' (first | exact ih | good_step)

theorem parseDirective_good (m : FTok) (d : String) : Good (parseDirective m d) := by
  unfold parseDirective
  repeat' (first | exact dataLoop_good _ _ | exact macroLoop_good _ | good_step)

theorem parseNode_good : Good parseNode := by
  unfold parseNode
  repeat' (first | exact parseInst_good _ _ | exact parseDirective_good _ _ | good_step)

/-- what `parseNode` does after taking its first token -/
def parseNodeK (m : FTok) : P Node :=
  match m.kind with
  | .symbol =>
    match instFromStr m.payload with
    | some v => parseInst m v
    | none => throw (.expected ["INSTRUCTION"] m)
  | .label =>
    match labelFromStr m.payload with
    | some l => do pure (.label ⟨l, m⟩ (← rawNow))
    | none => throw (.expected ["LABEL"] m)
  | .directive =>
    match directiveFromStr m.payload with
    | some d => parseDirective m d
    | none => throw (.unknownDirective m)
  | .newline => throw (.isNewline m)
  | .lparen | .rparen | .string | .char => throw (.unexpectedToken m)
  | .comment => throw .ignoredWithoutWarning

theorem parseNode_eq : parseNode = getAny >>= parseNodeK := rfl

theorem parseNodeK_good (m : FTok) : Good (parseNodeK m) := by
  unfold parseNodeK
  repeat' (first | exact parseInst_good _ _ | exact parseDirective_good _ _ | good_step)

theorem parseStep_eq (items : List PItem) :
    parseStep items = ((runP parseNode { items := items }).1, (runP parseNode { items := items }).2.items) := rfl

/-- **C07 (`parseStep_suffix`).** One statement parse leaves a suffix of the items it was given:
    items are consumed from the front only - nothing is re-read, re-ordered or invented. -/
theorem parseStep_suffix (items : List PItem) : (parseStep items).2 <:+ items := by
  rw [parseStep_eq]
  exact (parseNode_good.spec { items := items }).1

/-- **C07 (`parseStep_eof`).** A statement parse reports the end of the input only when it has
    consumed every item: the parse loop never abandons a file while items remain unread. -/
theorem parseStep_eof (items : List PItem) (h : (parseStep items).1 = .error .unexpectedEOF) :
    (parseStep items).2 = [] := by
  rw [parseStep_eq] at h ⊢
  exact (parseNode_good.spec { items := items }).2 h

/-- **C07 / C06 (`parseStep_progress`).** A statement parse on a non-empty item list consumes at
    least its first item (whatever it is): the parse loop makes progress in every step. -/
theorem parseStep_progress (it : PItem) (rest : List PItem) : (parseStep (it :: rest)).2 <:+ rest := by
  rw [parseStep_eq, parseNode_eq, runP_bind]
  have hc := getAny_consumes { items := it :: rest } it rest rfl
  cases h : runP getAny { items := it :: rest } with
  | mk r s' =>
    rw [h] at hc
    simp only [] at hc
    cases r with
    | ok a =>
      simp only []
      have := ((parseNodeK_good a).spec s').1
      rw [hc] at this
      exact this
    | error e =>
      simp only []
      rw [hc]
      exact List.suffix_refl _

theorem parseStep_shorter (it : PItem) (rest : List PItem) :
    (parseStep (it :: rest)).2.length < (it :: rest).length := by
  have := (parseStep_progress it rest).length_le
  simp only [List.length_cons]
  omega

end Rva
