/-
  C02, second half — the computed liveness is the *least* solution.

  `PreSol g S`: the assignment `S` (live-in, live-out per node) is closed under the documented
  liveness rules of graph `g` (a pre-fixed point: every rule's right-hand side is contained in
  its left-hand side). `liveNode_below`: one node update keeps the current facts below every
  such `S`; `liveSweep_below`, `liveLoop_below`, `liveness_least`: so does every sweep, hence
  the result of the whole pass — for every graph, every visiting history, every number of
  sweeps. With `liveNode_stable` (the result is itself a solution once nothing changes) the
  result is the least solution: no register is reported live without a rule forcing it.
-/
import Rva.Proofs.C02
namespace Rva

/-- set inclusion of register sets, element-wise -/
def Sub (a b : RegSet) : Prop := ∀ r, RegSet.mem a r = true → RegSet.mem b r = true

theorem Sub.refl (a : RegSet) : Sub a a := fun _ h => h
theorem Sub.trans {a b c : RegSet} (h1 : Sub a b) (h2 : Sub b c) : Sub a c := fun r h => h2 r (h1 r h)

theorem mem_and (a b : RegSet) (r : Reg) : RegSet.mem (a &&& b) r = (RegSet.mem a r && RegSet.mem b r) := by
  simp [RegSet.mem]

theorem Sub.or {a b c : RegSet} (h1 : Sub a c) (h2 : Sub b c) : Sub (a ||| b) c := by
  intro r h
  rw [mem_or] at h
  rcases Bool.or_eq_true _ _ ▸ h with h | h
  · exact h1 r h
  · exact h2 r h

theorem Sub.or_left {a b c : RegSet} (h : Sub a b) : Sub a (b ||| c) := by
  intro r hr; rw [mem_or]; simp [h r hr]
theorem Sub.or_right {a b c : RegSet} (h : Sub a c) : Sub a (b ||| c) := by
  intro r hr; rw [mem_or]; simp [h r hr]

theorem Sub.diff {a b : RegSet} (k : RegSet) (h : Sub a b) : Sub (RegSet.diff a k) (RegSet.diff b k) := by
  intro r hr
  rw [mem_diff] at hr ⊢
  simp only [Bool.and_eq_true] at hr ⊢
  exact ⟨h r hr.1, hr.2⟩

theorem Sub.and {a b : RegSet} (k : RegSet) (h : Sub a b) : Sub (a &&& k) (b &&& k) := by
  intro r hr
  rw [mem_and] at hr ⊢
  simp only [Bool.and_eq_true] at hr ⊢
  exact ⟨h r hr.1, hr.2⟩

theorem Sub.unionOver (l : List RegSet) (c : RegSet) (h : ∀ x ∈ l, Sub x c) : Sub (unionOver l) c := by
  intro r hr
  obtain ⟨x, hx, hxr⟩ := (mem_unionOver l r).mp hr
  exact h x hx r hxr

/-- a candidate solution: (live-in, live-out) for every node index -/
abbrev Assign := Nat → RegSet × RegSet

/-- `S` is closed under the liveness rules of `g` (all five node kinds of liveness.rs). -/
def PreSol (g : Cfg) (S : Assign) : Prop :=
  ∀ i,
    let cn := g.get i
    let n := cn.node
    (∀ s ∈ cn.nexts, Sub (S s).1 (S i).2) ∧
    match callsToFromCfg g cn with
    | some (func, _) =>
      Sub (S i).2 (S func.exit).1 ∧
      Sub (((S func.entry).2 &&& argumentSet) ||| (RegSet.diff (S i).2 n.killReg) ||| n.genReg) (S i).1
    | none =>
      if n.isEcall then
        Sub ((RegSet.diff (S i).2 callerSavedSet) ||| ecallAlwaysArgumentSet |||
          ((ecallSignature cn).getD (0#32, 0#32)).1) (S i).1
      else if n.isReturn then Sub n.genReg (S i).1
      else Sub ((RegSet.diff (S i).2 n.killReg) ||| n.genReg) (S i).1

/-- the current facts of `g` are contained in `S` -/
def Below (g : Cfg) (S : Assign) : Prop :=
  ∀ i, Sub (g.get i).liveIn (S i).1 ∧ Sub (g.get i).liveOut (S i).2

/-- `g'` differs from `g` only in liveness facts -/
def SameShape (g g' : Cfg) : Prop :=
  g'.funcs = g.funcs ∧ g'.labelFunc = g.labelFunc ∧ g'.nodes.size = g.nodes.size ∧
  ∀ j, (g'.get j).node = (g.get j).node ∧ (g'.get j).nexts = (g.get j).nexts ∧
       (g'.get j).prevs = (g.get j).prevs ∧ (g'.get j).regIn = (g.get j).regIn

theorem SameShape.refl (g : Cfg) : SameShape g g := ⟨rfl, rfl, rfl, fun _ => ⟨rfl, rfl, rfl, rfl⟩⟩

theorem SameShape.trans {a b c : Cfg} (h1 : SameShape a b) (h2 : SameShape b c) : SameShape a c := by
  obtain ⟨f1, l1, s1, n1⟩ := h1
  obtain ⟨f2, l2, s2, n2⟩ := h2
  refine ⟨f2.trans f1, l2.trans l1, s2.trans s1, fun j => ?_⟩
  obtain ⟨a1, a2, a3, a4⟩ := n1 j
  obtain ⟨b1, b2, b3, b4⟩ := n2 j
  exact ⟨b1.trans a1, b2.trans a2, b3.trans a3, b4.trans a4⟩

/-- updating only liveness fields keeps the shape -/
theorem sameShape_modify (g : Cfg) (i : Nat) (f : CNode → CNode)
    (hf : ∀ m, (f m).node = m.node ∧ (f m).nexts = m.nexts ∧ (f m).prevs = m.prevs ∧ (f m).regIn = m.regIn) :
    SameShape g (g.modify i f) := by
  refine ⟨rfl, rfl, by simp [Cfg.modify], fun j => ?_⟩
  rw [Cfg.get_modify]
  split
  · exact hf _
  · exact ⟨rfl, rfl, rfl, rfl⟩

theorem below_modify (g : Cfg) (S : Assign) (i : Nat) (f : CNode → CNode) (hb : Below g S)
    (h1 : Sub (f (g.get i)).liveIn (S i).1) (h2 : Sub (f (g.get i)).liveOut (S i).2) :
    Below (g.modify i f) S := by
  intro j
  rw [Cfg.get_modify]
  split
  · rename_i hc; rw [← hc.1]; exact ⟨h1, h2⟩
  · exact hb j

theorem callsTo_shape (g g' : Cfg) (h : SameShape g g') (j : Nat) :
    callsToFromCfg g' (g'.get j) = callsToFromCfg g (g.get j) := by
  obtain ⟨hf, hl, _, hn⟩ := h
  unfold callsToFromCfg Cfg.funcOfLabel Cfg.funcOfEntry
  rw [(hn j).1, hf, hl]

theorem ecallSig_shape (g g' : Cfg) (h : SameShape g g') (j : Nat) :
    ecallSignature (g'.get j) = ecallSignature (g.get j) := by
  obtain ⟨_, _, _, hn⟩ := h
  unfold ecallSignature knownEcall
  rw [(hn j).1, (hn j).2.2.2]

/-- **One node update stays below every closed assignment** (and changes only liveness facts). -/
theorem liveNode_below (g0 g : Cfg) (S : Assign) (vis : List Nat) (i : Nat)
    (hp : PreSol g0 S) (hs : SameShape g0 g) (hb : Below g S) :
    Below (liveNode g vis i).1 S ∧ SameShape g0 (liveNode g vis i).1 := by
  have hpi := hp i
  simp only [] at hpi
  obtain ⟨hnext, hrule⟩ := hpi
  have hnode : (g.get i).node = (g0.get i).node := (hs.2.2.2 i).1
  have hnexts : (g.get i).nexts = (g0.get i).nexts := (hs.2.2.2 i).2.1
  -- live_out
  have hlo : Sub (unionOver ((g.get i).nexts.map fun s => (g.get s).liveIn)) (S i).2 := by
    apply Sub.unionOver
    intro x hx
    obtain ⟨s, hs1, rfl⟩ := List.mem_map.mp hx
    rw [hnexts] at hs1
    exact Sub.trans (hb s).1 (hnext s hs1)
  unfold liveNode
  simp only []
  generalize unionOver ((g.get i).nexts.map fun s => (g.get s).liveIn) = lo at hlo ⊢
  -- graph after storing live_out
  have hb1 : Below (g.modify i fun m => { m with liveOut := lo }) S :=
    below_modify g S i _ hb (hb i).1 hlo
  have hs1 : SameShape g0 (g.modify i fun m => { m with liveOut := lo }) :=
    SameShape.trans hs (sameShape_modify g i _ (fun _ => ⟨rfl, rfl, rfl, rfl⟩))
  generalize hg1 : (g.modify i fun m => { m with liveOut := lo }) = g1 at hb1 hs1 ⊢
  have hc1 : callsToFromCfg g1 (g.get i) = callsToFromCfg g0 (g0.get i) := by
    have : callsToFromCfg g1 (g.get i) = callsToFromCfg g (g.get i) := by subst hg1; rfl
    rw [this]; exact callsTo_shape g0 g hs i
  have hsig : ecallSignature (g.get i) = ecallSignature (g0.get i) := ecallSig_shape g0 g hs i
  rw [hc1]
  cases hcall : callsToFromCfg g0 (g0.get i) with
  | some p =>
    obtain ⟨func, name⟩ := p
    rw [hcall] at hrule
    simp only [] at hrule ⊢
    obtain ⟨hexit, hin⟩ := hrule
    -- live_in of the callee's exit
    have hb2 : Below (g1.modify func.exit fun m => { m with liveIn := lo ||| (g1.get func.exit).liveIn }) S :=
      below_modify g1 S func.exit _ hb1 (Sub.or (Sub.trans hlo hexit) (hb1 func.exit).1) (hb1 func.exit).2
    have hs2 : SameShape g0 (g1.modify func.exit fun m => { m with liveIn := lo ||| (g1.get func.exit).liveIn }) :=
      SameShape.trans hs1 (sameShape_modify g1 func.exit _ (fun _ => ⟨rfl, rfl, rfl, rfl⟩))
    generalize (g1.modify func.exit fun m => { m with liveIn := lo ||| (g1.get func.exit).liveIn }) = g2 at hb2 hs2 ⊢
    constructor
    · apply below_modify g2 S i _ hb2
      · simp only []
        rw [hnode]
        refine Sub.trans (Sub.or (Sub.or ?_ ?_) ?_) hin
        · exact Sub.or_left (Sub.or_left (Sub.and _ (hb2 func.entry).2))
        · exact Sub.or_left (Sub.or_right (Sub.diff _ hlo))
        · exact Sub.or_right (Sub.refl _)
      · exact (hb2 i).2
    · exact SameShape.trans hs2 (sameShape_modify g2 i _ (fun _ => ⟨rfl, rfl, rfl, rfl⟩))
  | none =>
    rw [hcall] at hrule
    simp only [] at hrule ⊢
    rw [hnode]
    rw [← hnode]
    by_cases he : (g.get i).node.isEcall = true
    · have he0 : (g0.get i).node.isEcall = true := by rw [← hnode]; exact he
      simp only [he, he0, if_true] at hrule ⊢
      constructor
      · apply below_modify g1 S i _ hb1
        · simp only []
          rw [hsig]
          refine Sub.trans (Sub.or (Sub.or ?_ ?_) ?_) hrule
          · exact Sub.or_left (Sub.or_left (Sub.diff _ hlo))
          · exact Sub.or_left (Sub.or_right (Sub.refl _))
          · exact Sub.or_right (Sub.refl _)
        · exact (hb1 i).2
      · exact SameShape.trans hs1 (sameShape_modify g1 i _ (fun _ => ⟨rfl, rfl, rfl, rfl⟩))
    · have he' : (g.get i).node.isEcall = false := by simpa using he
      have he0 : (g0.get i).node.isEcall = false := by rw [← hnode]; exact he'
      simp only [he', he0, Bool.false_eq_true, if_false] at hrule ⊢
      by_cases hr : (g.get i).node.isReturn = true
      · have hr0 : (g0.get i).node.isReturn = true := by rw [← hnode]; exact hr
        simp only [hr, hr0, if_true] at hrule ⊢
        constructor
        · apply below_modify g1 S i _ hb1
          · simp only []
            rw [hnode]
            exact Sub.or (hb i).1 hrule
          · exact (hb1 i).2
        · exact SameShape.trans hs1 (sameShape_modify g1 i _ (fun _ => ⟨rfl, rfl, rfl, rfl⟩))
      · have hr' : (g.get i).node.isReturn = false := by simpa using hr
        have hr0 : (g0.get i).node.isReturn = false := by rw [← hnode]; exact hr'
        simp only [hr', hr0, Bool.false_eq_true, if_false] at hrule ⊢
        have hin : Sub (RegSet.diff lo (g.get i).node.killReg ||| (g.get i).node.genReg) (S i).1 := by
          rw [hnode]
          exact Sub.trans (Sub.or (Sub.or_left (Sub.diff _ hlo)) (Sub.or_right (Sub.refl _))) hrule
        by_cases hf : (g.get i).node.isFunctionEntry = true
        · simp only [hf, if_true]
          constructor
          · apply below_modify g1 S i _ hb1
            · exact hin
            · exact (hb1 i).2
          · exact SameShape.trans hs1 (sameShape_modify g1 i _ (fun _ => ⟨rfl, rfl, rfl, rfl⟩))
        · have hf' : (g.get i).node.isFunctionEntry = false := by simpa using hf
          simp only [hf', Bool.false_eq_true, if_false]
          constructor
          · apply below_modify g1 S i _ hb1
            · exact hin
            · exact (hb1 i).2
          · exact SameShape.trans hs1 (sameShape_modify g1 i _ (fun _ => ⟨rfl, rfl, rfl, rfl⟩))

/-- every sweep stays below every closed assignment -/
theorem liveSweep_below (g0 g : Cfg) (S : Assign) (vis : List Nat)
    (hp : PreSol g0 S) (hs : SameShape g0 g) (hb : Below g S) :
    Below (liveSweep g vis).1 S ∧ SameShape g0 (liveSweep g vis).1 := by
  unfold liveSweep
  generalize (List.range g.nodes.size).reverse = l
  suffices ∀ (acc : Cfg × List Nat × Bool), Below acc.1 S → SameShape g0 acc.1 →
      Below (l.foldl (fun (acc : Cfg × List Nat × Bool) i =>
        let (g, vis, ch) := acc
        let (g', c) := liveNode g vis i
        (g', if vis.contains i then vis else i :: vis, ch || c)) acc).1 S ∧
      SameShape g0 (l.foldl (fun (acc : Cfg × List Nat × Bool) i =>
        let (g, vis, ch) := acc
        let (g', c) := liveNode g vis i
        (g', if vis.contains i then vis else i :: vis, ch || c)) acc).1 from this (g, vis, false) hb hs
  induction l with
  | nil => intro acc h1 h2; exact ⟨h1, h2⟩
  | cons i rest ih =>
    intro acc h1 h2
    obtain ⟨ga, visa, cha⟩ := acc
    simp only [List.foldl_cons]
    have := liveNode_below g0 ga S visa i hp h2 h1
    apply ih
    · exact this.1
    · exact this.2

theorem liveLoop_below (g0 : Cfg) (S : Assign) (hp : PreSol g0 S) (fuel : Nat) :
    ∀ (g : Cfg) (vis : List Nat), SameShape g0 g → Below g S →
      Below (liveLoop fuel g vis).1 S ∧ SameShape g0 (liveLoop fuel g vis).1 := by
  induction fuel with
  | zero => intro g vis hs hb; exact ⟨hb, hs⟩
  | succ n ih =>
    intro g vis hs hb
    unfold liveLoop
    have h := liveSweep_below g0 g S vis hp hs hb
    generalize liveSweep g vis = r at h
    obtain ⟨g', vis', ch⟩ := r
    simp only []
    split
    · exact ih g' vis' h.2 h.1
    · exact h

/-- **C02 (`liveness_least`).** Whatever the pass computes — on any graph, after any number of
    sweeps — is contained in every assignment closed under the liveness rules, provided the
    facts it started from are (the pipeline starts from empty sets). -/
theorem liveness_least (g : Cfg) (S : Assign) (hp : PreSol g S) (hb : Below g S) :
    Below (liveness g).1 S :=
  (liveLoop_below g S hp (liveFuel g) g [] (SameShape.refl g) hb).1

/-- the pipeline's starting point: no liveness facts yet -/
theorem below_of_empty (g : Cfg) (S : Assign)
    (h : ∀ i, (g.get i).liveIn = 0#32 ∧ (g.get i).liveOut = 0#32) : Below g S := by
  intro i
  rw [(h i).1, (h i).2]
  constructor <;> intro r hr <;> simp [RegSet.mem] at hr

/-! ### the result is itself a solution (fixed point) -/

theorem Cfg.modify_noop_eq (g : Cfg) (i : Nat) (f : CNode → CNode) (h : f (g.get i) = g.get i) :
    g.modify i f = g := by
  cases g with
  | mk nodes funcs lf =>
    simp only [Cfg.modify]
    congr 1
    apply Array.ext
    · simp
    · intro j h1 h2
      simp only [Array.getElem_modify]
      split
      · rename_i hij
        subst hij
        have : (Cfg.mk nodes funcs lf).get i = nodes[i] := by
          simp [Cfg.get, h2]
        rw [this] at h
        exact h
      · rfl

/-- a node update that reports no change leaves the graph as it is -/
theorem liveNode_noop (g : Cfg) (vis : List Nat) (i : Nat) (g' : Cfg)
    (h : liveNode g vis i = (g', false)) : g' = g := by
  unfold liveNode at h
  simp only [] at h
  generalize hlo : unionOver (List.map (fun s => (g.get s).liveIn) (g.get i).nexts) = lo at h
  generalize hg1 : (g.modify i fun m => { m with liveOut := lo }) = g1 at h
  have hc1 : callsToFromCfg g1 (g.get i) = callsToFromCfg g (g.get i) := by subst hg1; rfl
  rw [hc1] at h
  cases hcall : callsToFromCfg g (g.get i) with
  | some p =>
    obtain ⟨func, name⟩ := p
    rw [hcall] at h
    simp only [] at h
    injection h with hg hch
    simp only [Bool.or_eq_false_iff, bne_false] at hch
    obtain ⟨⟨⟨h0, h1⟩, h2⟩, h3⟩ := hch
    have e1 : g1 = g := by
      subst hg1
      exact Cfg.modify_noop_eq g i _ (by rw [h0])
    subst e1
    have e2 : (g1.modify func.exit fun m => { m with liveIn := lo ||| (g1.get func.exit).liveIn }) = g1 :=
      Cfg.modify_noop_eq g1 func.exit _ (by rw [h1])
    rw [e2] at hg h2 h3
    rw [← hg]
    exact Cfg.modify_noop_eq g1 i _ (by rw [h2, h3])
  | none =>
    rw [hcall] at h
    simp only [] at h
    by_cases he : (g.get i).node.isEcall = true
    · simp only [he, if_true] at h
      injection h with hg hch
      simp only [Bool.or_eq_false_iff, bne_false] at hch
      obtain ⟨⟨h0, h2⟩, h3⟩ := hch
      have e1 : g1 = g := by
        subst hg1; exact Cfg.modify_noop_eq g i _ (by rw [h0])
      subst e1
      rw [← hg]
      exact Cfg.modify_noop_eq g1 i _ (by rw [h2, h3])
    · have he' : (g.get i).node.isEcall = false := by simpa using he
      simp only [he', Bool.false_eq_true, if_false] at h
      by_cases hr : (g.get i).node.isReturn = true
      · simp only [hr, if_true] at h
        injection h with hg hch
        simp only [Bool.or_eq_false_iff, bne_false] at hch
        obtain ⟨⟨h0, h2⟩, h3⟩ := hch
        have e1 : g1 = g := by
          subst hg1; exact Cfg.modify_noop_eq g i _ (by rw [h0])
        subst e1
        rw [← hg]
        exact Cfg.modify_noop_eq g1 i _ (by rw [h2, h3])
      · have hr' : (g.get i).node.isReturn = false := by simpa using hr
        simp only [hr', Bool.false_eq_true, if_false] at h
        by_cases hf : (g.get i).node.isFunctionEntry = true
        · simp only [hf, if_true] at h
          injection h with hg hch
          simp only [Bool.or_eq_false_iff, bne_false] at hch
          obtain ⟨⟨h0, h2⟩, h3⟩ := hch
          have e1 : g1 = g := by
            subst hg1; exact Cfg.modify_noop_eq g i _ (by rw [h0])
          subst e1
          rw [← hg]
          exact Cfg.modify_noop_eq g1 i _ (by rw [h3, h2])
        · have hf' : (g.get i).node.isFunctionEntry = false := by simpa using hf
          simp only [hf', Bool.false_eq_true, if_false] at h
          injection h with hg hch
          simp only [Bool.or_eq_false_iff, bne_false] at hch
          obtain ⟨⟨h0, h2⟩, h3⟩ := hch
          have e1 : g1 = g := by
            subst hg1; exact Cfg.modify_noop_eq g i _ (by rw [h0])
          subst e1
          rw [← hg]
          exact Cfg.modify_noop_eq g1 i _ (by rw [h2, h3])

def sweepStep (acc : Cfg × List Nat × Bool) (i : Nat) : Cfg × List Nat × Bool :=
  let (g, vis, ch) := acc
  let (g', c) := liveNode g vis i
  (g', if vis.contains i then vis else i :: vis, ch || c)

theorem liveSweep_eq (g : Cfg) (vis : List Nat) :
    liveSweep g vis = (List.range g.nodes.size).reverse.foldl sweepStep (g, vis, false) := rfl

theorem sweep_fold_quiet (l : List Nat) :
    ∀ (acc : Cfg × List Nat × Bool), (l.foldl sweepStep acc).2.2 = false →
      acc.2.2 = false ∧ (l.foldl sweepStep acc).1 = acc.1 ∧
      ∀ i ∈ l, ∃ v, liveNode acc.1 v i = (acc.1, false) := by
  induction l with
  | nil => intro acc h; exact ⟨h, rfl, by simp⟩
  | cons i rest ih =>
    intro acc h
    simp only [List.foldl_cons] at h ⊢
    obtain ⟨h1, h2, h3⟩ := ih (sweepStep acc i) h
    obtain ⟨ga, visa, cha⟩ := acc
    simp only [sweepStep] at h1 h2 h3 ⊢
    cases hn : liveNode ga visa i with
    | mk gn c =>
      rw [hn] at h1 h2 h3
      simp only [Bool.or_eq_false_iff] at h1
      obtain ⟨hc1, hc2⟩ := h1
      subst hc2
      have hg : gn = ga := liveNode_noop ga visa i gn hn
      subst hg
      refine ⟨hc1, h2, ?_⟩
      intro j hj
      rcases List.mem_cons.mp hj with rfl | hj
      · exact ⟨visa, hn⟩
      · exact h3 j hj

/-- a sweep that reports no change left the graph as it was, and every node of it satisfies
    the liveness equations -/
theorem liveSweep_quiet (g : Cfg) (vis : List Nat) (g' : Cfg) (vis' : List Nat)
    (h : liveSweep g vis = (g', vis', false)) :
    g' = g ∧ ∀ i, i < g.nodes.size → LiveEqAt g i := by
  rw [liveSweep_eq] at h
  have hq := sweep_fold_quiet (List.range g.nodes.size).reverse (g, vis, false) (by rw [h])
  obtain ⟨_, h2, h3⟩ := hq
  rw [h] at h2
  refine ⟨h2, ?_⟩
  intro i hi
  obtain ⟨v, hv⟩ := h3 i (by simp [hi])
  exact liveNode_stable g v i g hv

/-- **C02 (`liveness_fixpoint`).** When the pass ends because a sweep changed nothing, the
    liveness equations hold at every node of the result. -/
theorem liveLoop_fixpoint (fuel : Nat) : ∀ (g : Cfg) (vis : List Nat) (g' : Cfg),
    liveLoop fuel g vis = (g', true) → ∀ i, i < g'.nodes.size → LiveEqAt g' i := by
  induction fuel with
  | zero => intro g vis g' h; simp [liveLoop] at h
  | succ n ih =>
    intro g vis g' h
    unfold liveLoop at h
    cases hsw : liveSweep g vis with
    | mk g1 r =>
      obtain ⟨vis1, ch⟩ := r
      rw [hsw] at h
      simp only [] at h
      cases ch with
      | true => simp only [if_true] at h; exact ih g1 vis1 g' h
      | false =>
        simp only [Bool.false_eq_true, if_false] at h
        injection h with hg _
        subst hg
        obtain ⟨e, hq⟩ := liveSweep_quiet g vis g1 vis1 hsw
        subst e
        exact hq

theorem liveness_fixpoint (g g' : Cfg) (h : liveness g = (g', true)) :
    ∀ i, i < g'.nodes.size → LiveEqAt g' i :=
  liveLoop_fixpoint (liveFuel g) g [] g' h

/-- non-vacuity: closed assignments exist for every graph (all 32 registers live everywhere) -/
theorem preSol_top (g : Cfg) : PreSol g (fun _ => (BitVec.allOnes 32, BitVec.allOnes 32)) := by
  have top : ∀ a : RegSet, Sub a (BitVec.allOnes 32) := by
    intro a r hr
    have hlt : r < 32 := by
      rcases Nat.lt_or_ge r 32 with h | hge
      · exact h
      · have : a.getLsbD r = false := BitVec.getLsbD_of_ge a r hge
        simp [RegSet.mem, this] at hr
    show (BitVec.allOnes 32).getLsbD r = true
    rw [BitVec.getLsbD_allOnes]; simp [hlt]
  intro i
  simp only []
  refine ⟨fun s _ => top _, ?_⟩
  split
  · exact ⟨top _, top _⟩
  · split
    · exact top _
    · split
      · exact top _
      · exact top _

/-- **C02, both halves together.** Started from empty facts, a run of the pass that ends
    because nothing changes returns facts that (a) satisfy the liveness equations at every node
    and (b) are contained in every assignment closed under the rules: the least solution. -/
theorem liveness_least_solution (g g' : Cfg) (h : liveness g = (g', true))
    (h0 : ∀ i, (g.get i).liveIn = 0#32 ∧ (g.get i).liveOut = 0#32) :
    (∀ i, i < g'.nodes.size → LiveEqAt g' i) ∧ ∀ S, PreSol g S → Below g' S := by
  refine ⟨liveness_fixpoint g g' h, fun S hp => ?_⟩
  have := liveness_least g S hp (below_of_empty g S h0)
  rw [h] at this
  exact this

end Rva
