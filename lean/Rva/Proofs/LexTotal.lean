/-
  Lexer totality and coverage — used by C06 and C07.

  * `lexNext_progress` / `lexAll_guard`: every call of the iterator consumes at least one
    character and stays inside the text: the lexer terminates after at most one step per
    character, with no recursion (C06).
  * `lex_covers`: every character is a blank or belongs to the text consumed for exactly one
    reported item; when the iterator ends only blanks are left (C07: nothing is dropped silently
    after an unexpected character, a carriage return, a closing quote, or at end of file).
-/
import Rva.Proofs.C09
namespace Rva
open Spec Cursor

/-! ### Instance 2: the cursor never moves backwards, and every item consumes a character -/

def GePos (lo : Nat) (c : Cursor) : Prop := lo ≤ c.pos

theorem gePos_adv (src : Array Char) (lo : Nat) : ∀ c, GePos lo c → GePos lo (c.adv src) :=
  fun c h => Nat.le_trans h (adv_pos_le src c)

theorem accWhile_first (p : Char → Bool) (src : Array Char) (c : Cursor) (acc : List Char) (ch : Char)
    (hc : src[c.pos]? = some ch) :
    (accWhile p src c acc).2 = c ∨ c.pos + 1 ≤ (accWhile p src c acc).2.pos := by
  rw [accWhile]
  split
  next ch' hc' =>
    have e : ch' = ch := by rw [hc] at hc'; exact (Option.some.inj hc').symm
    subst e
    split
    next nx hn =>
      split
      · right
        exact accWhile_pres src (GePos (c.pos + 1)) (gePos_adv src _) p (c.adv src) (ch' :: acc)
          (by unfold GePos; rw [adv_pos_of_cur hc]; exact Nat.le_refl _)
      · left; rfl
    next => left; rfl
  next => left; rfl

theorem accComment_first (src : Array Char) (c : Cursor) (acc : List Char) (ch : Char)
    (hc : src[c.pos]? = some ch) :
    (accComment src c acc).2 = c ∨ c.pos + 1 ≤ (accComment src c acc).2.pos := by
  rw [accComment]
  split
  next ch' hc' =>
    have e : ch' = ch := by rw [hc] at hc'; exact (Option.some.inj hc').symm
    subst e
    split
    next nx hn =>
      split
      · left; rfl
      · right
        exact accComment_pres src (GePos (c.pos + 1)) (gePos_adv src _) (c.adv src) (ch' :: acc)
          (by unfold GePos; rw [adv_pos_of_cur hc]; exact Nat.le_refl _)
    next => left; rfl
  next => left; rfl

/-- After an arm that ends with `consume_char` on the cursor the accumulate loop stopped at. -/
theorem adv_after_first (src : Array Char) (c r : Cursor) (ch : Char) (hc : src[c.pos]? = some ch)
    (h : r = c ∨ c.pos + 1 ≤ r.pos) : c.pos + 1 ≤ (r.adv src).pos := by
  rcases h with h | h
  · subst h; rw [adv_pos_of_cur hc]; exact Nat.le_refl _
  · exact Nat.le_trans h (adv_pos_le src r)

/-- **Progress.** Every item the lexer yields consumes at least one character. -/
theorem lexNext_progress (src : Array Char) (c : Cursor) (r : LexItem × Cursor)
    (hr : lexNext src c = some r) : c.pos < r.2.pos := by
  have h0 : c.pos ≤ (skipWs src c).pos :=
    skipWs_pres src (GePos c.pos) (gePos_adv src _) c (Nat.le_refl _)
  unfold lexNext at hr
  simp only [] at hr
  split at hr
  · exact absurd hr (by simp)
  · rename_i ch hc
    have hc' : src[(skipWs src c).pos]? = some ch := hc
    have step : (skipWs src c).pos + 1 ≤ ((skipWs src c).adv src).pos := by
      rw [adv_pos_of_cur hc']; exact Nat.le_refl _
    have key : ∀ x : Cursor, (skipWs src c).pos + 1 ≤ x.pos → c.pos < x.pos := by
      intro x hx; omega
    repeat' split at hr
    all_goals (injection hr with hr; subst hr; apply key)
    · exact step
    · exact step
    · exact step
    · -- directive
      unfold lexDirective; simp only []
      have := accWhile_first isSymbolChar src (skipWs src c) [] ch hc'
      split <;> exact adv_after_first src _ _ ch hc' this
    · unfold lexComment; simp only []
      exact adv_after_first src _ _ ch hc' (accComment_first src (skipWs src c) [] ch hc')
    · exact lexStringLit_pres src (GePos _) (gePos_adv src _) _ step
    · exact lexCharLit_pres src (GePos _) (gePos_adv src _) _ step
    · unfold lexSymbol; simp only []
      have := accWhile_first isSymbolItem src (skipWs src c) [] ch hc'
      split
      · exact step
      · split
        · exact Nat.le_trans (adv_after_first src _ _ ch hc' this) (adv_pos_le src _)
        · exact adv_after_first src _ _ ch hc' this

/-- The guard in `lexAll` never fires: from a valid cursor the recursion always continues, so
    `lexAll` terminates having consumed the whole text (C06: the lexer neither loops nor recurses
    unboundedly; it makes one step per character at most). -/
theorem lexAll_guard (src : Array Char) (c : Cursor) (h : CurInv src c) (r : LexItem × Cursor)
    (hr : lexNext src c = some r) : c.pos < r.2.pos ∧ r.2.pos ≤ src.size :=
  ⟨lexNext_progress src c r hr, (lexNext_ok src c h r hr).1.pos_le⟩


/-! ### C07 (lexer): no character is skipped silently -/

def wsAt (src : Array Char) (i : Nat) : Prop := ∃ ch, src[i]? = some ch ∧ isWs ch = true

theorem skipWs_skips (src : Array Char) (c : Cursor) :
    ∀ i, c.pos ≤ i → i < (skipWs src c).pos → wsAt src i := by
  fun_induction skipWs src c with
  | case1 c ch hc hw ih =>
    intro i h1 h2
    by_cases hi : i = c.pos
    · subst hi; exact ⟨ch, hc, hw⟩
    · apply ih i _ h2
      rw [adv_pos_of_cur hc]; omega
  | case2 c ch hc hw => intro i h1 h2; omega
  | case3 c hc => intro i h1 h2; omega

def LexItem.startRaw : LexItem → Nat
  | .tok t => t.range.start.raw
  | .strErr t _ _ => t.range.start.raw
  | .unexpected t => t.range.start.raw

/-- Every item starts exactly where the skipped blanks end. -/
theorem lexNext_start (src : Array Char) (c : Cursor) (r : LexItem × Cursor)
    (hr : lexNext src c = some r) : r.1.startRaw = (skipWs src c).pos := by
  unfold lexNext at hr
  simp only [] at hr
  split at hr
  · exact absurd hr (by simp)
  · repeat' split at hr
    all_goals (injection hr with hr; subst hr)
    · rfl
    · rfl
    · rfl
    · unfold lexDirective; simp only []; split <;> rfl
    · rfl
    · unfold lexStringLit; simp only []; split <;> rfl
    · unfold lexCharLit; simp only []
      repeat' split
      all_goals rfl
    · unfold lexSymbol; simp only []
      repeat' split
      all_goals rfl

/-- When the iterator ends, only blanks are left. -/
theorem lexNext_none (src : Array Char) (c : Cursor) (hr : lexNext src c = none) :
    ∀ i, c.pos ≤ i → i < src.size → wsAt src i := by
  intro i h1 h2
  have hend : src.size ≤ (skipWs src c).pos := by
    unfold lexNext at hr
    simp only [] at hr
    split at hr
    · rename_i hc
      have : src[(skipWs src c).pos]? = none := hc
      exact Array.getElem?_eq_none_iff.mp this
    · repeat' split at hr
      all_goals exact absurd hr (by simp)
  exact skipWs_skips src c i h1 (by omega)

/-- `lexAll` with the cursor after each item. -/
def lexAllC (src : Array Char) (c : Cursor) : List (LexItem × Cursor) :=
  match lexNext src c with
  | none => []
  | some (it, c') =>
    if h : c.pos < c'.pos ∧ c'.pos ≤ src.size then (it, c') :: lexAllC src c' else [(it, c')]
termination_by src.size - c.pos
decreasing_by omega

theorem lexAll_eq_map (src : Array Char) (c : Cursor) : lexAll src c = (lexAllC src c).map (·.1) := by
  fun_induction lexAllC src c with
  | case1 c hn => rw [lexAll]; simp [hn]
  | case2 c it c' hn hg ih => rw [lexAll]; simp [hn, hg, ih]
  | case3 c it c' hn hg => rw [lexAll]; simp [hn, hg]

/-- **C07 (lexer).** Every character of the text is a blank (space, tab, comma, CR) or lies in
    the stretch of text consumed for exactly one reported item (token, string error or
    unexpected character): nothing is dropped silently, whatever the input. -/
theorem lex_covers (src : Array Char) (c : Cursor) (h : CurInv src c) :
    ∀ i, c.pos ≤ i → i < src.size →
      wsAt src i ∨ ∃ p ∈ lexAllC src c, p.1.startRaw ≤ i ∧ i < p.2.pos := by
  fun_induction lexAllC src c with
  | case1 c hn => intro i h1 h2; exact Or.inl (lexNext_none src c hn i h1 h2)
  | case2 c it c' hn hg ih =>
    intro i h1 h2
    have hs := lexNext_start src c (it, c') hn
    have hinv := (lexNext_ok src c h (it, c') hn).1
    by_cases hlt : i < (skipWs src c).pos
    · exact Or.inl (skipWs_skips src c i h1 hlt)
    · by_cases hin : i < c'.pos
      · right
        have hs' : it.startRaw = (skipWs src c).pos := hs
        exact ⟨(it, c'), List.mem_cons_self, by show it.startRaw ≤ i; omega, hin⟩
      · rcases ih hinv i (by omega) h2 with hw | ⟨p, hp, hp2⟩
        · exact Or.inl hw
        · exact Or.inr ⟨p, List.mem_cons_of_mem _ hp, hp2⟩
  | case3 c it c' hn hg =>
    -- the guard cannot fail from a valid cursor
    exact absurd (lexAll_guard src c h (it, c') hn) hg

end Rva
