/-
  C01, third layer — instructions that do not change any register a claim can speak about
  (branches, plain jumps, returns), and soundness along execution paths.
-/
import Rva.Proofs.C01Transfer
namespace Rva

/-- instructions whose execution changes no integer register: conditional branches, `j`
    (`jal x0`), `ret` / `jr` (`jalr x0`), and stores (registers only; memory is not part of the
    register claims) -/
def Node.isQuiet : Node → Bool
  | .branch .. => true
  | .jumpLink _ rd _ _ => rd.val == 0
  | .jumpLinkR _ rd _ _ _ => rd.val == 0
  | .store .. => true
  | _ => false

theorem quiet_facts (n : Node) (hq : n.isQuiet = true) :
    n.callsTo = none ∧ n.isFunctionEntry = false ∧ n.isHandlerFunctionEntry = false ∧
    n.isProgramEntry = false ∧ n.isEcall = false ∧ n.genRegValue = none ∧
    (∀ inn, mathResult n inn = none) ∧ n.noMemRead ∧
    (n.writesTo = none ∨ ∃ w, n.writesTo = some w ∧ w.val = 0) := by
  cases n <;> simp [Node.isQuiet] at hq
  · -- jumpLink x0
    rename_i i rd name t
    refine ⟨by simp [Node.callsTo, hq], rfl, rfl, rfl, rfl, rfl, fun _ => rfl, ⟨rfl, fun _ _ => rfl⟩,
      Or.inr ⟨rd, rfl, hq⟩⟩
  · rename_i i rd rs1 imm t
    exact ⟨rfl, rfl, rfl, rfl, rfl, rfl, fun _ => rfl, ⟨rfl, fun _ _ => rfl⟩, Or.inr ⟨rd, rfl, hq⟩⟩
  · exact ⟨rfl, rfl, rfl, rfl, rfl, rfl, fun _ => rfl, ⟨rfl, fun _ _ => rfl⟩, Or.inl rfl⟩
  · exact ⟨rfl, rfl, rfl, rfl, rfl, rfl, fun _ => rfl, ⟨rfl, fun _ _ => rfl⟩, Or.inl rfl⟩

/-- the map before the rules of a quiet instruction is the in-map -/
theorem quiet_preRules (cn : CNode) (inReg : AMap Reg) (hq : cn.node.isQuiet = true) :
    preRules cn inReg = inReg := by
  obtain ⟨hcall, hfe, hhe, hpe, hec, hgen, _, _, hw⟩ := quiet_facts cn.node hq
  unfold preRules
  have hsig : ecallSignature { cn with regIn := inReg } = none := by
    unfold ecallSignature knownEcall; simp [hec]
  have hkill : RegSet.toList cn.node.killReg = [] := by
    unfold Node.killReg
    simp only [hcall, hfe, Option.isSome_none, Bool.or_self, Bool.false_eq_true, if_false]
    rcases hw with hw | ⟨w, hw, hw0⟩
    · rw [hw]; decide
    · rw [hw]
      simp only [hw0]
      decide
  simp only [hcall, hhe, hfe, hpe, hec, hsig, hgen, hkill, insertGen, Option.isSome_none,
    Bool.false_eq_true, if_false, Bool.false_and, List.foldl_nil]

/-- **quiet instructions are sound**: registers, entry values and label addresses unchanged ⇒
    every claim of the out-map holds after the instruction -/
theorem quiet_transfer_sound (cn : CNode) (inReg : AMap Reg) (inMem : AMap MemLoc) (s s' : MState)
    (hq : cn.node.isQuiet = true) (he0 : s.entry 0 = 0#32) (hs : Sound s inReg)
    (hreg : ∀ r, r ≠ 0 → s'.reg r = s.reg r) (hentry : s'.entry = s.entry) (haddr : s'.addr = s.addr) :
    Sound s' (nodeRegOut cn inReg inMem) := by
  obtain ⟨_, _, _, _, _, _, hmath, hnm, hw⟩ := quiet_facts cn.node hq
  apply rules_sound cn inReg inMem s' hnm (by rw [hentry]; exact he0)
  · rw [quiet_preRules cn inReg hq]
    intro k val hk0 hget
    exact claim_frame s s' k val (hreg k hk0) hentry haddr (hs k val hget)
  · intro rd x hwr hrd0 _
    rcases hw with hw | ⟨w, hw, hw0⟩
    · rw [hw] at hwr; simp at hwr
    · rw [hw] at hwr
      have : rd = w := (Option.some.inj hwr).symm
      subst this
      exact absurd hw0 hrd0
  · intro rd v _ _ hm
    rw [hmath] at hm; simp at hm

/-! ### along execution paths -/

/-- the facts of a finished run, as far as the register claims are concerned: maps have one
    entry per key, and at every visited node the in-map is the meet
    of the out-maps of its visited predecessors and the out-map is the transfer of the in-map
    (equalities as finite maps) -/
structure GoodFacts (g : Cfg) (V : List Nat) : Prop where
  wfIn : ∀ i, AMap.WF (g.get i).regIn
  wfOut : ∀ i, AMap.WF (g.get i).regOut
  vlt : ∀ i, i ∈ V → i < g.nodes.size
  eqIn : ∀ i, i ∈ V → ∀ k, AMap.get (g.get i).regIn k =
    AMap.get (meetOver (((g.get i).prevs.filter V.contains).map fun p => (g.get p).regOut)) k
  eqOut : ∀ i, i ∈ V → ∀ k, AMap.get (g.get i).regOut k =
    AMap.get (nodeRegOut (g.get i) (g.get i).regIn (g.get i).memIn) k

theorem sound_of_get_eq (s : MState) (a b : AMap Reg) (h : ∀ k, AMap.get a k = AMap.get b k)
    (hb : Sound s b) : Sound s a := fun r v hr => hb r v (by rw [← h]; exact hr)

/-- one machine step at node `i` that the layers above cover: a register-to-register
    instruction with its RV32IM effect, or an instruction that changes no register -/
inductive NodeStep (g : Cfg) (i : Nat) (s s' : MState) : Prop where
  | plain (rd : Reg) (v : Word) : plainValue s (g.get i).node = some (rd, v) → rd < 32 →
      s.reg 0 = 0#32 → PlainStep s s' rd v → NodeStep g i s s'
  | quiet : (g.get i).node.isQuiet = true → (∀ r, r ≠ 0 → s'.reg r = s.reg r) →
      s'.entry = s.entry → s'.addr = s.addr → NodeStep g i s s'

/-- executions that follow graph edges through visited nodes: `Exec g V i0 s0 j s'` — started
    at node `i0` in state `s0`, control is now at node `j` in state `s'` -/
inductive Exec (g : Cfg) (V : List Nat) (i0 : Nat) (s0 : MState) : Nat → MState → Prop where
  | start : Exec g V i0 s0 i0 s0
  | step (i j : Nat) (s s' : MState) : Exec g V i0 s0 i s → NodeStep g i s s' →
      i ∈ V → j ∈ V → i ∈ (g.get j).prevs → Exec g V i0 s0 j s'

/-- **C01 (`exec_sound`).** In a finished run, if the claims attached to the start of an
    execution hold there, then at every later point of the execution — any number of steps,
    any branching and looping, through register-to-register instructions, branches, jumps and
    stores — every register claim attached to the node about to execute holds in the machine
    state. -/
theorem exec_sound_inv (g : Cfg) (V : List Nat) (hf : GoodFacts g V) (i0 : Nat) (s0 : MState)
    (h0 : Sound s0 (g.get i0).regIn) (h0e : s0.entry 0 = 0#32) (j : Nat) (s' : MState)
    (he : Exec g V i0 s0 j s') : Sound s' (g.get j).regIn ∧ s'.entry 0 = 0#32 := by
  induction he with
  | start => exact ⟨h0, h0e⟩
  | step i j s s' _ hstep hi hj hedge ih =>
    obtain ⟨ihs, ihe⟩ := ih
    have hent : s'.entry 0 = 0#32 := by
      cases hstep with
      | plain rd v _ _ _ hp => rw [hp.entry]; exact ihe
      | quiet _ _ hentry _ => rw [hentry]; exact ihe
    -- out of node i
    have hout : Sound s' (g.get i).regOut := by
      apply sound_of_get_eq s' _ _ (hf.eqOut i hi)
      cases hstep with
      | plain rd v hval hrd hz hp =>
        exact plain_transfer_sound (g.get i) _ _ s s' rd v hval hrd hz ihe ihs hp
      | quiet hq hreg hentry haddr =>
        exact quiet_transfer_sound (g.get i) _ _ s s' hq ihe ihs hreg hentry haddr
    refine ⟨?_, hent⟩
    -- into node j: the meet over the visited predecessors, of which i is one
    apply sound_of_get_eq s' _ _ (hf.eqIn j hj)
    apply meetOver_sound s' _ _ (g.get i).regOut _ hout
    · intro m hm
      obtain ⟨p, _, rfl⟩ := List.mem_map.mp hm
      exact hf.wfOut p
    · apply List.mem_map.mpr
      refine ⟨i, ?_, rfl⟩
      rw [List.mem_filter]
      exact ⟨hedge, by simpa using hi⟩

theorem exec_sound (g : Cfg) (V : List Nat) (hf : GoodFacts g V) (i0 : Nat) (s0 : MState)
    (h0 : Sound s0 (g.get i0).regIn) (h0e : s0.entry 0 = 0#32) (j : Nat) (s' : MState)
    (he : Exec g V i0 s0 j s') : Sound s' (g.get j).regIn :=
  (exec_sound_inv g V hf i0 s0 h0 h0e j s' he).1

/-! ### the hypothesis of `exec_sound` is decidable: `goodFactsB` (run by the driver on every
    generated program, stage `good`) implies `GoodFacts` -/

theorem AMap.mem_of_get {κ : Type} [DecidableEq κ] (m : AMap κ) (k : κ) (v : AVal)
    (h : AMap.get m k = some v) : (k, v) ∈ m := by
  unfold AMap.get at h
  cases hf : m.find? (·.1 == k) with
  | none => rw [hf] at h; simp at h
  | some p =>
    rw [hf] at h
    simp only [Option.map_some, Option.some.injEq] at h
    have hp := List.mem_of_find?_eq_some hf
    have hk : p.1 = k := by simpa using List.find?_some hf
    have : p = (k, v) := by cases p; simp at hk h; simp [hk, h]
    rw [← this]; exact hp

theorem sameAs_get {κ : Type} [DecidableEq κ] (a b : AMap κ) (h : AMap.sameAs a b = true) (k : κ) :
    AMap.get a k = AMap.get b k := by
  unfold AMap.sameAs at h
  simp only [Bool.and_eq_true, List.all_eq_true, beq_iff_eq] at h
  obtain ⟨h1, h2⟩ := h
  cases ha : AMap.get a k with
  | some v =>
    have := h1 _ (AMap.mem_of_get a k v ha)
    exact this.symm
  | none =>
    cases hb : AMap.get b k with
    | none => rfl
    | some w =>
      have := h2 _ (AMap.mem_of_get b k w hb)
      simp only [] at this
      rw [ha] at this
      simp at this

theorem keysNodup_wf {κ : Type} [DecidableEq κ] (m : AMap κ) (h : keysNodup m = true) : AMap.WF m := by
  unfold AMap.WF
  induction m with
  | nil => simp
  | cons p rest ih =>
    simp only [keysNodup, Bool.and_eq_true, Bool.not_eq_true', List.any_eq_false, beq_iff_eq] at h
    simp only [List.map_cons, List.nodup_cons, List.mem_map, not_exists, not_and]
    refine ⟨?_, ih h.2⟩
    intro q hq he
    exact h.1 q hq he

theorem goodFactsB_sound (g : Cfg) (V : List Nat) (hv : V.all (· < g.nodes.size) = true)
    (h : goodFactsB g V = true) : GoodFacts g V := by
  unfold goodFactsB at h
  simp only [List.all_eq_true, List.mem_range, Bool.and_eq_true, Bool.or_eq_true, Bool.not_eq_true'] at h
  have hvlt : ∀ i, i ∈ V → i < g.nodes.size := by
    intro i hi
    simp only [List.all_eq_true, decide_eq_true_eq] at hv
    exact hv i hi
  -- out-of-range indices carry the default (empty) facts
  have hdef : ∀ i, ¬ i < g.nodes.size → (g.get i).regIn = [] ∧ (g.get i).regOut = [] := by
    intro i hi
    have : g.get i = default := by
      simp [Cfg.get, hi]
    rw [this]; exact ⟨rfl, rfl⟩
  refine ⟨?_, ?_, hvlt, ?_, ?_⟩
  · intro i
    by_cases hi : i < g.nodes.size
    · exact keysNodup_wf _ (h i hi).1.1
    · rw [(hdef i hi).1]; simp [AMap.WF]
  · intro i
    by_cases hi : i < g.nodes.size
    · exact keysNodup_wf _ (h i hi).1.2
    · rw [(hdef i hi).2]; simp [AMap.WF]
  · intro i hi k
    have := (h i (hvlt i hi)).2
    rcases this with hc | hc
    · have : V.contains i = true := by simpa using hi
      rw [this] at hc; simp at hc
    · exact sameAs_get _ _ hc.1 k
  · intro i hi k
    have := (h i (hvlt i hi)).2
    rcases this with hc | hc
    · have : V.contains i = true := by simpa using hi
      rw [this] at hc; simp at hc
    · exact sameAs_get _ _ hc.2 k

end Rva
