/-
  C03 — the successor and predecessor relations of the graph are exact inverses after every
  edge-mutating pass (`Symm`), for every graph: adding an edge (`addEdge_symm`), the direction
  pass (`directions_symm`), dead-code pruning (`deadCode_symm`), ecall termination
  (`ecallTerm_symm`). Out-of-range indices have no edges, so `Symm` also says every edge stays
  inside the node array (`Symm.nexts_lt`).
-/
import Rva.Model.Cfg
namespace Rva

theorem Cfg.get_eq (g : Cfg) (i : Nat) : g.get i = (g.nodes[i]?).getD default := by
  unfold Cfg.get
  by_cases h : i < g.nodes.size
  · simp [h]
  · simp [h]

theorem Cfg.size_modify (g : Cfg) (i : Nat) (f : CNode → CNode) :
    (g.modify i f).nodes.size = g.nodes.size := by
  simp [Cfg.modify]

theorem Cfg.get_modify (g : Cfg) (i j : Nat) (f : CNode → CNode) :
    (g.modify i f).get j = if i = j ∧ j < g.nodes.size then f (g.get j) else g.get j := by
  rw [Cfg.get_eq, Cfg.get_eq]
  simp only [Cfg.modify, Array.getElem?_modify]
  by_cases hij : i = j
  · subst hij
    by_cases h : i < g.nodes.size
    · simp [h]
    · simp [h]
  · simp [hij]

/-- prev/next are exact inverses (for all indices; out-of-range indices have no edges). -/
def Symm (g : Cfg) : Prop := ∀ a b, b ∈ (g.get a).nexts ↔ a ∈ (g.get b).prevs

theorem mem_insNat (x y : Nat) (l : List Nat) : y ∈ insNat x l ↔ y = x ∨ y ∈ l := by
  induction l with
  | nil => simp [insNat]
  | cons z zs ih =>
    unfold insNat
    split
    · simp
    · split
      · rename_i h1 h2
        have : x = z := by simpa using h2
        subst this; simp
      · simp [ih]; constructor
        · rintro (h | h | h) <;> simp [h]
        · rintro (h | h | h) <;> simp [h]

theorem mem_removeNat (x y : Nat) (l : List Nat) : y ∈ removeNat x l ↔ y ∈ l ∧ y ≠ x := by
  simp [removeNat]

/-- Adding the edge `a → b` (both in range) keeps prev/next inverse. -/
theorem addEdge_symm (g : Cfg) (a b : Nat) (ha : a < g.nodes.size) (hb : b < g.nodes.size)
    (h : Symm g) : Symm (g.addEdge a b) := by
  intro x y
  unfold Cfg.addEdge
  have hb' : b < (g.modify a fun n => { n with nexts := insNat b n.nexts }).nodes.size := by
    rw [Cfg.size_modify]; exact hb
  rw [Cfg.get_modify, Cfg.get_modify, Cfg.get_modify, Cfg.get_modify]
  have hxy := h x y
  by_cases h1 : a = x <;> by_cases h2 : b = y <;> by_cases h3 : b = x <;> by_cases h4 : a = y <;>
    simp_all [mem_insNat, Cfg.size_modify] <;> try omega


theorem default_prevs : (default : CNode).prevs = [] := rfl
theorem default_nexts : (default : CNode).nexts = [] := rfl

theorem Cfg.get_oob (g : Cfg) (i : Nat) (h : ¬ i < g.nodes.size) : g.get i = default := by
  rw [Cfg.get_eq]; simp [h]

theorem Symm.nexts_lt {g : Cfg} (h : Symm g) {a b : Nat} (hb : b ∈ (g.get a).nexts) :
    a < g.nodes.size ∧ b < g.nodes.size := by
  constructor
  · refine Classical.byContradiction fun hn => ?_
    rw [Cfg.get_oob g a hn, default_nexts] at hb; simp at hb
  · have := (h a b).mp hb
    refine Classical.byContradiction fun hn => ?_
    rw [Cfg.get_oob g b hn, default_prevs] at this; simp at this

/-- removing `i` from the `prevs` of every node in `l` -/
def dropPrevs (i : Nat) (l : List Nat) (g : Cfg) : Cfg :=
  l.foldl (fun g s => g.modify s fun m => { m with prevs := removeNat i m.prevs }) g

theorem dropPrevs_size (i : Nat) (l : List Nat) (g : Cfg) : (dropPrevs i l g).nodes.size = g.nodes.size := by
  induction l generalizing g with
  | nil => rfl
  | cons s rest ih => simp [dropPrevs, List.foldl_cons] at *; rw [ih]; exact Cfg.size_modify _ _ _

theorem dropPrevs_get (i : Nat) (l : List Nat) (g : Cfg) (y : Nat) :
    ((dropPrevs i l g).get y).nexts = (g.get y).nexts ∧
    ((dropPrevs i l g).get y).prevs =
      (if y ∈ l ∧ y < g.nodes.size then removeNat i (g.get y).prevs else (g.get y).prevs) := by
  induction l generalizing g with
  | nil => simp [dropPrevs]
  | cons s rest ih =>
    have := ih (g.modify s fun m => { m with prevs := removeNat i m.prevs })
    simp only [dropPrevs, List.foldl_cons] at *
    rw [this.1, this.2, Cfg.get_modify, Cfg.size_modify]
    by_cases hs : s = y
    · subst hs
      by_cases hlt : s < g.nodes.size
      · by_cases hin : s ∈ rest <;> simp [hlt, hin, removeNat]
      · simp [hlt]
    · have hs' : ¬ y = s := fun h => hs h.symm
      simp [hs, hs']

theorem cutOut_eq (g : Cfg) (i : Nat) :
    g.cutOut i = (dropPrevs i (g.get i).nexts g).modify i fun m => { m with nexts := [] } := rfl

theorem cutOut_symm (g : Cfg) (i : Nat) (h : Symm g) : Symm (g.cutOut i) := by
  intro x y
  rw [cutOut_eq, Cfg.get_modify, Cfg.get_modify, dropPrevs_size]
  have hx := dropPrevs_get i (g.get i).nexts g x
  have hy := dropPrevs_get i (g.get i).nexts g y
  by_cases hix : i = x
  · subst hix
    by_cases hlt : i < g.nodes.size
    · -- nexts of i are now empty; i has been removed from the prevs of all its successors
      simp only [hlt, and_self, if_true, List.not_mem_nil, false_iff]
      by_cases hiy : i = y
      · subst hiy
        simp only [hlt, and_self, if_true]
        rw [hy.2]
        by_cases hin : i ∈ (g.get i).nexts
        · simp [hin, hlt, mem_removeNat]
        · simp [hin]; exact fun hp => hin ((h i i).mpr hp)
      · simp only [hiy, false_and, if_false]
        rw [hy.2]
        by_cases hin : y ∈ (g.get i).nexts
        · have := (h.nexts_lt hin).2
          simp [hin, this, mem_removeNat]
        · simp [hin]; exact fun hp => hin ((h i y).mpr hp)
    · -- out of range: no edges at all
      have h0 : g.get i = default := Cfg.get_oob g i hlt
      have hn : (g.get i).nexts = [] := by rw [h0]; rfl
      simp only [hlt, and_false, if_false]
      rw [hn]
      simp only [dropPrevs, List.foldl_nil]
      rw [hn]
      simp only [List.not_mem_nil, false_iff]
      by_cases hiy : i = y
      · subst hiy; simp only [hlt, and_false, if_false]; rw [h0, default_prevs]; simp
      · simp only [hiy, false_and, if_false]
        intro hp
        have := (h i y).mpr hp
        rw [hn] at this; simp at this
  · simp only [hix, false_and, if_false]
    rw [hx.1]
    by_cases hiy : i = y
    · subst hiy
      by_cases hlt : i < g.nodes.size
      · simp only [hlt, and_self, if_true]
        rw [hy.2]
        have hxy := h x i
        by_cases hin : i ∈ (g.get i).nexts
        · simp [hin, hlt, mem_removeNat, hxy]; exact fun _ hxi => hix hxi.symm
        · simp [hin, hxy]
      · simp only [hlt, and_false, if_false]; rw [hy.2]
        have hxy := h x i
        by_cases hin : i ∈ (g.get i).nexts
        · simp [hin, hlt, hxy]
        · simp [hin, hxy]
    · simp only [hiy, false_and, if_false]
      rw [hy.2]
      have hxy := h x y
      by_cases hin : y ∈ (g.get i).nexts
      · have := (h.nexts_lt hin).2
        simp [hin, this, mem_removeNat, hxy]; exact fun _ hxi => hix hxi.symm
      · simp [hin, hxy]

/-- the same relation read from the other side -/
def Symm' (g : Cfg) : Prop := ∀ a b, b ∈ (g.get a).prevs ↔ a ∈ (g.get b).nexts

theorem symm_iff (g : Cfg) : Symm g ↔ Symm' g :=
  ⟨fun h a b => (h b a).symm, fun h a b => (h b a).symm⟩

theorem Symm'.prevs_lt {g : Cfg} (h : Symm' g) {a b : Nat} (hb : b ∈ (g.get a).prevs) :
    a < g.nodes.size ∧ b < g.nodes.size := by
  constructor
  · refine Classical.byContradiction fun hn => ?_
    rw [Cfg.get_oob g a hn, default_prevs] at hb; simp at hb
  · have := (h a b).mp hb
    refine Classical.byContradiction fun hn => ?_
    rw [Cfg.get_oob g b hn, default_nexts] at this; simp at this

/-- removing `i` from the `nexts` of every node in `l` -/
def dropNexts (i : Nat) (l : List Nat) (g : Cfg) : Cfg :=
  l.foldl (fun g s => g.modify s fun m => { m with nexts := removeNat i m.nexts }) g

theorem dropNexts_size (i : Nat) (l : List Nat) (g : Cfg) : (dropNexts i l g).nodes.size = g.nodes.size := by
  induction l generalizing g with
  | nil => rfl
  | cons s rest ih => simp [dropNexts, List.foldl_cons] at *; rw [ih]; exact Cfg.size_modify _ _ _

theorem dropNexts_get (i : Nat) (l : List Nat) (g : Cfg) (y : Nat) :
    ((dropNexts i l g).get y).prevs = (g.get y).prevs ∧
    ((dropNexts i l g).get y).nexts =
      (if y ∈ l ∧ y < g.nodes.size then removeNat i (g.get y).nexts else (g.get y).nexts) := by
  induction l generalizing g with
  | nil => simp [dropNexts]
  | cons s rest ih =>
    have := ih (g.modify s fun m => { m with nexts := removeNat i m.nexts })
    simp only [dropNexts, List.foldl_cons] at *
    rw [this.1, this.2, Cfg.get_modify, Cfg.size_modify]
    by_cases hs : s = y
    · subst hs
      by_cases hlt : s < g.nodes.size
      · by_cases hin : s ∈ rest <;> simp [hlt, hin, removeNat]
      · simp [hlt]
    · have hs' : ¬ y = s := fun h => hs h.symm
      simp [hs, hs']

theorem cutIn_eq (g : Cfg) (i : Nat) :
    g.cutIn i = (dropNexts i (g.get i).prevs g).modify i fun m => { m with prevs := [] } := rfl

theorem cutIn_symm' (g : Cfg) (i : Nat) (h : Symm' g) : Symm' (g.cutIn i) := by
  intro x y
  rw [cutIn_eq, Cfg.get_modify, Cfg.get_modify, dropNexts_size]
  have hx := dropNexts_get i (g.get i).prevs g x
  have hy := dropNexts_get i (g.get i).prevs g y
  by_cases hix : i = x
  · subst hix
    by_cases hlt : i < g.nodes.size
    · -- prevs of i are now empty; i has been removed from the nexts of all its successors
      simp only [hlt, and_self, if_true, List.not_mem_nil, false_iff]
      by_cases hiy : i = y
      · subst hiy
        simp only [hlt, and_self, if_true]
        rw [hy.2]
        by_cases hin : i ∈ (g.get i).prevs
        · simp [hin, hlt, mem_removeNat]
        · simp [hin]; exact fun hp => hin ((h i i).mpr hp)
      · simp only [hiy, false_and, if_false]
        rw [hy.2]
        by_cases hin : y ∈ (g.get i).prevs
        · have := (h.prevs_lt hin).2
          simp [hin, this, mem_removeNat]
        · simp [hin]; exact fun hp => hin ((h i y).mpr hp)
    · -- out of range: no edges at all
      have h0 : g.get i = default := Cfg.get_oob g i hlt
      have hn : (g.get i).prevs = [] := by rw [h0]; rfl
      simp only [hlt, and_false, if_false]
      rw [hn]
      simp only [dropNexts, List.foldl_nil]
      rw [hn]
      simp only [List.not_mem_nil, false_iff]
      by_cases hiy : i = y
      · subst hiy; simp only [hlt, and_false, if_false]; rw [h0, default_nexts]; simp
      · simp only [hiy, false_and, if_false]
        intro hp
        have := (h i y).mpr hp
        rw [hn] at this; simp at this
  · simp only [hix, false_and, if_false]
    rw [hx.1]
    by_cases hiy : i = y
    · subst hiy
      by_cases hlt : i < g.nodes.size
      · simp only [hlt, and_self, if_true]
        rw [hy.2]
        have hxy := h x i
        by_cases hin : i ∈ (g.get i).prevs
        · simp [hin, hlt, mem_removeNat, hxy]; exact fun _ hxi => hix hxi.symm
        · simp [hin, hxy]
      · simp only [hlt, and_false, if_false]; rw [hy.2]
        have hxy := h x i
        by_cases hin : i ∈ (g.get i).prevs
        · simp [hin, hlt, hxy]
        · simp [hin, hxy]
    · simp only [hiy, false_and, if_false]
      rw [hy.2]
      have hxy := h x y
      by_cases hin : y ∈ (g.get i).prevs
      · have := (h.prevs_lt hin).2
        simp [hin, this, mem_removeNat, hxy]; exact fun _ hxi => hix hxi.symm
      · simp [hin, hxy]


theorem cutIn_symm (g : Cfg) (i : Nat) (h : Symm g) : Symm (g.cutIn i) :=
  (symm_iff _).mpr (cutIn_symm' g i ((symm_iff g).mp h))


/-! ### the passes keep prev/next inverse -/

theorem deadStep_symm (g : Cfg) (i : Nat) (h : Symm g) : Symm (deadStep g i) := by
  unfold deadStep
  simp only []
  by_cases hc : ((g.get i).node.isReturn || (g.get i).node.isIndirectJump || (g.get i).node.isAnyEntry) = true
  · rw [if_pos hc]; exact h
  · rw [if_neg hc]
    generalize hg1 : (if ((g.get i).nexts.isEmpty && !(g.get i).node.mightTerminate) = true then g.cutIn i else g) = g1
    have h1 : Symm g1 := by
      subst hg1
      by_cases he : ((g.get i).nexts.isEmpty && !(g.get i).node.mightTerminate) = true
      · rw [if_pos he]; exact cutIn_symm g i h
      · rw [if_neg he]; exact h
    by_cases hp : (g1.get i).prevs.isEmpty = true
    · rw [if_pos hp]; exact cutOut_symm _ _ h1
    · rw [if_neg hp]; exact h1

theorem foldl_symm (f : Cfg → Nat → Cfg) (hf : ∀ g i, Symm g → Symm (f g i)) (l : List Nat) (g : Cfg)
    (h : Symm g) : Symm (l.foldl f g) := by
  induction l generalizing g with
  | nil => exact h
  | cons x xs ih => exact ih _ (hf g x h)

/-- **C03.** Dead-code pruning keeps the successor and predecessor relations exact inverses. -/
theorem deadSweep_symm (g : Cfg) (h : Symm g) : Symm (deadSweep g) :=
  foldl_symm deadStep deadStep_symm _ g h

theorem deadLoop_symm (fuel : Nat) : ∀ g, Symm g → Symm (deadLoop fuel g) := by
  induction fuel with
  | zero => intro g h; exact h
  | succ n ih =>
    intro g h
    unfold deadLoop
    simp only []
    split
    · exact deadSweep_symm g h
    · exact ih _ (deadSweep_symm g h)

theorem deadCode_symm (g : Cfg) (h : Symm g) : Symm (deadCode g) := deadLoop_symm _ g h

theorem ecallStep_symm (g : Cfg) (i : Nat) (h : Symm g) : Symm (ecallStep g i) := by
  unfold ecallStep; split
  · exact cutOut_symm g i h
  · exact h

/-- **C03.** Cutting the edges after an exit ecall keeps them inverses. -/
theorem ecallTerm_symm (g : Cfg) (h : Symm g) : Symm (ecallTerm g) :=
  foldl_symm ecallStep ecallStep_symm _ g h

theorem addEdge_size (g : Cfg) (a b : Nat) : (g.addEdge a b).nodes.size = g.nodes.size := by
  simp [Cfg.addEdge, Cfg.size_modify]

theorem findLabel_lt (g : Cfg) (l : String) (j : Nat) (h : findLabel g l = some j) : j < g.nodes.size := by
  unfold findLabel at h
  have := List.mem_of_find?_eq_some h
  simpa using this

/-- invariant of the direction loop -/
def DirInv (n : Nat) (st : Cfg × Option Nat) : Prop :=
  Symm st.1 ∧ st.1.nodes.size = n ∧ ∀ p, st.2 = some p → p < n

theorem dirStep_inv (n : Nat) (st st' : Cfg × Option Nat) (i : Nat) (hi : i < n)
    (h : DirInv n st) (hs : dirStep st i = .ok st') : DirInv n st' := by
  obtain ⟨hsym, hsz, hp⟩ := h
  unfold dirStep at hs
  simp only [] at hs
  -- the jump edge
  have hj : ∀ g1, (match (st.1.get i).node.jumpsTo with
      | some l => match findLabel st.1 l.val with
        | some j => Except.ok (st.1.addEdge i j)
        | none => Except.error CfgErr.unexpectedError
      | none => Except.ok st.1) = Except.ok g1 → Symm g1 ∧ g1.nodes.size = n := by
    intro g1 hg1
    split at hg1
    · split at hg1
      · rename_i j hfl
        injection hg1 with hg1; subst hg1
        have hjl := findLabel_lt _ _ _ hfl
        exact ⟨addEdge_symm _ _ _ (by omega) hjl hsym, by rw [addEdge_size]; exact hsz⟩
      · exact absurd hg1 (by simp)
    · injection hg1 with hg1; subst hg1; exact ⟨hsym, hsz⟩
  split at hs
  · exact absurd hs (by simp)
  · rename_i g1 hg1
    have ⟨hs1, hz1⟩ := hj g1 hg1
    injection hs with hs; subst hs
    refine ⟨?_, ?_, ?_⟩
    · simp only []
      split
      · rename_i p hpp
        exact addEdge_symm _ _ _ (by rw [hz1]; exact hp p hpp) (by omega) hs1
      · exact hs1
    · simp only []
      split
      · rw [addEdge_size]; exact hz1
      · exact hz1
    · intro p hpe
      simp only [] at hpe
      split at hpe
      · exact absurd hpe (by simp)
      · injection hpe with hpe; omega

theorem dirLoop_inv (n : Nat) (l : List Nat) (hl : ∀ i ∈ l, i < n) (st st' : Cfg × Option Nat)
    (h : DirInv n st) (hs : dirLoop l st = .ok st') : DirInv n st' := by
  induction l generalizing st with
  | nil => simp [dirLoop] at hs; subst hs; exact h
  | cons i rest ih =>
    unfold dirLoop at hs
    split at hs
    · rename_i st1 h1
      exact ih (fun j hj => hl j (List.mem_cons_of_mem _ hj)) st1
        (dirStep_inv n st st1 i (hl i List.mem_cons_self) h h1) hs
    · exact absurd hs (by simp)

/-- **C03.** After `NodeDirectionPass` the successor and predecessor relations are exact
    inverses (given a graph without edges, as `Cfg::new` builds it, or any symmetric graph). -/
theorem directions_symm (g g' : Cfg) (h : Symm g) (hd : directions g = .ok g') : Symm g' := by
  unfold directions at hd
  split at hd
  · rename_i st hst
    injection hd with hd; subst hd
    exact (dirLoop_inv g.nodes.size _ (fun i hi => by simpa using hi) (g, none) st
      ⟨h, rfl, fun p hp => by simp at hp⟩ hst).1
  · exact absurd hd (by simp)

/-- A graph without edges is symmetric (what `Cfg::new` returns). -/
theorem symm_of_no_edges (g : Cfg) (h : ∀ i, (g.get i).nexts = [] ∧ (g.get i).prevs = []) : Symm g := by
  intro a b; rw [(h a).1, (h b).2]; simp

end Rva
