/-
  C08 — constant folding equals RV32IM semantics.
  `operate_rv32`: for every operator and all 2^64 operand pairs the model of `MathOp::operate`
  equals the ISA-manual semantics `Spec.rv32`.
-/
import Rva.Model.Ops
import Rva.Spec.Rv32Ops
import Rva.Gen.Tables
namespace Rva
open Spec

theorem shamt_lt (y : Word) : shamt y < 32 := Nat.mod_lt _ (by decide)

theorem operate_add (x y : Word) : operate .add x y = rv32 .add x y := by
  simp only [operate, rv32, wrap]
  apply BitVec.eq_of_toInt_eq
  simp [BitVec.toInt_add, BitVec.toInt_ofInt]

theorem operate_sub (x y : Word) : operate .sub x y = rv32 .sub x y := by
  simp only [operate, rv32, wrap]
  apply BitVec.eq_of_toInt_eq
  simp [BitVec.toInt_sub, BitVec.toInt_ofInt]

theorem operate_mul (x y : Word) : operate .mul x y = rv32 .mul x y := by
  simp only [operate, rv32, wrap]
  apply BitVec.eq_of_toInt_eq
  simp [BitVec.toInt_mul, BitVec.toInt_ofInt]


theorem operate_and (x y : Word) : operate .and x y = rv32 .and x y := rfl
theorem operate_or (x y : Word) : operate .or x y = rv32 .or x y := rfl
theorem operate_xor (x y : Word) : operate .xor x y = rv32 .xor x y := rfl

theorem operate_slt (x y : Word) : operate .slt x y = rv32 .slt x y := by
  simp only [operate, rv32, boolWord, BitVec.slt]
  by_cases h : x.toInt < y.toInt <;> simp [h]

theorem operate_sltu (x y : Word) : operate .sltu x y = rv32 .sltu x y := by
  simp only [operate, rv32, boolWord, BitVec.ult]
  by_cases h : x.toNat < y.toNat <;> simp [h]


theorem operate_sll (x y : Word) : operate .sll x y = rv32 .sll x y := by
  simp only [operate, rv32, wrap, shamt, sh5]
  apply BitVec.eq_of_toNat_eq
  simp [BitVec.toNat_shiftLeft, Nat.shiftLeft_eq, BitVec.toNat_ofInt]
  generalize BitVec.toNat y % 32 = k
  have : ((BitVec.toNat x : Int) * 2 ^ k) = ((BitVec.toNat x * 2 ^ k : Nat) : Int) := by
    push_cast; rfl
  rw [this]
  generalize BitVec.toNat x * 2 ^ k = a
  omega

theorem operate_srl (x y : Word) : operate .srl x y = rv32 .srl x y := by
  simp only [operate, rv32, wrap, shamt, sh5]
  apply BitVec.eq_of_toNat_eq
  simp [BitVec.toNat_ushiftRight, Nat.shiftRight_eq_div_pow]
  generalize BitVec.toNat y % 32 = k
  have h1 : ((BitVec.toNat x : Int) / 2 ^ k) = ((BitVec.toNat x / 2 ^ k : Nat) : Int) := by
    push_cast; rfl
  rw [h1]
  have h2 : BitVec.toNat x / 2 ^ k ≤ BitVec.toNat x := Nat.div_le_self _ _
  have h3 := x.isLt
  generalize BitVec.toNat x / 2 ^ k = a at *
  omega



theorem ediv_pos_range (i d : Int) (hd : 1 ≤ d) (h1 : -(2:Int)^31 ≤ i) (h2 : i < 2^31) :
    -(2:Int)^31 ≤ i / d ∧ i / d < 2^31 := by
  have hp : 0 < d := by omega
  by_cases hi : 0 ≤ i
  · have a := Int.ediv_nonneg hi (Int.le_of_lt hp)
    have b := Int.ediv_le_self d hi
    omega
  · have hi' : i < 0 := by omega
    have a := Int.ediv_neg_of_neg_of_pos hi' hp
    have b : i ≤ i / d := by
      apply Int.le_ediv_of_mul_le hp
      have := Int.mul_le_mul_of_nonpos_left (a := i) (b := d) (c := 1) (by omega) hd
      simpa using this
    omega

theorem operate_sra (x y : Word) : operate .sra x y = rv32 .sra x y := by
  simp only [operate, rv32, wrap, shamt, sh5]
  apply BitVec.eq_of_toInt_eq
  simp [BitVec.toInt_sshiftRight, BitVec.toInt_ofInt]
  generalize BitVec.toNat y % 32 = k
  rw [Int.shiftRight_eq_div_pow]
  have hx1 := @BitVec.le_toInt 32 x
  have hx2 := @BitVec.toInt_lt 32 x
  have hp : (1:Int) ≤ 2 ^ k := Int.pow_pos (by decide)
  have := ediv_pos_range x.toInt (2^k) hp (by simpa using hx1) (by simpa using hx2)
  rw [Int.natCast_pow]
  symm
  apply Int.bmod_eq_of_le <;> simp <;> omega


theorem mul_lt_2_64 (a b : Nat) (ha : a < 2^32) (hb : b < 2^32) : a * b < 2^64 := by
  have : a * b < 2^32 * 2^32 := Nat.mul_lt_mul'' ha hb
  simpa using this

theorem operate_mulhu (x y : Word) : operate .mulhu x y = rv32 .mulhu x y := by
  simp only [operate, rv32, wrap]
  apply BitVec.eq_of_toNat_eq
  have hx := x.isLt
  have hy := y.isLt
  have hxy := mul_lt_2_64 _ _ hx hy
  simp [BitVec.toNat_mul, BitVec.toNat_setWidth, BitVec.toNat_ushiftRight, BitVec.toNat_ofInt,
    Nat.shiftRight_eq_div_pow]
  have h1 : ((x.toNat : Int) * (y.toNat : Int)) = ((x.toNat * y.toNat : Nat) : Int) := by
    exact (Int.natCast_mul _ _).symm
  rw [h1]
  generalize x.toNat * y.toNat = p at *
  omega


theorem toNat_eq_toInt_emod (s : BitVec 64) : s.toNat = (s.toInt % 2^64).toNat := by
  have h := congrArg BitVec.toNat (BitVec.ofInt_toInt (x := s))
  rw [BitVec.toNat_ofInt] at h
  exact h.symm

/-- The 64-bit signed product of two sign-extended words cannot overflow (so the Rust
    `i64 * i64` never panics in checked builds and equals the exact product). -/
theorem mulh_product_exact (x y : Word) :
    ((x.signExtend 64) * (y.signExtend 64)).toInt = x.toInt * y.toInt := by
  rw [BitVec.toInt_mul, BitVec.toInt_signExtend_of_le (by decide), BitVec.toInt_signExtend_of_le (by decide)]
  have h1 := @BitVec.toInt_mul_toInt_le 32 x y
  have h2 := @BitVec.le_toInt_mul_toInt 32 x y
  apply Int.bmod_eq_of_le <;> simp at * <;> omega

theorem operate_mulh (x y : Word) : operate .mulh x y = rv32 .mulh x y := by
  simp only [operate, rv32, wrap]
  apply BitVec.eq_of_toNat_eq
  have hs : (((x.signExtend 64) * (y.signExtend 64)).sshiftRight 32).toInt
      = (x.toInt * y.toInt) / 2^32 := by
    rw [BitVec.toInt_sshiftRight, mulh_product_exact, Int.shiftRight_eq_div_pow]; rfl
  rw [BitVec.toNat_setWidth, toNat_eq_toInt_emod, hs, BitVec.toNat_ofInt]
  have h1 := @BitVec.toInt_mul_toInt_le 32 x y
  have h2 := @BitVec.le_toInt_mul_toInt 32 x y
  generalize x.toInt * y.toInt = p at *
  simp at h1 h2
  omega
theorem su_bounds (a b : Int) (ha1 : -2147483648 ≤ a) (ha2 : a < 2147483648) (hb1 : 0 ≤ b)
    (hb2 : b < 4294967296) : -9223372036854775808 ≤ a * b ∧ a * b < 9223372036854775808 := by
  have h1 : a * b ≤ 2147483647 * b := Int.mul_le_mul_of_nonneg_right (by omega) hb1
  have h2 : -2147483648 * b ≤ a * b := Int.mul_le_mul_of_nonneg_right ha1 hb1
  omega

theorem mulhsu_product_exact (x y : Word) :
    ((x.signExtend 64) * (y.setWidth 64)).toInt = x.toInt * (y.toNat : Int) := by
  have hy : (y.setWidth 64).toInt = (y.toNat : Int) := by
    rw [BitVec.toInt_setWidth]
    have := y.isLt
    apply Int.bmod_eq_of_le <;> simp <;> omega
  rw [BitVec.toInt_mul, BitVec.toInt_signExtend_of_le (by decide), hy]
  have hx1 := @BitVec.le_toInt 32 x
  have hx2 := @BitVec.toInt_lt 32 x
  have hb := y.isLt
  have := su_bounds x.toInt y.toNat (by simpa using hx1) (by simpa using hx2) (by omega) (by omega)
  apply Int.bmod_eq_of_le <;> simp <;> omega

theorem operate_mulhsu (x y : Word) : operate .mulhsu x y = rv32 .mulhsu x y := by
  simp only [operate, rv32, wrap]
  apply BitVec.eq_of_toNat_eq
  have hs : (((x.signExtend 64) * (y.setWidth 64)).sshiftRight 32).toInt
      = (x.toInt * (y.toNat : Int)) / 2^32 := by
    rw [BitVec.toInt_sshiftRight, mulhsu_product_exact, Int.shiftRight_eq_div_pow]; rfl
  rw [BitVec.toNat_setWidth, toNat_eq_toInt_emod, hs, BitVec.toNat_ofInt]
  have hx1 := @BitVec.le_toInt 32 x
  have hx2 := @BitVec.toInt_lt 32 x
  have hb := y.isLt
  have := su_bounds x.toInt y.toNat (by simpa using hx1) (by simpa using hx2) (by omega) (by omega)
  generalize x.toInt * (y.toNat : Int) = p at *
  omega

theorem operate_div (x y : Word) : operate .div x y = rv32 .div x y := by
  simp only [operate, rv32, wrap]
  by_cases hy : y = 0#32
  · subst hy; simp
  · have hy' : y.toInt ≠ 0 := by
      intro h; apply hy; apply BitVec.eq_of_toInt_eq; simpa using h
    simp only [hy, hy', if_false]
    by_cases ho : x.toInt = -(2^31) ∧ y.toInt = -1
    · simp only [ho, and_self, if_true]
      have hx : x = BitVec.intMin 32 := by apply BitVec.eq_of_toInt_eq; rw [ho.1]; rfl
      have hy2 : y = -1#32 := by apply BitVec.eq_of_toInt_eq; rw [ho.2]; rfl
      subst hx hy2; decide
    · simp only [ho, if_false]
      apply BitVec.eq_of_toInt_eq
      rw [BitVec.toInt_sdiv, BitVec.toInt_ofInt]

theorem operate_rem (x y : Word) : operate .rem x y = rv32 .rem x y := by
  simp only [operate, rv32, wrap]
  by_cases hy : y = 0#32
  · subst hy; simp
  · have hy' : y.toInt ≠ 0 := by
      intro h; apply hy; apply BitVec.eq_of_toInt_eq; simpa using h
    simp only [hy, hy', if_false]
    by_cases ho : x.toInt = -(2^31) ∧ y.toInt = -1
    · simp only [ho, and_self, if_true]
      have hx : x = BitVec.intMin 32 := by apply BitVec.eq_of_toInt_eq; rw [ho.1]; rfl
      have hy2 : y = -1#32 := by apply BitVec.eq_of_toInt_eq; rw [ho.2]; rfl
      subst hx hy2; decide
    · simp only [ho, if_false]
      apply BitVec.eq_of_toInt_eq
      rw [BitVec.toInt_ofInt, ← BitVec.toInt_srem]
      have h1 := @BitVec.le_toInt 32 (x.srem y)
      have h2 := @BitVec.toInt_lt 32 (x.srem y)
      symm
      apply Int.bmod_eq_of_le <;> simp at * <;> omega

theorem operate_divu (x y : Word) : operate .divu x y = rv32 .divu x y := by
  simp only [operate, rv32, wrap]
  by_cases hy : y = 0#32
  · subst hy; simp
  · have hy' : y.toNat ≠ 0 := by
      intro h; apply hy; apply BitVec.eq_of_toNat_eq; simpa using h
    simp only [hy, hy', if_false]
    apply BitVec.eq_of_toNat_eq
    rw [BitVec.toNat_ofInt]
    simp [BitVec.toNat_udiv]
    rw [← Int.natCast_ediv]
    have h1 : x.toNat / y.toNat ≤ x.toNat := Nat.div_le_self _ _
    have h2 := x.isLt
    generalize x.toNat / y.toNat = q at *
    omega

theorem operate_remu (x y : Word) : operate .remu x y = rv32 .remu x y := by
  simp only [operate, rv32, wrap]
  by_cases hy : y = 0#32
  · subst hy; simp
  · have hy' : y.toNat ≠ 0 := by
      intro h; apply hy; apply BitVec.eq_of_toNat_eq; simpa using h
    simp only [hy, hy', if_false]
    apply BitVec.eq_of_toNat_eq
    rw [BitVec.toNat_ofInt]
    simp [BitVec.toNat_umod]
    rw [← Int.natCast_emod]
    have h1 : x.toNat % y.toNat ≤ x.toNat := Nat.mod_le _ _
    have h2 := x.isLt
    generalize x.toNat % y.toNat = q at *
    omega

/-- **C08 (constant folding).** For every one of the eighteen folded operators and *all* pairs
    of 32-bit operands, the model of `MathOp::operate` equals RV32IM semantics — including
    shift amounts of 32 or more, division by zero and signed overflow. -/
theorem operate_rv32 (op : MathOp) (x y : Word) : operate op x y = rv32 op x y := by
  cases op
  · exact operate_add x y
  · exact operate_and x y
  · exact operate_or x y
  · exact operate_sll x y
  · exact operate_slt x y
  · exact operate_sltu x y
  · exact operate_sra x y
  · exact operate_srl x y
  · exact operate_sub x y
  · exact operate_xor x y
  · exact operate_mul x y
  · exact operate_mulh x y
  · exact operate_mulhsu x y
  · exact operate_mulhu x y
  · exact operate_div x y
  · exact operate_divu x y
  · exact operate_rem x y
  · exact operate_remu x y

/-- Non-vacuity / edge cases the property names explicitly, as closed instances. -/
example : operate .sll 1#32 32#32 = 1#32 := by decide
example : operate .div (BitVec.intMin 32) (-1#32) = BitVec.intMin 32 := by decide
example : operate .rem (BitVec.intMin 32) (-1#32) = 0#32 := by decide
example : operate .div 7#32 0#32 = BitVec.allOnes 32 := by decide
example : operate .mulhu (-1#32) (-1#32) = 0xFFFFFFFE#32 := by decide
example : operate .mulhsu (-1#32) (-1#32) = 0xFFFFFFFF#32 := by decide

end Rva
