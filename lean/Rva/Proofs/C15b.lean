/-
  C15 at the parser level — a statement does not see what follows it.

  `Local m`: if the parser computation `m`, run on some items, does not fail with "unexpected end
  of input" (the only way a statement can notice that the items have run out), then run on the same
  items followed by *any* further items `b` it does exactly the same thing and leaves the same
  remainder followed by `b`. For the statement parser this is the frame rule
  behind textual inclusion: whatever is pasted or included after a statement that ends before the
  end of its file cannot change how that statement is read (`parseInst_local`,
  `parseStep_local`). The statements that read on across lines - the operand lists of the data
  directives and macro bodies - are exactly the ones excluded (known finding F-56 is about them).
-/
import Rva.Proofs.C07b
import Rva.Proofs.C07
import Rva.Proofs.C06b
import Rva.Proofs.C13b
import Rva.Proofs.C07c
namespace Rva

def PState.app (s : PState) (b : List PItem) : PState := { s with items := s.items ++ b }

def Local {α} (m : P α) : Prop :=
  ∀ (s : PState) (b : List PItem), (runP m s).1 ≠ .error .unexpectedEOF →
    runP m (s.app b) = ((runP m s).1, (runP m s).2.app b)

/-- (kept as a name for the automation: the invariant that travels through `bind`) -/
def LG {α} (m : P α) : Prop := Local m

theorem lg_pure {α} (a : α) : LG (pure a : P α) := by
  intro s b _
  rw [runP_pure, runP_pure]

theorem lg_throw {α} (e : LexErr) : LG (throw e : P α) := by
  intro s b _
  rw [runP_throw, runP_throw]

theorem lg_bind {α β} {m : P α} {f : α → P β} (hm : LG m) (hf : ∀ a, LG (f a)) : LG (m >>= f) := by
  intro s b hne
  rw [runP_bind] at hne ⊢
  rw [runP_bind]
  cases h : runP m s with
  | mk r s1 =>
    rw [h] at hne
    cases r with
    | ok a =>
      simp only [] at hne
      have h1 := hm s b (by rw [h]; simp)
      rw [h] at h1
      rw [h1]
      simp only []
      exact hf a s1 b hne
    | error e =>
      simp only [] at hne
      have h1 := hm s b (by rw [h]; simpa using hne)
      rw [h] at h1
      rw [h1]

theorem lg_getAny : LG getAny := by
  intro s b hne
  unfold getAny at hne ⊢
  cases hs : s.items with
  | nil =>
    exfalso
    apply hne
    simp [runP, hs, bind, ExceptT.bind, ExceptT.mk, ExceptT.bindCont, ExceptT.run,
      StateT.bind, StateT.run, get, getThe, MonadStateOf.get, StateT.get, liftM, monadLift, MonadLift.monadLift,
      ExceptT.lift, pure, StateT.pure, throw, throwThe, MonadExceptOf.throw, Functor.map, StateT.map]
  | cons it rest =>
    cases it <;>
    simp [runP, hs, PState.app, bind, ExceptT.bind, ExceptT.mk, ExceptT.bindCont, ExceptT.run,
      StateT.bind, StateT.run, get, getThe, MonadStateOf.get, StateT.get, liftM, monadLift, MonadLift.monadLift,
      ExceptT.lift, set, StateT.set, pure, StateT.pure, ExceptT.pure, throw, throwThe, MonadExceptOf.throw,
      Functor.map, StateT.map]

theorem lg_peekAny : LG peekAny := by
  intro s b hne
  unfold peekAny at hne ⊢
  cases hs : s.items with
  | nil =>
    exfalso
    apply hne
    simp [runP, hs, bind, ExceptT.bind, ExceptT.mk, ExceptT.bindCont, ExceptT.run,
      StateT.bind, StateT.run, get, getThe, MonadStateOf.get, StateT.get, liftM, monadLift, MonadLift.monadLift,
      ExceptT.lift, pure, StateT.pure, throw, throwThe, MonadExceptOf.throw, Functor.map, StateT.map]
  | cons it rest =>
    cases it <;>
    simp [runP, hs, PState.app, bind, ExceptT.bind, ExceptT.mk, ExceptT.bindCont, ExceptT.run,
      StateT.bind, StateT.run, get, getThe, MonadStateOf.get, StateT.get, liftM, monadLift, MonadLift.monadLift,
      ExceptT.lift, pure, StateT.pure, ExceptT.pure, throw, throwThe, MonadExceptOf.throw,
      Functor.map, StateT.map]

theorem lg_liftE {α} (e : Except LexErr α) : LG (liftE e) := by
  cases e with
  | ok a => exact lg_pure a
  | error x => exact lg_throw x

theorem lg_getReg : LG getReg := lg_bind lg_getAny (fun t => lg_liftE _)
theorem lg_getImm : LG getImm := lg_bind lg_getAny (fun t => lg_liftE _)
theorem lg_getLabel : LG getLabel := lg_bind lg_getAny (fun t => lg_liftE _)
theorem lg_getCsrImm : LG getCsrImm := lg_bind lg_getAny (fun t => lg_liftE _)
theorem lg_getString : LG getString := lg_bind lg_getAny (fun t => lg_liftE _)

theorem lg_expectRParen : LG expectRParen := by
  unfold expectRParen
  refine lg_bind lg_getAny (fun t => ?_)
  split
  · exact lg_pure _
  · exact lg_throw _

theorem lg_rawNow : LG rawNow := by
  intro s b _
  rfl

theorem lg_pseudoBranch (i : String) (m : FTok) (a b : W Reg) (l : W String) : LG (pseudoBranch i m a b l) := by
  unfold pseudoBranch
  exact lg_bind lg_rawNow (fun _ => lg_pure _)

attribute [local irreducible] LG getReg getImm getLabel getCsrImm getString getAny peekAny expectRParen rawNow
  pseudoBranch liftE

macro "lg_step" : tactic => `(tactic| first
  | exact lg_pure _
  | exact lg_getReg | exact lg_getImm | exact lg_getLabel | exact lg_getCsrImm | exact lg_getString
  | exact lg_getAny | exact lg_peekAny | exact lg_expectRParen | exact lg_rawNow
  | exact lg_pseudoBranch _ _ _ _ _
  | exact lg_throw _
  | apply lg_bind
  | intro _
  | split)

set_option maxHeartbeats 4000000 in
theorem parseInst_lg (m : FTok) (v : String) : LG (parseInst m v) := by
  unfold parseInst
  repeat' lg_step

/-- the directives whose statement reads on across lines -/
def loopDirectives : List String := ["Byte", "Double", "Dword", "Float", "Word", "Half", "Macro"]

theorem parseDirective_lg (m : FTok) (d : String) (hd : d ∉ loopDirectives) : LG (parseDirective m d) := by
  unfold parseDirective
  repeat' (first | (exfalso; simp [loopDirectives] at hd; done) | lg_step)

theorem parseNodeK_lg (m : FTok)
    (hm : ∀ d, m.kind = .directive → directiveFromStr m.payload = some d → d ∉ loopDirectives) :
    LG (parseNodeK m) := by
  unfold parseNodeK
  repeat' (first
    | exact parseInst_lg _ _
    | (apply parseDirective_lg; apply hm <;> assumption)
    | lg_step)

end Rva

namespace Rva

/-- `lg_bind` with the continuation known to be local only for the value the first computation
    actually returns -/
theorem local_bind_at {α β} {m : P α} {f : α → P β} (hm : LG m) (s : PState) (b : List PItem)
    (hf : ∀ a s1, runP m s = (.ok a, s1) → LG (f a))
    (hne : (runP (m >>= f) s).1 ≠ .error .unexpectedEOF) :
    runP (m >>= f) (s.app b) = ((runP (m >>= f) s).1, (runP (m >>= f) s).2.app b) := by
  rw [runP_bind] at hne ⊢
  rw [runP_bind]
  cases h : runP m s with
  | mk r s1 =>
    rw [h] at hne
    cases r with
    | ok a =>
      simp only [] at hne
      have h1 := hm s b (by rw [h]; simp)
      rw [h] at h1
      rw [h1]
      simp only []
      exact hf a s1 h s1 b hne
    | error e =>
      simp only [] at hne
      have h1 := hm s b (by rw [h]; simpa using hne)
      rw [h] at h1
      rw [h1]

/-- the first item of a statement is not a directive whose operands run across lines -/
def PlainHead (items : List PItem) : Prop :=
  ∀ t rest d, items = .tok t :: rest → t.kind = .directive → directiveFromStr t.payload = some d →
    d ∉ loopDirectives

/-- **C15 (`parseStep_local`).** A statement that is not a data directive or a macro definition, and
    that does not run into the end of its item list (it does not fail with "unexpected end of
    input"), is read the same way whatever follows that list: the items of the including file
    behind an included one, or the text pasted in their place. The result is the same and the
    remainder is the old remainder followed by the new items. -/
theorem parseStep_local (items b : List PItem) (hp : PlainHead items)
    (hne : (parseStep items).1 ≠ .error .unexpectedEOF) :
    parseStep (items ++ b) = ((parseStep items).1, (parseStep items).2 ++ b) := by
  rw [parseStep_eq, parseStep_eq] at *
  rw [parseNode_eq] at *
  have key := local_bind_at (f := parseNodeK) lg_getAny { items := items } b ?_ hne
  · have hs : ({ items := items } : PState).app b = { items := items ++ b } := rfl
    rw [hs] at key
    rw [key]
    rfl
  · intro a s1 h
    apply parseNodeK_lg
    intro d hk hd
    cases hi : items with
    | nil =>
      rw [hi] at h
      simp [runP, getAny, bind, ExceptT.bind, ExceptT.mk, ExceptT.bindCont, ExceptT.run,
        StateT.bind, StateT.run, get, getThe, MonadStateOf.get, StateT.get, liftM, monadLift, MonadLift.monadLift,
        ExceptT.lift, pure, StateT.pure, throw, throwThe, MonadExceptOf.throw, Functor.map, StateT.map] at h
    | cons it rest =>
      rw [hi] at h
      cases it with
      | tok t =>
        have : a = t := by
          simp [runP, getAny, bind, ExceptT.bind, ExceptT.mk, ExceptT.bindCont, ExceptT.run,
            StateT.bind, StateT.run, get, getThe, MonadStateOf.get, StateT.get, liftM, monadLift, MonadLift.monadLift,
            ExceptT.lift, set, StateT.set, pure, StateT.pure, ExceptT.pure, Functor.map, StateT.map] at h
          exact h.1.symm
        subst this
        exact hp a rest d hi hk hd
      | strErr t k p =>
        simp [runP, getAny, bind, ExceptT.bind, ExceptT.mk, ExceptT.bindCont, ExceptT.run,
          StateT.bind, StateT.run, get, getThe, MonadStateOf.get, StateT.get, liftM, monadLift, MonadLift.monadLift,
          ExceptT.lift, set, StateT.set, pure, StateT.pure, throw, throwThe, MonadExceptOf.throw,
          Functor.map, StateT.map] at h
      | unexpected t =>
        simp [runP, getAny, bind, ExceptT.bind, ExceptT.mk, ExceptT.bindCont, ExceptT.run,
          StateT.bind, StateT.run, get, getThe, MonadStateOf.get, StateT.get, liftM, monadLift, MonadLift.monadLift,
          ExceptT.lift, set, StateT.set, pure, StateT.pure, throw, throwThe, MonadExceptOf.throw,
          Functor.map, StateT.map] at h

end Rva

namespace Rva

def PItem.isNl : PItem → Bool
  | .tok t => t.kind == .newline
  | _ => false

/-- recovery stops at the first newline: what comes after a list that contains one is untouched -/
theorem recover_append (l b : List PItem) (h : l.any PItem.isNl = true) : recover (l ++ b) = recover l ++ b := by
  induction l with
  | nil => simp at h
  | cons x xs ih =>
    cases x with
    | tok t =>
      by_cases hk : (t.kind == TokKind.newline) = true
      · simp [recover, hk]
      · have hk' : (t.kind == TokKind.newline) = false := by simpa using hk
        have hx : xs.any PItem.isNl = true := by simpa [PItem.isNl, hk'] using h
        simp [recover, hk', ih hx]
    | strErr t k p =>
      have hx : xs.any PItem.isNl = true := by simpa [PItem.isNl] using h
      simp [recover, ih hx]
    | unexpected t =>
      have hx : xs.any PItem.isNl = true := by simpa [PItem.isNl] using h
      simp [recover, ih hx]

/-- does the loop skip to the end of the line after a statement that failed with `e`? -/
def LexErr.recovers : LexErr → Bool
  | .expected _ got => !(got.kind == .newline)
  | .unexpectedToken _ | .unexpectedError _ | .unknownDirective _ | .ignoredWithWarning _
  | .unsupportedDirective _ | .invalidString _ _ _ => true
  | .isNewline _ | .unexpectedEOF | .needTwoNodes _ _ | .ignoredWithoutWarning => false

/-- a statement at the head of `a` that the frame rule covers: plain head, does not run into the end
    of the items, is no `.include`, and - if the loop recovers after it - leaves a newline to stop at -/
def StepOK (a : List PItem) : Prop :=
  PlainHead a ∧ (parseStep a).1 ≠ .error .unexpectedEOF ∧
  (∀ x, (parseStep a).1 = .ok x → x.includePath = none) ∧
  (∀ e, (parseStep a).1 = .error e → e.recovers = true → (parseStep a).2.any PItem.isNl = true)

/-- **C15 (`include_end_pops`).** When the items of an included file are used up, the loop goes on
    with the items of the including file that follow the directive. -/
theorem include_end_pops (fuel : Nat) (rest : List PItem) (below : List (List PItem)) (r : Reader)
    (nodes : List Node) (errs : List ParseErr) :
    parseLoop (fuel + 1) ([] :: rest :: below) r nodes errs = parseLoop fuel (rest :: below) r nodes errs := by
  rw [parseLoop]
  have h : parseStep [] = (.error .unexpectedEOF, []) := by
    have h1 := parseStep_nil_eof [] rfl
    have h2 : (parseStep []).2 = [] := List.suffix_nil.mp (parseStep_suffix [])
    exact Prod.ext h1 h2
  simp only [h]

/-- **C15 (`include_step_commutes`).** One step of the parse loop on the items `a` of an included
    file does the same whether the including file's remaining items `rest` wait below it on the
    stack (the file was included) or stand behind it in the same list (its text was pasted): the
    same node or error is collected and the same remainder `a'` of `a` is left - on top of `rest` in
    the first case, in front of it in the second. With `include_end_pops`, by induction over the
    statements of `a`: a program split with `.include` is read as the pasted text, as long as no
    statement of the included file reads on across its end (`StepOK`). -/
theorem include_step_commutes (fuel : Nat) (a rest : List PItem) (below : List (List PItem)) (r : Reader)
    (nodes : List Node) (errs : List ParseErr) (hok : StepOK a) :
    ∃ a' nodes' errs', a' <:+ a ∧
      parseLoop (fuel + 1) (a :: rest :: below) r nodes errs =
        parseLoop fuel (a' :: rest :: below) r nodes' errs' ∧
      parseLoop (fuel + 1) ((a ++ rest) :: below) r nodes errs =
        parseLoop fuel ((a' ++ rest) :: below) r nodes' errs' := by
  obtain ⟨hp, hne, hinc, hrec⟩ := hok
  have hloc := parseStep_local a rest hp hne
  have hsuf := parseStep_suffix a
  have hrs : ∀ l : List PItem, l <:+ (parseStep a).2 → l <:+ a := fun l h => h.trans hsuf
  cases hres : (parseStep a).1 with
  | ok x =>
    have hx := hinc x hres
    refine ⟨(parseStep a).2, x :: nodes, errs, hsuf, ?_, ?_⟩
    · rw [parseLoop]
      have : parseStep a = (.ok x, (parseStep a).2) := Prod.ext hres rfl
      rw [this]; simp only [hx]
    · rw [parseLoop, hloc, hres]; simp only [hx]
  | error e =>
    have hstep : parseStep a = (.error e, (parseStep a).2) := Prod.ext hres rfl
    have hr := hrec e hres
    cases e with
    | unexpectedEOF => exact absurd hres hne
    | expected ex got =>
      by_cases hg : (got.kind == TokKind.newline) = true
      · refine ⟨(parseStep a).2, nodes, .expected ex got :: errs, hsuf, ?_, ?_⟩
        · rw [parseLoop, hstep]; simp only [hg, if_true]
        · rw [parseLoop, hloc, hres]; simp only [hg, if_true]
      · have hg' : (got.kind == TokKind.newline) = false := by simpa using hg
        have hnl := hr (by simp [LexErr.recovers, hg'])
        refine ⟨recover (parseStep a).2, nodes, .expected ex got :: errs,
          hrs _ (by obtain ⟨pre, hpre⟩ := recover_suffix (parseStep a).2; exact ⟨pre, hpre.symm⟩), ?_, ?_⟩
        · rw [parseLoop, hstep]; simp only [hg', Bool.false_eq_true, if_false]
        · rw [parseLoop, hloc, hres]; simp only [hg', Bool.false_eq_true, if_false, recover_append _ _ hnl]
    | isNewline t =>
      refine ⟨(parseStep a).2, nodes, errs, hsuf, ?_, ?_⟩
      · rw [parseLoop, hstep]
      · rw [parseLoop, hloc, hres]
    | ignoredWithoutWarning =>
      refine ⟨(parseStep a).2, nodes, errs, hsuf, ?_, ?_⟩
      · rw [parseLoop, hstep]
      · rw [parseLoop, hloc, hres]
    | needTwoNodes n1 n2 =>
      refine ⟨(parseStep a).2, n2 :: n1 :: nodes, errs, hsuf, ?_, ?_⟩
      · rw [parseLoop, hstep]
      · rw [parseLoop, hloc, hres]
    | unexpectedToken t =>
      have hnl := hr rfl
      refine ⟨recover (parseStep a).2, nodes, .unexpectedToken t :: errs,
        hrs _ (by obtain ⟨pre, hpre⟩ := recover_suffix (parseStep a).2; exact ⟨pre, hpre.symm⟩), ?_, ?_⟩
      · rw [parseLoop, hstep]
      · rw [parseLoop, hloc, hres]; simp only [recover_append _ _ hnl]
    | unexpectedError t =>
      have hnl := hr rfl
      refine ⟨recover (parseStep a).2, nodes, .unexpectedError t :: errs,
        hrs _ (by obtain ⟨pre, hpre⟩ := recover_suffix (parseStep a).2; exact ⟨pre, hpre.symm⟩), ?_, ?_⟩
      · rw [parseLoop, hstep]
      · rw [parseLoop, hloc, hres]; simp only [recover_append _ _ hnl]
    | unknownDirective t =>
      have hnl := hr rfl
      refine ⟨recover (parseStep a).2, nodes, .unknownDirective t :: errs,
        hrs _ (by obtain ⟨pre, hpre⟩ := recover_suffix (parseStep a).2; exact ⟨pre, hpre.symm⟩), ?_, ?_⟩
      · rw [parseLoop, hstep]
      · rw [parseLoop, hloc, hres]; simp only [recover_append _ _ hnl]
    | ignoredWithWarning t =>
      have hnl := hr rfl
      refine ⟨recover (parseStep a).2, nodes, .unsupported t :: errs,
        hrs _ (by obtain ⟨pre, hpre⟩ := recover_suffix (parseStep a).2; exact ⟨pre, hpre.symm⟩), ?_, ?_⟩
      · rw [parseLoop, hstep]
      · rw [parseLoop, hloc, hres]; simp only [recover_append _ _ hnl]
    | unsupportedDirective t =>
      have hnl := hr rfl
      refine ⟨recover (parseStep a).2, nodes, .unsupported t :: errs,
        hrs _ (by obtain ⟨pre, hpre⟩ := recover_suffix (parseStep a).2; exact ⟨pre, hpre.symm⟩), ?_, ?_⟩
      · rw [parseLoop, hstep]
      · rw [parseLoop, hloc, hres]; simp only [recover_append _ _ hnl]
    | invalidString t k p =>
      have hnl := hr rfl
      refine ⟨recover (parseStep a).2, nodes, .invalidString t k p :: errs,
        hrs _ (by obtain ⟨pre, hpre⟩ := recover_suffix (parseStep a).2; exact ⟨pre, hpre.symm⟩), ?_, ?_⟩
      · rw [parseLoop, hstep]
      · rw [parseLoop, hloc, hres]; simp only [recover_append _ _ hnl]

end Rva

namespace Rva

/-- what the loop leaves on top of the stack after one step on `a` (no `.include`, no end of input) -/
def nextTop (a : List PItem) : List PItem :=
  match parseStep a with
  | (.ok _, rest) => rest
  | (.error e, rest) => if e.recovers then recover rest else rest

theorem nextTop_shorter (a : List PItem) (h : a ≠ []) : (nextTop a).length < a.length := by
  have hlen := (parseStep_len a).2 h
  unfold nextTop
  cases hr : parseStep a with
  | mk res rest =>
    rw [hr] at hlen
    simp only [] at hlen
    cases res with
    | ok x => simp only []; omega
    | error e =>
      simp only []
      split
      · obtain ⟨pre, hpre⟩ := recover_suffix rest
        have : (recover rest).length ≤ rest.length := by
          have := congrArg List.length hpre
          simp at this; omega
        omega
      · omega

/-- every statement of `a`, one after the other as the loop meets them, is covered by the frame rule -/
inductive SepAll : List PItem → Prop where
  | nil : SepAll []
  | step (a : List PItem) : a ≠ [] → StepOK a → SepAll (nextTop a) → SepAll a

/-- `include_step_commutes` with the remainder named: it is `nextTop a` -/
theorem include_step_commutes_next (a : List PItem) (r : Reader)
    (nodes : List Node) (errs : List ParseErr) (hok : StepOK a) :
    ∃ nodes' errs', ∀ (rest : List PItem) (below : List (List PItem)) (fuel : Nat),
      parseLoop (fuel + 1) (a :: rest :: below) r nodes errs =
        parseLoop fuel (nextTop a :: rest :: below) r nodes' errs' ∧
      parseLoop (fuel + 1) ((a ++ rest) :: below) r nodes errs =
        parseLoop fuel ((nextTop a ++ rest) :: below) r nodes' errs' := by
  obtain ⟨hp, hne, hinc, hrec⟩ := hok
  have hloc := fun rest => parseStep_local a rest hp hne
  cases hres : (parseStep a).1 with
  | ok x =>
    have hx := hinc x hres
    have hstep : parseStep a = (.ok x, (parseStep a).2) := Prod.ext hres rfl
    have hnt : nextTop a = (parseStep a).2 := by unfold nextTop; rw [hstep]
    refine ⟨x :: nodes, errs, fun rest below fuel => ⟨?_, ?_⟩⟩
    · rw [parseLoop, hstep, hnt]; simp only [hx]
    · rw [parseLoop, hloc rest, hres, hnt]; simp only [hx]
  | error e =>
    have hstep : parseStep a = (.error e, (parseStep a).2) := Prod.ext hres rfl
    have hr := hrec e hres
    have hnt : nextTop a = if e.recovers then recover (parseStep a).2 else (parseStep a).2 := by
      unfold nextTop; rw [hstep]
    cases e with
    | unexpectedEOF => exact absurd hres hne
    | expected ex got =>
      by_cases hg : (got.kind == TokKind.newline) = true
      · have hnt' : nextTop a = (parseStep a).2 := by rw [hnt]; simp [LexErr.recovers, hg]
        refine ⟨nodes, .expected ex got :: errs, fun rest below fuel => ⟨?_, ?_⟩⟩
        · rw [parseLoop, hstep, hnt']; simp only [hg, if_true]
        · rw [parseLoop, hloc rest, hres, hnt']; simp only [hg, if_true]
      · have hg' : (got.kind == TokKind.newline) = false := by simpa using hg
        have hnl := hr (by simp [LexErr.recovers, hg'])
        have hnt' : nextTop a = recover (parseStep a).2 := by rw [hnt]; simp [LexErr.recovers, hg']
        refine ⟨nodes, .expected ex got :: errs, fun rest below fuel => ⟨?_, ?_⟩⟩
        · rw [parseLoop, hstep, hnt']; simp only [hg', Bool.false_eq_true, if_false]
        · rw [parseLoop, hloc rest, hres, hnt']; simp only [hg', Bool.false_eq_true, if_false, recover_append _ _ hnl]
    | isNewline t =>
      have hnt' : nextTop a = (parseStep a).2 := by rw [hnt]; simp [LexErr.recovers]
      refine ⟨nodes, errs, fun rest below fuel => ⟨?_, ?_⟩⟩
      · rw [parseLoop, hstep, hnt']
      · rw [parseLoop, hloc rest, hres, hnt']
    | ignoredWithoutWarning =>
      have hnt' : nextTop a = (parseStep a).2 := by rw [hnt]; simp [LexErr.recovers]
      refine ⟨nodes, errs, fun rest below fuel => ⟨?_, ?_⟩⟩
      · rw [parseLoop, hstep, hnt']
      · rw [parseLoop, hloc rest, hres, hnt']
    | needTwoNodes n1 n2 =>
      have hnt' : nextTop a = (parseStep a).2 := by rw [hnt]; simp [LexErr.recovers]
      refine ⟨n2 :: n1 :: nodes, errs, fun rest below fuel => ⟨?_, ?_⟩⟩
      · rw [parseLoop, hstep, hnt']
      · rw [parseLoop, hloc rest, hres, hnt']
    | unexpectedToken t =>
      have hnl := hr rfl
      have hnt' : nextTop a = recover (parseStep a).2 := by rw [hnt]; simp [LexErr.recovers]
      refine ⟨nodes, .unexpectedToken t :: errs, fun rest below fuel => ⟨?_, ?_⟩⟩
      · rw [parseLoop, hstep, hnt']
      · rw [parseLoop, hloc rest, hres, hnt']; simp only [recover_append _ _ hnl]
    | unexpectedError t =>
      have hnl := hr rfl
      have hnt' : nextTop a = recover (parseStep a).2 := by rw [hnt]; simp [LexErr.recovers]
      refine ⟨nodes, .unexpectedError t :: errs, fun rest below fuel => ⟨?_, ?_⟩⟩
      · rw [parseLoop, hstep, hnt']
      · rw [parseLoop, hloc rest, hres, hnt']; simp only [recover_append _ _ hnl]
    | unknownDirective t =>
      have hnl := hr rfl
      have hnt' : nextTop a = recover (parseStep a).2 := by rw [hnt]; simp [LexErr.recovers]
      refine ⟨nodes, .unknownDirective t :: errs, fun rest below fuel => ⟨?_, ?_⟩⟩
      · rw [parseLoop, hstep, hnt']
      · rw [parseLoop, hloc rest, hres, hnt']; simp only [recover_append _ _ hnl]
    | ignoredWithWarning t =>
      have hnl := hr rfl
      have hnt' : nextTop a = recover (parseStep a).2 := by rw [hnt]; simp [LexErr.recovers]
      refine ⟨nodes, .unsupported t :: errs, fun rest below fuel => ⟨?_, ?_⟩⟩
      · rw [parseLoop, hstep, hnt']
      · rw [parseLoop, hloc rest, hres, hnt']; simp only [recover_append _ _ hnl]
    | unsupportedDirective t =>
      have hnl := hr rfl
      have hnt' : nextTop a = recover (parseStep a).2 := by rw [hnt]; simp [LexErr.recovers]
      refine ⟨nodes, .unsupported t :: errs, fun rest below fuel => ⟨?_, ?_⟩⟩
      · rw [parseLoop, hstep, hnt']
      · rw [parseLoop, hloc rest, hres, hnt']; simp only [recover_append _ _ hnl]
    | invalidString t k p =>
      have hnl := hr rfl
      have hnt' : nextTop a = recover (parseStep a).2 := by rw [hnt]; simp [LexErr.recovers]
      refine ⟨nodes, .invalidString t k p :: errs, fun rest below fuel => ⟨?_, ?_⟩⟩
      · rw [parseLoop, hstep, hnt']
      · rw [parseLoop, hloc rest, hres, hnt']; simp only [recover_append _ _ hnl]

/-- **C15 (`include_is_paste`).** Reading an included file whose statements the frame rule covers
    (`SepAll a`: no data directive or macro, no nested `.include`, no statement cut off by the end of
    the file) and then going on in the including file reaches - one step later, for the return to the
    includer - exactly the configuration that reading the pasted text `a ++ rest` reaches: the same
    nodes and parse errors collected (they depend on the included items only, not on what follows),
    the same reader, the includer's remaining items `rest` on top. From there on the two runs are the
    same run. -/
theorem include_is_paste (a : List PItem) (hs : SepAll a) :
    ∀ (r : Reader) (nodes : List Node) (errs : List ParseErr),
    ∃ k nodes' errs', ∀ (rest : List PItem) (below : List (List PItem)) (fuel : Nat),
      parseLoop (fuel + k + 1) (a :: rest :: below) r nodes errs =
        parseLoop fuel (rest :: below) r nodes' errs' ∧
      parseLoop (fuel + k) ((a ++ rest) :: below) r nodes errs =
        parseLoop fuel (rest :: below) r nodes' errs' := by
  induction hs with
  | nil =>
    intro r nodes errs
    refine ⟨0, nodes, errs, fun rest below fuel => ⟨?_, ?_⟩⟩
    · exact include_end_pops fuel rest below r nodes errs
    · simp
  | step a hne hok _ ih =>
    intro r nodes errs
    obtain ⟨n1, e1, hstep⟩ := include_step_commutes_next a r nodes errs hok
    obtain ⟨k, n', e', hk⟩ := ih r n1 e1
    refine ⟨k + 1, n', e', fun rest below fuel => ?_⟩
    obtain ⟨h1, h2⟩ := hk rest below fuel
    refine ⟨?_, ?_⟩
    · have := (hstep rest below (fuel + k + 1)).1
      rw [show fuel + (k + 1) + 1 = fuel + k + 1 + 1 by omega, this]
      exact h1
    · have := (hstep rest below (fuel + k)).2
      rw [show fuel + (k + 1) = fuel + k + 1 by omega, this]
      exact h2

end Rva

namespace Rva

/-- the hypotheses of `include_is_paste` are met by real item lists: a label on its own line followed
    by a blank line (and, by the same steps, any sequence of such lines) -/
theorem sepAll_label_line (tl tn : FTok) (l : String) (hl : tl.kind = .label)
    (hll : labelFromStr tl.payload = some l) (hn : tn.kind = .newline) :
    SepAll [.tok tl, .tok tn] := by
  have h1 := parseStep_label tl l [.tok tn] hl hll
  have h2 := parseStep_newline tn [] hn
  have n1 : nextTop [.tok tl, .tok tn] = [.tok tn] := by unfold nextTop; rw [h1]
  have n2 : nextTop [.tok tn] = [] := by unfold nextTop; rw [h2]; simp [LexErr.recovers]
  refine SepAll.step _ (by simp) ⟨?_, ?_, ?_, ?_⟩ ?_
  · intro t rest d he hk _
    simp only [List.cons.injEq, PItem.tok.injEq] at he
    rw [← he.1, hl] at hk; cases hk
  · rw [h1]; simp
  · intro x hx; rw [h1] at hx; simp only [Except.ok.injEq] at hx; subst hx; rfl
  · intro e he; rw [h1] at he; cases he
  · rw [n1]
    refine SepAll.step _ (by simp) ⟨?_, ?_, ?_, ?_⟩ ?_
    · intro t rest d he hk _
      simp only [List.cons.injEq, PItem.tok.injEq] at he
      rw [← he.1, hn] at hk; cases hk
    · rw [h2]; simp
    · intro x hx; rw [h2] at hx; cases hx
    · intro e he hr; rw [h2] at he; simp only [Except.error.injEq] at he; subst he; simp [LexErr.recovers] at hr
    · rw [n2]; exact SepAll.nil

end Rva

namespace Rva

/-- **C07 (`later_lines_unaffected`).** Lines whose statements the frame rule covers (`SepAll bad` -
    for instance a malformed line that ends at its newline) contribute their own nodes and errors
    and nothing else: whatever stands behind them (`post`) is parsed exactly as it is parsed
    without them - `O` below is the result of parsing `post` alone, from the same reader - and what
    the lines themselves contribute (`nodes'`, `errs'`) does not depend on `post`. -/
theorem later_lines_unaffected (bad : List PItem) (hs : SepAll bad) (r : Reader) (nodes : List Node)
    (errs : List ParseErr) :
    ∃ k nodes' errs', ∀ (post : List PItem) (below : List (List PItem)) (fuel : Nat),
      parseLoop (fuel + k) ((bad ++ post) :: below) r nodes errs =
        ParseOut.shift nodes' errs' (parseLoop fuel (post :: below) r [] []) := by
  obtain ⟨k, n', e', h⟩ := include_is_paste bad hs r nodes errs
  refine ⟨k, n', e', fun post below fuel => ?_⟩
  rw [(h post below fuel).2]
  exact parseLoop_acc fuel _ r n' e'

end Rva
