/-
  C02, third clause — "an 'unused value' warning is given only for an assignment no path reads".

  `unused_warning_only_if_unread`: in any solution of the liveness equations, if some successor of
  an assignment starts a path on which the assigned register is read (by an instruction, by a
  callee as an argument, by the environment as a documented argument) before it is overwritten,
  then the trigger of the dead-assignment diagnostic is absent at that assignment.
  `unused_warning_sound`: so every dead-assignment item the lint pass reports at an assignment
  whose trigger is present stands at an assignment no such path reads.
-/
import Rva.Proofs.C02Paths
import Rva.Proofs.C05b
namespace Rva

/-- **C02 (`unused_warning_only_if_unread`).** -/
theorem unused_warning_only_if_unread (g : Cfg) (heq : ∀ i, LiveEqAt g i) (i : Nat) (d : W Reg)
    (s : Nat) (hs : s ∈ (g.get i).nexts) (hp : LivePathExt g d.val s) : ¬ DeadAssign g i d := by
  rintro ⟨_, _, hdead, _⟩
  have hlive := live_edge g i s (heq i) hs d.val (live_path_sound_ext g heq d.val s hp)
  rw [hdead] at hlive
  exact absurd hlive (by simp)

/-- contrapositive form: where the trigger holds, no successor starts a reading path -/
theorem unused_warning_sound (g : Cfg) (heq : ∀ i, LiveEqAt g i) (i : Nat) (d : W Reg)
    (h : DeadAssign g i d) : ∀ s ∈ (g.get i).nexts, ¬ LivePathExt g d.val s :=
  fun s hs hp => unused_warning_only_if_unread g heq i d s hs hp h

/-- **C02 (`arguments_cover_reads`).** The inferred argument registers of a function contain every
    argument register that some path from its entry reads before overwriting it. -/
theorem arguments_cover_reads (g : Cfg) (heq : ∀ i, LiveEqAt g i) (f : Func) (r : Reg)
    (ha : RegSet.mem argumentSet r = true)
    (s : Nat) (hs : s ∈ (g.get f.entry).nexts) (hp : LivePathExt g r s) :
    RegSet.mem (funcArguments g f) r = true := by
  unfold funcArguments
  rw [mem_and']
  have := live_edge g f.entry s (heq f.entry) hs r (live_path_sound_ext g heq r s hp)
  simp [this, ha]

/-- **C02 (`returns_cover_caller_reads`).** The inferred return registers of a function contain
    every return register that some caller reads after a call of it before overwriting it. -/
theorem returns_cover_caller_reads (g : Cfg) (heq : ∀ i, LiveEqAt g i) (c : Nat) (f : Func) (nm : W String)
    (hc : callsToFromCfg g (g.get c) = some (f, nm)) (r : Reg) (hr : RegSet.mem returnSet r = true)
    (s : Nat) (hs : s ∈ (g.get c).nexts) (hp : LivePathExt g r s) :
    RegSet.mem (funcReturns g f) r = true := by
  unfold funcReturns
  rw [mem_and']
  have hlo := live_edge g c s (heq c) hs r (live_path_sound_ext g heq r s hp)
  have := (live_call g c f nm (heq c) hc r).2.2 hlo
  simp [this, hr]

end Rva
