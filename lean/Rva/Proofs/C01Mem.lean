/-
  C01, fifth layer — stack slots.

  A memory claim `(entry-sp + off ↦ v)` means: the word at address `entry sp + off` holds `v`
  (`MemSound`). Proved: the memory transfer function (`nodeMemOut`) keeps all stack-slot claims
  true across register-to-register instructions, branches/jumps and word stores through a
  known stack pointer (`mem_transfer_sound`), and a word load whose address the analysis
  resolves to a stack slot gives the destination exactly the slot's claim, truthfully
  (`load_transfer_sound`). Word-granular memory; `sb`/`sh`/`lb`/`lh` (known finding F-02),
  stores through other registers that alias a claimed slot, and calls/ecalls (F-04) are outside
  this layer.
-/
import Rva.Proofs.C01Calls
namespace Rva

/-- what it means for the word `w` to be described by `v` (state `s`) -/
def valHolds (s : MState) (w : Word) : AVal → Prop
  | .const c => w = c
  | .addr l => w = s.addr l
  | .ors r k => w = s.entry r + k
  | .rs r k => w = s.reg r + k
  | _ => True

/-- every stack-slot claim of the map is true in the state -/
def MemSound (s : MState) (m : AMap MemLoc) : Prop :=
  ∀ off v, AMap.get m (.stack off) = some v → valHolds s (s.mem (s.entry 2 + off)) v

/-- in the middle of the transfer function: memory and entry values of the state *after* the
    instruction, but "current value of register r" still refers to the state *before* it -/
def valMid (s s' : MState) (w : Word) : AVal → Prop
  | .const c => w = c
  | .addr l => w = s'.addr l
  | .ors r k => w = s'.entry r + k
  | .rs r k => w = s.reg r + k
  | _ => True

def MemMid (s s' : MState) (m : AMap MemLoc) : Prop :=
  ∀ off v, AMap.get m (.stack off) = some v → valMid s s' (s'.mem (s'.entry 2 + off)) v

theorem wf_insert {κ : Type} [DecidableEq κ] (m : AMap κ) (k : κ) (v : AVal) (h : AMap.WF m) :
    AMap.WF (AMap.insert m k v) := by
  unfold AMap.insert AMap.WF
  simp only [List.map_cons, List.nodup_cons]
  refine ⟨?_, AMap.wf_erase m k h⟩
  intro hm
  obtain ⟨p, hp, hpk⟩ := List.mem_map.mp hm
  unfold AMap.erase at hp
  have := (List.mem_filter.mp hp).2
  simp at this
  exact this hpk

theorem get_of_mem_wf {κ : Type} [DecidableEq κ] (m : AMap κ) (p : κ × AVal) (hw : AMap.WF m) (hp : p ∈ m) :
    AMap.get m p.1 = some p.2 := by
  induction m with
  | nil => simp at hp
  | cons x xs ih =>
    have hw' : AMap.WF xs := by
      unfold AMap.WF at *; simp only [List.map_cons, List.nodup_cons] at hw; exact hw.2
    rw [AMap.get_cons]
    rcases List.mem_cons.mp hp with rfl | hp'
    · simp
    · have hne : x.1 ≠ p.1 := by
        unfold AMap.WF at hw; simp only [List.map_cons, List.nodup_cons] at hw
        intro e; exact hw.1 (List.mem_map.mpr ⟨p, hp', e.symm⟩)
      simp [hne]; exact ih hw' hp'

theorem memMid_insert (s s' : MState) (m : AMap MemLoc) (k : MemLoc) (v : AVal) (hm : MemMid s s' m)
    (hv : ∀ off, k = .stack off → valMid s s' (s'.mem (s'.entry 2 + off)) v) :
    MemMid s s' (AMap.insert m k v) := by
  intro off val h
  by_cases hk : MemLoc.stack off = k
  · rw [← hk, AMap.get_insert_self] at h
    exact (Option.some.inj h) ▸ hv off hk.symm
  · rw [AMap.get_insert_ne m (.stack off) k v (fun e => hk e.symm)] at h
    exact hm off val h


/-! ### the memory rules preserve the stack-slot claims -/

theorem zeroStep_mem (s s' : MState) (acc : AMap MemLoc) (p : MemLoc × AVal)
    (hz : s.reg 0 = 0#32) (he0 : s'.entry 0 = 0#32) (h : MemMid s s' acc) : MemMid s s' (zeroStep acc p) := by
  unfold zeroStep
  split
  · rename_i r i heq
    split
    · rename_i hc
      simp only [Bool.and_eq_true, beq_iff_eq] at hc
      apply memMid_insert s s' acc p.1 _ h
      intro off hk
      have := h off p.2 (by rw [← hk]; exact hc.2)
      rw [heq, hc.1] at this
      show s'.mem (s'.entry 2 + off) = i
      rw [this, he0]; simp
    · exact h
  · rename_i r i heq
    split
    · rename_i hc
      simp only [Bool.and_eq_true, beq_iff_eq] at hc
      apply memMid_insert s s' acc p.1 _ h
      intro off hk
      have := h off p.2 (by rw [← hk]; exact hc.2)
      rw [heq, hc.1] at this
      show s'.mem (s'.entry 2 + off) = i
      rw [this, hz]; simp
    · exact h
  · exact h

theorem zeroConsts_mem (s s' : MState) (out inn : AMap MemLoc) (hz : s.reg 0 = 0#32)
    (he0 : s'.entry 0 = 0#32) (h : MemMid s s' out) : MemMid s s' (zeroConsts out inn) := by
  unfold zeroConsts
  induction inn generalizing out with
  | nil => exact h
  | cons p ps ih => simp only [List.foldl_cons]; exact ih _ (zeroStep_mem s s' out p hz he0 h)

theorem pushCsr_mem (s s' : MState) (n : Node) (m : AMap MemLoc) (regOut : AMap Reg) (h : MemMid s s' m) :
    MemMid s s' (rulePushValueToCsrMemory n m regOut) := by
  unfold rulePushValueToCsrMemory
  split
  · split
    · exact memMid_insert s s' m _ _ h (fun off hk => by simp at hk)
    · exact h
  · exact h

theorem knownValues_eq (memOut : AMap MemLoc) (inn : AMap Reg) :
    ruleKnownValuesToStack memOut inn = memOut.foldl (knownStep inn) memOut := rfl

theorem knownStep_mem (s s' : MState) (inn : AMap Reg) (acc : AMap MemLoc) (p : MemLoc × AVal)
    (hs : Sound s inn) (hentry : s'.entry = s.entry) (h : MemMid s s' acc)
    (hp : ∀ off, p.1 = .stack off → valMid s s' (s'.mem (s'.entry 2 + off)) p.2) :
    MemMid s s' (knownStep inn acc p) := by
  unfold knownStep
  split
  · rename_i reg off heq
    split
    · rename_i x hx
      apply memMid_insert s s' acc p.1 _ h
      intro o hk
      have := hp o hk
      rw [heq] at this
      show s'.mem (s'.entry 2 + o) = x + off
      have hr : s.reg reg = x := hs reg _ hx
      rw [this, hr]
    · rename_i r2 off3 hx
      apply memMid_insert s s' acc p.1 _ h
      intro o hk
      have := hp o hk
      rw [heq] at this
      show s'.mem (s'.entry 2 + o) = s'.entry r2 + (off3 + off)
      have hr : s.reg reg = s.entry r2 + off3 := hs reg _ hx
      rw [this, hr, hentry, BitVec.add_assoc]
    · exact h
  · exact h

theorem knownValues_mem (s s' : MState) (m : AMap MemLoc) (inn : AMap Reg) (hw : AMap.WF m)
    (hs : Sound s inn) (hentry : s'.entry = s.entry) (h : MemMid s s' m) :
    MemMid s s' (ruleKnownValuesToStack m inn) := by
  rw [knownValues_eq]
  suffices ∀ (l : List (MemLoc × AVal)) (acc : AMap MemLoc),
      (∀ p ∈ l, ∀ off, p.1 = .stack off → valMid s s' (s'.mem (s'.entry 2 + off)) p.2) →
      MemMid s s' acc → MemMid s s' (l.foldl (knownStep inn) acc) by
    apply this m m _ h
    intro p hp off hk
    have := get_of_mem_wf m p hw hp
    rw [hk] at this
    exact h off p.2 this
  intro l
  induction l with
  | nil => intro acc _ ha; exact ha
  | cons p ps ih =>
    intro acc hl ha
    simp only [List.foldl_cons]
    exact ih _ (fun q hq => hl q (List.mem_cons_of_mem _ hq))
      (knownStep_mem s s' inn acc p hs hentry ha (hl p List.mem_cons_self))

theorem get_filter_pred {κ : Type} [DecidableEq κ] (m : AMap κ) (p : κ × AVal → Bool) (k : κ) (v : AVal)
    (hw : AMap.WF m) (h : AMap.get (m.filter p) k = some v) : p (k, v) = true := by
  have hmem := AMap.mem_of_get (m.filter p) k v h
  exact (List.mem_filter.mp hmem).2

/-- the last rule turns "value of r before the instruction" back into "current value of r":
    what it keeps refers to registers the instruction did not change -/
theorem forget_mem (s s' : MState) (cn : CNode) (m : AMap MemLoc) (hw : AMap.WF m)
    (haddr : s'.addr = s.addr)
    (hov : ∀ r, RegSet.mem (ovSet cn) r = false → s'.reg r = s.reg r)
    (h : MemMid s s' m) : MemSound s' (ruleForgetOverwritten cn m) := by
  intro off v hget
  unfold ruleForgetOverwritten at hget
  have hkept := get_filter_pred m _ (.stack off) v hw hget
  have hin := AMap.get_filter_wf m _ (.stack off) v hw hget
  have hmid := h off v hin
  cases v with
  | const c => exact hmid
  | addr l => exact hmid
  | ors r k => exact hmid
  | rs r k =>
    simp only [] at hkept
    show s'.mem (s'.entry 2 + off) = s'.reg r + k
    have : RegSet.mem (ovSet cn) r = false := by
      simpa using hkept
    rw [hov r this]
    exact hmid
  | _ => trivial


/-! ### well-formedness is kept by the memory rules -/

theorem wf_zeroStep {κ : Type} [DecidableEq κ] (acc : AMap κ) (p : κ × AVal) (h : AMap.WF acc) :
    AMap.WF (zeroStep acc p) := by
  unfold zeroStep
  split
  · split
    · exact wf_insert _ _ _ h
    · exact h
  · split
    · exact wf_insert _ _ _ h
    · exact h
  · exact h

theorem wf_zeroConsts {κ : Type} [DecidableEq κ] (out inn : AMap κ) (h : AMap.WF out) :
    AMap.WF (zeroConsts out inn) := by
  unfold zeroConsts
  induction inn generalizing out with
  | nil => exact h
  | cons p ps ih => simp only [List.foldl_cons]; exact ih _ (wf_zeroStep out p h)

theorem wf_pushCsr (n : Node) (m : AMap MemLoc) (regOut : AMap Reg) (h : AMap.WF m) :
    AMap.WF (rulePushValueToCsrMemory n m regOut) := by
  unfold rulePushValueToCsrMemory
  split
  · split
    · exact wf_insert _ _ _ h
    · exact h
  · exact h

theorem wf_knownStep (inn : AMap Reg) (acc : AMap MemLoc) (p : MemLoc × AVal) (h : AMap.WF acc) :
    AMap.WF (knownStep inn acc p) := by
  unfold knownStep
  split
  · split
    · exact wf_insert _ _ _ h
    · exact wf_insert _ _ _ h
    · exact h
  · exact h

theorem wf_knownValues (m : AMap MemLoc) (inn : AMap Reg) (h : AMap.WF m) :
    AMap.WF (ruleKnownValuesToStack m inn) := by
  unfold ruleKnownValuesToStack
  suffices ∀ (l : List (MemLoc × AVal)) (acc : AMap MemLoc), AMap.WF acc → AMap.WF (l.foldl (knownStep inn) acc) from
    this m m h
  intro l
  induction l with
  | nil => intro acc ha; exact ha
  | cons p ps ih => intro acc ha; simp only [List.foldl_cons]; exact ih _ (wf_knownStep inn acc p ha)

/-! ### the memory transfer function -/

/-- the tail of the memory transfer function (everything after the store has been entered) -/
theorem memRules_sound (cn : CNode) (inReg : AMap Reg) (inMem mem0 : AMap MemLoc) (regOut : AMap Reg)
    (s s' : MState) (hw0 : AMap.WF mem0) (hs : Sound s inReg) (hz : s.reg 0 = 0#32)
    (he0 : s'.entry 0 = 0#32) (hentry : s'.entry = s.entry) (haddr : s'.addr = s.addr)
    (hov : ∀ r, RegSet.mem (ovSet { cn with regIn := inReg }) r = false → s'.reg r = s.reg r)
    (h0 : MemMid s s' mem0) :
    MemSound s' (ruleForgetOverwritten { cn with regIn := inReg }
      (ruleKnownValuesToStack (rulePushValueToCsrMemory cn.node (zeroConsts mem0 inMem) regOut) inReg)) := by
  have w4 := wf_zeroConsts mem0 inMem hw0
  have m4 := zeroConsts_mem s s' mem0 inMem hz he0 h0
  have w5 := wf_pushCsr cn.node _ regOut w4
  have m5 := pushCsr_mem s s' cn.node _ regOut m4
  have w6 := wf_knownValues _ inReg w5
  have m6 := knownValues_mem s s' _ inReg w5 hs hentry m5
  exact forget_mem s s' _ _ w6 haddr hov m6

/-- **memory claims across an instruction that enters no store**: every stack-slot claim stays
    true if the instruction leaves the claimed slots alone and changes only registers the
    analysis knows it overwrites -/
theorem mem_silent_sound (cn : CNode) (inReg : AMap Reg) (inMem : AMap MemLoc) (regOut : AMap Reg)
    (s s' : MState) (hnotentry : cn.node.isAnyEntry = false) (hgen : cn.node.genMemoryValue = none)
    (hw : AMap.WF inMem) (hs : Sound s inReg) (hm : MemSound s inMem) (hz : s.reg 0 = 0#32)
    (he0 : s.entry 0 = 0#32) (hentry : s'.entry = s.entry) (haddr : s'.addr = s.addr)
    (hov : ∀ r, RegSet.mem (ovSet { cn with regIn := inReg }) r = false → s'.reg r = s.reg r)
    (hslots : ∀ off v, AMap.get inMem (.stack off) = some v →
      s'.mem (s.entry 2 + off) = s.mem (s.entry 2 + off)) :
    MemSound s' (nodeMemOut cn inReg inMem regOut) := by
  unfold nodeMemOut
  simp only [hnotentry, Bool.false_eq_true, if_false, hgen]
  apply memRules_sound cn inReg inMem inMem regOut s s' hw hs hz (by rw [hentry]; exact he0) hentry haddr hov
  intro off v hget
  have := hm off v hget
  rw [hentry, hslots off v hget]
  cases v with
  | const c => exact this
  | addr l => show _ = s'.addr l; rw [haddr]; exact this
  | ors r k => show _ = s'.entry r + k; rw [hentry]; exact this
  | rs r k => exact this
  | _ => trivial

/-- **a word store through the stack pointer**: `sw rs2, imm(sp)` with sp at a known position
    records "slot = value of rs2" and leaves every other claimed slot true -/
theorem mem_store_sound (cn : CNode) (inReg : AMap Reg) (inMem : AMap MemLoc) (regOut : AMap Reg)
    (s s' : MState) (i : W String) (rs1 rs2 : W Reg) (imm : W Word) (t : RawTok) (cur : Word)
    (hn : cn.node = .store i rs1 rs2 imm t) (hsp : rs1.val = 2) (hcur : stackOffset inReg = some cur)
    (hw : AMap.WF inMem) (hs : Sound s inReg) (hm : MemSound s inMem) (hz : s.reg 0 = 0#32)
    (he0 : s.entry 0 = 0#32) (hentry : s'.entry = s.entry) (haddr : s'.addr = s.addr)
    (hreg : ∀ r, s'.reg r = s.reg r)
    (hstore : ∀ a, s'.mem a = if a = s.reg 2 + imm.val then s.reg rs2.val else s.mem a) :
    MemSound s' (nodeMemOut cn inReg inMem regOut) := by
  -- the stack pointer is where the analysis says it is
  have hsp2 : s.reg 2 = s.entry 2 + cur := by
    unfold stackOffset at hcur
    split at hcur
    · rename_i r off heq
      split at hcur
      · rename_i hr
        have hr' : r = 2 := by simpa using hr
        subst hr'
        have := hs 2 _ heq
        simp only [Option.some.injEq] at hcur
        subst hcur
        exact this
      · simp at hcur
    · simp at hcur
  unfold nodeMemOut
  have hne : cn.node.isAnyEntry = false := by rw [hn]; rfl
  have hgen : cn.node.genMemoryValue = some (.stack imm.val, .rs rs2.val 0#32) := by
    rw [hn]; simp [Node.genMemoryValue, hsp]
  simp only [hne, Bool.false_eq_true, if_false, hgen, hcur]
  apply memRules_sound cn inReg inMem _ regOut s s' (wf_insert _ _ _ hw) hs hz
    (by rw [hentry]; exact he0) hentry haddr (fun r _ => hreg r)
  -- the address written is the slot `cur + imm`
  have haddr_w : s.reg 2 + imm.val = s.entry 2 + (cur + imm.val) := by
    rw [hsp2, BitVec.add_assoc]
  intro off v hget
  by_cases hk : off = cur + imm.val
  · -- the slot just written
    subst hk
    rw [AMap.get_insert_self] at hget
    have hv : v = .rs rs2.val 0#32 := (Option.some.inj hget).symm
    subst hv
    show s'.mem (s'.entry 2 + (cur + imm.val)) = s.reg rs2.val + 0#32
    rw [hentry, hstore, ← haddr_w]
    simp
  · -- every other slot keeps its word
    rw [AMap.get_insert_ne inMem (.stack off) (.stack (cur + imm.val)) _
      (by intro e; injection e with e; exact hk e.symm)] at hget
    have hold := hm off v hget
    have hsame : s'.mem (s'.entry 2 + off) = s.mem (s.entry 2 + off) := by
      rw [hentry, hstore, haddr_w]
      have : s.entry 2 + off ≠ s.entry 2 + (cur + imm.val) := by
        intro e
        have := congrArg (fun x => x - s.entry 2) e     -- addition is injective
        simp at this
        exact hk this
      simp [this]
    rw [hsame]
    cases v with
    | const c => exact hold
    | addr l => show _ = s'.addr l; rw [haddr]; exact hold
    | ors r k => show _ = s'.entry r + k; rw [hentry]; exact hold
    | rs r k => exact hold
    | _ => trivial


/-! ### loads -/

/-- the concrete effect of a word load -/
structure LoadStep (s s' : MState) (rd rs1 : Reg) (imm : Word) : Prop where
  wr : rd ≠ 0 → s'.reg rd = s.mem (s.reg rs1 + imm)
  keep : ∀ r, r ≠ rd → s'.reg r = s.reg r
  zero : s'.reg 0 = s.reg 0
  entry : s'.entry = s.entry
  addr : s'.addr = s.addr
  mem : s'.mem = s.mem

/-- a slot's description, read into a register -/
theorem claim_of_val (s s' : MState) (rd : Reg) (w : Word) (v : AVal) (hz : s.reg 0 = 0#32)
    (hreg : s'.reg rd = w) (hentry : s'.entry = s.entry) (haddr : s'.addr = s.addr)
    (h : valHolds s w v) : claimHolds s' rd v := by
  cases v with
  | const c => show s'.reg rd = c; rw [hreg]; exact h
  | addr l => show s'.reg rd = s'.addr l; rw [hreg, haddr]; exact h
  | ors r k => show s'.reg rd = s'.entry r + k; rw [hreg, hentry]; exact h
  | rs r k =>
    intro h0
    show s'.reg rd = k
    rw [hreg]
    have : w = s.reg r + k := h
    rw [this, h0, hz]; simp
  | _ => trivial

/-- **C01 (`load_transfer_sound`).** A word load whose base register the analysis knows
    relative to an entry value: the out-map is sound — in particular, when the address is a
    stack slot with a claim, the destination receives that claim and it is true of the loaded
    word (given the slot claims are true, `MemSound`). -/
theorem load_transfer_sound (cn : CNode) (inReg : AMap Reg) (inMem : AMap MemLoc) (s s' : MState)
    (i : W String) (rd rs1 : W Reg) (imm : W Word) (t : RawTok)
    (hn : cn.node = .load i rd rs1 imm t) (hwl : isWordLoad i.val = true) (hrd : rd.val < 32)
    (hne : rs1.val ≠ rd.val)
    (hbase : ∀ c, AMap.get inReg rs1.val ≠ some (.vcsr c))
    (hz : s.reg 0 = 0#32) (he0 : s.entry 0 = 0#32) (hs : Sound s inReg) (hm : MemSound s inMem)
    (hstep : LoadStep s s' rd.val rs1.val imm.val) : Sound s' (nodeRegOut cn inReg inMem) := by
  -- the map before the rules: in-map without rd, plus the generated "memory at rs1+imm"
  have hw : cn.node.writesTo = some rd := by rw [hn]; rfl
  have hpre : preRules cn inReg =
      insertGen ((RegSet.toList (plainKill rd.val)).foldl AMap.erase inReg) cn.node.genRegValue := by
    unfold preRules
    have hcall : cn.node.callsTo = none := by rw [hn]; rfl
    have hfe : cn.node.isFunctionEntry = false := by rw [hn]; rfl
    have hhe : cn.node.isHandlerFunctionEntry = false := by rw [hn]; rfl
    have hpe : cn.node.isProgramEntry = false := by rw [hn]; rfl
    have hec : cn.node.isEcall = false := by rw [hn]; rfl
    have hkill : cn.node.killReg = plainKill rd.val := by
      unfold Node.killReg plainKill
      simp [hcall, hfe, hw]
    have hsig : ecallSignature { cn with regIn := inReg } = none := by
      unfold ecallSignature knownEcall; simp [hec]
    simp only [hcall, hfe, hhe, hpe, hec, hkill, hsig, Option.isSome_none, Bool.false_eq_true, if_false,
      Bool.false_and]
  have hkilled : ∀ j, AMap.get ((RegSet.toList (plainKill rd.val)).foldl AMap.erase inReg) j =
      if j = rd.val ∧ rd.val ≠ 0 then none else AMap.get inReg j := by
    intro j
    rw [AMap.get_foldl_erase]
    by_cases hj : j ∈ RegSet.toList (plainKill rd.val)
    · have hh := (mem_plainKill rd.val j hrd).mp hj
      rw [if_pos hj, if_pos hh]
    · have : ¬ (j = rd.val ∧ rd.val ≠ 0) := fun h => hj ((mem_plainKill rd.val j hrd).mpr h)
      rw [if_neg hj, if_neg this]
  -- frame: every key other than rd
  have hframe : ∀ k val, k ≠ 0 → k ≠ rd.val → AMap.get inReg k = some val → claimHolds s' k val :=
    fun k val _ hk hget => claim_frame s s' k val (hstep.keep k hk) hstep.entry hstep.addr (hs k val hget)
  have hP : SoundNZ s' (preRules cn inReg) := by
    rw [hpre]
    intro k val hk0 hget
    have hgen : cn.node.genRegValue = if rd.val == 0 then none else some (rd.val, .mr rs1.val imm.val) := by
      rw [hn]; simp only [Node.genRegValue, hwl, if_true]
    rw [hgen] at hget
    by_cases hk : k = rd.val
    · subst hk
      have : (rd.val == 0) = false := by simpa using hk0
      simp only [this, Bool.false_eq_true, if_false, insertGen] at hget
      rw [AMap.get_insert_self] at hget
      rw [← Option.some.inj hget]; trivial
    · split at hget
      · simp only [insertGen] at hget
        rw [hkilled] at hget
        have hget' : AMap.get inReg k = some val := by simpa [hk] using hget
        exact hframe k val hk0 hk hget'
      · simp only [insertGen] at hget
        rw [AMap.get_insert_ne _ k rd.val _ (fun e => hk e.symm), hkilled] at hget
        have hget' : AMap.get inReg k = some val := by simpa [hk] using hget
        exact hframe k val hk0 hk hget'
  -- the rest of the rules
  unfold nodeRegOut
  simp only []
  have hexp_sound : SoundNZ s' (ruleExpandAddressForLoad cn.node (preRules cn inReg) inReg) := by
    rw [hn]
    simp only [ruleExpandAddressForLoad, hwl, Bool.not_true, Bool.false_eq_true, if_false]
    split
    · exact soundNZ_insert s' _ _ _ hP (fun _ => trivial)
    · exact soundNZ_insert s' _ _ _ hP (fun _ => trivial)
    · exact hP
  -- every step changes only the entry of rd
  have hPframe : ∀ k, k ≠ rd.val → AMap.get (preRules cn inReg) k = AMap.get inReg k := by
    intro k hk
    rw [hpre]
    have hgen : cn.node.genRegValue = if rd.val == 0 then none else some (rd.val, .mr rs1.val imm.val) := by
      rw [hn]; simp only [Node.genRegValue, hwl, if_true]
    rw [hgen]
    split
    · simp only [insertGen]; rw [hkilled]; simp [hk]
    · simp only [insertGen]; rw [AMap.get_insert_ne _ k rd.val _ (fun e => hk e.symm), hkilled]; simp [hk]
  have hR1frame : ∀ k, k ≠ rd.val →
      AMap.get (ruleExpandAddressForLoad cn.node (preRules cn inReg) inReg) k = AMap.get inReg k := by
    intro k hk
    rw [hn]
    simp only [ruleExpandAddressForLoad, hwl, Bool.not_true, Bool.false_eq_true, if_false]
    split
    · rw [AMap.get_insert_ne _ k rd.val _ (fun e => hk e.symm)]; exact hPframe k hk
    · rw [AMap.get_insert_ne _ k rd.val _ (fun e => hk e.symm)]; exact hPframe k hk
    · exact hPframe k hk
  -- what the destination holds after the address has been expanded
  have hR1rd : rd.val ≠ 0 →
      (∃ r off0, AMap.get inReg rs1.val = some (.ors r off0) ∧
        AMap.get (ruleExpandAddressForLoad cn.node (preRules cn inReg) inReg) rd.val =
          some (.omr r (off0 + imm.val))) ∨
      (∃ l, AMap.get (ruleExpandAddressForLoad cn.node (preRules cn inReg) inReg) rd.val =
          some (.mem l imm.val)) ∨
      AMap.get (ruleExpandAddressForLoad cn.node (preRules cn inReg) inReg) rd.val =
          some (.mr rs1.val imm.val) := by
    intro hrd0
    rw [hn]
    simp only [ruleExpandAddressForLoad, hwl, Bool.not_true, Bool.false_eq_true, if_false]
    split
    · rename_i r off heq
      exact Or.inl ⟨r, off, heq, AMap.get_insert_self _ _ _⟩
    · rename_i l heq
      exact Or.inr (Or.inl ⟨l, AMap.get_insert_self _ _ _⟩)
    · right; right
      rw [hpre]
      have hgen : cn.node.genRegValue = if rd.val == 0 then none else some (rd.val, .mr rs1.val imm.val) := by
        rw [hn]; simp only [Node.genRegValue, hwl, if_true]
      have : (rd.val == 0) = false := by simpa using hrd0
      rw [hgen]
      simp only [this, Bool.false_eq_true, if_false, insertGen]
      exact AMap.get_insert_self _ _ _
  generalize hR1 : ruleExpandAddressForLoad cn.node (preRules cn inReg) inReg = R1 at hexp_sound hR1frame hR1rd
  -- the stack rule
  have hvfs : SoundNZ s' (ruleValueFromStack cn.node R1 inMem) ∧
      ∀ k, k ≠ rd.val → AMap.get (ruleValueFromStack cn.node R1 inMem) k = AMap.get inReg k := by
    unfold ruleValueFromStack
    rw [hw]
    simp only []
    constructor
    · by_cases hrd0 : rd.val = 0
      · intro k val hk0 hget
        have hne' : k ≠ rd.val := by rw [hrd0]; exact hk0
        rw [get_pullStack_ne _ _ _ _ hne', get_pullCsr_ne _ _ _ _ hne'] at hget
        exact hexp_sound k val hk0 hget
      · -- no CSR value at the destination
        have hcsr : pullCsrValue R1 inMem rd.val = R1 := by
          unfold pullCsrValue
          split
          · rename_i c heq
            rcases hR1rd hrd0 with ⟨r, off0, _, h1⟩ | ⟨l, h1⟩ | h1 <;> (rw [h1] at heq; simp at heq)
          · rfl
        rw [hcsr]
        unfold pullStackValue
        split
        · rename_i psp off' heq
          split
          · rename_i hpsp
            split
            · rename_i v hv
              apply soundNZ_insert s' R1 rd.val v hexp_sound
              intro _
              -- the address is the slot off'
              rcases hR1rd hrd0 with ⟨r, off0, hin, h1⟩ | ⟨l, h1⟩ | h1
              · rw [h1] at heq
                simp only [Option.some.injEq, AVal.omr.injEq] at heq
                obtain ⟨e1, e2⟩ := heq
                have hp2 : psp = 2 := by simpa using hpsp
                subst e1; subst e2; subst hp2
                have hbase' : s.reg rs1.val = s.entry 2 + off0 := hs rs1.val _ hin
                have hword : s'.reg rd.val = s.mem (s.entry 2 + (off0 + imm.val)) := by
                  rw [hstep.wr hrd0, hbase', BitVec.add_assoc]
                exact claim_of_val s s' rd.val _ v hz hword hstep.entry hstep.addr (hm _ v hv)
              · rw [h1] at heq; simp at heq
              · rw [h1] at heq; simp at heq
            · exact hexp_sound
          · exact hexp_sound
        · exact hexp_sound
    · intro k hk
      rw [get_pullStack_ne _ _ _ _ hk, get_pullCsr_ne _ _ _ _ hk]
      exact hR1frame k hk
  generalize ruleValueFromStack cn.node R1 inMem = R2 at hvfs
  -- the CSR pull does not apply: the base register does not hold a CSR value
  have hpull : rulePullValueFromCsrMemory cn.node R2 cn.memOut = R2 := by
    unfold rulePullValueFromCsrMemory
    rw [hn]
    simp only [Node.readsFromMemory]
    rw [hvfs.2 rs1.val hne]
    split
    · rename_i c heq; exact absurd heq (hbase c)
    · rfl
  rw [hpull]
  exact sound_of_soundNZ_erase s' _
    (performMath_sound s' cn.node _ inReg
      (zeroConsts_sound s' _ inReg (by rw [hstep.entry]; exact he0) hvfs.1)
      (fun rd' v _ _ hmr => by rw [hn] at hmr; simp [mathResult] at hmr))


/-! ### executions with stack traffic -/

theorem memSound_of_get_eq (s : MState) (a b : AMap MemLoc) (h : ∀ k, AMap.get a k = AMap.get b k)
    (hb : MemSound s b) : MemSound s a := fun off v hv => hb off v (by rw [← h]; exact hv)

theorem memMeet_right (s : MState) (m o : AMap MemLoc) (ho : MemSound s o) : MemSound s (AMap.meet m o) :=
  fun off v h => ho off v (AMap.get_meet_right m o _ v h)

theorem memMeet_left (s : MState) (m o : AMap MemLoc) (hw : AMap.WF m) (hm : MemSound s m) :
    MemSound s (AMap.meet m o) :=
  fun off v h => hm off v (AMap.get_filter_wf m _ _ v hw h)

/-- the meet at a join keeps the slot claims of the predecessor actually taken -/
theorem meetOver_memSound (s : MState) (l : List (AMap MemLoc)) (hw : ∀ m ∈ l, AMap.WF m) (o : AMap MemLoc)
    (ho : o ∈ l) (hs : MemSound s o) : MemSound s (meetOver l) := by
  unfold meetOver
  match l, hw, ho with
  | m :: rest, hw, ho =>
    simp only []
    have key : ∀ (rest : List (AMap MemLoc)) (acc : AMap MemLoc), AMap.WF acc →
        (MemSound s acc ∨ (o ∈ rest)) → MemSound s (rest.foldl AMap.meet acc) := by
      intro rest
      induction rest with
      | nil => intro acc _ h; rcases h with h | h
               · exact h
               · simp at h
      | cons x xs ih =>
        intro acc hacc h
        simp only [List.foldl_cons]
        apply ih _ (AMap.wf_filter acc _ hacc)
        rcases h with h | h
        · exact Or.inl (memMeet_left s acc x hacc h)
        · rcases List.mem_cons.mp h with rfl | h
          · exact Or.inl (memMeet_right s acc o hs)
          · exact Or.inr h
    apply key rest m (hw m List.mem_cons_self)
    rcases List.mem_cons.mp ho with rfl | h
    · exact Or.inl hs
    · exact Or.inr h

/-- the facts of a finished run, registers and memory -/
structure GoodFactsM (g : Cfg) (V : List Nat) : Prop extends GoodFacts g V where
  wfMemIn : ∀ i, AMap.WF (g.get i).memIn
  wfMemOut : ∀ i, AMap.WF (g.get i).memOut
  eqMemIn : ∀ i, i ∈ V → ∀ k, AMap.get (g.get i).memIn k =
    AMap.get (meetOver (((g.get i).prevs.filter V.contains).map fun p => (g.get p).memOut)) k
  eqMemOut : ∀ i, i ∈ V → ∀ k, AMap.get (g.get i).memOut k =
    AMap.get (nodeMemOut (g.get i) (g.get i).regIn (g.get i).memIn (g.get i).regOut) k

/-- nodes that are neither calls nor ecalls overwrite exactly what they kill -/
theorem ovSet_plain (cn : CNode) (inReg : AMap Reg) (hc : cn.node.callsTo = none)
    (he : cn.node.isEcall = false) : ovSet { cn with regIn := inReg } = cn.node.killReg := by
  unfold ovSet
  have hsig : ecallSignature { cn with regIn := inReg } = none := by
    unfold ecallSignature knownEcall; simp [he]
  simp [hc, he, hsig]

/-- one machine step of the stack-traffic layer -/
inductive MStep (g : Cfg) (i : Nat) (s s' : MState) : Prop where
  | plain (rd : Reg) (v : Word) : plainValue s (g.get i).node = some (rd, v) → rd < 32 →
      PlainStep s s' rd v → s'.mem = s.mem → MStep g i s s'
  | quiet : (g.get i).node.isQuiet = true → (g.get i).node.genMemoryValue = none →
      (∀ r, s'.reg r = s.reg r) → s'.entry = s.entry → s'.addr = s.addr →
      (∀ off v, AMap.get (g.get i).memIn (.stack off) = some v →
        s'.mem (s.entry 2 + off) = s.mem (s.entry 2 + off)) → MStep g i s s'
  | storeSp (inst : W String) (rs1 rs2 : W Reg) (imm : W Word) (t : RawTok) (cur : Word) :
      (g.get i).node = .store inst rs1 rs2 imm t → rs1.val = 2 →
      stackOffset (g.get i).regIn = some cur →
      (∀ r, s'.reg r = s.reg r) → s'.entry = s.entry → s'.addr = s.addr →
      (∀ a, s'.mem a = if a = s.reg 2 + imm.val then s.reg rs2.val else s.mem a) → MStep g i s s'
  | load (inst : W String) (rd rs1 : W Reg) (imm : W Word) (t : RawTok) :
      (g.get i).node = .load inst rd rs1 imm t → isWordLoad inst.val = true → rd.val < 32 → rs1.val ≠ rd.val →
      (∀ c, AMap.get (g.get i).regIn rs1.val ≠ some (.vcsr c)) →
      LoadStep s s' rd.val rs1.val imm.val → MStep g i s s'

inductive MExec (g : Cfg) (V : List Nat) (i0 : Nat) (s0 : MState) : Nat → MState → Prop where
  | start : MExec g V i0 s0 i0 s0
  | step (i j : Nat) (s s' : MState) : MExec g V i0 s0 i s → MStep g i s s' →
      i ∈ V → j ∈ V → i ∈ (g.get j).prevs → MExec g V i0 s0 j s'

/-- one step of the stack-traffic layer: from the in-facts of node `i` (true before) to its
    out-facts (true after) -/
theorem mstep_out_sound (g : Cfg) (V : List Nat) (hf : GoodFactsM g V) (i : Nat) (hi : i ∈ V) (s s' : MState)
    (ihs : Sound s (g.get i).regIn) (ihm : MemSound s (g.get i).memIn) (ihe : s.entry 0 = 0#32)
    (ihz : s.reg 0 = 0#32) (hstep : MStep g i s s') :
    Sound s' (g.get i).regOut ∧ MemSound s' (g.get i).memOut ∧ s'.entry 0 = 0#32 ∧ s'.reg 0 = 0#32 := by
  cases hstep with
  | plain rd v hval hrd hp hmem =>
    obtain ⟨hpl, wrd, hw, hwrd⟩ := plainValue_dest s (g.get i).node rd v hval
    refine ⟨?_, ?_, by rw [hp.entry]; exact ihe, by rw [hp.zero]; exact ihz⟩
    · exact sound_of_get_eq s' _ _ (hf.eqOut i hi)
        (plain_transfer_sound (g.get i) _ _ s s' rd v hval hrd ihz ihe ihs hp)
    · apply memSound_of_get_eq s' _ _ (hf.eqMemOut i hi)
      have hc : (g.get i).node.callsTo = none := by
        cases h : (g.get i).node <;> rw [h] at hpl <;> simp [Node.isPlain, Node.callsTo] at hpl ⊢
      have hec : (g.get i).node.isEcall = false := by
        cases h : (g.get i).node <;> rw [h] at hpl <;> simp [Node.isPlain, Node.isEcall] at hpl ⊢
      have hne : (g.get i).node.isAnyEntry = false := by
        cases h : (g.get i).node <;> rw [h] at hpl <;> simp [Node.isPlain, Node.isAnyEntry] at hpl ⊢
      have hgm : (g.get i).node.genMemoryValue = none := by
        cases h : (g.get i).node <;> rw [h] at hpl <;> simp [Node.isPlain, Node.genMemoryValue] at hpl ⊢
      have hfe : (g.get i).node.isFunctionEntry = false := by
        cases h : (g.get i).node <;> rw [h] at hpl <;> simp [Node.isPlain, Node.isFunctionEntry] at hpl ⊢
      apply mem_silent_sound (g.get i) _ _ _ s s' hne hgm (hf.wfMemIn i) ihs ihm ihz ihe hp.entry hp.addr
      · intro r hr
        rw [ovSet_plain _ _ hc hec] at hr
        have hk : (g.get i).node.killReg = plainKill rd := by
          unfold Node.killReg plainKill; simp [hc, hfe, hw, hwrd]
        rw [hk] at hr
        by_cases hrr : r = rd
        · subst hrr
          by_cases hr0 : r = 0
          · subst hr0; exact hp.zero
          · exfalso
            have : r ∈ RegSet.toList (plainKill r) := (mem_plainKill r r hrd).mpr ⟨rfl, hr0⟩
            rw [mem_toList] at this
            rw [this.2] at hr; simp at hr
        · exact hp.keep r hrr
      · intro off v _; rw [hmem]
  | quiet hq hgm hreg hentry haddr hslots =>
    refine ⟨?_, ?_, by rw [hentry]; exact ihe, by rw [hreg 0]; exact ihz⟩
    · exact sound_of_get_eq s' _ _ (hf.eqOut i hi)
        (quiet_transfer_sound (g.get i) _ _ s s' hq ihe ihs (fun r _ => hreg r) hentry haddr)
    · apply memSound_of_get_eq s' _ _ (hf.eqMemOut i hi)
      have hne : (g.get i).node.isAnyEntry = false := by
        cases h : (g.get i).node <;> rw [h] at hq <;> simp [Node.isQuiet, Node.isAnyEntry] at hq ⊢
      exact mem_silent_sound (g.get i) _ _ _ s s' hne hgm (hf.wfMemIn i) ihs ihm ihz ihe hentry haddr
        (fun r _ => hreg r) hslots
  | storeSp inst rs1 rs2 imm t cur hn hsp hcur hreg hentry haddr hstore =>
    refine ⟨?_, ?_, by rw [hentry]; exact ihe, by rw [hreg 0]; exact ihz⟩
    · have hq : (g.get i).node.isQuiet = true := by rw [hn]; rfl
      exact sound_of_get_eq s' _ _ (hf.eqOut i hi)
        (quiet_transfer_sound (g.get i) _ _ s s' hq ihe ihs (fun r _ => hreg r) hentry haddr)
    · exact memSound_of_get_eq s' _ _ (hf.eqMemOut i hi)
        (mem_store_sound (g.get i) _ _ _ s s' inst rs1 rs2 imm t cur hn hsp hcur (hf.wfMemIn i) ihs ihm
          ihz ihe hentry haddr hreg hstore)
  | load inst rd rs1 imm t hn hwl hrd hne hbase hl =>
    refine ⟨?_, ?_, by rw [hl.entry]; exact ihe, by rw [hl.zero]; exact ihz⟩
    · exact sound_of_get_eq s' _ _ (hf.eqOut i hi)
        (load_transfer_sound (g.get i) _ _ s s' inst rd rs1 imm t hn hwl hrd hne hbase ihz ihe ihs ihm hl)
    · apply memSound_of_get_eq s' _ _ (hf.eqMemOut i hi)
      have hc : (g.get i).node.callsTo = none := by rw [hn]; rfl
      have hec : (g.get i).node.isEcall = false := by rw [hn]; rfl
      have hnent : (g.get i).node.isAnyEntry = false := by rw [hn]; rfl
      have hgm : (g.get i).node.genMemoryValue = none := by rw [hn]; rfl
      apply mem_silent_sound (g.get i) _ _ _ s s' hnent hgm (hf.wfMemIn i) ihs ihm ihz ihe hl.entry hl.addr
      · intro r hr
        rw [ovSet_plain _ _ hc hec] at hr
        have hk : (g.get i).node.killReg = plainKill rd.val := by
          rw [hn]; unfold Node.killReg plainKill; simp [Node.callsTo, Node.isFunctionEntry, Node.writesTo]
        rw [hk] at hr
        by_cases hrr : r = rd.val
        · by_cases hr0 : r = 0
          · subst hr0; exact hl.zero
          · exfalso
            have : r ∈ RegSet.toList (plainKill rd.val) := (mem_plainKill rd.val r hrd).mpr ⟨hrr, hrr ▸ hr0⟩
            rw [mem_toList] at this
            rw [this.2] at hr; simp at hr
        · exact hl.keep r hrr
      · intro off v _; rw [hl.mem]

/-- **C01 (`exec_sound_mem`).** Along every execution through register-to-register
    instructions, branches and jumps, word stores through a stack pointer at a known position
    and word loads: every register claim *and every stack-slot claim* attached to the node
    about to execute is true in the machine state (word-granular memory; x0 reads as zero). -/
theorem exec_sound_mem (g : Cfg) (V : List Nat) (hf : GoodFactsM g V) (i0 : Nat) (s0 : MState)
    (h0 : Sound s0 (g.get i0).regIn) (h0m : MemSound s0 (g.get i0).memIn)
    (h0e : s0.entry 0 = 0#32) (h0z : s0.reg 0 = 0#32) (j : Nat) (s' : MState)
    (he : MExec g V i0 s0 j s') :
    Sound s' (g.get j).regIn ∧ MemSound s' (g.get j).memIn ∧ s'.entry 0 = 0#32 ∧ s'.reg 0 = 0#32 := by
  induction he with
  | start => exact ⟨h0, h0m, h0e, h0z⟩
  | step i j s s' _ hstep hi hj hedge ih =>
    obtain ⟨ihs, ihm, ihe, ihz⟩ := ih
    -- registers and memory after node i
    have hboth := mstep_out_sound g V hf i hi s s' ihs ihm ihe ihz hstep
    obtain ⟨hout, hmout, hent, hzero⟩ := hboth
    refine ⟨?_, ?_, hent, hzero⟩
    · apply sound_of_get_eq s' _ _ (hf.eqIn j hj)
      apply meetOver_sound s' _ _ (g.get i).regOut _ hout
      · intro m hm
        obtain ⟨p, _, rfl⟩ := List.mem_map.mp hm
        exact hf.wfOut p
      · apply List.mem_map.mpr
        refine ⟨i, ?_, rfl⟩
        rw [List.mem_filter]
        exact ⟨hedge, by simpa using hi⟩
    · apply memSound_of_get_eq s' _ _ (hf.eqMemIn j hj)
      apply meetOver_memSound s' _ _ (g.get i).memOut _ hmout
      · intro m hm
        obtain ⟨p, _, rfl⟩ := List.mem_map.mp hm
        exact hf.wfMemOut p
      · apply List.mem_map.mpr
        refine ⟨i, ?_, rfl⟩
        rw [List.mem_filter]
        exact ⟨hedge, by simpa using hi⟩


/-- the hypothesis of `exec_sound_mem` is decidable: the two checks the driver evaluates for
    every generated program (stage `good`: `GOODFACTS`, `GOODMEM`) imply `GoodFactsM` -/
theorem goodMemFactsB_sound (g : Cfg) (V : List Nat) (hv : V.all (· < g.nodes.size) = true)
    (h1 : goodFactsB g V = true) (h2 : goodMemFactsB g V = true) : GoodFactsM g V := by
  have base := goodFactsB_sound g V hv h1
  unfold goodMemFactsB at h2
  simp only [List.all_eq_true, List.mem_range, Bool.and_eq_true, Bool.or_eq_true, Bool.not_eq_true'] at h2
  have hdef : ∀ i, ¬ i < g.nodes.size → (g.get i).memIn = [] ∧ (g.get i).memOut = [] := by
    intro i hi
    have : g.get i = default := by simp [Cfg.get, hi]
    rw [this]; exact ⟨rfl, rfl⟩
  refine { base with wfMemIn := ?_, wfMemOut := ?_, eqMemIn := ?_, eqMemOut := ?_ }
  · intro i
    by_cases hi : i < g.nodes.size
    · exact keysNodup_wf _ (h2 i hi).1.1
    · rw [(hdef i hi).1]; simp [AMap.WF]
  · intro i
    by_cases hi : i < g.nodes.size
    · exact keysNodup_wf _ (h2 i hi).1.2
    · rw [(hdef i hi).2]; simp [AMap.WF]
  · intro i hi k
    have := (h2 i (base.vlt i hi)).2
    rcases this with hc | hc
    · have : V.contains i = true := by simpa using hi
      rw [this] at hc; simp at hc
    · exact sameAs_get _ _ hc.1 k
  · intro i hi k
    have := (h2 i (base.vlt i hi)).2
    rcases this with hc | hc
    · have : V.contains i = true := by simpa using hi
      rw [this] at hc; simp at hc
    · exact sameAs_get _ _ hc.2 k

end Rva
