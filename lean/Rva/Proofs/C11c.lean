/-
  C11 / C06 — the function walk of the markup pass always finishes within its fuel.

  `markLoop_terminates`: on a graph whose nodes have at most two successors, all inside the node
  array (what the direction pass produces), the walk started at any node ends with an empty work
  list before `markFuel` steps are used. This discharges the hypothesis `hdone` of
  `body_is_reachable_set` / `markStep_body` / `markStep_error_no_return` for every such graph,
  and is the termination argument of the pass (C06): every step either drops an already visited
  node from the work list or visits a new node and pushes at most two.
-/
import Rva.Proofs.C11b
namespace Rva

/-- at most two successors per node, all in range -/
structure OutSmall (g : Cfg) : Prop where
  deg : ∀ a, (g.get a).nexts.length ≤ 2
  lt : ∀ a b, b ∈ (g.get a).nexts → b < g.nodes.size

theorem nodup_lt_length (n : Nat) : ∀ (l : List Nat), l.Nodup → (∀ x ∈ l, x < n) → l.length ≤ n := by
  induction n with
  | zero =>
    intro l _ h
    cases l with
    | nil => simp
    | cons x xs => exact absurd (h x List.mem_cons_self) (by omega)
  | succ n ih =>
    intro l hnd h
    -- remove n from l
    have hfl : ((l.filter (· != n)).length) ≤ n := by
      apply ih
      · exact hnd.filter _
      · intro x hx
        simp only [List.mem_filter, bne_iff_ne, ne_eq] at hx
        have := h x hx.1
        omega
    have hcount : l.length ≤ (l.filter (· != n)).length + 1 := by
      clear ih h hfl
      induction l with
      | nil => simp
      | cons x xs ih2 =>
        have hnd' := (List.nodup_cons.mp hnd)
        by_cases hx : x = n
        · subst hx
          have : xs.filter (· != x) = xs := by
            rw [List.filter_eq_self]
            intro y hy
            simp only [bne_iff_ne, ne_eq]
            intro e; subst e; exact hnd'.1 hy
          simp [List.filter_cons, this]
        · have := ih2 hnd'.2
          simp only [List.filter_cons, bne_iff_ne, ne_eq, hx, not_false_eq_true, if_true, List.length_cons]
          omega
    omega

theorem foldl_push_length (succ rest : List Nat) :
    (succ.foldl (fun s x => x :: s) rest).length = rest.length + succ.length := by
  induction succ generalizing rest with
  | nil => simp
  | cons a t ih => simp only [List.foldl_cons, ih, List.length_cons]; omega

theorem foldl_push_mem (succ rest : List Nat) (x : Nat) :
    x ∈ succ.foldl (fun s x => x :: s) rest ↔ x ∈ succ ∨ x ∈ rest := by
  induction succ generalizing rest with
  | nil => simp
  | cons a t ih =>
    simp only [List.foldl_cons, ih, List.mem_cons]
    constructor
    · rintro (h | h | h)
      · exact Or.inl (Or.inr h)
      · exact Or.inl (Or.inl h)
      · exact Or.inr h
    · rintro ((h | h) | h)
      · exact Or.inr (Or.inl h)
      · exact Or.inl h
      · exact Or.inr (Or.inr h)

theorem rewire_nexts_cases (g : Cfg) (i r y : Nat) :
    ((rewireReturn g i r).get y).nexts = [r] ∨ ((rewireReturn g i r).get y).nexts = (g.get y).nexts := by
  unfold rewireReturn
  rw [Cfg.get_modify]
  split
  · simp only []
    rw [Cfg.get_modify]
    split
    · exact Or.inl rfl
    · exact Or.inr rfl
  · rw [Cfg.get_modify]
    split
    · exact Or.inl rfl
    · exact Or.inr rfl

theorem rewire_outSmall (g : Cfg) (i r : Nat) (hr : r < g.nodes.size) (h : OutSmall g) :
    OutSmall (rewireReturn g i r) := by
  refine ⟨?_, ?_⟩
  · intro a
    rcases rewire_nexts_cases g i r a with e | e <;> rw [e]
    · simp
    · exact h.deg a
  · intro a b hb
    rw [rewire_size]
    rcases rewire_nexts_cases g i r a with e | e <;> rw [e] at hb
    · simp only [List.mem_singleton] at hb; subst hb; exact hr
    · exact h.lt a b hb

/-- invariant of the walk for the termination argument -/
structure TermInv (n : Nat) (st : MarkSt) : Prop where
  size : st.g.nodes.size = n
  small : OutSmall st.g
  stackLt : ∀ x ∈ st.stack, x < n
  visNodup : st.visited.Nodup
  visLt : ∀ x ∈ st.visited, x < n
  retLt : ∀ r, st.ret = some r → r < n

theorem markLoop_terminates_aux (desc : Bool) (entry n : Nat) (fuel : Nat) :
    ∀ st : MarkSt, TermInv n st → st.stack.length + 3 * (n - st.visited.length) ≤ fuel →
      (markLoop desc entry fuel st).stack = [] ∧ OutSmall (markLoop desc entry fuel st).g ∧
      (markLoop desc entry fuel st).g.nodes.size = n := by
  induction fuel with
  | zero =>
    intro st inv hφ
    unfold markLoop
    have : st.stack.length = 0 := by omega
    exact ⟨List.length_eq_zero_iff.mp this, inv.small, inv.size⟩
  | succ f ih =>
    intro st inv hφ
    unfold markLoop
    cases hs : st.stack with
    | nil => simp only []; exact ⟨hs, inv.small, inv.size⟩
    | cons i rest =>
      simp only []
      have hilt : i < n := inv.stackLt i (by rw [hs]; exact List.mem_cons_self)
      have hrestLt : ∀ x ∈ rest, x < n := fun x hx => inv.stackLt x (by rw [hs]; exact List.mem_cons_of_mem _ hx)
      have hlen : st.stack.length = rest.length + 1 := by rw [hs]; simp
      by_cases hv : st.visited.contains i = true
      · simp only [hv, if_true]
        apply ih
        · exact ⟨inv.size, inv.small, hrestLt, inv.visNodup, inv.visLt, inv.retLt⟩
        · simp only []; omega
      · have hv' : st.visited.contains i = false := by simpa using hv
        simp only [hv', Bool.false_eq_true, if_false]
        have hni : i ∉ st.visited := by simpa using hv'
        have hnd' : (i :: st.visited).Nodup := List.nodup_cons.mpr ⟨hni, inv.visNodup⟩
        have hlt' : ∀ x ∈ i :: st.visited, x < n := by
          intro x hx
          rcases List.mem_cons.mp hx with e | e
          · subst e; exact hilt
          · exact inv.visLt x e
        have hvl : st.visited.length + 1 ≤ n := by
          have := nodup_lt_length n (i :: st.visited) hnd' hlt'
          simpa using this
        -- the graph after marking the owner
        have g1get : ∀ y, ((st.g.modify i fun m => { m with funcs := insNat entry m.funcs }).get y).nexts =
            (st.g.get y).nexts := by
          intro y; rw [Cfg.get_modify]; split <;> rfl
        generalize hg1 : (st.g.modify i fun m => { m with funcs := insNat entry m.funcs }) = g1 at g1get
        have hsz1 : g1.nodes.size = n := by rw [← hg1, Cfg.size_modify]; exact inv.size
        have small1 : OutSmall g1 :=
          ⟨fun a => by rw [g1get a]; exact inv.small.deg a,
           fun a b hb => by rw [hsz1, ← inv.size]; exact inv.small.lt a b (by rw [← g1get a]; exact hb)⟩
        -- the pushed successors
        have hsuccLen : (if desc then (st.g.get i).nexts.reverse else (st.g.get i).nexts).length ≤ 2 := by
          split
          · rw [List.length_reverse]; exact inv.small.deg i
          · exact inv.small.deg i
        have hsuccLt : ∀ x ∈ (if desc then (st.g.get i).nexts.reverse else (st.g.get i).nexts), x < n := by
          intro x hx
          have : x ∈ (st.g.get i).nexts := by
            split at hx
            · exact List.mem_reverse.mp hx
            · exact hx
          rw [← inv.size]; exact inv.small.lt i x this
        generalize hsucc : (if desc then (st.g.get i).nexts.reverse else (st.g.get i).nexts) = succ at hsuccLen hsuccLt
        have hstackLt : ∀ x ∈ succ.foldl (fun s x => x :: s) rest, x < n := by
          intro x hx
          rcases (foldl_push_mem succ rest x).mp hx with h | h
          · exact hsuccLt x h
          · exact hrestLt x h
        have hφ' : (succ.foldl (fun s x => x :: s) rest).length + 3 * (n - (i :: st.visited).length) ≤ f := by
          rw [foldl_push_length]
          simp only [List.length_cons]
          omega
        by_cases hr : (st.g.get i).node.isReturn = true
        · simp only [hr, if_true]
          cases hret : st.ret with
          | none =>
            simp only []
            apply ih
            · refine ⟨hsz1, small1, hstackLt, hnd', hlt', ?_⟩
              intro r hr'
              simp only [Option.some.injEq] at hr'
              subst hr'; exact hilt
            · exact hφ'
          | some r =>
            simp only []
            have hrlt : r < n := inv.retLt r hret
            apply ih
            · refine ⟨by rw [rewire_size]; exact hsz1, rewire_outSmall g1 i r (by rw [hsz1]; exact hrlt) small1,
                hstackLt, hnd', hlt', ?_⟩
              intro r' hr'
              simp only [Option.some.injEq] at hr'
              subst hr'; exact hrlt
            · exact hφ'
        · have hr' : (st.g.get i).node.isReturn = false := by simpa using hr
          simp only [hr', Bool.false_eq_true, if_false]
          apply ih
          · exact ⟨hsz1, small1, hstackLt, hnd', hlt', fun r hret => inv.retLt r hret⟩
          · exact hφ'

/-- **C11 / C06 (`markLoop_terminates`).** On a graph with at most two successors per node (all
    in range), the walk from any node `e` of the graph ends with an empty work list within
    `markFuel g` steps. -/
theorem markLoop_terminates (desc : Bool) (g : Cfg) (e : Nat) (he : e < g.nodes.size) (h : OutSmall g) :
    (markLoop desc e (markFuel g) { g := g, stack := [e] }).stack = [] ∧
    OutSmall (markLoop desc e (markFuel g) { g := g, stack := [e] }).g ∧
    (markLoop desc e (markFuel g) { g := g, stack := [e] }).g.nodes.size = g.nodes.size := by
  apply markLoop_terminates_aux desc e g.nodes.size (markFuel g) { g := g, stack := [e] }
  · exact ⟨rfl, h, by intro x hx; simp at hx; subst hx; exact he, by simp, by simp, by simp⟩
  · unfold markFuel
    simp only [List.length_cons, List.length_nil]
    have : g.nodes.size + 1 ≤ (g.nodes.size + 1) * (g.nodes.size + 1) := Nat.le_mul_of_pos_right _ (by omega)
    have e4 : 4 * (g.nodes.size + 1) * (g.nodes.size + 1) = 4 * ((g.nodes.size + 1) * (g.nodes.size + 1)) := by
      rw [Nat.mul_assoc]
    omega

end Rva
