/-
  C01, second layer — the register transfer function of the value analysis is sound for
  register-to-register instructions, against an RV32IM step written from the manual.
-/
import Rva.Proofs.C01
import Rva.Proofs.Tables
namespace Rva

namespace AMap
variable {κ : Type} [DecidableEq κ]

theorem get_nil (k : κ) : get ([] : AMap κ) k = none := rfl

theorem get_cons (x : κ × AVal) (m : AMap κ) (k : κ) :
    get (x :: m) k = if x.1 = k then some x.2 else get m k := by
  unfold get
  simp only [List.find?_cons]
  by_cases h : x.1 = k
  · simp [h]
  · have : (x.1 == k) = false := by simpa using h
    simp [this, h]

theorem get_erase_self (m : AMap κ) (k : κ) : get (erase m k) k = none := by
  induction m with
  | nil => rfl
  | cons x xs ih =>
    unfold erase at *
    simp only [List.filter_cons]
    by_cases h : x.1 = k
    · simp [h]; exact ih
    · have : (x.1 != k) = true := by simpa using h
      simp only [this, if_true]
      rw [get_cons]; simp [h]; exact ih

theorem get_erase_ne (m : AMap κ) (k k' : κ) (h : k' ≠ k) : get (erase m k') k = get m k := by
  induction m with
  | nil => rfl
  | cons x xs ih =>
    unfold erase at *
    simp only [List.filter_cons]
    by_cases h1 : x.1 = k'
    · have hk : x.1 ≠ k := by rw [h1]; exact h
      simp [h1]
      rw [get_cons]; simp [h1, h]; exact ih
    · have : (x.1 != k') = true := by simpa using h1
      simp only [this, if_true]
      rw [get_cons, get_cons, ih]

theorem get_insert_self (m : AMap κ) (k : κ) (v : AVal) : get (insert m k v) k = some v := by
  unfold insert; rw [get_cons]; simp

theorem get_insert_ne (m : AMap κ) (k k' : κ) (v : AVal) (h : k' ≠ k) :
    get (insert m k' v) k = get m k := by
  unfold insert; rw [get_cons]; simp [h]; exact get_erase_ne m k k' h

theorem get_foldl_erase (l : List κ) (m : AMap κ) (k : κ) :
    get (l.foldl erase m) k = if k ∈ l then none else get m k := by
  induction l generalizing m with
  | nil => simp
  | cons x xs ih =>
    simp only [List.foldl_cons, ih, List.mem_cons]
    by_cases h1 : k ∈ xs
    · simp [h1]
    · by_cases h2 : k = x
      · subst h2; simp [h1, get_erase_self]
      · have : x ≠ k := fun e => h2 e.symm
        simp [h1, h2, get_erase_ne m k x this]

theorem wf_erase (m : AMap κ) (k : κ) (h : WF m) : WF (erase m k) := wf_filter m _ h

end AMap

/-! ### the concrete step of a register-to-register instruction (from the manual) -/

/-- operator an RV32IM computational instruction performs, read off the manual's table
    (`Spec.mathOps`), independently of the code -/
def Spec.opOf (inst : String) : Option MathOp :=
  (Spec.mathOps.find? (·.1 == inst)).bind fun p => MathOp.ofName p.2

/-- destination and value written by a register-to-register instruction in state `s`:
    R-type and I-type computational instructions, `lui` (the node carries the shifted
    immediate), `la` -/
def plainValue (s : MState) : Node → Option (Reg × Word)
  | .arith i rd rs1 rs2 _ =>
    (Spec.opOf i.val).map fun op => (rd.val, Spec.rv32 op (s.reg rs1.val) (s.reg rs2.val))
  | .iarith i rd rs1 imm _ =>
    if i.val = "Lui" then some (rd.val, imm.val)
    else (Spec.opOf i.val).map fun op => (rd.val, Spec.rv32 op (s.reg rs1.val) imm.val)
  | .loadAddr _ rd name _ => some (rd.val, s.addr name.val)
  | _ => none

/-- `s'` is `s` after writing `v` to `rd` (x0 is hard-wired to zero and ignores writes);
    nothing else a claim can speak about changes -/
structure PlainStep (s s' : MState) (rd : Reg) (v : Word) : Prop where
  wr : rd ≠ 0 → s'.reg rd = v
  keep : ∀ r, r ≠ rd → s'.reg r = s.reg r
  zero : s'.reg 0 = s.reg 0
  entry : s'.entry = s.entry
  addr : s'.addr = s.addr

/-! ### the code's operator tables agree with the manual's (regenerated tables) -/

theorem mathOpOf_spec (inst : String) (op : MathOp) (h : Spec.opOf inst = some op) :
    mathOpOf inst = some op := by
  unfold Spec.opOf at h
  cases hf : Spec.mathOps.find? (·.1 == inst) with
  | none => rw [hf] at h; simp at h
  | some p =>
    rw [hf] at h
    simp only [Option.bind_some] at h
    have hp : p ∈ Spec.mathOps := List.mem_of_find?_eq_some hf
    have hpi : p.1 = inst := by simpa using List.find?_some hf
    have := mathOp_table_correct p hp
    rw [hpi] at this
    unfold mathOpOf
    cases hg : Gen.mathOp.find? (·.1 == inst) with
    | none => rw [hg] at this; simp at this
    | some q =>
      rw [hg] at this
      simp only [Option.map_some, Option.some.injEq] at this
      simp only [Option.bind_some, this, h]

theorem scalarOpOf_spec (inst : String) (op : MathOp) (h : scalarOpOf inst = some op) :
    (op = .add ∨ op = .sub) ∧ Spec.opOf inst = some op := by
  unfold scalarOpOf at h
  rw [scalarOp_table_correct] at h
  unfold Spec.scalarOps at h
  simp only [List.find?_cons] at h
  by_cases h1 : ("Add" == inst) = true
  · have e : inst = "Add" := by simpa using (beq_iff_eq.mp h1).symm
    subst e
    have : MathOp.add = op := by
      have e : MathOp.ofName "add" = some MathOp.add := by decide
      simp [e] at h; exact h
    subst this
    exact ⟨Or.inl rfl, by decide⟩
  · have h1' : ("Add" == inst) = false := by simpa using h1
    simp only [h1'] at h
    by_cases h2 : ("Addi" == inst) = true
    · have e : inst = "Addi" := by simpa using (beq_iff_eq.mp h2).symm
      subst e
      have : MathOp.add = op := by
        have e : MathOp.ofName "add" = some MathOp.add := by decide
        simp [e] at h; exact h
      subst this
      exact ⟨Or.inl rfl, by decide⟩
    · have h2' : ("Addi" == inst) = false := by simpa using h2
      simp only [h2'] at h
      by_cases h3 : ("Sub" == inst) = true
      · have e : inst = "Sub" := by simpa using (beq_iff_eq.mp h3).symm
        subst e
        have : MathOp.sub = op := by
          have e : MathOp.ofName "sub" = some MathOp.sub := by decide
          simp [e] at h; exact h
        subst this
        exact ⟨Or.inr rfl, by decide⟩
      · have h3' : ("Sub" == inst) = false := by simpa using h3
        simp [h3'] at h


theorem mathOpOf_lui : mathOpOf "Lui" = none := by decide
theorem scalarOpOf_lui : scalarOpOf "Lui" = none := by decide

/-- **Folding is sound** (`rule_perform_math_ops`): whatever the rule derives for the
    destination of a register-to-register instruction is true after the instruction. -/
theorem mathResult_sound (n : Node) (inn : AMap Reg) (s s' : MState) (rd : Reg) (v : Word) (val : AVal)
    (hs : Sound s inn) (hval : plainValue s n = some (rd, v)) (hstep : PlainStep s s' rd v)
    (hrd0 : rd ≠ 0) (hres : mathResult n inn = some val) : claimHolds s' rd val := by
  have hwr := hstep.wr hrd0
  cases n with
  | arith i wrd rs1 rs2 tok =>
    simp only [plainValue] at hval
    cases hop : Spec.opOf i.val with
    | none => simp [hop] at hval
    | some op =>
      simp only [hop, Option.map_some, Option.some.injEq, Prod.mk.injEq] at hval
      obtain ⟨hrd, hv⟩ := hval
      have hm := mathOpOf_spec i.val op hop
      simp only [mathResult, Node.instName] at hres
      split at hres
      · -- const, const
        rename_i x y h1 h2
        rw [hm] at hres
        simp only [Option.map_some, Option.some.injEq] at hres
        subst hres
        exact fold_const_sound s s' op rd rs1.val rs2.val x y inn hs h1 h2 (by rw [hwr, ← hv])
      · -- entry-relative, const
        rename_i r x y h1 h2
        cases hsc : scalarOpOf i.val with
        | none => simp [hsc] at hres
        | some op2 =>
          obtain ⟨hadd, hsp⟩ := scalarOpOf_spec i.val op2 hsc
          have : op2 = op := by rw [hop] at hsp; exact (Option.some.inj hsp).symm
          subst this
          simp only [hsc, Option.map_some, Option.some.injEq] at hres
          subst hres
          have e2 : s.reg rs2.val = y := hs rs2.val _ h2
          exact fold_ors_sound s s' op2 hadd rd rs1.val r x y inn hs h1 hstep.entry
            (by rw [hwr, ← hv, e2])
      · -- const, entry-relative: addition only
        rename_i x r y h1 h2
        cases hsc : scalarOpOf i.val with
        | none => simp [hsc] at hres
        | some op2 =>
          obtain ⟨_, hsp⟩ := scalarOpOf_spec i.val op2 hsc
          have : op2 = op := by rw [hop] at hsp; exact (Option.some.inj hsp).symm
          subst this
          simp only [hsc, Option.filter_some] at hres
          by_cases hadd : op2 = MathOp.add
          · subst hadd
            simp only [beq_self_eq_true, if_true, Option.map_some, Option.some.injEq] at hres
            subst hres
            have e1 : s.reg rs1.val = x := hs rs1.val _ h1
            exact fold_ors_right_sound s s' rd rs2.val r x y inn hs h2 hstep.entry
              (by rw [hwr, ← hv, e1])
          · have : (op2 == MathOp.add) = false := by simpa using hadd
            simp [this] at hres
      · simp at hres
  | iarith i wrd rs1 imm tok =>
    simp only [plainValue] at hval
    by_cases hl : i.val = "Lui"
    · -- `lui`: nothing is folded
      simp only [mathResult, Node.instName, hl, mathOpOf_lui, scalarOpOf_lui] at hres
      split at hres <;> simp at hres
    · simp only [hl, if_false] at hval
      cases hop : Spec.opOf i.val with
      | none => simp [hop] at hval
      | some op =>
        simp only [hop, Option.map_some, Option.some.injEq, Prod.mk.injEq] at hval
        obtain ⟨hrd, hv⟩ := hval
        have hm := mathOpOf_spec i.val op hop
        simp only [mathResult, Node.instName] at hres
        split at hres
        · rename_i x y h1 h2
          simp only [Option.some.injEq, AVal.const.injEq] at h2
          subst h2
          rw [hm] at hres
          simp only [Option.map_some, Option.some.injEq] at hres
          subst hres
          exact fold_imm_sound s s' op rd rs1.val x imm.val inn hs h1 (by rw [hwr, ← hv])
        · rename_i r x y h1 h2
          simp only [Option.some.injEq, AVal.const.injEq] at h2
          subst h2
          cases hsc : scalarOpOf i.val with
          | none => simp [hsc] at hres
          | some op2 =>
            obtain ⟨hadd, hsp⟩ := scalarOpOf_spec i.val op2 hsc
            have : op2 = op := by rw [hop] at hsp; exact (Option.some.inj hsp).symm
            subst this
            simp only [hsc, Option.map_some, Option.some.injEq] at hres
            subst hres
            exact fold_ors_sound s s' op2 hadd rd rs1.val r x imm.val inn hs h1 hstep.entry
              (by rw [hwr, ← hv])
        · rename_i x r y h1 h2
          simp at h2
        · simp at hres
  | _ => simp [mathResult] at hres


/-! ### the generated value (`gen_reg_value`) is sound -/

theorem operate_zero_shift (op : MathOp) (h : op = .and ∨ op = .sll ∨ op = .sra ∨ op = .srl) (y : Word) :
    operate op 0#32 y = 0#32 := by
  rcases h with rfl | rfl | rfl | rfl
  · simp [operate]
  · simp [operate]
  · simp [operate, BitVec.sshiftRight_eq_of_msb_false]
  · simp [operate]

theorem operate_zero_id (op : MathOp) (h : op = .add ∨ op = .xor ∨ op = .or) (y : Word) :
    operate op 0#32 y = y := by
  rcases h with rfl | rfl | rfl <;> simp [operate]

theorem opOf_cases_imm : Spec.opOf "Addi" = some .add ∧ Spec.opOf "Xori" = some .xor ∧ Spec.opOf "Ori" = some .or ∧
    Spec.opOf "Addiw" = none ∧ Spec.opOf "Andi" = some .and ∧ Spec.opOf "Slli" = some .sll ∧
    Spec.opOf "Slliw" = none ∧ Spec.opOf "Srai" = some .sra ∧ Spec.opOf "Sraiw" = none ∧
    Spec.opOf "Srli" = some .srl ∧ Spec.opOf "Srliw" = none := by decide

/-- what `gen_reg_value` claims for the destination of a register-to-register instruction is
    true after the instruction (x0 reads as zero) -/
theorem genReg_sound (n : Node) (s s' : MState) (rd : Reg) (v : Word) (r : Reg) (val : AVal)
    (hz : s.reg 0 = 0#32) (hval : plainValue s n = some (rd, v)) (hstep : PlainStep s s' rd v)
    (hgen : n.genRegValue = some (r, val)) : r = rd ∧ r ≠ 0 ∧ claimHolds s' rd val := by
  cases n with
  | loadAddr i wrd name tok =>
    simp only [plainValue, Option.some.injEq, Prod.mk.injEq] at hval
    obtain ⟨hrd, hv⟩ := hval
    simp only [Node.genRegValue] at hgen
    split at hgen
    · simp at hgen
    · rename_i hr0
      simp only [Option.some.injEq, Prod.mk.injEq] at hgen
      obtain ⟨e1, e2⟩ := hgen
      subst e1; subst e2
      have hne : wrd.val ≠ 0 := by simpa using hr0
      refine ⟨hrd, hne, ?_⟩
      show s'.reg rd = s'.addr name.val
      rw [hstep.wr (by rw [← hrd]; exact hne), hstep.addr, ← hv]
  | iarith i wrd rs1 imm tok =>
    simp only [Node.genRegValue] at hgen
    by_cases h0 : (rs1.val == 0) = true
    · have hrs : rs1.val = 0 := by simpa using h0
      simp only [h0, if_true] at hgen
      by_cases hA : (["Addi", "Lui", "Addiw", "Xori", "Ori"].contains i.val) = true
      · simp only [hA, if_true] at hgen
        split at hgen
        · simp at hgen
        · rename_i hr0
          simp only [Option.some.injEq, Prod.mk.injEq] at hgen
          obtain ⟨e1, e2⟩ := hgen
          subst e1; subst e2
          have hne : wrd.val ≠ 0 := by simpa using hr0
          simp only [plainValue] at hval
          by_cases hl : i.val = "Lui"
          · simp only [hl, if_true, Option.some.injEq, Prod.mk.injEq] at hval
            obtain ⟨hrd, hv⟩ := hval
            refine ⟨hrd, hne, ?_⟩
            show s'.reg rd = imm.val
            rw [hstep.wr (by rw [← hrd]; exact hne), ← hv]
          · simp only [hl, if_false] at hval
            have hcases : i.val = "Addi" ∨ i.val = "Addiw" ∨ i.val = "Xori" ∨ i.val = "Ori" := by
              simp only [List.contains_cons, List.contains_nil, Bool.or_false, Bool.or_eq_true, beq_iff_eq] at hA
              rcases hA with h | h | h | h | h
              · exact Or.inl h
              · exact absurd h hl
              · exact Or.inr (Or.inl h)
              · exact Or.inr (Or.inr (Or.inl h))
              · exact Or.inr (Or.inr (Or.inr h))
            obtain ⟨c1, c2, c3, c4, _⟩ := opOf_cases_imm
            have key : ∀ op, Spec.opOf i.val = some op → (op = .add ∨ op = .xor ∨ op = .or) →
                wrd.val = rd ∧ wrd.val ≠ 0 ∧ claimHolds s' rd (.const imm.val) := by
              intro op hop hk
              simp only [hop, Option.map_some, Option.some.injEq, Prod.mk.injEq] at hval
              obtain ⟨hrd, hv⟩ := hval
              refine ⟨hrd, hne, ?_⟩
              show s'.reg rd = imm.val
              rw [hstep.wr (by rw [← hrd]; exact hne), ← hv, hrs, hz, ← operate_rv32, operate_zero_id op hk]
            rcases hcases with h | h | h | h
            · exact key .add (by rw [h]; exact c1) (Or.inl rfl)
            · rw [h, c4] at hval; simp at hval
            · exact key .xor (by rw [h]; exact c2) (Or.inr (Or.inl rfl))
            · exact key .or (by rw [h]; exact c3) (Or.inr (Or.inr rfl))
      · have hA' : (["Addi", "Lui", "Addiw", "Xori", "Ori"].contains i.val) = false := by simpa using hA
        simp only [hA', Bool.false_eq_true, if_false] at hgen
        by_cases hB : (["Andi", "Slli", "Slliw", "Srai", "Sraiw", "Srli", "Srliw"].contains i.val) = true
        · simp only [hB, if_true] at hgen
          split at hgen
          · simp at hgen
          · rename_i hr0
            simp only [Option.some.injEq, Prod.mk.injEq] at hgen
            obtain ⟨e1, e2⟩ := hgen
            subst e1; subst e2
            have hne : wrd.val ≠ 0 := by simpa using hr0
            have hl : i.val ≠ "Lui" := by
              intro h; rw [h] at hB; simp at hB
            simp only [plainValue, hl, if_false] at hval
            obtain ⟨_, _, _, _, d1, d2, d3, d4, d5, d6, d7⟩ := opOf_cases_imm
            have key : ∀ op, Spec.opOf i.val = some op → (op = .and ∨ op = .sll ∨ op = .sra ∨ op = .srl) →
                wrd.val = rd ∧ wrd.val ≠ 0 ∧ claimHolds s' rd (.const 0#32) := by
              intro op hop hk
              simp only [hop, Option.map_some, Option.some.injEq, Prod.mk.injEq] at hval
              obtain ⟨hrd, hv⟩ := hval
              refine ⟨hrd, hne, ?_⟩
              show s'.reg rd = 0#32
              rw [hstep.wr (by rw [← hrd]; exact hne), ← hv, hrs, hz, ← operate_rv32, operate_zero_shift op hk]
            simp only [List.contains_cons, List.contains_nil, Bool.or_false, Bool.or_eq_true, beq_iff_eq] at hB
            rcases hB with h | h | h | h | h | h | h
            · exact key .and (by rw [h]; exact d1) (Or.inl rfl)
            · exact key .sll (by rw [h]; exact d2) (Or.inr (Or.inl rfl))
            · rw [h, d3] at hval; simp at hval
            · exact key .sra (by rw [h]; exact d4) (Or.inr (Or.inr (Or.inl rfl)))
            · rw [h, d5] at hval; simp at hval
            · exact key .srl (by rw [h]; exact d6) (Or.inr (Or.inr (Or.inr rfl)))
            · rw [h, d7] at hval; simp at hval
        · have hB' : (["Andi", "Slli", "Slliw", "Srai", "Sraiw", "Srli", "Srliw"].contains i.val) = false := by
            simpa using hB
          simp only [hB', Bool.false_eq_true, if_false] at hgen
          simp at hgen
    · have h0' : (rs1.val == 0) = false := by simpa using h0
      simp [h0'] at hgen
  | arith i wrd rs1 rs2 tok =>
    simp only [Node.genRegValue] at hgen
    by_cases h0 : (rs1.val == 0 && rs2.val == 0) = true
    · simp only [h0, if_true] at hgen
      have h00 : rs1.val = 0 ∧ rs2.val = 0 := by simpa using h0
      split at hgen
      · simp at hgen
      · rename_i hr0
        simp only [Option.some.injEq, Prod.mk.injEq] at hgen
        obtain ⟨e1, e2⟩ := hgen
        subst e1; subst e2
        have hne : wrd.val ≠ 0 := by simpa using hr0
        simp only [plainValue] at hval
        cases hop : Spec.opOf i.val with
        | none => simp [hop] at hval
        | some op =>
          simp only [hop, Option.map_some, Option.some.injEq, Prod.mk.injEq] at hval
          obtain ⟨hrd, hv⟩ := hval
          refine ⟨hrd, hne, ?_⟩
          rw [mathOpOf_spec i.val op hop]
          show s'.reg rd = operate op 0#32 0#32
          rw [hstep.wr (by rw [← hrd]; exact hne), ← hv, h00.1, h00.2, hz, ← operate_rv32]
    · have h0' : (rs1.val == 0 && rs2.val == 0) = false := by simpa using h0
      simp [h0'] at hgen
  | _ => simp [plainValue] at hval


/-! ### register-set facts -/

theorem mem_toList (s : RegSet) (k : Reg) : k ∈ RegSet.toList s ↔ k < 32 ∧ RegSet.mem s k = true := by
  simp [RegSet.toList]

theorem mem_singleReg (rd k : Nat) (hrd : rd < 32) : RegSet.mem (RegSet.single rd) k = decide (k = rd) := by
  unfold RegSet.mem RegSet.single
  rw [BitVec.getLsbD_shiftLeft]
  by_cases hk : k = rd
  · subst hk; simp [hrd]
  · simp only [hk, decide_false]
    by_cases h1 : k < rd
    · simp [h1]
    · have : k - rd ≠ 0 := by omega
      simp [BitVec.getLsbD_one, this]

theorem mem_diff' (a b : RegSet) (r : Nat) :
    RegSet.mem (RegSet.diff a b) r = (RegSet.mem a r && !RegSet.mem b r) := by
  simp only [RegSet.mem, RegSet.diff, BitVec.getLsbD_and, BitVec.getLsbD_not]
  by_cases h : r < 32
  · simp [h]
  · have : a.getLsbD r = false := BitVec.getLsbD_of_ge a r (Nat.le_of_not_lt h)
    simp [this]

theorem constZeroSet_eq : constZeroSet = 1#32 := by decide

theorem mem_constZero (k : Reg) : RegSet.mem constZeroSet k = decide (k = 0) := by
  rw [constZeroSet_eq]
  unfold RegSet.mem
  simp [BitVec.getLsbD_one]

/-- a register-to-register instruction kills exactly its destination, unless that is x0 -/
def plainKill (rd : Reg) : RegSet := RegSet.diff (RegSet.single rd) constZeroSet

theorem mem_plainKill (rd k : Reg) (hrd : rd < 32) :
    k ∈ RegSet.toList (plainKill rd) ↔ k = rd ∧ rd ≠ 0 := by
  rw [mem_toList, plainKill, mem_diff', mem_singleReg rd k hrd, mem_constZero]
  constructor
  · intro ⟨_, h⟩
    simp only [Bool.and_eq_true, decide_eq_true_eq, Bool.not_eq_true', decide_eq_false_iff_not] at h
    exact ⟨h.1, by rw [← h.1]; exact h.2⟩
  · intro ⟨h1, h2⟩
    subst h1
    exact ⟨hrd, by simp [h2]⟩

/-! ### claims and maps -/

/-- a claim about register `k` stays true when `k`, the entry values and the label addresses
    are unchanged -/
theorem claim_frame (s s' : MState) (k : Reg) (val : AVal) (hreg : s'.reg k = s.reg k)
    (hentry : s'.entry = s.entry) (haddr : s'.addr = s.addr) (h : claimHolds s k val) :
    claimHolds s' k val := by
  cases val with
  | const c => show s'.reg k = c; rw [hreg]; exact h
  | addr l => show s'.reg k = s'.addr l; rw [hreg, haddr]; exact h
  | ors r0 o => show s'.reg k = s'.entry r0 + o; rw [hreg, hentry]; exact h
  | rs r0 o => intro h0; show s'.reg k = o; rw [hreg]; exact h h0
  | _ => trivial

/-- soundness of every claim except those about x0 (the out-map never keeps a claim about x0:
    the last step of the transfer function erases it) -/
def SoundNZ (s : MState) (m : AMap Reg) : Prop :=
  ∀ r v, r ≠ 0 → AMap.get m r = some v → claimHolds s r v

theorem soundNZ_insert (s : MState) (m : AMap Reg) (k : Reg) (v : AVal) (hm : SoundNZ s m)
    (hv : k ≠ 0 → claimHolds s k v) : SoundNZ s (AMap.insert m k v) := by
  intro r val hr0 h
  by_cases hr : r = k
  · subst hr; rw [AMap.get_insert_self] at h; exact (Option.some.inj h) ▸ hv hr0
  · rw [AMap.get_insert_ne m r k v (fun e => hr e.symm)] at h; exact hm r val hr0 h

theorem sound_of_soundNZ_erase (s : MState) (m : AMap Reg) (hm : SoundNZ s m) : Sound s (AMap.erase m 0) := by
  intro r val h
  by_cases hr : r = 0
  · subst hr; rw [AMap.get_erase_self] at h; simp at h
  · rw [AMap.get_erase_ne m r 0 (fun e => hr e.symm)] at h; exact hm r val hr h

/-! ### the estimation rules preserve soundness (in the state after the instruction) -/

/-- `rule_zero_to_const`: a description relative to x0 that is still in the outs is a constant -/
theorem zeroStep_sound (s : MState) (acc : AMap Reg) (p : Reg × AVal) (he0 : s.entry 0 = 0#32)
    (h : SoundNZ s acc) : SoundNZ s (zeroStep acc p) := by
  unfold zeroStep
  split
  · rename_i r i heq
    split
    · rename_i hc
      simp only [Bool.and_eq_true, beq_iff_eq] at hc
      apply soundNZ_insert s acc p.1 _ h
      intro hk0
      have := h p.1 p.2 hk0 hc.2
      rw [heq, hc.1] at this
      show s.reg p.1 = i
      rw [this, he0]; simp
    · exact h
  · rename_i r i heq
    split
    · rename_i hc
      simp only [Bool.and_eq_true, beq_iff_eq] at hc
      apply soundNZ_insert s acc p.1 _ h
      intro hk0
      have := h p.1 p.2 hk0 hc.2
      rw [heq] at this
      exact this hc.1
    · exact h
  · exact h

theorem zeroConsts_sound (s : MState) (out inn : AMap Reg) (he0 : s.entry 0 = 0#32) (h : SoundNZ s out) :
    SoundNZ s (zeroConsts out inn) := by
  unfold zeroConsts
  induction inn generalizing out with
  | nil => exact h
  | cons p ps ih => simp only [List.foldl_cons]; exact ih _ (zeroStep_sound s out p he0 h)

/-- `rule_perform_math_ops`: inserts the folded claim at the destination -/
theorem performMath_sound (s : MState) (n : Node) (out inn : AMap Reg) (h : SoundNZ s out)
    (hm : ∀ rd v, n.writesTo = some rd → rd.val ≠ 0 → mathResult n inn = some v → claimHolds s rd.val v) :
    SoundNZ s (rulePerformMathOps n out inn) := by
  unfold rulePerformMathOps
  cases hw : n.writesTo with
  | none => exact h
  | some rd =>
    simp only []
    cases hr : mathResult n inn with
    | none => exact h
    | some v => exact soundNZ_insert s out rd.val v h (fun h0 => hm rd v hw h0 hr)

theorem get_pullCsr_ne (out : AMap Reg) (memIn : AMap MemLoc) (rd k : Reg) (hk : k ≠ rd) :
    AMap.get (pullCsrValue out memIn rd) k = AMap.get out k := by
  unfold pullCsrValue
  split
  · split
    · exact AMap.get_insert_ne out k rd _ (fun e => hk e.symm)
    · rfl
  · rfl

theorem get_pullStack_ne (out : AMap Reg) (memIn : AMap MemLoc) (rd k : Reg) (hk : k ≠ rd) :
    AMap.get (pullStackValue out memIn rd) k = AMap.get out k := by
  unfold pullStackValue
  split
  · split
    · split
      · exact AMap.get_insert_ne out k rd _ (fun e => hk e.symm)
      · rfl
    · rfl
  · rfl

/-- `rule_value_from_stack` only touches the destination, and leaves it alone unless its claim
    is a CSR value or a stack reference -/
theorem valueFromStack_sound (s : MState) (n : Node) (out : AMap Reg) (memIn : AMap MemLoc)
    (h : SoundNZ s out)
    (hplain : ∀ rd x, n.writesTo = some rd → rd.val ≠ 0 → AMap.get out rd.val = some x →
      (∀ c, x ≠ .vcsr c) ∧ (∀ r o, x ≠ .omr r o)) :
    SoundNZ s (ruleValueFromStack n out memIn) := by
  unfold ruleValueFromStack
  cases hw : n.writesTo with
  | none => exact h
  | some wrd =>
    simp only []
    by_cases h0 : wrd.val = 0
    · -- the destination is x0: only the entry of x0 can change
      intro r v hr0 hget
      have hne : r ≠ wrd.val := by rw [h0]; exact hr0
      rw [get_pullStack_ne _ _ _ _ hne, get_pullCsr_ne _ _ _ _ hne] at hget
      exact h r v hr0 hget
    · have h1 : pullCsrValue out memIn wrd.val = out := by
        unfold pullCsrValue
        split
        · rename_i c heq
          exact absurd rfl ((hplain wrd _ hw h0 heq).1 c)
        · rfl
      rw [h1]
      have h2 : pullStackValue out memIn wrd.val = out := by
        unfold pullStackValue
        split
        · rename_i r o heq
          exact absurd rfl ((hplain wrd _ hw h0 heq).2 r o)
        · rfl
      rw [h2]; exact h

/-! ### the transfer function on instructions that do not read memory -/

/-- instructions for which the two memory-reading rules cannot apply -/
def Node.noMemRead (n : Node) : Prop :=
  n.readsFromMemory = none ∧ ∀ out inn, ruleExpandAddressForLoad n out inn = out

/-- **composition of the rules.** If the map before the estimation rules is sound (except at
    x0) in the state after the instruction, the stack rule finds nothing to replace at a
    destination other than x0, and the folded claim (if any) is true, then the out-map is
    sound. -/
theorem rules_sound (cn : CNode) (inReg : AMap Reg) (inMem : AMap MemLoc) (s' : MState)
    (hnm : cn.node.noMemRead) (he0 : s'.entry 0 = 0#32)
    (hpre : SoundNZ s' (preRules cn inReg))
    (hvfs : ∀ rd x, cn.node.writesTo = some rd → rd.val ≠ 0 →
      AMap.get (preRules cn inReg) rd.val = some x → (∀ c, x ≠ .vcsr c) ∧ (∀ r o, x ≠ .omr r o))
    (hmath : ∀ rd v, cn.node.writesTo = some rd → rd.val ≠ 0 → mathResult cn.node inReg = some v →
      claimHolds s' rd.val v) :
    Sound s' (nodeRegOut cn inReg inMem) := by
  unfold nodeRegOut
  simp only []
  rw [hnm.2]
  have hpull : ∀ out, rulePullValueFromCsrMemory cn.node out cn.memOut = out := by
    intro out; unfold rulePullValueFromCsrMemory; rw [hnm.1]
  rw [hpull]
  exact sound_of_soundNZ_erase s' _
    (performMath_sound s' cn.node _ inReg
      (zeroConsts_sound s' _ inReg he0 (valueFromStack_sound s' cn.node _ inMem hpre hvfs)) hmath)

/-- register-to-register instructions: R-type, I-type (incl. `lui`), `la` -/
def Node.isPlain : Node → Bool
  | .arith .. | .iarith .. | .loadAddr .. => true
  | _ => false

theorem guard_zero_some (item : Option (Reg × AVal)) (r : Reg) (val : AVal)
    (h : (match item with
      | some (r, v) => if r == 0 then none else some (r, v)
      | none => none) = some (r, val)) : item = some (r, val) := by
  cases item with
  | none => simp at h
  | some p =>
    obtain ⟨r', v'⟩ := p
    simp only [] at h
    split at h
    · simp at h
    · exact h

/-- the claims generated for a plain instruction are constants or addresses -/
theorem genReg_kind (n : Node) (hp : n.isPlain = true) (r : Reg) (val : AVal)
    (h : n.genRegValue = some (r, val)) : (∀ c, val ≠ .vcsr c) ∧ (∀ r o, val ≠ .omr r o) := by
  have key : (∃ c, val = .const c) ∨ (∃ l, val = .addr l) := by
    cases n with
    | arith i rd rs1 rs2 tok =>
      simp only [Node.genRegValue] at h
      have := guard_zero_some _ r val h
      split at this
      · simp only [Option.some.injEq, Prod.mk.injEq] at this
        exact Or.inl ⟨_, this.2.symm⟩
      · simp at this
    | iarith i rd rs1 imm tok =>
      simp only [Node.genRegValue] at h
      have := guard_zero_some _ r val h
      split at this
      · split at this
        · simp only [Option.some.injEq, Prod.mk.injEq] at this
          exact Or.inl ⟨_, this.2.symm⟩
        · split at this
          · simp only [Option.some.injEq, Prod.mk.injEq] at this
            exact Or.inl ⟨_, this.2.symm⟩
          · simp at this
      · simp at this
    | loadAddr i rd name tok =>
      simp only [Node.genRegValue] at h
      split at h
      · simp at h
      · simp only [Option.some.injEq, Prod.mk.injEq] at h
        exact Or.inr ⟨_, h.2.symm⟩
    | _ => simp [Node.isPlain] at hp
  rcases key with ⟨c, rfl⟩ | ⟨l, rfl⟩
  · exact ⟨fun _ => by simp, fun _ _ => by simp⟩
  · exact ⟨fun _ => by simp, fun _ _ => by simp⟩

theorem plainValue_dest (s : MState) (n : Node) (rd : Reg) (v : Word) (h : plainValue s n = some (rd, v)) :
    n.isPlain = true ∧ ∃ wrd, n.writesTo = some wrd ∧ wrd.val = rd := by
  cases n with
  | arith i wrd rs1 rs2 tok =>
    simp only [plainValue] at h
    cases hop : Spec.opOf i.val with
    | none => simp [hop] at h
    | some op =>
      simp only [hop, Option.map_some, Option.some.injEq, Prod.mk.injEq] at h
      exact ⟨rfl, wrd, rfl, h.1⟩
  | iarith i wrd rs1 imm tok =>
    simp only [plainValue] at h
    split at h
    · simp only [Option.some.injEq, Prod.mk.injEq] at h
      exact ⟨rfl, wrd, rfl, h.1⟩
    · cases hop : Spec.opOf i.val with
      | none => simp [hop] at h
      | some op =>
        simp only [hop, Option.map_some, Option.some.injEq, Prod.mk.injEq] at h
        exact ⟨rfl, wrd, rfl, h.1⟩
  | loadAddr i wrd name tok =>
    simp only [plainValue, Option.some.injEq, Prod.mk.injEq] at h
    exact ⟨rfl, wrd, rfl, h.1⟩
  | _ => simp [plainValue] at h

theorem plain_noMemRead (n : Node) (hp : n.isPlain = true) : n.noMemRead := by
  constructor
  · cases n <;> simp [Node.isPlain, Node.readsFromMemory] at hp ⊢
  · intro out inn
    cases n <;> simp [Node.isPlain, ruleExpandAddressForLoad] at hp ⊢

/-- the map before the rules, for a plain instruction -/
theorem plain_preRules (cn : CNode) (inReg : AMap Reg) (wrd : W Reg)
    (hp : cn.node.isPlain = true) (hw : cn.node.writesTo = some wrd) :
    preRules cn inReg =
      insertGen ((RegSet.toList (plainKill wrd.val)).foldl AMap.erase inReg) cn.node.genRegValue := by
  unfold preRules
  have hcall : cn.node.callsTo = none := by
    cases h : cn.node <;> rw [h] at hp <;> simp [Node.isPlain, Node.callsTo] at hp ⊢
  have hfe : cn.node.isFunctionEntry = false := by
    cases h : cn.node <;> rw [h] at hp <;> simp [Node.isPlain, Node.isFunctionEntry] at hp ⊢
  have hhe : cn.node.isHandlerFunctionEntry = false := by
    cases h : cn.node <;> rw [h] at hp <;> simp [Node.isPlain, Node.isHandlerFunctionEntry] at hp ⊢
  have hpe : cn.node.isProgramEntry = false := by
    cases h : cn.node <;> rw [h] at hp <;> simp [Node.isPlain, Node.isProgramEntry] at hp ⊢
  have hec : cn.node.isEcall = false := by
    cases h : cn.node <;> rw [h] at hp <;> simp [Node.isPlain, Node.isEcall] at hp ⊢
  have hkill : cn.node.killReg = plainKill wrd.val := by
    unfold Node.killReg plainKill
    simp [hcall, hfe, hw]
  have hsig : ecallSignature { cn with regIn := inReg } = none := by
    unfold ecallSignature knownEcall
    simp [hec]
  simp only [hcall, hfe, hhe, hpe, hec, hkill, hsig, Option.isSome_none, Bool.false_eq_true, if_false,
    Bool.false_and]

/-- **C01 (`plain_transfer_sound`).** The register transfer function of the value analysis is
    sound on every register-to-register instruction (all RV32IM computational instructions in
    R and I form, `lui`, `la`): if every claim of the in-map is true before the instruction,
    every claim of the out-map the analysis computes for the node is true after it — for all
    operand registers (including x0 as source or destination), all immediates, all machine
    states, whatever the node's memory facts are. -/
theorem plain_transfer_sound (cn : CNode) (inReg : AMap Reg) (inMem : AMap MemLoc) (s s' : MState)
    (rd : Reg) (v : Word)
    (hval : plainValue s cn.node = some (rd, v)) (hrd : rd < 32) (hz : s.reg 0 = 0#32)
    (he0 : s.entry 0 = 0#32) (hs : Sound s inReg)
    (hstep : PlainStep s s' rd v) : Sound s' (nodeRegOut cn inReg inMem) := by
  obtain ⟨hp, wrd, hw, hwrd⟩ := plainValue_dest s cn.node rd v hval
  have hkilled : ∀ j, AMap.get ((RegSet.toList (plainKill rd)).foldl AMap.erase inReg) j =
      if j = rd ∧ rd ≠ 0 then none else AMap.get inReg j := by
    intro j
    rw [AMap.get_foldl_erase]
    by_cases hj : j ∈ RegSet.toList (plainKill rd)
    · have hh := (mem_plainKill rd j hrd).mp hj
      rw [if_pos hj, if_pos hh]
    · have : ¬ (j = rd ∧ rd ≠ 0) := fun h => hj ((mem_plainKill rd j hrd).mpr h)
      rw [if_neg hj, if_neg this]
  -- what survives the kills is true in the new state
  have hkills : ∀ k val, k ≠ 0 → AMap.get ((RegSet.toList (plainKill rd)).foldl AMap.erase inReg) k = some val →
      claimHolds s' k val := by
    intro k val hk0 hget
    rw [hkilled] at hget
    by_cases hk : k = rd
    · subst hk; simp [hk0] at hget
    · have hget' : AMap.get inReg k = some val := by simpa [hk] using hget
      exact claim_frame s s' k val (hstep.keep k hk) hstep.entry hstep.addr (hs k val hget')
  apply rules_sound cn inReg inMem s' (plain_noMemRead _ hp) (by rw [hstep.entry]; exact he0)
  · -- the map before the rules
    rw [plain_preRules cn inReg wrd hp hw, hwrd]
    intro k val hk0 hget
    cases hg : cn.node.genRegValue with
    | some p =>
      obtain ⟨r, gv⟩ := p
      obtain ⟨hr, _, hclaim⟩ := genReg_sound cn.node s s' rd v r gv hz hval hstep hg
      rw [hg] at hget
      simp only [insertGen] at hget
      by_cases hk : k = r
      · subst hk
        rw [AMap.get_insert_self] at hget
        rw [hr]
        exact (Option.some.inj hget) ▸ hclaim
      · rw [AMap.get_insert_ne _ k r _ (fun e => hk e.symm)] at hget
        exact hkills k val hk0 hget
    | none =>
      rw [hg] at hget
      simp only [insertGen] at hget
      exact hkills k val hk0 hget
  · -- the stack rule finds nothing to replace at the destination
    intro wrd' x hw' hrd0 hx
    rw [hw] at hw'
    have : wrd' = wrd := (Option.some.inj hw').symm
    subst this
    rw [plain_preRules cn inReg wrd' hp hw, hwrd] at hx
    rw [hwrd] at hrd0
    cases hg : cn.node.genRegValue with
    | some p =>
      obtain ⟨r, gv⟩ := p
      obtain ⟨hr, _, _⟩ := genReg_sound cn.node s s' rd v r gv hz hval hstep hg
      rw [hg] at hx
      simp only [insertGen] at hx
      rw [hr, AMap.get_insert_self] at hx
      exact (Option.some.inj hx) ▸ genReg_kind cn.node hp r gv hg
    | none =>
      rw [hg] at hx
      simp only [insertGen] at hx
      rw [hkilled] at hx
      simp [hrd0] at hx
  · -- the folded claim
    intro wrd' mv hw' hrd0 hm
    rw [hw] at hw'
    have : wrd' = wrd := (Option.some.inj hw').symm
    subst this
    rw [hwrd] at hrd0 ⊢
    exact mathResult_sound cn.node inReg s s' rd v mv hs hval hstep hrd0 hm


/-- non-vacuity: the hypotheses of `plain_transfer_sound` are met by a concrete instruction and
    state (`addi sp, sp, -16` with sp known to be the entry value), and the out-map then claims
    `sp = entry sp - 16` -/
example : ∃ (cn : CNode) (inReg : AMap Reg) (s s' : MState) (rd : Reg) (v : Word),
    plainValue s cn.node = some (rd, v) ∧ rd < 32 ∧ s.reg 0 = 0#32 ∧ s.entry 0 = 0#32 ∧
    Sound s inReg ∧ PlainStep s s' rd v ∧
    AMap.get (nodeRegOut cn inReg []) 2 = some (.ors 2 (-16#32)) := by
  let w : FTok := FTok.default
  let n : Node := .iarith ⟨"Addi", w⟩ ⟨2, w⟩ ⟨2, w⟩ ⟨-16#32, w⟩ RawTok.default
  let cn : CNode := { node := n, labels := [], isText := true }
  let s : MState := { reg := fun r => if r = 2 then 100#32 else 0#32,
                      entry := fun r => if r = 2 then 100#32 else 0#32, addr := fun _ => 0#32 }
  let s' : MState := { s with reg := fun r => if r = 2 then 84#32 else 0#32 }
  refine ⟨cn, [(2, .ors 2 0#32)], s, s', 2, 84#32, ?_, by decide, rfl, rfl, ?_, ?_, by decide⟩
  · have : Spec.opOf "Addi" = some .add := by decide
    simp only [plainValue, cn, n, this]
    decide
  · intro r val h
    simp only [AMap.get, List.find?_cons, List.find?_nil] at h
    by_cases hr : r = 2
    · subst hr
      simp at h
      subst h
      show s.reg 2 = s.entry 2 + 0#32
      decide
    · have : ((2 : Nat) == r) = false := by simpa using (fun e => hr e.symm)
      simp [this] at h
  · exact ⟨fun _ => rfl, fun r hr => by simp [s, s', hr], rfl, rfl, rfl⟩

end Rva
