/-
  C01, second layer — the register transfer function of the value analysis is sound for
  register-to-register instructions, against an RV32IM step written from the manual.
-/
import Rva.Proofs.C01
import Rva.Proofs.Tables
namespace Rva

namespace AMap
variable {κ : Type} [DecidableEq κ]

theorem get_nil (k : κ) : get ([] : AMap κ) k = none := rfl

theorem get_cons (x : κ × AVal) (m : AMap κ) (k : κ) :
    get (x :: m) k = if x.1 = k then some x.2 else get m k := by
  unfold get
  simp only [List.find?_cons]
  by_cases h : x.1 = k
  · simp [h]
  · have : (x.1 == k) = false := by simpa using h
    simp [this, h]

theorem get_erase_self (m : AMap κ) (k : κ) : get (erase m k) k = none := by
  induction m with
  | nil => rfl
  | cons x xs ih =>
    unfold erase at *
    simp only [List.filter_cons]
    by_cases h : x.1 = k
    · simp [h]; exact ih
    · have : (x.1 != k) = true := by simpa using h
      simp only [this, if_true]
      rw [get_cons]; simp [h]; exact ih

theorem get_erase_ne (m : AMap κ) (k k' : κ) (h : k' ≠ k) : get (erase m k') k = get m k := by
  induction m with
  | nil => rfl
  | cons x xs ih =>
    unfold erase at *
    simp only [List.filter_cons]
    by_cases h1 : x.1 = k'
    · have hk : x.1 ≠ k := by rw [h1]; exact h
      simp [h1]
      rw [get_cons]; simp [h1, h]; exact ih
    · have : (x.1 != k') = true := by simpa using h1
      simp only [this, if_true]
      rw [get_cons, get_cons, ih]

theorem get_insert_self (m : AMap κ) (k : κ) (v : AVal) : get (insert m k v) k = some v := by
  unfold insert; rw [get_cons]; simp

theorem get_insert_ne (m : AMap κ) (k k' : κ) (v : AVal) (h : k' ≠ k) :
    get (insert m k' v) k = get m k := by
  unfold insert; rw [get_cons]; simp [h]; exact get_erase_ne m k k' h

theorem get_foldl_erase (l : List κ) (m : AMap κ) (k : κ) :
    get (l.foldl erase m) k = if k ∈ l then none else get m k := by
  induction l generalizing m with
  | nil => simp
  | cons x xs ih =>
    simp only [List.foldl_cons, ih, List.mem_cons]
    by_cases h1 : k ∈ xs
    · simp [h1]
    · by_cases h2 : k = x
      · subst h2; simp [h1, get_erase_self]
      · have : x ≠ k := fun e => h2 e.symm
        simp [h1, h2, get_erase_ne m k x this]

theorem wf_erase (m : AMap κ) (k : κ) (h : WF m) : WF (erase m k) := wf_filter m _ h

end AMap

/-! ### the concrete step of a register-to-register instruction (from the manual) -/

/-- operator an RV32IM computational instruction performs, read off the manual's table
    (`Spec.mathOps`), independently of the code -/
def Spec.opOf (inst : String) : Option MathOp :=
  (Spec.mathOps.find? (·.1 == inst)).bind fun p => MathOp.ofName p.2

/-- destination and value written by a register-to-register instruction in state `s`:
    R-type and I-type computational instructions, `lui` (the node carries the shifted
    immediate), `la` -/
def plainValue (s : MState) : Node → Option (Reg × Word)
  | .arith i rd rs1 rs2 _ =>
    (Spec.opOf i.val).map fun op => (rd.val, Spec.rv32 op (s.reg rs1.val) (s.reg rs2.val))
  | .iarith i rd rs1 imm _ =>
    if i.val = "Lui" then some (rd.val, imm.val)
    else (Spec.opOf i.val).map fun op => (rd.val, Spec.rv32 op (s.reg rs1.val) imm.val)
  | .loadAddr _ rd name _ => some (rd.val, s.addr name.val)
  | _ => none

/-- `s'` is `s` after writing `v` to `rd` (x0 is hard-wired to zero and ignores writes);
    nothing else a claim can speak about changes -/
structure PlainStep (s s' : MState) (rd : Reg) (v : Word) : Prop where
  wr : rd ≠ 0 → s'.reg rd = v
  keep : ∀ r, r ≠ rd → s'.reg r = s.reg r
  entry : s'.entry = s.entry
  addr : s'.addr = s.addr

/-! ### the code's operator tables agree with the manual's (regenerated tables) -/

theorem mathOpOf_spec (inst : String) (op : MathOp) (h : Spec.opOf inst = some op) :
    mathOpOf inst = some op := by
  unfold Spec.opOf at h
  cases hf : Spec.mathOps.find? (·.1 == inst) with
  | none => rw [hf] at h; simp at h
  | some p =>
    rw [hf] at h
    simp only [Option.bind_some] at h
    have hp : p ∈ Spec.mathOps := List.mem_of_find?_eq_some hf
    have hpi : p.1 = inst := by simpa using List.find?_some hf
    have := mathOp_table_correct p hp
    rw [hpi] at this
    unfold mathOpOf
    cases hg : Gen.mathOp.find? (·.1 == inst) with
    | none => rw [hg] at this; simp at this
    | some q =>
      rw [hg] at this
      simp only [Option.map_some, Option.some.injEq] at this
      simp only [Option.bind_some, this, h]

theorem scalarOpOf_spec (inst : String) (op : MathOp) (h : scalarOpOf inst = some op) :
    (op = .add ∨ op = .sub) ∧ Spec.opOf inst = some op := by
  unfold scalarOpOf at h
  rw [scalarOp_table_correct] at h
  unfold Spec.scalarOps at h
  simp only [List.find?_cons] at h
  by_cases h1 : ("Add" == inst) = true
  · have e : inst = "Add" := by simpa using (beq_iff_eq.mp h1).symm
    subst e
    have : MathOp.add = op := by
      have e : MathOp.ofName "add" = some MathOp.add := by decide
      simp [e] at h; exact h
    subst this
    exact ⟨Or.inl rfl, by decide⟩
  · have h1' : ("Add" == inst) = false := by simpa using h1
    simp only [h1'] at h
    by_cases h2 : ("Addi" == inst) = true
    · have e : inst = "Addi" := by simpa using (beq_iff_eq.mp h2).symm
      subst e
      have : MathOp.add = op := by
        have e : MathOp.ofName "add" = some MathOp.add := by decide
        simp [e] at h; exact h
      subst this
      exact ⟨Or.inl rfl, by decide⟩
    · have h2' : ("Addi" == inst) = false := by simpa using h2
      simp only [h2'] at h
      by_cases h3 : ("Sub" == inst) = true
      · have e : inst = "Sub" := by simpa using (beq_iff_eq.mp h3).symm
        subst e
        have : MathOp.sub = op := by
          have e : MathOp.ofName "sub" = some MathOp.sub := by decide
          simp [e] at h; exact h
        subst this
        exact ⟨Or.inr rfl, by decide⟩
      · have h3' : ("Sub" == inst) = false := by simpa using h3
        simp [h3'] at h


theorem mathOpOf_lui : mathOpOf "Lui" = none := by decide
theorem scalarOpOf_lui : scalarOpOf "Lui" = none := by decide

/-- **Folding is sound** (`rule_perform_math_ops`): whatever the rule derives for the
    destination of a register-to-register instruction is true after the instruction. -/
theorem mathResult_sound (n : Node) (inn : AMap Reg) (s s' : MState) (rd : Reg) (v : Word) (val : AVal)
    (hs : Sound s inn) (hval : plainValue s n = some (rd, v)) (hstep : PlainStep s s' rd v)
    (hrd0 : rd ≠ 0) (hres : mathResult n inn = some val) : claimHolds s' rd val := by
  have hwr := hstep.wr hrd0
  cases n with
  | arith i wrd rs1 rs2 tok =>
    simp only [plainValue] at hval
    cases hop : Spec.opOf i.val with
    | none => simp [hop] at hval
    | some op =>
      simp only [hop, Option.map_some, Option.some.injEq, Prod.mk.injEq] at hval
      obtain ⟨hrd, hv⟩ := hval
      have hm := mathOpOf_spec i.val op hop
      simp only [mathResult, Node.instName] at hres
      split at hres
      · -- const, const
        rename_i x y h1 h2
        rw [hm] at hres
        simp only [Option.map_some, Option.some.injEq] at hres
        subst hres
        exact fold_const_sound s s' op rd rs1.val rs2.val x y inn hs h1 h2 (by rw [hwr, ← hv])
      · -- entry-relative, const
        rename_i r x y h1 h2
        cases hsc : scalarOpOf i.val with
        | none => simp [hsc] at hres
        | some op2 =>
          obtain ⟨hadd, hsp⟩ := scalarOpOf_spec i.val op2 hsc
          have : op2 = op := by rw [hop] at hsp; exact (Option.some.inj hsp).symm
          subst this
          simp only [hsc, Option.map_some, Option.some.injEq] at hres
          subst hres
          have e2 : s.reg rs2.val = y := hs rs2.val _ h2
          exact fold_ors_sound s s' op2 hadd rd rs1.val r x y inn hs h1 hstep.entry
            (by rw [hwr, ← hv, e2])
      · -- const, entry-relative: addition only
        rename_i x r y h1 h2
        cases hsc : scalarOpOf i.val with
        | none => simp [hsc] at hres
        | some op2 =>
          obtain ⟨_, hsp⟩ := scalarOpOf_spec i.val op2 hsc
          have : op2 = op := by rw [hop] at hsp; exact (Option.some.inj hsp).symm
          subst this
          simp only [hsc, Option.filter_some] at hres
          by_cases hadd : op2 = MathOp.add
          · subst hadd
            simp only [beq_self_eq_true, if_true, Option.map_some, Option.some.injEq] at hres
            subst hres
            have e1 : s.reg rs1.val = x := hs rs1.val _ h1
            exact fold_ors_right_sound s s' rd rs2.val r x y inn hs h2 hstep.entry
              (by rw [hwr, ← hv, e1])
          · have : (op2 == MathOp.add) = false := by simpa using hadd
            simp [this] at hres
      · simp at hres
  | iarith i wrd rs1 imm tok =>
    simp only [plainValue] at hval
    by_cases hl : i.val = "Lui"
    · -- `lui`: nothing is folded
      simp only [mathResult, Node.instName, hl, mathOpOf_lui, scalarOpOf_lui] at hres
      split at hres <;> simp at hres
    · simp only [hl, if_false] at hval
      cases hop : Spec.opOf i.val with
      | none => simp [hop] at hval
      | some op =>
        simp only [hop, Option.map_some, Option.some.injEq, Prod.mk.injEq] at hval
        obtain ⟨hrd, hv⟩ := hval
        have hm := mathOpOf_spec i.val op hop
        simp only [mathResult, Node.instName] at hres
        split at hres
        · rename_i x y h1 h2
          simp only [Option.some.injEq, AVal.const.injEq] at h2
          subst h2
          rw [hm] at hres
          simp only [Option.map_some, Option.some.injEq] at hres
          subst hres
          exact fold_imm_sound s s' op rd rs1.val x imm.val inn hs h1 (by rw [hwr, ← hv])
        · rename_i r x y h1 h2
          simp only [Option.some.injEq, AVal.const.injEq] at h2
          subst h2
          cases hsc : scalarOpOf i.val with
          | none => simp [hsc] at hres
          | some op2 =>
            obtain ⟨hadd, hsp⟩ := scalarOpOf_spec i.val op2 hsc
            have : op2 = op := by rw [hop] at hsp; exact (Option.some.inj hsp).symm
            subst this
            simp only [hsc, Option.map_some, Option.some.injEq] at hres
            subst hres
            exact fold_ors_sound s s' op2 hadd rd rs1.val r x imm.val inn hs h1 hstep.entry
              (by rw [hwr, ← hv])
        · rename_i x r y h1 h2
          simp at h2
        · simp at hres
  | _ => simp [mathResult] at hres

end Rva
