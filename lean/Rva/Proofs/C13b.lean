/-
  C13 — blank lines and comments are invisible to the parse loop.

  A newline token or a comment token in front of the remaining items of a file is consumed by one
  step of the parse loop that records nothing; so any number of added blank lines and comment
  lines between statements leaves the parsed nodes and the reported errors as they were.
-/
import Rva.Model.Parser
namespace Rva

theorem parseStep_newline (t : FTok) (rest : List PItem) (h : t.kind = .newline) :
    parseStep (.tok t :: rest) = (.error (.isNewline t), rest) := by
  simp [parseStep, parseNode, getAny, h, bind, ExceptT.bind, ExceptT.mk, ExceptT.bindCont, ExceptT.run,
    StateT.bind, StateT.run, get, getThe, MonadStateOf.get, StateT.get, liftM, monadLift, MonadLift.monadLift,
    ExceptT.lift, set, StateT.set, pure, StateT.pure, ExceptT.pure, throw, throwThe, MonadExceptOf.throw,
    Id.run, Functor.map, StateT.map]

theorem parseStep_comment (t : FTok) (rest : List PItem) (h : t.kind = .comment) :
    parseStep (.tok t :: rest) = (.error .ignoredWithoutWarning, rest) := by
  simp [parseStep, parseNode, getAny, h, bind, ExceptT.bind, ExceptT.mk, ExceptT.bindCont, ExceptT.run,
    StateT.bind, StateT.run, get, getThe, MonadStateOf.get, StateT.get, liftM, monadLift, MonadLift.monadLift,
    ExceptT.lift, set, StateT.set, pure, StateT.pure, ExceptT.pure, throw, throwThe, MonadExceptOf.throw,
    Id.run, Functor.map, StateT.map]

/-- a newline or comment token -/
def Blank (it : PItem) : Prop := ∃ t, it = .tok t ∧ (t.kind = .newline ∨ t.kind = .comment)

/-- **C13 (`blank_item_invisible`).** One step of the parse loop removes a leading newline or
    comment token and records nothing. -/
theorem blank_item_invisible (fuel : Nat) (it : PItem) (hb : Blank it) (top : List PItem)
    (below : List (List PItem)) (r : Reader) (nodes : List Node) (errs : List ParseErr) :
    parseLoop (fuel + 1) ((it :: top) :: below) r nodes errs = parseLoop fuel (top :: below) r nodes errs := by
  obtain ⟨t, rfl, h | h⟩ := hb
  · rw [parseLoop, parseStep_newline t top h]
  · rw [parseLoop, parseStep_comment t top h]

/-- **C13 (`blank_lines_invisible`).** Any run of newline and comment tokens in front of the rest
    of a file - added blank lines, added comment lines - is consumed without a trace: the nodes
    and errors the loop goes on to produce are those of the file without them. -/
theorem blank_lines_invisible (pre : List PItem) (hb : ∀ it ∈ pre, Blank it) (fuel : Nat) (top : List PItem)
    (below : List (List PItem)) (r : Reader) (nodes : List Node) (errs : List ParseErr) :
    parseLoop (fuel + pre.length) ((pre ++ top) :: below) r nodes errs =
      parseLoop fuel (top :: below) r nodes errs := by
  induction pre with
  | nil => simp
  | cons it pre ih =>
    have e : fuel + (it :: pre).length = (fuel + pre.length) + 1 := by simp; omega
    rw [e, List.cons_append, blank_item_invisible _ it (hb it List.mem_cons_self)]
    exact ih (fun x hx => hb x (List.mem_cons_of_mem _ hx))

theorem parseStep_label (t : FTok) (l : String) (rest : List PItem) (h : t.kind = .label)
    (hl : labelFromStr t.payload = some l) :
    parseStep (.tok t :: rest) = (.ok (.label ⟨l, t⟩ t.raw), rest) := by
  simp [parseStep, parseNode, getAny, rawNow, h, hl, bind, ExceptT.bind, ExceptT.mk, ExceptT.bindCont, ExceptT.run,
    StateT.bind, StateT.run, get, getThe, MonadStateOf.get, StateT.get, liftM, monadLift, MonadLift.monadLift,
    ExceptT.lift, set, StateT.set, pure, StateT.pure, ExceptT.pure, throw, throwThe, MonadExceptOf.throw,
    Id.run, Functor.map, StateT.map]

/-- **C13 (`label_own_line`).** A label written on its own line (label token, newline or comment
    tokens, then the statement) is parsed exactly like the label written in front of its
    statement. -/
theorem label_own_line (t : FTok) (l : String) (h : t.kind = .label) (hl : labelFromStr t.payload = some l)
    (pre : List PItem) (hb : ∀ it ∈ pre, Blank it) (fuel : Nat) (top : List PItem)
    (below : List (List PItem)) (r : Reader) (nodes : List Node) (errs : List ParseErr) :
    parseLoop (fuel + pre.length + 1) ((.tok t :: (pre ++ top)) :: below) r nodes errs =
      parseLoop (fuel + 1) ((.tok t :: top) :: below) r nodes errs := by
  rw [parseLoop, parseStep_label t l _ h hl, parseLoop, parseStep_label t l _ h hl]
  simp only [Node.includePath]
  exact blank_lines_invisible pre hb fuel top below r _ errs

end Rva
