/-
  C18 — rendering.

  `formatMarker` models the marker line of `PrettyPrint::format_region` (as repaired: cut by
  characters): the line's characters after the leading blanks, up to the reported start
  column, with every non-blank replaced by a space, padded, followed by one `^` per reported
  column. `region_marks_columns`: the marker line has a `^` exactly at the positions
  `start - first_non_ws … end - first_non_ws` of the left-aligned excerpt and nowhere else.
  Ordering (`sortDiags_sorted`, C10) and the title/severity tables (Proofs/Tables) complete the
  static part; agreement of the channels is checked on the real CLI and library.
-/
import Rva.Proofs.C10
import Rva.Proofs.Tables
namespace Rva

def isBlank (c : Char) : Bool := c == ' ' || c == '\t'

/-- the marker line under the excerpt: `offset` cells of blank, then `n` markers -/
def formatMarker (text : List Char) (firstNonWs start stop : Nat) : List Char :=
  let offset := start - firstNonWs
  let base := ((text.drop firstNonWs).take offset).map fun c => if isBlank c then c else ' '
  base ++ List.replicate (offset - base.length) ' ' ++ List.replicate (stop + 1 - start) '^'

theorem marker_prefix_length (text : List Char) (f start : Nat) :
    (((text.drop f).take (start - f)).map fun c => if isBlank c then c else ' ').length ≤ start - f := by
  simp [List.length_take]; omega

/-- **C18.** The marker sits under the reported columns: cell `i` of the marker line is `^`
    exactly when `start - firstNonWs ≤ i < start - firstNonWs + (end + 1 - start)`. -/
theorem region_marks_columns (text : List Char) (f start stop : Nat) (i : Nat) :
    (formatMarker text f start stop)[i]? = some '^' ↔
      (start - f ≤ i ∧ i < (start - f) + (stop + 1 - start)) := by
  unfold formatMarker
  simp only []
  generalize hb : (((text.drop f).take (start - f)).map fun c => if isBlank c then c else ' ') = base
  have hlen : base.length ≤ start - f := by rw [← hb]; exact marker_prefix_length text f start
  have hnc : ∀ c ∈ base, c ≠ '^' := by
    intro c hc
    rw [← hb] at hc
    obtain ⟨d, _, hd⟩ := List.mem_map.mp hc
    by_cases hbk : isBlank d = true
    · simp [hbk] at hd; subst hd
      intro h; subst h; simp [isBlank] at hbk
    · simp [hbk] at hd; subst hd; decide
  have hpad : (base ++ List.replicate (start - f - base.length) ' ').length = start - f := by
    simp; omega
  by_cases hi : i < start - f
  · -- inside the blank part: never a marker
    have : (base ++ List.replicate (start - f - base.length) ' ' ++ List.replicate (stop + 1 - start) '^')[i]?
        = (base ++ List.replicate (start - f - base.length) ' ')[i]? := by
      rw [List.getElem?_append_left (by rw [hpad]; exact hi)]
    rw [this]
    constructor
    · intro h
      exfalso
      have hm := List.mem_of_getElem? h
      rcases List.mem_append.mp hm with h1 | h1
      · exact hnc _ h1 rfl
      · have := List.eq_of_mem_replicate h1; exact absurd this (by decide)
    · intro h; omega
  · have hge : start - f ≤ i := by omega
    rw [List.getElem?_append_right (by rw [hpad]; exact hge), hpad]
    rw [List.getElem?_replicate]
    constructor
    · intro h
      split at h
      · exact ⟨hge, by omega⟩
      · simp at h
    · intro h
      have : i - (start - f) < stop + 1 - start := by omega
      simp [this]

end Rva
