/-
  C18 — rendering.

  `formatMarker` models the marker line of `PrettyPrint::format_region` (as repaired: cut by
  characters): the line's characters after the leading blanks, up to the reported start
  column, with every non-blank replaced by a space, padded, followed by one `^` per reported
  column. `region_marks_columns`: the marker line has a `^` exactly at the positions
  `start - first_non_ws … end - first_non_ws` of the left-aligned excerpt and nowhere else.
  Ordering (`sortDiags_sorted`, C10) and the title/severity tables (Proofs/Tables) complete the
  static part; agreement of the channels is checked on the real CLI and library.
-/
import Rva.Proofs.C10
import Rva.Model.Render
import Rva.Proofs.Tables
namespace Rva

theorem marker_prefix_length (text : List Char) (f start : Nat) :
    (((text.drop f).take (start - f)).map fun c => if isBlank c then c else ' ').length ≤ start - f := by
  simp [List.length_take]; omega

/-- **C18.** The marker sits under the reported columns: cell `i` of the marker line is `^`
    exactly when `start - firstNonWs ≤ i < start - firstNonWs + (end + 1 - start)`. -/
theorem region_marks_columns (text : List Char) (f start stop : Nat) (i : Nat) :
    (formatMarker text f start stop)[i]? = some '^' ↔
      (start - f ≤ i ∧ i < (start - f) + (stop + 1 - start)) := by
  unfold formatMarker
  simp only []
  generalize hb : (((text.drop f).take (start - f)).map fun c => if isBlank c then c else ' ') = base
  have hlen : base.length ≤ start - f := by rw [← hb]; exact marker_prefix_length text f start
  have hnc : ∀ c ∈ base, c ≠ '^' := by
    intro c hc
    rw [← hb] at hc
    obtain ⟨d, _, hd⟩ := List.mem_map.mp hc
    by_cases hbk : isBlank d = true
    · simp [hbk] at hd; subst hd
      intro h; subst h; simp [isBlank] at hbk
    · simp [hbk] at hd; subst hd; decide
  have hpad : (base ++ List.replicate (start - f - base.length) ' ').length = start - f := by
    simp; omega
  by_cases hi : i < start - f
  · -- inside the blank part: never a marker
    have : (base ++ List.replicate (start - f - base.length) ' ' ++ List.replicate (stop + 1 - start) '^')[i]?
        = (base ++ List.replicate (start - f - base.length) ' ')[i]? := by
      rw [List.getElem?_append_left (by rw [hpad]; exact hi)]
    rw [this]
    constructor
    · intro h
      exfalso
      have hm := List.mem_of_getElem? h
      rcases List.mem_append.mp hm with h1 | h1
      · exact hnc _ h1 rfl
      · have := List.eq_of_mem_replicate h1; exact absurd this (by decide)
    · intro h; omega
  · have hge : start - f ≤ i := by omega
    rw [List.getElem?_append_right (by rw [hpad]; exact hge), hpad]
    rw [List.getElem?_replicate]
    constructor
    · intro h
      split at h
      · exact ⟨hge, by omega⟩
      · simp at h
    · intro h
      have : i - (start - f) < stop + 1 - start := by omega
      simp [this]


/-- **C18 (`marker_cells`).** The marker line consists of spaces, tabs and markers only: no
    character of the source line that could move the cursor (a carriage return of a CRLF file, a
    form feed) reaches it. -/
theorem marker_cells (text : List Char) (f start stop : Nat) :
    ∀ c ∈ formatMarker text f start stop, c = ' ' ∨ c = '\t' ∨ c = '^' := by
  intro c hc
  unfold formatMarker at hc
  simp only [] at hc
  rcases List.mem_append.mp hc with h | h
  · rcases List.mem_append.mp h with h | h
    · obtain ⟨d, _, hd⟩ := List.mem_map.mp h
      by_cases hb : isBlank d = true
      · simp [hb] at hd; subst hd
        right; left
        simpa [isBlank] using hb
      · simp [hb] at hd; subst hd; left; rfl
    · left; exact List.eq_of_mem_replicate h
  · right; right; exact List.eq_of_mem_replicate h

/-- **C18 (`excerpt_aligned`).** In the three-line excerpt the gutter bar stands in the same
    column of every line, and the source text and the marker line start in the same column: the
    markers are under the characters they are counted from, for every line number (1, 9, 10, 100,
    …), every text and every range. -/
theorem excerpt_aligned (text : List Char) (line start stop : Nat) :
    let num := (toString (line + 1)).toList
    let ls := formatRegion text line start stop
    ls.length = 3 ∧
    (∀ l ∈ ls, l[num.length + 2]? = some '|') ∧
    (ls[1]?.map (·.drop (num.length + 4)) = some (trimWs text)) ∧
    (ls[2]?.map (·.drop (num.length + 4)) = some (formatMarker text (firstNonWs text) start stop)) := by
  simp only [formatRegion]
  generalize (toString (line + 1)).toList = num
  refine ⟨rfl, ?_, ?_, ?_⟩
  · intro l hl
    simp only [List.mem_cons, List.mem_nil_iff, or_false] at hl
    rcases hl with rfl | rfl | rfl
    · have : (List.replicate (num.length + 1) ' ' ++ " |".toList) =
          List.replicate (num.length + 1) ' ' ++ [' ', '|'] := rfl
      rw [this, List.getElem?_append_right (by simp)]
      simp
    · have : (" ".toList ++ num ++ " | ".toList ++ trimWs text) = [' '] ++ num ++ ([' ', '|', ' '] ++ trimWs text) := by
        simp [List.append_assoc]
      rw [this, List.getElem?_append_right (by simp)]
      simp
    · have : (List.replicate (num.length + 1) ' ' ++ " | ".toList ++ formatMarker text (firstNonWs text) start stop) =
          List.replicate (num.length + 1) ' ' ++ ([' ', '|', ' '] ++ formatMarker text (firstNonWs text) start stop) := by
        simp [List.append_assoc]
      rw [this, List.getElem?_append_right (by simp)]
      simp
  · simp only [List.getElem?_cons_succ, List.getElem?_cons_zero, Option.map_some]
    have : (" ".toList ++ num ++ " | ".toList ++ trimWs text) = ([' '] ++ num ++ [' ', '|', ' ']) ++ trimWs text := by
      simp [List.append_assoc]
    rw [this, List.drop_append_of_le_length (by simp)]
    have : ([' '] ++ num ++ [' ', '|', ' ']).drop (num.length + 4) = [] := by
      apply List.drop_eq_nil_of_le; simp
    rw [this]; rfl
  · simp only [List.getElem?_cons_succ, List.getElem?_cons_zero, Option.map_some]
    have : (List.replicate (num.length + 1) ' ' ++ " | ".toList ++ formatMarker text (firstNonWs text) start stop) =
        (List.replicate (num.length + 1) ' ' ++ [' ', '|', ' ']) ++ formatMarker text (firstNonWs text) start stop := by
      simp [List.append_assoc]
    rw [this, List.drop_append_of_le_length (by simp)]
    have : (List.replicate (num.length + 1) ' ' ++ [' ', '|', ' ']).drop (num.length + 4) = [] := by
      apply List.drop_eq_nil_of_le; simp
    rw [this]; rfl

/-- the number of characters cut from the left is the length of the blank prefix, and what is
    left is the source line from there on -/
theorem firstNonWs_spec (text : List Char) (k : Nat) (c : Char)
    (hk : text[k]? = some c) (hc : isLeadBlank c = false) :
    firstNonWs text ≤ k ∧ text.dropWhile isLeadBlank = text.drop (firstNonWs text) := by
  unfold firstNonWs
  induction text generalizing k with
  | nil => simp at hk
  | cons x xs ih =>
    rw [List.findIdx?_cons]
    by_cases hx : isLeadBlank x = true
    · cases k with
      | zero => simp at hk; subst hk; simp [hx] at hc
      | succ k =>
        simp only [List.getElem?_cons_succ] at hk
        have := ih k hk
        simp only [hx, Bool.not_true, Bool.false_eq_true, if_false, List.dropWhile_cons, if_true]
        cases hf : xs.findIdx? (fun c => !isLeadBlank c) with
        | none =>
          exfalso
          have hall := List.findIdx?_eq_none_iff.mp hf c (List.mem_of_getElem? hk)
          simp [hc] at hall
        | some i => simp [hf] at this ⊢; exact ⟨by omega, this.2⟩
    · simp [hx]

/-- a suffix that is trimmed from the right leaves a prefix -/
theorem trimRight_prefix (p : Char → Bool) (l : List Char) :
    ∃ r, l = (l.reverse.dropWhile p).reverse ++ r := by
  refine ⟨(l.reverse.takeWhile p).reverse, ?_⟩
  rw [← List.reverse_append, List.takeWhile_append_dropWhile, List.reverse_reverse]

/-- **C18 (`marker_under_reported`).** When the reported start column holds a character that is
    not blank space (every token the lexer produces starts with one), nothing at or after it is cut
    from the left: cell `i` of the shown line is character `firstNonWs + i` of the source line, and
    cell `i` of the marker line is a marker exactly when `start ≤ firstNonWs + i ≤ stop`. The
    markers stand under the characters the diagnostic reports. -/
theorem marker_under_reported (text : List Char) (start stop : Nat) (c : Char)
    (hk : text[start]? = some c) (hc : isLeadBlank c = false) (i : Nat) :
    (i < (trimWs text).length → (trimWs text)[i]? = text[firstNonWs text + i]?) ∧
    ((formatMarker text (firstNonWs text) start stop)[i]? = some '^' ↔
      (start ≤ firstNonWs text + i ∧ firstNonWs text + i ≤ stop)) := by
  obtain ⟨hle, hdrop⟩ := firstNonWs_spec text start c hk hc
  constructor
  · intro hi
    unfold trimWs at hi ⊢
    obtain ⟨r, hr⟩ := trimRight_prefix isWsChar (text.dropWhile isLeadBlank)
    have : text[firstNonWs text + i]? = (text.dropWhile isLeadBlank)[i]? := by
      rw [hdrop, List.getElem?_drop]
    rw [this]
    conv => rhs; rw [hr]
    rw [List.getElem?_append_left hi]
  · rw [region_marks_columns]
    omega

/-- non-vacuity: a line indented with a no-break space - the character stays, the marker is under it -/
example : formatRegion "\u00a0\u00a0addi a0, a0, 1".toList 1 0 0 =
    ["   |".toList, " 2 | \u00a0\u00a0addi a0, a0, 1".toList, "   | ^".toList] := by decide

end Rva
