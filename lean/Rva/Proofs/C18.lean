/-
  C18 — rendering.

  `formatMarker` models the marker line of `PrettyPrint::format_region` (as repaired: cut by
  characters): the line's characters after the leading blanks, up to the reported start
  column, with every non-blank replaced by a space, padded, followed by one `^` per reported
  column. `region_marks_columns`: the marker line has a `^` exactly at the positions
  `start - first_non_ws … end - first_non_ws` of the left-aligned excerpt and nowhere else.
  Ordering (`sortDiags_sorted`, C10) and the title/severity tables (Proofs/Tables) complete the
  static part; agreement of the channels is checked on the real CLI and library.
-/
import Rva.Proofs.C10
import Rva.Model.Render
import Rva.Proofs.Tables
namespace Rva

theorem marker_prefix_length (text : List Char) (f start : Nat) :
    (((text.drop f).take (start - f)).map fun c => if isBlank c then c else ' ').length ≤ start - f := by
  simp [List.length_take]; omega

/-- **C18.** The marker sits under the reported columns: cell `i` of the marker line is `^`
    exactly when `start - firstNonWs ≤ i < start - firstNonWs + (end + 1 - start)`. -/
theorem region_marks_columns (text : List Char) (f start stop : Nat) (i : Nat) :
    (formatMarker text f start stop)[i]? = some '^' ↔
      (start - f ≤ i ∧ i < (start - f) + (stop + 1 - start)) := by
  unfold formatMarker
  simp only []
  generalize hb : (((text.drop f).take (start - f)).map fun c => if isBlank c then c else ' ') = base
  have hlen : base.length ≤ start - f := by rw [← hb]; exact marker_prefix_length text f start
  have hnc : ∀ c ∈ base, c ≠ '^' := by
    intro c hc
    rw [← hb] at hc
    obtain ⟨d, _, hd⟩ := List.mem_map.mp hc
    by_cases hbk : isBlank d = true
    · simp [hbk] at hd; subst hd
      intro h; subst h; simp [isBlank] at hbk
    · simp [hbk] at hd; subst hd; decide
  have hpad : (base ++ List.replicate (start - f - base.length) ' ').length = start - f := by
    simp; omega
  by_cases hi : i < start - f
  · -- inside the blank part: never a marker
    have : (base ++ List.replicate (start - f - base.length) ' ' ++ List.replicate (stop + 1 - start) '^')[i]?
        = (base ++ List.replicate (start - f - base.length) ' ')[i]? := by
      rw [List.getElem?_append_left (by rw [hpad]; exact hi)]
    rw [this]
    constructor
    · intro h
      exfalso
      have hm := List.mem_of_getElem? h
      rcases List.mem_append.mp hm with h1 | h1
      · exact hnc _ h1 rfl
      · have := List.eq_of_mem_replicate h1; exact absurd this (by decide)
    · intro h; omega
  · have hge : start - f ≤ i := by omega
    rw [List.getElem?_append_right (by rw [hpad]; exact hge), hpad]
    rw [List.getElem?_replicate]
    constructor
    · intro h
      split at h
      · exact ⟨hge, by omega⟩
      · simp at h
    · intro h
      have : i - (start - f) < stop + 1 - start := by omega
      simp [this]


/-- **C18 (`marker_cells`).** The marker line consists of spaces, tabs and markers only: no
    character of the source line that could move the cursor (a carriage return of a CRLF file, a
    form feed) reaches it. -/
theorem marker_cells (text : List Char) (f start stop : Nat) :
    ∀ c ∈ formatMarker text f start stop, c = ' ' ∨ c = '\t' ∨ c = '^' := by
  intro c hc
  unfold formatMarker at hc
  simp only [] at hc
  rcases List.mem_append.mp hc with h | h
  · rcases List.mem_append.mp h with h | h
    · obtain ⟨d, _, hd⟩ := List.mem_map.mp h
      by_cases hb : isBlank d = true
      · simp [hb] at hd; subst hd
        right; left
        simpa [isBlank] using hb
      · simp [hb] at hd; subst hd; left; rfl
    · left; exact List.eq_of_mem_replicate h
  · right; right; exact List.eq_of_mem_replicate h

/-- **C18 (`excerpt_aligned`).** In the three-line excerpt the gutter bar stands in the same
    column of every line, and the source text and the marker line start in the same column: the
    markers are under the characters they are counted from, for every line number (1, 9, 10, 100,
    …), every text and every range. -/
theorem excerpt_aligned (text : List Char) (line start stop : Nat) :
    let num := (toString (line + 1)).toList
    let ls := formatRegion text line start stop
    ls.length = 3 ∧
    (∀ l ∈ ls, l[num.length + 2]? = some '|') ∧
    (ls[1]?.map (·.drop (num.length + 4)) = some (trimWs text)) ∧
    (ls[2]?.map (·.drop (num.length + 4)) = some (formatMarker text (firstNonWs text) start stop)) := by
  simp only [formatRegion]
  generalize (toString (line + 1)).toList = num
  refine ⟨rfl, ?_, ?_, ?_⟩
  · intro l hl
    simp only [List.mem_cons, List.mem_nil_iff, or_false] at hl
    rcases hl with rfl | rfl | rfl
    · have : (List.replicate (num.length + 1) ' ' ++ " |".toList) =
          List.replicate (num.length + 1) ' ' ++ [' ', '|'] := rfl
      rw [this, List.getElem?_append_right (by simp)]
      simp
    · have : (" ".toList ++ num ++ " | ".toList ++ trimWs text) = [' '] ++ num ++ ([' ', '|', ' '] ++ trimWs text) := by
        simp [List.append_assoc]
      rw [this, List.getElem?_append_right (by simp)]
      simp
    · have : (List.replicate (num.length + 1) ' ' ++ " | ".toList ++ formatMarker text (firstNonWs text) start stop) =
          List.replicate (num.length + 1) ' ' ++ ([' ', '|', ' '] ++ formatMarker text (firstNonWs text) start stop) := by
        simp [List.append_assoc]
      rw [this, List.getElem?_append_right (by simp)]
      simp
  · simp only [List.getElem?_cons_succ, List.getElem?_cons_zero, Option.map_some]
    have : (" ".toList ++ num ++ " | ".toList ++ trimWs text) = ([' '] ++ num ++ [' ', '|', ' ']) ++ trimWs text := by
      simp [List.append_assoc]
    rw [this, List.drop_append_of_le_length (by simp)]
    have : ([' '] ++ num ++ [' ', '|', ' ']).drop (num.length + 4) = [] := by
      apply List.drop_eq_nil_of_le; simp
    rw [this]; rfl
  · simp only [List.getElem?_cons_succ, List.getElem?_cons_zero, Option.map_some]
    have : (List.replicate (num.length + 1) ' ' ++ " | ".toList ++ formatMarker text (firstNonWs text) start stop) =
        (List.replicate (num.length + 1) ' ' ++ [' ', '|', ' ']) ++ formatMarker text (firstNonWs text) start stop := by
      simp [List.append_assoc]
    rw [this, List.drop_append_of_le_length (by simp)]
    have : (List.replicate (num.length + 1) ' ' ++ [' ', '|', ' ']).drop (num.length + 4) = [] := by
      apply List.drop_eq_nil_of_le; simp
    rw [this]; rfl

end Rva
