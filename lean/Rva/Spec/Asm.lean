/-
  Rva.Spec.Asm — what the RISC-V manuals say, as literal tables written independently of the
  code: the operator each RV32IM computational instruction performs, the instruction format of
  each mnemonic, the psABI register classes.
-/
namespace Rva.Spec

/-- RV32I/RV32M computational instructions ↦ the operation they perform (unprivileged ISA
    manual, chapters 2.4 and 13). Keys are the code's `Inst` variant names. -/
def mathOps : List (String × String) := [
  ("Add", "add"), ("Addi", "add"), ("Sub", "sub"),
  ("And", "and"), ("Andi", "and"), ("Or", "or"), ("Ori", "or"), ("Xor", "xor"), ("Xori", "xor"),
  ("Sll", "sll"), ("Slli", "sll"), ("Srl", "srl"), ("Srli", "srl"), ("Sra", "sra"), ("Srai", "sra"),
  ("Slt", "slt"), ("Slti", "slt"), ("Sltu", "sltu"), ("Sltiu", "sltu"),
  ("Mul", "mul"), ("Mulh", "mulh"), ("Mulhsu", "mulhsu"), ("Mulhu", "mulhu"),
  ("Div", "div"), ("Divu", "divu"), ("Rem", "rem"), ("Remu", "remu")]

/-- RV64-only mnemonics the code also accepts and folds with the 32-bit operator
    (accepted, unspecified for RV32; never alarmed on). -/
def rv64Only : List String := ["Divw", "Remw", "Remuw"]

/-- Operators that commute with "entry value of a register + k": only addition of a constant
    and subtraction of a constant keep the base register. -/
def scalarOps : List (String × String) := [("Add", "add"), ("Addi", "add"), ("Sub", "sub")]

/-- instruction format class of every base mnemonic (R, I-arith, load, store, branch, …) -/
def formats : List (String × String) := [
  ("Add", "Arith"), ("Sub", "Arith"), ("And", "Arith"), ("Or", "Arith"), ("Xor", "Arith"),
  ("Sll", "Arith"), ("Srl", "Arith"), ("Sra", "Arith"), ("Slt", "Arith"), ("Sltu", "Arith"),
  ("Mul", "Arith"), ("Mulh", "Arith"), ("Mulhsu", "Arith"), ("Mulhu", "Arith"),
  ("Div", "Arith"), ("Divu", "Arith"), ("Rem", "Arith"), ("Remu", "Arith"),
  ("Addi", "IArith"), ("Andi", "IArith"), ("Ori", "IArith"), ("Xori", "IArith"),
  ("Slli", "IArith"), ("Srli", "IArith"), ("Srai", "IArith"), ("Slti", "IArith"), ("Sltiu", "IArith"),
  ("Lui", "UpperArith"),
  ("Lb", "Load"), ("Lbu", "Load"), ("Lh", "Load"), ("Lhu", "Load"), ("Lw", "Load"),
  ("Sb", "Store"), ("Sh", "Store"), ("Sw", "Store"),
  ("Beq", "Branch"), ("Bne", "Branch"), ("Blt", "Branch"), ("Bge", "Branch"), ("Bltu", "Branch"),
  ("Bgeu", "Branch"),
  ("Jal", "JumpLink"), ("Jalr", "JumpLinkR"),
  ("Ecall", "Basic"), ("Ebreak", "Basic"), ("Uret", "Basic"),
  ("Csrrw", "Csr"), ("Csrrs", "Csr"), ("Csrrc", "Csr"),
  ("Csrrwi", "CsrI"), ("Csrrsi", "CsrI"), ("Csrrci", "CsrI")]

/-- psABI register classes (RISC-V ELF psABI, "Integer Register Convention"). -/
def temporaries : List Nat := [5, 6, 7, 28, 29, 30, 31]
def saved : List Nat := [8, 9, 18, 19, 20, 21, 22, 23, 24, 25, 26, 27]
def arguments : List Nat := [10, 11, 12, 13, 14, 15, 16, 17]

/-- ABI names -/
def abiNames : List (Nat × String) := [
  (0, "zero"), (1, "ra"), (2, "sp"), (3, "gp"), (4, "tp"), (5, "t0"), (6, "t1"), (7, "t2"),
  (8, "s0"), (9, "s1"), (10, "a0"), (11, "a1"), (12, "a2"), (13, "a3"), (14, "a4"), (15, "a5"),
  (16, "a6"), (17, "a7"), (18, "s2"), (19, "s3"), (20, "s4"), (21, "s5"), (22, "s6"), (23, "s7"),
  (24, "s8"), (25, "s9"), (26, "s10"), (27, "s11"), (28, "t3"), (29, "t4"), (30, "t5"), (31, "t6")]

end Rva.Spec
