/-
  Rva.Spec.Ecalls — RARS environment calls (integer registers), written from the RARS
  documentation independently of the code: number ↦ (registers read, registers written).
  Floating-point calls and the two calls whose integer signature is uncertain (43, 55) are
  left out; nothing is claimed about them. The same table is `tools/spec_ecalls.py`.
-/
namespace Rva.Spec

def rarsEcalls : List (Int × List Nat × List Nat) := [
  (1, [10], []), (4, [10], []), (5, [], [10]), (8, [10, 11], []), (9, [10], [10]), (10, [], []),
  (11, [10], []), (12, [], [10]), (17, [10, 11], [10]), (30, [], [10, 11]),
  (31, [10, 11, 12, 13], []), (32, [10], []), (33, [10, 11, 12, 13], []), (34, [10], []),
  (35, [10], []), (36, [10], []), (40, [10, 11], []), (41, [10], [10]), (42, [10, 11], [10]),
  (50, [10], [10]), (54, [10, 11, 12], [11]), (56, [10, 11], []), (57, [10], []),
  (59, [10, 11], []), (62, [10, 11, 12], [10]), (63, [10, 11, 12], [10]), (64, [10, 11, 12], [10]),
  (93, [10], []), (1024, [10, 11], [10])]

end Rva.Spec
