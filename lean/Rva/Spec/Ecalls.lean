/-
  Rva.Spec.Ecalls — RARS environment calls (integer registers), written from the RARS
  documentation independently of the code: number ↦ (registers read, registers written).
  Floating-point calls and the call whose integer signature is uncertain (43) is
  left out; nothing is claimed about them. The same table is `tools/spec_ecalls.py`.
-/
namespace Rva.Spec

def rarsEcalls : List (Int × List Nat × List Nat) := [
  (1, [10], []), (4, [10], []), (5, [], [10]), (8, [10, 11], []), (9, [10], [10]), (10, [], []),
  (11, [10], []), (12, [], [10]), (17, [10, 11], [10]), (30, [], [10, 11]),
  (31, [10, 11, 12, 13], []), (32, [10], []), (33, [10, 11, 12, 13], []), (34, [10], []),
  (35, [10], []), (36, [10], []), (40, [10, 11], []), (41, [10], [10]), (42, [10, 11], [10]),
  (50, [10], [10]), (51, [10], [10, 11]), (54, [10, 11, 12], [11]), (55, [10, 11], []), (56, [10, 11], []), (57, [10], []),
  (59, [10, 11], []), (62, [10, 11, 12], [10]), (63, [10, 11, 12], [10]), (64, [10, 11, 12], [10]),
  (93, [10], []), (1024, [10, 11], [10])]

/-- documented RARS calls the analyzer's table does not list: number ↦ integer registers written
    (the floating-point calls write `fa0`, which the analysis does not track; 51-53 are the input
    dialogs with a floating-point result: status in a1) -/
def rarsUnlisted : List (Int × List Nat) := [
  (2, []), (3, []), (6, []), (7, []), (44, []), (52, [11]), (53, [11]), (58, []), (60, [])]

end Rva.Spec
