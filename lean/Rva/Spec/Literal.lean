/-
  Rva.Spec.Literal — what a numeric literal denotes, as a mathematical integer (no width).
  Written independently of the parser: a literal is an optional '-', then `0x` + hex digits,
  `0b` + binary digits or decimal digits - or, without a sign, the keyword `zero`; letter case is irrelevant and
  surrounding blanks are ignored. Everything else denotes nothing.
-/
import Rva.Model.Imm
namespace Rva.Spec

/-- Value of a digit string in radix `r` (most significant first), as an unbounded natural. -/
def digitsValue (r : Nat) (ds : List Nat) : Nat := ds.foldl (fun a d => a * r + d) 0

/-- All characters are digits of radix `r`, and there is at least one. -/
def natOfDigits (r : Nat) (cs : List Char) : Option Nat :=
  if cs.isEmpty then none else (cs.mapM (digitVal r)).map (digitsValue r)

def signed (neg : Bool) (m : Nat) : Int := if neg then -(m : Int) else (m : Int)

/-- The magnitude of an unsigned literal: `0x` hexadecimal, `0b` binary, otherwise decimal. -/
def magnitude (body : List Char) : Option Nat :=
  match body with
  | '0' :: 'x' :: ds => natOfDigits 16 ds
  | '0' :: 'b' :: ds => natOfDigits 2 ds
  | ds => natOfDigits 10 ds

/-- The unsigned part of a normalised literal, with the sign applied. -/
def denoteBody (neg : Bool) (body : List Char) : Option Int :=
  if body == "zero".toList then (if neg then none else some 0)
  else (magnitude body).map (signed neg)

/-- The integer a normalised (lower-case, trimmed) literal denotes. -/
def denoteCore (s : List Char) : Option Int :=
  match s with
  | '-' :: rest => denoteBody true rest
  | _ => denoteBody false s

/-- The integer a literal denotes. -/
def denote (s0 : List Char) : Option Int := denoteCore (normLit s0)

/-- A 32-bit register can hold exactly the integers in `[-2^31, 2^32)` (signed or unsigned
    reading); it holds them as their low 32 bits. -/
def fits32 (d : Int) : Option Word :=
  if -(2 : Int) ^ 31 ≤ d ∧ d < (2 : Int) ^ 32 then some (BitVec.ofInt 32 d) else none

end Rva.Spec
