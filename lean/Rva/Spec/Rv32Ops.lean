/-
  Rva.Spec.Rv32Ops — RV32IM integer computational semantics, written from the ISA manual
  (Unprivileged ISA, chapters 2.4 and M), independently of the code: every operator is given by
  its mathematical meaning on the signed (`toInt`) / unsigned (`toNat`) reading of the operands.
-/
import Rva.Model.Basic
namespace Rva.Spec

/-- 32-bit result of an integer: low 32 bits, two's complement. -/
def wrap (i : Int) : Word := BitVec.ofInt 32 i

/-- "the shift amount held in the lower 5 bits" -/
def sh5 (y : Word) : Nat := y.toNat % 32

def rv32 : MathOp → Word → Word → Word
  | .add, x, y => wrap (x.toInt + y.toInt)
  | .sub, x, y => wrap (x.toInt - y.toInt)
  | .and, x, y => x &&& y
  | .or, x, y => x ||| y
  | .xor, x, y => x ^^^ y
  -- SLL: logical left shift = multiplication by 2^shamt, low 32 bits
  | .sll, x, y => wrap (x.toNat * 2 ^ sh5 y)
  -- SRL: logical right shift = floor division of the unsigned value
  | .srl, x, y => wrap (x.toNat / 2 ^ sh5 y)
  -- SRA: arithmetic right shift = floor division of the signed value
  | .sra, x, y => wrap (x.toInt / 2 ^ sh5 y)
  | .slt, x, y => if x.toInt < y.toInt then 1#32 else 0#32
  | .sltu, x, y => if x.toNat < y.toNat then 1#32 else 0#32
  -- M extension
  | .mul, x, y => wrap (x.toInt * y.toInt)
  | .mulh, x, y => wrap ((x.toInt * y.toInt) / 2 ^ 32)
  | .mulhsu, x, y => wrap ((x.toInt * (y.toNat : Int)) / 2 ^ 32)
  | .mulhu, x, y => wrap (((x.toNat * y.toNat : Nat) : Int) / 2 ^ 32)
  -- division: quotient rounds towards zero; x/0 = all ones; overflow MIN/-1 = MIN
  | .div, x, y =>
    if y.toInt = 0 then wrap (-1)
    else if x.toInt = -(2 ^ 31) ∧ y.toInt = -1 then wrap (-(2 ^ 31))
    else wrap (Int.tdiv x.toInt y.toInt)
  | .divu, x, y => if y.toNat = 0 then wrap (2 ^ 32 - 1) else wrap ((x.toNat / y.toNat : Nat))
  -- remainder: sign of the dividend; x%0 = x; overflow MIN%-1 = 0
  | .rem, x, y =>
    if y.toInt = 0 then x
    else if x.toInt = -(2 ^ 31) ∧ y.toInt = -1 then wrap 0
    else wrap (Int.tmod x.toInt y.toInt)
  | .remu, x, y => if y.toNat = 0 then x else wrap ((x.toNat % y.toNat : Nat))

end Rva.Spec
