/-
  Rva.Spec.Position — what line, column and raw offset of a character mean, independently of
  how the lexer counts them: for the character at index `p` of a source,
  line = number of newlines before `p`, column = distance from the character just after the
  last newline before `p` (or from the start of the text).
-/
import Rva.Model.Lexer
namespace Rva.Spec

/-- number of newline characters among the first `p` characters -/
def lineOf (src : Array Char) (p : Nat) : Nat :=
  ((src.toList.take p).filter (· == '\n')).length

/-- index of the first character of the line that contains index `p` -/
def lineStart (src : Array Char) (p : Nat) : Nat :=
  match (List.range p).reverse.find? (fun i => src[i]? == some '\n') with
  | some i => i + 1
  | none => 0

def colOf (src : Array Char) (p : Nat) : Nat := p - lineStart src p

/-- A reported position is consistent with the text it points into. -/
def PosOK (src : Array Char) (q : Pos) : Prop :=
  q.raw ≤ src.size ∧ q.line = lineOf src q.raw ∧ q.col = colOf src q.raw

end Rva.Spec
