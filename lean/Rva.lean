-- Root of the `Rva` library.
import Rva.Model.Basic
import Rva.Model.Ops
import Rva.Model.Imm
import Rva.Model.Lexer
import Rva.Model.Node
import Rva.Model.Parser
import Rva.Gen.Tables
import Rva.Model.Cfg
import Rva.Model.Available
import Rva.Model.Liveness
import Rva.Model.Lints
import Rva.Model.Pipeline
