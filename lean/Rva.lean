-- Root of the `Rva` library.
import Rva.Model.Basic
import Rva.Model.Ops
import Rva.Model.Imm
import Rva.Model.Lexer
