/-
  driver — line-protocol front end of the executable model. One request per stdin line,
  answer lines followed by `END` (same grammar as the Rust harness `rvh`).
-/
import Rva.Model.Basic
import Rva.Model.Ops
import Rva.Model.Imm
import Rva.Model.Lexer
open Rva

def showInt32 (w : Word) : String := toString w.toInt

def parseInt32 (s : String) : Word :=
  match s.toInt? with
  | some i => BitVec.ofInt 32 i
  | none => 0

def handle (line : String) : List String :=
  match line.trimAscii.toString.splitOn " " with
  | ["operate", op, x, y] =>
    match MathOp.ofName op with
    | some o => [s!"VAL {showInt32 (operate o (parseInt32 x) (parseInt32 y))}"]
    | none => ["BADOP"]
  | ["imm", h] =>
    match immFromStr (stringOfHex h) with
    | some v => [s!"IMM {showInt32 v}"]
    | none => ["IMM ERR"]
  | ["csrimm", h] =>
    match csrImmFromStr (stringOfHex h) with
    | some v => [s!"CSRIMM {v}"]
    | none => ["CSRIMM ERR"]
  | ["lex", h] => (lexString (stringOfHex h)).map LexItem.trace
  | _ => ["BADOP"]

partial def loop (h : IO.FS.Stream) (out : IO.FS.Stream) : IO Unit := do
  let line ← h.getLine
  if line.isEmpty then return ()
  for l in handle line do
    out.putStrLn l
  out.putStrLn "END"
  loop h out

def main : IO Unit := do
  let out ← IO.getStdout
  loop (← IO.getStdin) out
