/-
  driver — line-protocol front end of the executable model. One request per stdin line,
  answer lines followed by `END` (same grammar as the Rust harness `rvh`).
-/
import Rva.Model.Basic
import Rva.Model.Ops
import Rva.Model.Imm
import Rva.Model.Lexer
import Rva.Model.Parser
import Rva.Model.Pipeline
import Rva.Model.Render
open Rva

def showInt32 (w : Word) : String := toString w.toInt

def parseInt32 (s : String) : Word :=
  match s.toInt? with
  | some i => BitVec.ofInt 32 i
  | none => 0

def filesOfArgs : Nat → List String → List (String × String)
  | 0, _ => []
  | k + 1, n :: t :: rest => (stringOfHex n, stringOfHex t) :: filesOfArgs k rest
  | _, _ => []

def parseTrace (files : List (String × String)) : List String :=
  match files with
  | [] => ["BADOP"]
  | (base, _) :: _ =>
    let out := parseFiles files base
    (out.nodes.zipIdx.map fun (n, i) => s!"NODE {i} {n.trace}") ++
    (out.errors.map fun e => s!"PERR {e.trace}")

def handle (line : String) : List String :=
  match line.trimAscii.toString.splitOn " " with
  | ["operate", op, x, y] =>
    match MathOp.ofName op with
    | some o => [s!"VAL {showInt32 (operate o (parseInt32 x) (parseInt32 y))}"]
    | none => ["BADOP"]
  | ["imm", h] =>
    match immFromStr (stringOfHex h) with
    | some v => [s!"IMM {showInt32 v}"]
    | none => ["IMM ERR"]
  | ["csrimm", h] =>
    match csrImmFromStr (stringOfHex h) with
    | some v => [s!"CSRIMM {v}"]
    | none => ["CSRIMM ERR"]
  | ["lex", h] => (lexString (stringOfHex h)).map LexItem.trace
  | ["region", h, line, start, stop] =>
    (formatRegion (stringOfHex h).toList line.toNat! start.toNat! stop.toNat!).map
      fun l => s!"REGION {hexOfString (String.ofList l)}"
  | "parse" :: k :: rest => parseTrace (filesOfArgs k.toNat! rest)
  | "pipe" :: stages :: k :: rest =>
    let files := filesOfArgs k.toNat! rest
    let extra := rest.drop (2 * k.toNat!)
    let desc := extra.contains "desc"
    let x := (extra.find? (·.startsWith "x:")).map (fun s => (s.drop 2).toString)
    pipeTrace (stages.splitOn ",") files desc (x.getD "")
  | _ => ["BADOP"]

partial def loop (h : IO.FS.Stream) (out : IO.FS.Stream) : IO Unit := do
  let line ← h.getLine
  if line.isEmpty then return ()
  for l in handle line do
    out.putStrLn l
  out.putStrLn "END"
  loop h out

def main : IO Unit := do
  let out ← IO.getStdout
  loop (← IO.getStdin) out
