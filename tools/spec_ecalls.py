"""RARS environment calls (integer registers only), written from the RARS documentation
("Supported system calls"), independently of the analyzer's table: number -> (registers the
environment reads, registers it writes). Calls whose integer signature I am not certain of
(43 RandFloat) and the floating-point calls are left out of RARS: nothing is judged for them
there; UNLISTED gives the integer registers the documented floating-point calls touch (the
analyzer's table leaves them out: "Not supporting floating point yet")."""
A0, A1, A2, A3 = 10, 11, 12, 13
RARS = {
    1: ([A0], []),                # PrintInt
    4: ([A0], []),                # PrintString
    5: ([], [A0]),                # ReadInt
    8: ([A0, A1], []),            # ReadString(buffer, length)
    9: ([A0], [A0]),              # Sbrk
    10: ([], []),                 # Exit
    11: ([A0], []),               # PrintChar
    12: ([], [A0]),               # ReadChar
    17: ([A0, A1], [A0]),         # GetCWD(buffer, length)
    30: ([], [A0, A1]),           # Time
    31: ([A0, A1, A2, A3], []),   # MidiOut
    32: ([A0], []),               # Sleep
    33: ([A0, A1, A2, A3], []),   # MidiOutSync
    34: ([A0], []),               # PrintIntHex
    35: ([A0], []),               # PrintIntBinary
    36: ([A0], []),               # PrintIntUnsigned
    40: ([A0, A1], []),           # RandSeed(id, seed)
    41: ([A0], [A0]),             # RandInt(id)
    42: ([A0, A1], [A0]),         # RandIntRange(id, bound)
    50: ([A0], [A0]),             # ConfirmDialog
    51: ([A0], [A0, A1]),         # InputDialogInt(message) -> value, status
    54: ([A0, A1, A2], [A1]),     # InputDialogString(message, buffer, max)
    55: ([A0, A1], []),           # MessageDialog(message, type)
    56: ([A0, A1], []),           # MessageDialogInt
    57: ([A0], []),               # Close
    59: ([A0, A1], []),           # MessageDialogString
    62: ([A0, A1, A2], [A0]),     # LSeek
    63: ([A0, A1, A2], [A0]),     # Read
    64: ([A0, A1, A2], [A0]),     # Write
    93: ([A0], []),               # Exit2
    1024: ([A0, A1], [A0]),       # Open
}

# documented calls with floating-point operands: integer registers read / written
UNLISTED = {
    2: ([], []), 3: ([], []),     # PrintFloat / PrintDouble (fa0)
    6: ([], []), 7: ([], []),     # ReadFloat / ReadDouble -> fa0
    44: ([A0], []),               # RandDouble(id) -> fa0
    52: ([A0], [A1]),             # InputDialogFloat(message) -> fa0, status
    53: ([A0], [A1]),             # InputDialogDouble(message) -> fa0, status
    58: ([A0], []),               # MessageDialogFloat(message, fa1)
    60: ([A0], []),               # MessageDialogDouble(message, fa1)
}


def lean_table():
    rows = ",\n  ".join(f"({k}, {v[0]}, {v[1]})" for k, v in sorted(RARS.items()))
    return rows
