"""Comparison of pipeline traces (impl vs model) with the canonicalisations of DESIGN.md §3.2 /
Appendix B: hash-order-dependent observables are compared as sets of allowed values."""
import re


def strip_desc(l):
    if l.startswith("RUN "):
        return re.sub(r" desc=\S+", "", l)
    return l


def norm_impl_line(l):
    # LabelsNotDefined: the reported location must be one of the candidates
    m = re.search(r"LabelsNotDefined (\[\S*\]) at=(\S+) candidates=\[(\S*)\]", l)
    if m:
        cands = m.group(3).split(",")
        if m.group(2) in cands:
            l = l.replace("at=" + m.group(2), "at=*")
    return strip_desc(l)


def strip_site(l):
    return re.sub(r" site=\d+", "", l)


def split_alts(l):
    l = strip_site(l)
    m = re.search(r" alts=\[(\S*)\]$", l)
    if not m:
        return l, None
    return l[:m.start()], m.group(1).split(",")


def match_line(impl, model):
    """model line may carry alts=[...]: impl's at= must be one of them."""
    base, alts = split_alts(model)
    if alts is None:
        return impl == base
    mi = re.search(r" at=(\S+)", impl)
    mb = re.search(r" at=(\S+)", base)
    if not mi or not mb:
        return False
    if mi.group(1) not in alts:
        return False
    return impl.replace(" at=" + mi.group(1), " at=X") .split(" text=")[0] == \
        base.replace(" at=" + mb.group(1), " at=X").split(" text=")[0]


UNORDERED = ("LINT ", "XLINT ", "RUN ", "PERR ")


def compare(impl, model):
    """Return None if equal under canonicalisation, else (impl_line, model_line) first diff."""
    impl = [norm_impl_line(l) for l in impl]
    model = [strip_desc(l) for l in model]
    # ordered part
    io = [l for l in impl if not l.startswith(UNORDERED)]
    mo = [l for l in model if not l.startswith(UNORDERED)]
    for a, b in zip(io, mo):
        if a != b:
            return (a, b)
    if len(io) != len(mo):
        return (io[len(mo)] if len(io) > len(mo) else None, mo[len(io)] if len(mo) > len(io) else None)
    # multiset part, per tag
    for tag in UNORDERED:
        ia = sorted(l for l in impl if l.startswith(tag))
        ma = [l for l in model if l.startswith(tag)]
        if tag == "PERR ":
            if ia != sorted(ma) and [l for l in impl if l.startswith(tag)] != ma:
                return (ia, ma)
            continue
        rest = list(ia)
        # exact lines first, then the lines with alternatives, fewest alternatives first: a greedy
        # pass in production order could give an exact line's only partner to a line that has others
        order = sorted(range(len(ma)), key=lambda j: (0 if split_alts(ma[j])[1] is None
                                                      else len(split_alts(ma[j])[1])))
        for ml in [ma[j] for j in order]:
            hit = None
            for k, il in enumerate(rest):
                if match_line(il, ml):
                    hit = k
                    break
            if hit is None:
                # a candidate set that includes "no report" (nil) may match nothing
                base, alts = split_alts(ml)
                if alts and any(a.endswith("@nil") for a in alts):
                    continue
                return (None, ml)
            rest.pop(hit)
        if rest:
            return (rest[0], None)
    # RUN order: impl must be sorted by (file, start raw, end raw) within each file
    last = {}
    for l in impl:
        if l.startswith("RUN "):
            m = re.search(r" at=(\d+):(\d+):(\d+)-(\d+):(\d+):(\d+)@(\S+)", l)
            if m:
                key = (int(m.group(3)), int(m.group(6)))
                f = m.group(7)
                if f in last and key < last[f]:
                    return (l, "RUN order not sorted within file " + f)
                last[f] = key
    return None


def family(l):
    head = l.split(" ", 1)[0].split(".", 1)[0]
    if head in ("NODE", "PERR"):
        return "parse"
    if head in ("S0", "S1", "S2", "S3", "S4", "S5", "STEPERR") or (head == "HANG" and " S" in l):
        return "steps"
    if head in ("CFG", "FACT", "LINT", "CFGERR"):
        return "full"
    if head in ("XCFG", "XFACT", "XLINT", "XERR") or (head == "HANG" and "extra" in l):
        return "extra"
    if head == "RUN" or head == "HANG":
        return "run"
    return "other"


def compare_multi(impl, models):
    """Each stage family of the impl trace must agree with one of the model variants
    (the variants differ in the one order the model makes explicit: the markup DFS)."""
    fams = ["parse", "steps", "full", "extra", "run", "other"]
    for fam in fams:
        il = [l for l in impl if family(l) == fam]
        first = None
        ok = False
        for mv in models:
            ml = [l for l in mv if family(l) == fam]
            d = compare(il, ml)
            if d is None:
                ok = True
                break
            if first is None:
                first = d
        if not ok:
            return (fam, first)
    return None
