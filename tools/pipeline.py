"""Run the pipeline ops on impl (rvh) and model (driver); parse traces."""
import re

from common import DRIVER, RVH_DEBUG, RVH_RELEASE, hx, run_lines, run_lines_isolated, unhx
import pipecmp


def pipe_req(stages, files, extra=""):
    """files: list of (name, text); first is the base file."""
    parts = ["pipe", stages, str(len(files))]
    for n, t in files:
        parts += [hx(n), hx(t)]
    if extra:
        parts.append(extra)
    return " ".join(parts)


def run_pipe(stages, inputs, extra="", release=False, timeout=20, want_model=True):
    """inputs: list of file-lists. Returns (impl_blocks, [model_asc, model_desc])."""
    reqs = [pipe_req(stages, f, extra) for f in inputs]
    impl = run_lines_isolated(RVH_RELEASE if release else RVH_DEBUG, reqs, timeout=timeout, chunk=40)
    models = []
    if want_model:
        mreqs = [pipe_req(stages, f, extra) for f in inputs]
        models.append(run_lines_isolated(DRIVER, mreqs, timeout=120, chunk=200))
        models.append(run_lines_isolated(DRIVER, [r + " desc" for r in mreqs], timeout=120, chunk=200))
    return impl, models


def correspondence(stages, inputs, **kw):
    """Yield (index, family, (impl_line, model_line)) for every input whose traces disagree."""
    impl, models = run_pipe(stages, inputs, **kw)
    out = []
    for i, x in enumerate(impl):
        d = pipecmp.compare_multi(x, [models[0][i], models[1][i]])
        if d is not None:
            out.append((i, d[0], d[1]))
    return impl, models, out


RANGE = re.compile(r"(\d+):(\d+):(\d+)-(\d+):(\d+):(\d+)@(\w+)")


def parse_loc(s):
    m = RANGE.search(s)
    if not m:
        return None
    g = m.groups()
    return {"sl": int(g[0]), "sc": int(g[1]), "sr": int(g[2]), "el": int(g[3]), "ec": int(g[4]),
            "er": int(g[5]), "file": g[6]}


def field(line, key):
    m = re.search(r"(?:^| )" + re.escape(key) + r"=(\S+)", line)
    return m.group(1) if m else None
