#!/usr/bin/env python3
"""Regenerate MANIFEST.json from the claims table below (keeps it schema-valid)."""
import json
import os

V = os.path.dirname(os.path.dirname(os.path.abspath(__file__)))
props = [json.loads(l) for l in open(os.path.join(V, "properties.jsonl"))]

NOTE = ("Trusted: Lean 4.33 kernel; axioms propext/Classical.choice/Quot.sound only (audited each run); "
        "translator tools/extract.py for literal tables (cross-checked by harness op `tables`); "
        "correspondence harness rvh (real code in-process, debug+release) vs Lean driver; the "
        "hand-written model of the algorithmic parts; assumed models of Rust std listed in DESIGN.md §4.")

CLAIMS = {
    "C08": ("proof", "Theorem operate_rv32: the model of MathOp::operate equals ISA-manual RV32IM semantics for all 18 operators and all 2^64 operand pairs (incl. shamt>=32, x/0, MIN/-1); 64-bit products proved overflow-free. Tied to the code by grid+random differential runs of the real operate in both build profiles, and by regenerated math_op/scalar_op/mnemonic tables.", "5 C08",
            "Lean 4 theorem (BitVec/Int lemmas, omega) + model/code correspondence + table regeneration"),
    "C17": ("proof", "Theorems imm_spec/imm_sound/imm_complete/imm_rejects/notation_independent: the model of Imm::from_str accepts a literal iff the unbounded integer it denotes lies in [-2^31,2^32) and then returns its low 32 bits; digit loop with overflow check proved by induction. Tied to the code by boundary-exhaustive + random differential runs in both profiles against the model and an independent Python denotation.", "5 C17",
            "Lean 4 theorem (induction over digit lists) + model/code correspondence"),
}

REASON_PENDING = ("not claimed yet in this commit: executable model and theorems for this property are "
                  "still being built (DESIGN.md §9); no check is registered rather than a weak one")

checks = []
for pid, (cat, text, ref, tech) in CLAIMS.items():
    checks.append({
        "property_id": pid,
        "quick_cmd": f"./check {pid}",
        "thorough_cmd": f"./check {pid} --tier thorough",
        "evidence_file": f"evidence/{pid}.json",
        "replay_cmd_template": f"./check {pid} --replay {{path}}",
        "engine": "lean4-proof+correspondence",
        "level_claimed": {"category": cat, "text": text, "design_ref": "DESIGN.md §" + ref},
        "level_note": NOTE,
        "technique": tech,
    })
na = [{"property_id": p["id"], "reason": REASON_PENDING} for p in props if p["id"] not in CLAIMS]
m = {
    "version": 1,
    "setup_cmd": "./setup.sh",
    "hooks": {"guard": "rva_verif",
              "enable": "no hooks: every observable is reached through the public API or the CLI; /repo carries only 'fix:' commits",
              "baseline_off_cmd": "cd /repo && cargo nextest run --workspace --no-fail-fast --offline",
              "source_commits": [], "add_only": True},
    "engines": [{"name": "lean4-proof+correspondence", "path": "lean/ harness/ tools/",
                 "serves_properties": sorted(CLAIMS),
                 "kind_free_text": "Lean 4 model + theorems (lake build, axiom audit); Rust harness calling the real code in-process; Python runner generating cases and diffing canonical traces"}],
    "checks": checks,
    "not_applicable": na,
    "notes": "See DESIGN.md. Repairs of genuine defects are 'fix:' commits in /repo, listed in KNOWN_FINDINGS.json.",
}
json.dump(m, open(os.path.join(V, "MANIFEST.json"), "w"), indent=1)
print("MANIFEST.json:", len(checks), "checks,", len(na), "not claimed")
