#!/usr/bin/env python3
"""Regenerate MANIFEST.json from the claims table below (keeps it schema-valid)."""
import json
import os

V = os.path.dirname(os.path.dirname(os.path.abspath(__file__)))
props = [json.loads(l) for l in open(os.path.join(V, "properties.jsonl"))]

NOTE = ("Trusted: Lean 4.33 kernel; axioms propext/Classical.choice/Quot.sound only (audited each run); "
        "translator tools/extract.py for literal tables (cross-checked by harness op `tables`); "
        "correspondence harness rvh (real code in-process, debug+release) vs Lean driver; the "
        "hand-written model of the algorithmic parts; assumed models of Rust std listed in DESIGN.md §4.")

CLAIMS = {
    "C08": ("proof", "Theorem operate_rv32: the model of MathOp::operate equals ISA-manual RV32IM semantics for all 18 operators and all 2^64 operand pairs (incl. shamt>=32, x/0, MIN/-1); 64-bit products proved overflow-free. Tied to the code by grid+random differential runs of the real operate in both build profiles, and by regenerated math_op/scalar_op/mnemonic tables.", "5 C08",
            "Lean 4 theorem (BitVec/Int lemmas, omega) + model/code correspondence + table regeneration"),
    "C17": ("proof", "Theorems imm_spec/imm_sound/imm_complete/imm_rejects/notation_independent: the model of Imm::from_str accepts a literal iff the unbounded integer it denotes lies in [-2^31,2^32) and then returns its low 32 bits; digit loop with overflow check proved by induction. Tied to the code by boundary-exhaustive + random differential runs in both profiles against the model and an independent Python denotation.", "5 C17",
            "Lean 4 theorem (induction over digit lists) + model/code correspondence"),
    "C09": ("proof", "Theorems adv_inv / lexNext_ok / lexAll_positions: every position carried by every token, string error and unexpected-character item of the lexer model satisfies raw <= size, line = number of newlines before raw, column = distance from the line start, for every source text (cursor invariant by induction over all lexer loops). Parser-node, operand-token, parse-error and diagnostic ranges are checked on the real code by slicing the source with the reported range, on generated layouts (blank lines, tabs, comments, several statements per line, CRLF, no final newline), and all stages are diffed against the Lean model.", "5 C09",
            "Lean 4 theorem (cursor invariant, fun_induction over lexer loops) + model/code correspondence + range-slicing oracle"),
    "C07": ("proof", "Theorems lex_covers (every character is a blank or lies in the text consumed for exactly one reported item; only blanks remain when the iterator ends), lexNext_progress, recover_spec/recover_suffix (error recovery discards exactly the rest of the current line). Parser level: line-accounting and containment oracles on the real parser over one-statement-per-line files with every kind of malformed line at every kind of position (base/included file, LF/CRLF, with/without final newline), plus diff of parse traces against the Lean model.", "5 C07",
            "Lean 4 theorem (lexer coverage/progress, recovery lemma) + model/code correspondence + metamorphic line-deletion oracle"),
    "C03": ("proof", "Theorems addEdge_symm, cutOut_symm, cutIn_symm, directions_symm, deadCode_symm, ecallTerm_symm: prev/next are exact inverses (and all edges stay inside the node array) after the direction pass, dead-code pruning and ecall termination, for every graph. Edge kinds, symmetry after every pass (including markup) and 'every executed control transfer is an edge / executed nodes are not reported unreachable' are checked on the real graph with a concrete RV32IM interpreter; all stages diffed against the Lean model.", "5 C03",
            "Lean 4 theorem (graph invariant preserved by each pass) + model/code correspondence + concrete-execution oracle"),
    "C11": ("proof", "Theorem mark_reachable_owner / markLoop_own: every instruction the markup walk records for a function carries that function as owner, indices and edges stay in range, across the in-walk rewiring of additional returns. 'function iff called', 'body = reachable set' (independent DFS), owner consistency and single exit are checked on the real finished graph; stages diffed against the Lean model.", "5 C11",
            "Lean 4 theorem (DFS invariant with mutation) + model/code correspondence + reachability oracle"),
    "C02": ("proof", "Theorems liveness_least_solution = liveness_fixpoint + liveness_least: for every graph, a run of the liveness pass that ends because a sweep changes nothing returns facts that satisfy the five-case liveness equations at every node (liveNode_stable, liveNode_noop, liveSweep_quiet) AND are contained in every assignment closed under those rules (liveNode_below, liveSweep_below, liveLoop_below) - the least solution, for any number of sweeps and any visiting history; preSol_top shows the hypothesis is satisfiable. live_path_sound: in any solution a register read at the end of a path of ordinary instructions and not overwritten before is live at its start. On the real code: an independent least-fixed-point solver must reproduce the real live sets exactly, and every register read in concrete executions must be live since its defining write; facts diffed against the Lean model. Termination of the pass is not proved (F-12).", "5 C02",
            "Lean 4 theorem (fixed point + leastness by induction over sweeps, path induction) + model/code correspondence + reference solver + concrete execution"),
    "C01": ("proof", "Theorems meetOver_sound, erase_sound, fold_const_sound, fold_imm_sound, fold_ors_sound, fold_ors_right_sound (all four arms of the folding rule are sound against RV32IM for all operand values, via operate_rv32; meets and kills preserve soundness). The memory rules and the trace induction are NOT proved (partial); they are covered by a concrete-execution oracle that evaluates every constant/address/entry-relative claim of the real analyzer on executions from random states, and by the diff against the Lean model.", "5 C01",
            "Lean 4 theorem (per-rule soundness, partial) + model/code correspondence + concrete-execution oracle"),
    "C12": ("proof", "Theorems ecallStep_idem, ecallStep_facts, cutOut_facts (ecall termination is idempotent per node and changes no fact), liveNode_stable (an unchanged liveness update is a fixed point). Stability of the whole pipeline is checked on the real code: arbitrary extra runs of the value pass / ecall termination / liveness after the standard pipeline must leave value maps, live sets, edges and diagnostics identical. Termination bounds are NOT proved (see known finding F-12).", "5 C12",
            "Lean 4 theorem (idempotence/fixed point lemmas, partial) + model/code correspondence with extra pass sequences"),
    "C19": ("proof", "Theorems encode_injective and memloc_encode_injective: the tag+payload representation of AvailableValue (tags regenerated from the #[serde(rename)] attributes) and the string keys of MemoryLocation are injective, which holds exactly because the tags are pairwise distinct (value_tags_nodup; old_tags_collide shows the pre-repair collision). The real serde_yaml dump is reloaded and compared field by field with the graph it was written from, dump->load->dump must be a fixed point, and distinct analysis results must have distinct dumps, on programs exercising every value and location kind.", "5 C19",
            "Lean 4 theorem over regenerated tags (injectivity) + real dump/reload comparison"),
    "C14": ("proof", "Theorems class_membership_equivariant (every one of the twelve regenerated register sets is invariant under every admissible same-class renaming), admissible_fixes_args, ecall_table_args_only, reg_alias. The pipeline-level statement is checked metamorphically on the real code: diagnostics of the renamed program = renamed diagnostics of the original, for random permutations of t0-t6 and s0-s11, all transpositions on some programs, and random injective label renamings.", "5 C14",
            "Lean 4 theorem over regenerated class tables + metamorphic renaming on the real code"),
    "C13": ("proof", "Theorems skipWs_idem / lexNext_skipWs (spacing and optional commas are invisible to the parser), inst_case_insensitive, directive_case_insensitive, reg_alias, imm_notation (via C17). The program-level statement is checked metamorphically on the real code and the model: random compositions of all listed rewrites (layout, case, register spelling, immediate notation, label placement, zero offsets, pseudo -> official expansion) must leave the multiset of (kind, instruction) unchanged.", "5 C13",
            "Lean 4 theorem (lexer/lookup invariances) + metamorphic rewriting on the real code + model correspondence"),
    "C05": ("proof", "Trigger theorems saveToZero_reported, invalidSegment_reported, unknownEcall_reported (condition at a node => diagnostic of that code located on the offending operand/instruction) and the code/title/severity table theorems. Recall for all classes is checked on the real code: 13 violation classes injected one at a time at admissible sites into clean conforming programs must each yield the corresponding code located on the offending instruction/operand; lints also diffed against the Lean model. Two classes are known findings (F-22 use of a never-assigned register inside a function, F-23 fall-through into a function).", "5 C05",
            "Lean 4 theorem (trigger lemmas over the lint model) + fault injection on the real code + model correspondence"),
    "C04": ("proof", "Theorems run_clean_iff (the whole run reports nothing iff no parse error, the graph builds and every one of the eleven passes is silent), runLints_nil_iff, saveToZero_silent / invalidSegment_silent / unknownEcall_silent (exact silence conditions of the three fixpoint-free passes). The silence of the eight fact-dependent passes over the conforming family is NOT proved (partial): it is checked on the real code over a conforming-by-construction generator (framed, leaf, recursive, pass-through-recursive and default-before-loop functions, nested branches/loops, any saved-register subset and frame padding, random layout and register spelling), every program confirmed by a dynamic convention monitor; lints also diffed against the Lean model. Known finding F-20 (main using the stack).", "5 C04",
            "Lean 4 theorem (silence characterisation, partial) + conforming-program generator with dynamic monitor on the real code + model correspondence"),
    "C06": ("proof", "Theorems lexNext_progress / lexAll_guard (the lexer advances on every call, at most one step per character, never leaves the text), operate_rv32 with mulh/mulhsu products exact (folding is total, no overflow), imm_spec (literal parsing rejects instead of wrapping), recover_shorter (recovery never lengthens the input). Rust stack depth, panics, allocation and time cannot be exhibited by the model: they are observed on the real library (debug build with overflow checks and release build, per-request watchdog) and the CLI in every mode, over hostile inputs (byte soup, token soup, truncations, overflowing literals, deep/cyclic/missing includes, degenerate control flow), plus input-size doubling for superlinear blow-up. Known finding F-12 (liveness oscillation).", "5 C06",
            "Lean 4 theorem (lexer progress, total folding; partial) + hostile-input runs of the real binaries under a watchdog + model termination"),
    "C10": ("proof", "Theorems sortDiags_sorted, sortDiags_perm, sorted_unique, sortDiags_order_independent: the final ordering step returns the produced items sorted by (file, start, end) and, when no two items share a position, its output is independent of the order in which the passes produced them. The residual hash-order dependence (ties, and the two sites that choose a location by hash order) is probed on the real code: every input is analysed repeatedly in fresh hash states and in separate processes and all outputs (diagnostics, graph, facts) must be identical; the model computes the order-dependent alternatives so genuinely ambiguous inputs are attributed to the recorded findings (F-13, F-14, F-28).", "5 C10",
            "Lean 4 theorem (sort is a canonicalisation) + repeated-run determinism check on the real code + model correspondence"),
    "C15": ("proof", "Theorems include_fault_one_error (a refused include records exactly one error on the path token, keeps everything collected so far, enters no file and continues after the directive), include_enters_file, import_twice_refused (cyclic/self inclusion is refused), toParseErr_located. Textual-inclusion equivalence is checked metamorphically on the real code with the in-memory and the on-disk reader: random include trees vs the pasted single file must give the same nodes and diagnostics modulo file ids; five reader faults (missing, unreadable, self, cycle, included twice) must each give exactly one error on the directive's path and leave the rest analysed.", "5 C15",
            "Lean 4 theorem (parse loop include step) + split-vs-pasted metamorphic check on the real code with both readers + model correspondence"),
    "C16": ("proof", "Theorems undefined_label_reported / undefined_names_spec / no_undefined_no_error (graph construction fails with LabelsNotDefined carrying exactly the used-but-undefined names, each with a token of one of its uses, and does not fail when every used name is defined), cfgErrDiag_located (label errors are located on a real file and range). On the real code: programs with undefined/duplicate labels and degenerate function shapes must produce a diagnostic that names the label at one of its occurrences; generic unlocated errors are violations except for the two recorded shapes (F-18a, F-18b).", "5 C16",
            "Lean 4 theorem (undefined-name computation and error location) + generated failing programs on the real code + model correspondence"),
    "C18": ("proof", "Theorem region_marks_columns (the marker line of the pretty printer has a caret exactly under the reported columns of the left-aligned excerpt, for every line and range), with sortDiags_sorted and the title/severity table theorems. Agreement of the channels is checked on the real binaries: library items vs `rva lint --json` vs the pretty printer (title, severity, file, line, excerpt and caret span re-derived from the source) in --json / --compact / pretty mode with and without --all-files, on generated programs with lints, parse errors, label errors, single- and multi-file.", "5 C18",
            "Lean 4 theorem (marker line) + cross-channel comparison on the real CLI and library"),
}

REASON_PENDING = ("not claimed yet in this commit: executable model and theorems for this property are "
                  "still being built (DESIGN.md §9); no check is registered rather than a weak one")

checks = []
for pid, (cat, text, ref, tech) in CLAIMS.items():
    checks.append({
        "property_id": pid,
        "quick_cmd": f"./check {pid}",
        "thorough_cmd": f"./check {pid} --tier thorough",
        "evidence_file": f"evidence/{pid}.json",
        "replay_cmd_template": f"./check {pid} --replay {{path}}",
        "engine": "lean4-proof+correspondence",
        "level_claimed": {"category": cat, "text": text, "design_ref": "DESIGN.md §" + ref},
        "level_note": NOTE,
        "technique": tech,
    })
na = [{"property_id": p["id"], "reason": REASON_PENDING} for p in props if p["id"] not in CLAIMS]
m = {
    "version": 1,
    "setup_cmd": "./setup.sh",
    "hooks": {"guard": "rva_verif",
              "enable": "no hooks: every observable is reached through the public API or the CLI; /repo carries only 'fix:' commits",
              "baseline_off_cmd": "cd /repo && cargo nextest run --workspace --no-fail-fast --offline",
              "source_commits": [], "add_only": True},
    "engines": [{"name": "lean4-proof+correspondence", "path": "lean/ harness/ tools/",
                 "serves_properties": sorted(CLAIMS),
                 "kind_free_text": "Lean 4 model + theorems (lake build, axiom audit); Rust harness calling the real code in-process; Python runner generating cases and diffing canonical traces"}],
    "checks": checks,
    "not_applicable": na,
    "notes": "See DESIGN.md. Repairs of genuine defects are 'fix:' commits in /repo, listed in KNOWN_FINDINGS.json.",
}
json.dump(m, open(os.path.join(V, "MANIFEST.json"), "w"), indent=1)
print("MANIFEST.json:", len(checks), "checks,", len(na), "not claimed")
