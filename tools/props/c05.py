"""C05 — each kind of convention violation is reported where it occurs."""
import os
import random
import re
import sys
sys.path.insert(0, os.path.join(os.path.dirname(__file__), "..", "gen"))

import conform
from common import RVH_DEBUG, hx, proof_stage, unhx
from pipeline import correspondence, field, parse_loc, pipe_req
from props.graphfacts import conclude, replay  # noqa: F401

THEOREMS = ["Rva.lint_codes_nodup", "Rva.lint_tables_total", "Rva.lint_severity_functional",
            "Rva.saveToZero_reported", "Rva.invalidSegment_reported", "Rva.unknownEcall_reported", "Rva.runLints_contains",
            "Rva.deadAssignment_reported", "Rva.deadValue_silent", "Rva.lostRegister_reported",
            "Rva.lostRegister_silent", "Rva.overlapping_reported", "Rva.unreachable_reported",
            "Rva.jumpToFunction_reported", "Rva.functionFirst_reported", "Rva.controlFlow_silent",
            "Rva.garbageRead_reported", "Rva.garbageRead_silent", "Rva.stack_first_stop",
            "Rva.stackOffset_reported",
            "Rva.useAfterCall_reported", "Rva.firstUsage_next",
            "Rva.overwriteCalleeSaved_reported", "Rva.neverAssigned_reported",
            "Rva.firstUsage_at_distance", "Rva.useAfterCall_reported_at_distance",
            "Rva.neverAssigned_reported_at_distance"]


def find(lines, pred):
    return [i for i, (t, tag) in enumerate(lines) if pred(t, tag)]


def fn_ranges(lines):
    """(start, end) line index ranges of functions (label line .. ret line)"""
    out = []
    start = None
    for i, (t, tag) in enumerate(lines):
        if re.fullmatch(r"fn\d+:", t):
            start = i
        if tag == "ret" and start is not None:
            out.append((start, i))
            start = None
    return out


def inject(rng, lines):
    """Returns list of (class, new_lines, expected) where expected = (code, set of acceptable
    line indices in new_lines, operand text or None)."""
    L = [(t, tag) for t, tag in lines]
    out = []
    fns = fn_ranges(L)
    main_start = find(L, lambda t, tag: t == "main:")[0]
    main_end = find(L, lambda t, tag: tag == "exit")[0]

    def ins(at, text):
        return L[:at] + [("    " + text, "injected")] + L[at:]

    # 1-3: callee-saved register / sp / ra not restored
    for (a, b) in fns:
        restores = [i for i in range(a, b) if L[i][1] == "restore"]
        for i in restores:
            reg = L[i][0].split()[1].rstrip(",")
            new = L[:i] + L[i + 1:]
            writers = set()
            for k in range(a, b):
                kk = k if k < i else k - 1
                t = new[kk][0].strip() if kk < len(new) else ""
                m = re.match(r"(\w+)\s+(\w+)", t)
                if not m:
                    continue
                mn, rd = m.group(1), m.group(2)
                if reg == "ra":
                    if mn in ("jal", "call"):
                        writers.add(kk)
                elif rd == reg and mn not in ("sw", "beqz", "bnez", "bltz", "bgez", "j", "jal", "call"):
                    writers.add(kk)
            if writers:
                out.append(("unrestored-" + ("ra" if reg == "ra" else "saved"), new,
                            ("overwrite-callee-saved-register", writers, None)))
        ep = [i for i in range(a, b) if L[i][1] == "epilogue-sp"]
        pr = [i for i in range(a, b) if L[i][1] == "prologue-sp"]
        if ep and pr:
            new = L[:ep[0]] + L[ep[0] + 1:]
            out.append(("unrestored-sp", new, ("overwrite-callee-saved-register", {pr[0]}, "sp")))
    # 3b: saved registers restored from each other's slots; a saved register left holding the
    #     entry value of *another* register (frame-pointer idiom without saving it, or a copy)
    for (a, b) in fns:
        restores = [i for i in range(a, b) if L[i][1] == "restore" and L[i][0].split()[1].rstrip(",") != "ra"]
        if len(restores) >= 2:
            i, j = rng.sample(restores, 2)
            ra_, rb_ = L[i][0].split()[1].rstrip(","), L[j][0].split()[1].rstrip(",")
            new = list(L)
            new[i] = (L[i][0].replace(ra_ + ",", rb_ + ",", 1), "injected")
            new[j] = (L[j][0].replace(rb_ + ",", ra_ + ",", 1), "injected")
            out.append(("swapped-restore", new, ("overwrite-callee-saved-register", {j}, ra_)))
            out.append(("swapped-restore", new, ("overwrite-callee-saved-register", {i}, rb_)))
        ep = [i for i in range(a, b) if L[i][1] == "epilogue-sp"]
        pr = [i for i in range(a, b) if L[i][1] == "prologue-sp"]
        if restores and ep and pr:
            i = rng.choice(restores)
            reg = L[i][0].split()[1].rstrip(",")
            frame = -int(L[pr[0]][0].split(",")[-1])
            others = [L[k][0].split()[1].rstrip(",") for k in restores if k != i]
            forms = [f"addi {reg}, sp, {frame}"]              # = entry sp, offset 0
            if others:
                forms.append(f"mv {reg}, {rng.choice(others)}")   # = entry value of another saved register
            form = rng.choice(forms)
            # replace the restore of `reg` by the copy, placed after the other restores
            new = L[:i] + L[i + 1:ep[0]] + [("    " + form, "injected")] + L[ep[0]:]
            out.append(("holds-other-register", new, ("overwrite-callee-saved-register", {ep[0] - 1}, reg)))
    # 4: temporary read after a call
    calls = find(L, lambda t, tag: tag == "call")
    for i in rng.sample(calls, min(3, len(calls))):
        t = rng.choice(conform.TEMPS)
        acc = L[i + 1][0].split()[1].rstrip(",")
        # define before the call *and before its argument set-up*, use after
        j = i
        while j > 0 and L[j - 1][1] == "arg-setup":
            j -= 1
        # the first reader either only reads the temporary or also redefines it (rd == rs)
        reader = rng.choice([[f"    add {acc}, {acc}, {t}"],
                             [f"    addi {t}, {t}, 1", f"    add {acc}, {acc}, {t}"],
                             [f"    xor {t}, {t}, {acc}", f"    add {acc}, {acc}, {t}"]])
        new = L[:j] + [(f"    li {t}, 77", "injected-def")] + L[j:i + 2] + \
            [(x, "injected") for x in reader] + L[i + 2:]
        out.append(("temp-after-call", new, ("invalid-use-after-call", {i + 3}, t)))
    # 5: never-assigned register read (in main)
    acc0 = L[main_start + 1][0].split()[1].rstrip(",")
    text = "\n".join(x for x, _ in L)
    # a temporary, a saved register or an argument register beyond the program's own (a0, a1):
    # none of them has a value at the start of the program; chosen among those the program never
    # mentions, so the injected read is the only one
    pools = [conform.TEMPS, [f"s{i}" for i in range(12)], [f"a{i}" for i in range(2, 8)]]
    for pool in pools:
        free = [x for x in pool if not re.search(rf"\b{x}\b", text)]
        if not free:
            continue
        t = rng.choice(free)
        for form in (f"add {acc0}, {acc0}, {t}", f"addi {t}, {t}, 1"):
            new = ins(main_start + 2, form)
            if form.startswith("addi"):
                new = new[:main_start + 3] + [(f"    add {acc0}, {acc0}, {t}", "injected")] + new[main_start + 3:]
            out.append(("never-assigned", new, ("invalid-use-before-assignment", {main_start + 2}, t)))
    # 6: assignment nobody reads
    sites = find(L, lambda t, tag: tag in ("arith", "use-result", "init-acc"))
    for i in rng.sample(sites, min(3, len(sites))):
        t = rng.choice(conform.TEMPS)
        new = ins(i + 1, f"li {t}, 9")
        out.append(("dead-assignment", new, ("dead-assignment", {i + 1}, t)))
    # 7: arithmetic write to the zero register
    for i in rng.sample(sites, min(2, len(sites))):
        acc = L[i][0].split()[1].rstrip(",")
        form = rng.choice([f"add zero, {acc}, {acc}", f"addi x0, {acc}, 1", f"lw zero, 0({acc})", "la x0, main"])
        new = ins(i + 1, form)
        out.append(("write-to-zero", new, ("save-to-zero", {i + 1}, form.split()[1].rstrip(","))))
    # ... also when every source is the zero register itself (only the canonical nop, `addi x0, x0, 0`,
    # computes nothing)
    for i in rng.sample(sites, min(2, len(sites))):
        form = rng.choice(["li zero, 7", "addi x0, x0, 4", "xori x0, x0, -1", "slti zero, zero, 1", "lui x0, 5",
                           "add x0, x0, x0", "sub zero, zero, zero", "ori zero, x0, 1", "neg x0, x0"])
        # (`mv zero, zero` is `addi x0, x0, 0`, the nop in another spelling: since repair 8cf7cf2 it is not reported,
        # and by C13 it must be treated like `nop`)
        new = ins(i + 1, form)
        out.append(("write-to-zero", new, ("save-to-zero", {i + 1}, form.split()[1].rstrip(","))))
    # 8: stack access at or above the entry stack pointer
    for (a, b) in fns:
        pr = [i for i in range(a, b) if L[i][1] == "prologue-sp"][0]
        frame = -int(L[pr][0].split(",")[-1])
        acc = [L[i][0].split()[1].rstrip(",") for i in range(a, b) if L[i][1] == "init-acc"][0]
        k = [i for i in range(a, b) if L[i][1] == "init-acc"][0]
        new = ins(k + 1, f"sw {acc}, {frame + rng.choice([0, 4, 8])}(sp)")
        out.append(("stack-above-entry", new, ("invalid-stack-offset-usage", {k + 1}, None)))
    # 9: instruction in the data segment
    for i in rng.sample(sites, min(2, len(sites))):
        new = L[:i] + [(".data", None)] + [L[i]] + [(".text", None)] + L[i + 1:]
        out.append(("instruction-in-data", new, ("invalid-segment", {i + 1}, None)))
    # 10: ecall whose number is not a known constant
    a7s = find(L, lambda t, tag: tag == "li-a7")
    for i in rng.sample(a7s, min(2, len(a7s))):
        # a number the analyzer cannot know: loaded from memory
        new = L[:i] + [("    lw a7, 0(gp)", "injected")] + L[i + 1:]
        out.append(("unknown-ecall", new, ("unknown-ecall", {i + 1}, None)))
    for i in rng.sample(a7s, min(2, len(a7s))):
        # ... or computed from a register nothing is known about, through every way of writing a copy (an
        # R-type with the zero register on one side is a copy, not the constant 0)
        form = rng.choice(["add a7, zero, {r}", "add a7, {r}, zero", "or a7, x0, {r}", "sub a7, {r}, zero", "xor a7, {r}, x0",
                           "mv a7, {r}", "addi a7, {r}, 0", "sll a7, {r}, zero"]).format(r=rng.choice(["gp", "tp"]))
        new = L[:i] + [("    " + form, "injected")] + L[i + 1:]
        out.append(("unknown-ecall", new, ("unknown-ecall", {i + 1}, None)))
    for i in rng.sample(a7s, min(2, len(a7s))):
        # ... or reloaded from a slot that was written from a register of unknown value which has since been
        # overwritten with the very constant (seed C05-t sharpened the slot with the register's value after the
        # store): the slot holds what the register held then, which nobody knows
        m_ = re.search(r"li a7,\s*(-?\w+)", L[i][0])
        r_ = rng.choice(["gp", "tp"])
        if m_:
            new = L[:i] + [(f"    sw {r_}, -4(sp)", "injected"), (f"    li {r_}, {m_.group(1)}", "injected"),
                           ("    lw a7, -4(sp)", "injected")] + L[i + 1:]
            out.append(("unknown-ecall", new, ("unknown-ecall", {i + 3}, None)))
    # 11: straight-line code nothing can reach
    rets = find(L, lambda t, tag: tag in ("ret", "jump", "exit"))
    for i in rng.sample(rets, min(3, len(rets))):
        if L[i][1] == "exit" or (i + 1 < len(L) and not L[i + 1][0].rstrip().endswith(":")) or i + 1 >= len(L):
            new = ins(i + 1, "addi t0, zero, 1")
            out.append(("unreachable", new, ("unreachable-code", {i + 1}, None)))
        else:
            new = ins(i + 1, "addi t0, zero, 1")
            out.append(("unreachable", new, ("unreachable-code", {i + 1}, None)))
    # 12: entering a function by a plain jump
    mcalls = [i for i in calls if main_start < i < main_end]
    # only where the function stays a function, i.e. is also called from somewhere else
    mcalls = [i for i in mcalls
              if sum(1 for k in calls if L[k][0].split()[-1] == L[i][0].split()[-1]) >= 2]
    if mcalls:
        i = rng.choice(mcalls)
        fname = L[i][0].split()[-1]
        new = L[:i] + [(f"    j {fname}", "injected")] + L[i + 1:]
        first = [k for k, (t, tag) in enumerate(new) if t == fname + ":"][0] + 1
        out.append(("jump-into-function", new, ("invalid-jump-to-function", {first, i}, None)))
    # 12b: the same from inside another function (a tail jump instead of a call): the jumping
    # instruction itself belongs to a function
    fcalls = [i for i in calls if not (main_start < i < main_end)]
    fcalls = [i for i in fcalls
              if sum(1 for k in calls if L[k][0].split()[-1] == L[i][0].split()[-1]) >= 2]
    # not a call of the enclosing function itself (a jump to its own label is a loop)
    def enclosing(i):
        for (a, b) in fns:
            if a <= i <= b:
                return L[a][0].rstrip(":")
        return None
    fcalls = [i for i in fcalls if enclosing(i) and enclosing(i) != L[i][0].split()[-1]]
    if fcalls:
        i = rng.choice(fcalls)
        fname = L[i][0].split()[-1]
        form = rng.choice([f"j {fname}", f"jal zero, {fname}", f"jal x0, {fname}"])
        new = L[:i] + [("    " + form, "injected")] + L[i + 1:]
        first = [k for k, (t, tag) in enumerate(new) if t == fname + ":"][0] + 1
        out.append(("jump-into-function-from-function", new, ("invalid-jump-to-function", {first, i}, None)))
    # 14: a function as the first line of the program
    (a, b) = fns[-1]
    new = L[a:b + 1] + L[:a]
    out.append(("function-first", new, ("first-instruction-is-function", {1, 0}, None)))
    return out


def run(res, tier, seed):
    rng = random.Random(seed)
    proof_ok = proof_stage(res, "Rva.Proofs.C05c", THEOREMS, extra_modules=["Rva.Proofs.C05b", "Rva.Proofs.C05", "Rva.Proofs.Tables"])
    n = 12 if tier == "quick" else 150
    cases = []
    for _ in range(n):
        lines, _ = conform.program(rng, shapes=False)
        for cls, new, exp in inject(rng, lines):
            cases.append((cls, conform.text(new), exp, conform.text(lines)))
    # a saved register (or ra) that a function saves in its prologue but uses and restores only inside
    # a conditional region: a write before the branch is never undone on the path that skips the
    # region (a nearer, legitimate write - the restore - lies on the other path)
    for _ in range(4 if tier == "quick" else 40):
        sk = rng.choice(["s0", "s1", "s5", "s11", "ra"])
        other = "s0" if sk == "ra" else "ra"
        frame = rng.choice([8, 16])
        o1, o2 = rng.sample(range(0, frame, 4), 2)
        use = [f"    mv {sk}, a1", "    jal ra, bar", f"    add a0, a0, {sk}"] if sk != "ra" else ["    jal ra, bar"]
        pre = ["main:", "    li a0, 3", "    li a1, 4", "    jal ra, foo", "    li a7, 1", "    ecall", "    li a7, 10", "    ecall",
               "foo:", f"    addi sp, sp, -{frame}", f"    sw {other}, {o1}(sp)", f"    sw {sk}, {o2}(sp)"]
        post = [f"    {rng.choice(['beqz', 'blez'])} a0, foo_done"] + use + [f"    lw {sk}, {o2}(sp)", "foo_done:",
                f"    lw {other}, {o1}(sp)", f"    addi sp, sp, {frame}", "    ret", "bar:", "    addi a0, a0, 1", "    ret"]
        if sk == "ra":
            # ra is also what `other` = s0 is not: keep s0 untouched; the conditional region calls bar and reloads ra
            pass
        inj = f"    addi {sk}, a1, 1" if sk != "ra" else "    jal ra, bar"
        base_t = "\n".join(pre + post) + "\n"
        new_t = "\n".join(pre + [inj] + post) + "\n"
        cases.append(("clobber-before-conditional-restore", new_t, ("overwrite-callee-saved-register", {len(pre)}, None), base_t))
    # class 11 again, whole blocks: every line of a run of unreachable code is reported, not only its first -
    # blocks that jump to blocks written earlier, code behind an unreachable ecall, code behind the exit
    blocks = [
        ("main:\n    li a0, 1\n    j end\nB:\n    addi a0, a0, 1\n    addi a0, a0, 3\n    j end\nA:\n    addi a0, a0, 2\n    j B\nend:\n"
         "    li a7, 10\n    ecall\n", [4, 5, 6, 8, 9]),
        ("main:\n    li a0, 1\n    j end\n    li a7, 1\n    ecall\n    addi a0, a0, 1\n    addi a0, a0, 2\nend:\n    li a7, 10\n    ecall\n",
         [3, 4, 5, 6]),
        ("main:\n    li a7, 10\n    ecall\n    addi a0, a0, 1\n    addi a0, a0, 2\n    addi a0, a0, 3\n", [3, 4, 5]),
        ("main:\n    li a0, 1\n    j end\nC:\n    addi a0, a0, 4\n    j end\nB:\n    addi a0, a0, 1\n    j C\nA:\n    addi a0, a0, 2\n    j B\n"
         "end:\n    li a7, 10\n    ecall\n", [4, 5, 7, 8, 10, 11]),
    ]
    for t_, lines_ in blocks:
        base_ = "\n".join(x for k_, x in enumerate(t_.split("\n")) if k_ not in lines_)
        for ln_ in lines_:
            cases.append(("unreachable-block", t_, ("unreachable-code", {ln_}, None), base_))
    inputs = [[("m.s", t)] for _, t, _, _ in cases]
    impl, models, bad = correspondence("lints", inputs)
    first = None
    per_class = {}
    for (cls, t, (code, ok_lines, operand), base), blk in zip(cases, impl):
        per_class.setdefault(cls, [0, 0])
        per_class[cls][0] += 1
        hit = False
        for l in blk:
            if l.startswith("LINT code=" + code + " "):
                at = parse_loc(field(l, "at"))
                txt = unhx(field(l, "text") or "-")
                if at["sl"] in ok_lines and (operand is None or txt == operand):
                    hit = True
        if blk and blk[0].startswith(("HANG", "CRASH")):
            hit = False
        if hit:
            per_class[cls][1] += 1
        elif first is None:
            got = [(field(l, "code"), parse_loc(field(l, "at"))["sl"] + 1, unhx(field(l, "text") or "-"))
                   for l in blk if l.startswith("LINT ")]
            first = {"what": f"violation class '{cls}' injected at line(s) {sorted(x + 1 for x in ok_lines)}"
                             f"{' operand ' + operand if operand else ''}: expected a '{code}' diagnostic there, "
                             f"got {got[:6]}", "source": t, "clean_base": base,
                     "replay_cmd": "echo '%s' | %s" % (pipe_req("lints", [("m.s", t)]), RVH_DEBUG)}
    corr = None
    if bad:
        i, fam, d = bad[0]
        corr = {"stage": fam, "source": inputs[i][0][1], "impl_vs_model": d}
    res.cov["evaluations"] = len(cases)
    res.cov["distinct_nontrivial"] = len(set(t for _, t, _, _ in cases))
    res.cov["rule"] = ("clean convention-conforming base programs (generator shared with C04) with exactly one "
                       "violation injected per case: 13 classes x admissible sites (function, position, register "
                       "choice); the real linter must report the corresponding code located on the offending "
                       "instruction/operand; traces also diffed against the Lean model")
    res.cov["samples"] = [{"class": cases[0][0], "program": cases[0][1]}]
    res.cov["input_distribution"] = {k: {"injected": v[0], "reported_at_site": v[1]} for k, v in per_class.items()}
    res.cov["traces_validated_against_impl"] = len(cases)
    conclude(res, "C05", first, corr, proof_ok, "no unreported injected violation found")
