"""C14 — renaming labels or same-class registers only renames the diagnostics."""
import os
import random
import re
import sys
sys.path.insert(0, os.path.join(os.path.dirname(__file__), "..", "gen"))

import prog
import rename
from asm import SAVED, TEMPS
from common import RVH_DEBUG, hx, proof_stage, run_lines_isolated, unhx
from pipeline import field, parse_loc, pipe_req
from props.graphfacts import CORPUS, conclude, replay  # noqa: F401

THEOREMS = ["Rva.class_membership_equivariant", "Rva.admissible_fixes_args", "Rva.class_sets_invariant",
            "Rva.ecall_table_args_only", "Rva.reg_alias", "Rva.mem_ofList", "Rva.firstLabel_renaming"]


def diag_key(line, regmap=None):
    """(code, line number, designated text with the renaming applied)"""
    at = parse_loc(field(line, "at") or "")
    txt = unhx(field(line, "text") or "-")
    if regmap is not None:
        txt = rename.apply(txt, regmap[0], regmap[1])
    code = field(line, "code") or field(line, "title")
    return (code, at["sl"] if at else -1, re.sub(r"\s+", " ", txt))


def run_title(line, maps=None):
    """title of a reported item with the renaming applied; a list of names after a colon (which the
    real code prints sorted by name) is compared as a set"""
    t = unhx(field(line, "title") or "")
    if maps is not None:
        t = rename.apply(t, maps[0], maps[1])
    if ": " in t:
        head, tail = t.split(": ", 1)
        t = head + ": " + ", ".join(sorted(x.strip() for x in tail.split(",")))
    return t


def run(res, tier, seed):
    rng = random.Random(seed)
    proof_ok = proof_stage(res, "Rva.Proofs.C14", THEOREMS, extra_modules=["Rva.Proofs.Tables", "Rva.Proofs.FirstLabel"])
    n = 60 if tier == "quick" else 800
    # every role a saved register / a temporary can play, written with s1 / t1 and renamed into every
    # other member of the class (all transpositions are applied to these programs below): pointer
    # base of word, half and byte stores and loads at the small offsets frame slots have, frame
    # pointer copy, loop counter across calls, branch operand, jump-and-link / indirect-jump operand
    ROLES = [
        "main:\n    la a0, buf\n    jal fill\n    li a7, 10\n    ecall\nfill:\n    addi sp, sp, -8\n    sw ra, 0(sp)\n"
        "    sw s1, 4(sp)\n    mv s1, a0\n    li t1, 7\n    sw t1, 0(s1)\n    sw t1, 4(s1)\n    sh t1, 8(s1)\n"
        "    sb t1, 12(s1)\n    lw t2, 4(s1)\n    add a0, t2, t1\n    lw s1, 4(sp)\n    lw ra, 0(sp)\n    addi sp, sp, 8\n"
        "    ret\n.data\nbuf: .space 16\n",
        "main:\n    li a0, 3\n    jal work\n    li a7, 10\n    ecall\nwork:\n    addi sp, sp, -16\n    sw ra, 12(sp)\n"
        "    sw s1, 8(sp)\n    addi s1, sp, 16\n    sw a0, -12(s1)\n    lw t1, -12(s1)\n    addi a0, t1, 1\n"
        "    lw s1, 8(sp)\n    lw ra, 12(sp)\n    addi sp, sp, 16\n    ret\n",
        "main:\n    li a0, 3\n    jal count\n    li a7, 10\n    ecall\ncount:\n    addi sp, sp, -8\n    sw ra, 0(sp)\n"
        "    sw s1, 4(sp)\n    mv s1, a0\nagain:\n    mv a0, s1\n    jal leaf\n    addi s1, s1, -1\n    bnez s1, again\n"
        "    lw s1, 4(sp)\n    lw ra, 0(sp)\n    addi sp, sp, 8\n    ret\nleaf:\n    addi a0, a0, 1\n    ret\n",
        "main:\n    li t1, 5\n    la t2, buf\n    sw t1, 0(t2)\n    lw t3, 0(t2)\n    jal leaf\n    add a0, a0, t1\n"
        "    li a7, 10\n    ecall\nleaf:\n    li t1, 1\n    add a0, a0, t1\n    ret\n.data\nbuf: .word 0\n",
        "main:\n    la t1, leaf\n    jalr ra, 0(t1)\n    jal t1, side\n    li a7, 10\n    ecall\nside:\n    addi a0, a0, 1\n"
        "    jr t1\nleaf:\n    addi a0, a0, 2\n    ret\n",
        "main:\n    li t1, 5\n    li t3, 6\n    li s1, 7\n    jal leaf\n    add a1, t1, t3\n    add a1, a1, t3\n    mv a0, a1\n    li a7, 1\n"
        "    ecall\n    li a7, 10\n    ecall\nleaf:\n    addi a0, a0, 1\n    ret\n",
        "main:\n    li s1, 4\n    li t1, 2\n    blt t1, s1, over\n    addi t1, t1, 1\nover:\n    mv a0, t1\n    li a7, 1\n"
        "    ecall\n    li a7, 10\n    ecall\n",
    ]
    base = ROLES + [c for c in CORPUS if "t0,B" not in c]
    for _ in range(n):
        s, _ = prog.program(rng, sloppy=rng.choice([0, 0.15, 0.3]), multi_ret=False)
        base.append(s)
    cases = []
    # all transpositions of each class on a few programs, random permutations on the rest
    trans = [(a, b) for cls in (TEMPS, SAVED) for i, a in enumerate(cls) for b in cls[i + 1:]]
    for k, s in enumerate(base):
        perms = [rename.perm(rng) for _ in range(2)]
        perms += [rename.perm(rng, t) for t in rng.sample(trans, 3 if tier == "quick" else 10)]
        if k < len(ROLES) + 2:
            perms += [rename.perm(rng, t) for t in trans]
        for pm in perms:
            lm = rename.fresh_labels(rng, rename.labels_of(s)) if rng.random() < 0.6 else {}
            cases.append((s, pm, lm, rename.apply(s, pm, lm)))
    # programs that use labels defined nowhere: one error, located at one of the uses - at the same
    # use whatever the labels are called (name maps that keep, reverse and shuffle the alphabetical
    # order of the names, and maps onto mnemonic spellings)
    UNDEF = [("main:\n    beqz a0, bbb\n    j    aaa\n    li   a7, 10\n    ecall\n", ["aaa", "bbb"]),
             ("main:\n    jal  zz_fn\n    bnez a0, aa_lab\n    la   t0, mm_sym\n    call bb_fn\n    li a7, 10\n    ecall\n",
              ["zz_fn", "aa_lab", "mm_sym", "bb_fn"]),
             ("main:\n    la   t0, tbl\n    j    out\n    jal  helper\nback:\n    bgt  a0, a1, back2\n    li a7, 10\n    ecall\n",
              ["tbl", "out", "helper", "back2", "back"]),
             ("f:\n    beq  a0, a1, L2\n    j    L10\n    ret\n", ["L2", "L10", "f"])]
    for s, names in UNDEF:
        srt = sorted(names)
        maps = [dict(zip(srt, [f"n{i}_x" for i in range(len(srt))])),
                dict(zip(srt, [f"n{len(srt) - i}_x" for i in range(len(srt))])),
                dict(zip(srt, rng.sample(["div", "ret", "J", "sub", "zz", "Aa", "_0", "call"], len(srt))))]
        for _ in range(3):
            maps.append(rename.fresh_labels(rng, names))
        for lm in maps:
            cases.append((s, {}, lm, rename.apply(s, {}, lm)))
    # names that look like the analyzer's own bookkeeping (every return after a function's first is
    # rewritten into a jump to an internal label): a function may be called that (F-53)
    RETN = ("main:\n    li   a0, 3\n    li   a2, 4\n    jal  helper___\n    jal  two\n    li   a7, 1\n    ecall\n    li   a7, 10\n"
            "    ecall\nhelper___:\n    add  a0, a0, a2\n    ret\ntwo:\n    li   a2, 5\n    beqz a0, other\n    li   a0, 7\n    ret\n"
            "other:\n    li   a0, 9\n    ret\n")
    for nm in ("__return__", "__RETURN__", "_return_", "return", "__entry__", "__exit__", "program_entry", "func_entry"):
        lm = {"helper___": nm}
        cases.append((RETN, {}, lm, rename.apply(RETN, {}, lm)))
    # conventional names in every role a label can play (seed C14-t exempted a function called `main` from
    # 'First instruction is function'): the program's first label is called, jumped to, loaded; each of the
    # names programs usually give to such a label, renamed to one nobody would special-case and back
    for nm in ("main", "_start", "start", "boot", "entry", "exit", "loop", "end", "done", "init", "reset", "handler"):
        S = (f"{nm}:\n    addi sp, sp, -4\n    sw   ra, 0(sp)\n    li   a7, 5\n    ecall\n    beqz a0, quit_\n    la   t0, {nm}\n"
             f"    jal  {nm}\nquit_:\n    lw   ra, 0(sp)\n    addi sp, sp, 4\n    ret\nhelp_:\n    addi a0, a0, 1\n    j    {nm}\n")
        for other in ("qq" + "x" * (len(nm) - 2), "main" if nm != "main" else "mein"):
            lm = {nm: other}
            cases.append((S, {}, lm, rename.apply(S, {}, lm)))
    reqs = []
    for s, pm, lm, s2 in cases:
        reqs.append(pipe_req("lints,run", [("m.s", s)]))
        reqs.append(pipe_req("lints,run", [("m.s", s2)]))
    out = run_lines_isolated(RVH_DEBUG, reqs, chunk=60)
    # diagnostics whose *location* the real code picks by hash-table order (several first uses at
    # the same distance, F-14; exit choice of a multi-return function, F-28) are not functions of
    # the program: the model lists the alternatives. They are left out of the comparison on both
    # sides (by code and line, which a renaming preserves); this keeps an order-dependent pick from
    # being mistaken for an effect of the renaming.
    from common import DRIVER
    uniq = sorted(set(s for s, _, _, _ in cases))
    m_asc = run_lines_isolated(DRIVER, [pipe_req("lints", [("m.s", s)]) for s in uniq], chunk=100, timeout=120)
    m_desc = run_lines_isolated(DRIVER, [pipe_req("lints", [("m.s", s)]) + " desc" for s in uniq], chunk=100,
                                timeout=120)
    amb = {}
    order_dep = set()
    strip = lambda blk: sorted(re.sub(r" (alts|site)=\S+", "", l) for l in blk if l.startswith("LINT "))
    for s, ma, md in zip(uniq, m_asc, m_desc):
        lines_ = set()
        for ml in ma + md:
            m = re.search(r" alts=\[(\S*)\]", ml)
            if ml.startswith("LINT ") and m:
                for alt in m.group(1).split(","):
                    loc = parse_loc(alt)
                    if loc:
                        lines_.add((field(ml, "code"), loc["sl"]))
        amb[s] = lines_
        if strip(ma) != strip(md):
            order_dep.add(s)
    first = None
    nontrivial = 0
    kinds = {}
    skipped = 0
    for j, (s, pm, lm, s2) in enumerate(cases):
        a, b = out[2 * j], out[2 * j + 1]
        if (a and a[0].startswith(("HANG", "CRASH"))) or (b and b[0].startswith(("HANG", "CRASH"))):
            continue
        if s in order_dep:
            skipped += 1
            continue
        drop = lambda ks: [k for k in ks if (k[0], k[1]) not in amb[s]]
        ka = drop(sorted(diag_key(l, (pm, lm)) for l in a if l.startswith("LINT ")))
        kb = drop(sorted(diag_key(l) for l in b if l.startswith("LINT ")))
        for c, _, _ in ka:
            kinds[c] = kinds.get(c, 0) + 1
        if ka:
            nontrivial += 1
        ra = sorted((run_title(l, (pm, lm)), parse_loc(field(l, "at"))["sl"]) for l in a if l.startswith("RUN "))
        rb = sorted((run_title(l), parse_loc(field(l, "at"))["sl"]) for l in b if l.startswith("RUN "))
        if amb[s]:
            ra = rb = []
        if ka == kb and ra != rb and first is None:
            first = {"what": "renaming changes the reported items (title, line): " +
                             f"original(renamed)={[x for x in ra if x not in rb][:3]} vs renamed program="
                             f"{[x for x in rb if x not in ra][:3]}",
                     "source": s, "renamed": s2, "register_map": pm, "label_map": lm,
                     "replay_cmd": "echo '%s' | %s" % (pipe_req("run", [("m.s", s2)]), RVH_DEBUG)}
        if ka != kb and first is None:
            first = {"what": "renaming changes the diagnostics: " +
                             f"original(renamed)={[x for x in ka if x not in kb][:3]} vs renamed program="
                             f"{[x for x in kb if x not in ka][:3]}",
                     "source": s, "renamed": s2, "register_map": pm, "label_map": lm,
                     "replay_cmd": "echo '%s' | %s" % (pipe_req("lints", [("m.s", s2)]), RVH_DEBUG)}
    res.cov["evaluations"] = len(cases) * 2
    res.cov["distinct_nontrivial"] = nontrivial
    res.cov["rule"] = ("generated programs (clean and violating) x random permutations of t0-t6 and s0-s11, "
                       "sampled and (on 3 programs) all transpositions, with random injective label renamings; "
                       "the real diagnostics of the renamed program must equal the renamed diagnostics of the "
                       "original (code, line, designated text); non-trivial = pair with at least one diagnostic")
    res.cov["samples"] = [{"program": cases[0][0], "map": cases[0][1]}]
    res.cov["input_distribution"] = {"diagnostic_kinds": kinds, "pairs": len(cases),
                                     "skipped_exit_choice_order_dependent": skipped,
                                     "programs_with_order_dependent_locations": sum(1 for v in amb.values() if v)}
    res.cov["traces_validated_against_impl"] = len(cases) * 2
    conclude(res, "C14", first, None, proof_ok, "no renaming that changes the diagnostics found")
