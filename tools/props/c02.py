"""C02 — liveness covers every real use and is the least solution of its equations."""
import interp
import oracles_exec as ox
from common import proof_stage
from props.graphfacts import conclude, replay, run_graph_property  # noqa: F401

THEOREMS = ["Rva.liveNode_stable", "Rva.live_path_sound", "Rva.live_edge", "Rva.live_transfer", "Rva.mem_unionOver",
            "Rva.liveNode_below", "Rva.liveSweep_below", "Rva.liveness_least", "Rva.liveNode_noop",
            "Rva.liveness_fixpoint", "Rva.liveness_least_solution", "Rva.preSol_top",
            "Rva.ecall_table_matches_rars",
            "Rva.live_path_sound_ext", "Rva.unused_warning_only_if_unread", "Rva.unused_warning_sound",
            "Rva.arguments_cover_reads", "Rva.returns_cover_caller_reads"]


def oracle(src, blk, rng):
    cfg = [l for l in blk if l.startswith("CFG ")]
    if not cfg:
        return None
    p = interp.Prog(cfg)
    funcs = ox.funcs_of(blk)
    facts = ox.Facts(blk)
    ecalls = interp.ecall_table()
    e = ox.check_liveness(p, funcs, facts, ecalls)
    if e:
        return e
    for _ in range(3):
        m = interp.Machine(p, rng)
        m.run(ecalls, 1500)
        e = ox.check_live_dynamic(p, facts, m)
        if e:
            return e
    return None


def run(res, tier, seed):
    proof_ok = proof_stage(res, "Rva.Proofs.C02Least", THEOREMS, extra_modules=["Rva.Proofs.C02", "Rva.Proofs.C02Paths", "Rva.Proofs.C02c", "Rva.Proofs.Tables"])
    res.cov["rule"] = ("generated programs + corpus; the real live-in/live-out sets are compared with an "
                       "independent least-fixed-point solver of the documented equations, and with 3 concrete "
                       "executions per program (every register read must be live at every point since its "
                       "defining write); facts also diffed against the Lean model")
    first, corr = run_graph_property(res, tier, seed, "cfg,facts", oracle)
    conclude(res, "C02", first, corr, proof_ok, "no register read outside the live sets found")
