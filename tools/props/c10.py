"""C10 — output is deterministic and free of duplicate diagnostics."""
import hashlib
import os
import random
import re
import subprocess
import sys
sys.path.insert(0, os.path.join(os.path.dirname(__file__), "..", "gen"))

import prog
from common import ENV, RVA, RVH_DEBUG, WORK, build_rva, hx, proof_stage, run_lines_isolated, unhx
from pipeline import field, pipe_req
from props.graphfacts import conclude, replay  # noqa: F401

THEOREMS = ["Rva.sortDiags_sorted", "Rva.sortDiags_perm", "Rva.sorted_unique", "Rva.sortDiags_order_independent",
            "Rva.firstLabel_spec", "Rva.firstLabel_order_free", "Rva.cfgErrDiag_located"]


def many_clobbers(rng):
    """Many functions that overwrite saved registers: many diagnostics, several on the same token."""
    k = rng.randrange(4, 10)
    L = ["main:"]
    for i in range(k):
        L += [f"    jal f{i}"]
    L += ["    li a7, 10", "    ecall"]
    for i in range(k):
        L += [f"f{i}:"]
        for r in rng.sample(["s0", "s1", "s2", "s3", "s4"], rng.randrange(1, 4)):
            L += [f"    li {r}, {rng.randrange(100)}"]
        if rng.random() < 0.3:
            L += ["    addi zero, zero, 1"]
        L += ["    ret"]
    return "\n".join(L) + "\n"


def diamonds(rng):
    """Registers without a valid value (never assigned; caller-saved after a call) read on BOTH
    arms of a branch at different distances: the single reported use must always be the nearest
    one, whatever order the successors are visited in."""
    L = ["main:"]
    lbl = 0
    for _ in range(rng.randrange(1, 4)):
        lbl += 1
        bad = rng.choice(["t0", "t1", "t2", "t3", "t4"])
        after_call = rng.random() < 0.5
        if after_call:
            L += ["    mv a0, a4", "    jal helper"]
        pad_a, pad_b = rng.sample([0, 1, 2, 3, 4], 2)       # different distances
        L += [f"    {rng.choice(['beq', 'bne', 'blt'])} a0, zero, near{lbl}"]
        for k in range(pad_a):
            L += [f"    addi a{2 + k % 3}, a0, {k + 1}"]
        L += [f"    add a4, a0, {bad}", f"    j join{lbl}", f"near{lbl}:"]
        for k in range(pad_b):
            L += [f"    addi a{5 + k % 2}, a0, {k + 1}"]
        L += [f"    add a4, a0, {bad}", f"join{lbl}:"]
    L += ["    mv a0, a4", "    li a7, 1", "    ecall", "    li a7, 10", "    ecall",
          "helper:", "    addi a0, a0, 1", "    ret"]
    return "\n".join(L) + "\n"


def programs(rng, n):
    out = []
    for _ in range(n):
        k = rng.random()
        if k < 0.2:
            out.append(diamonds(rng))
        elif k < 0.5:
            out.append(many_clobbers(rng))
        else:
            s, _ = prog.program(rng, sloppy=rng.choice([0.1, 0.3, 0.5]), multi_ret=rng.random() < 0.3)
            out.append(s)
    return out


def ambiguous_free(model_blk):
    return not any(" alts=[" in l for l in model_blk)


def run(res, tier, seed):
    rng = random.Random(seed)
    proof_ok = proof_stage(res, "Rva.Proofs.C10", THEOREMS, extra_modules=["Rva.Proofs.C05b", "Rva.Proofs.C16"])
    build_rva()
    n = 40 if tier == "quick" else 400
    reps = 20 if tier == "quick" else 32          # a 1-in-6 order flip is missed by 20 runs with probability 3 %
    # nodes that belong to two functions (shared tails): every per-node list of functions is a hash
    # set in the real code; these come first so that the CLI stage (all modes, --yaml included) sees them
    shared = ["main:\n    jal fa\n    jal fb\n    li a7, 10\n    ecall\nfa:\n    li a0, 1\n    j tail\nfb:\n    li a0, 2\ntail:\n"
              "    addi a0, a0, 1\n    ret\n",
              "main:\n    jal fa\n    jal fb\n    jal fc\n    li a7, 10\n    ecall\nfa:\n    li a0, 1\n    j tail\nfb:\n    li a0, 2\n"
              "    j tail\nfc:\n    li a0, 3\ntail:\n    addi a0, a0, 1\n    ret\n"]
    # several items at one location (a function on the first line that is also jumped to), and an
    # entry shared by functions that carries two labels
    shared += ["fn_a:\n    addi a0, a0, -1\n    beqz a0, out\n    j fn_a\nout:\n    ret\nmain:\n    jal fn_a\n    addi a7, zero, 10\n"
               "    ecall\n",
               "main:\n    jal fn_a\n    jal fn_b\n    jal fn_c\n    addi a7, zero, 10\n    ecall\nfn_a:\n    addi a0, a0, 1\nfn_b:\nfn_c:\n"
               "    addi a0, a0, 2\n    ret\n"]
    # an entry that belongs to several functions (f runs on into g, h too) and is also the target of a
    # plain jump: one item per jump, however many functions own the entry
    shared += ["main:\n    li a0, 0\n    jal f\n    jal g\n    li a7, 10\n    ecall\nf:\n    addi a0, a0, 1\n    beqz a0, g\n    j g\n"
               "g:\n    addi a0, a0, 2\n    ret\n",
               "main:\n    li a0, 0\n    jal f\n    jal h\n    jal g\n    li a7, 10\n    ecall\nh:\n    addi a0, a0, 3\n    bnez a0, g\n"
               "f:\n    addi a0, a0, 1\n    beqz a0, g\n    j g\ng:\n    addi a0, a0, 2\n    ret\n",
               "main:\n    li a0, 0\n    jal f\n    jal g\n    li a7, 10\n    ecall\nf:\n    addi a0, a0, 1\n    bltz a0, skip\n    j g\nskip:\n"
               "    addi a0, a0, 5\ng:\n    addi a0, a0, 2\n    ret\n"]
    # one instruction that reads two saved registers which still hold what the caller left in them: both
    # operands are reported, in column order, whatever order the operand set is walked in
    for a, b in (("s1", "s2"), ("s11", "s3"), ("s0", "s10")):
        shared.append(f"main:\n    li a0, 1\n    jal f\n    li a7, 10\n    ecall\nf:\n    add a0, {a}, {b}\n    beq {b}, {a}, fo\n    sub a0, {b}, {a}\n"
                      f"fo:\n    ret\n")
    # (since the repair c9dab40 a jump from inside the function is a loop: the jumps below come from code
    # that is not part of the functions they enter)
    shared += ["fn_a:\n    addi a0, a0, -1\n    ret\nmain:\n    jal fn_a\n    beqz a0, out\n    j fn_a\nout:\n    addi a7, zero, 10\n    ecall\n",
               "fn_a:\n    addi a0, a0, -1\n    ret\nmain:\n    jal fn_a\n    beqz a0, m2\n    j fn_a\nm2:\n    bnez a1, out\n    j fn_a\nout:\n"
               "    addi a7, zero, 10\n    ecall\n",
               "main:\n    li a0, 0\n    jal f\n    jal g\n    beqz a0, out\n    j g\nout:\n    li a7, 10\n    ecall\nf:\n    addi a0, a0, 1\n"
               "g:\n    addi a0, a0, 2\n    ret\n",
               "main:\n    li a0, 0\n    jal f\n    jal h\n    jal g\n    beqz a0, out\n    j g\nout:\n    li a7, 10\n    ecall\nh:\n    addi a0, a0, 3\n"
               "    bnez a0, g\nf:\n    addi a0, a0, 1\ng:\n    addi a0, a0, 2\n    ret\n"]
    # items of different kinds at one location (the program entry and a jump from another function both lead
    # into the first function): their order must not depend on the order of a predecessor set. The input is
    # the witness of F-63 (its two identical 'First instruction is function' items are that finding)
    import findings as _findings
    known_inputs = {f_["input"] for f_ in _findings.load() if "C10" in f_["properties"]}
    shared += [f_["input"] for f_ in _findings.load() if f_["id"] == "F-63"]
    # one saved register overwritten on both arms of a branch (at the same and at different distances
    # from the single return), on three arms, and twice on one arm: every overwrite is found whatever
    # order the backward search meets them in
    for reg in rng.sample(["s0", "s1", "s5", "s11", "ra"], 3):
        for extra_then, extra_else in (([], []), ([], ["    addi a0, a0, 1"]), (["    nop", "    nop"], [])):
            shared.append("\n".join(["main:", "    li a0, 1", "    jal pick", "    li a7, 10", "    ecall", "pick:",
                                     "    beq a0, zero, pick_else", f"    li {reg}, 1"] + extra_then +
                                    ["    j pick_end", "pick_else:", f"    li {reg}, 2"] + extra_else +
                                    ["pick_end:", "    ret"]) + "\n")
        shared.append("\n".join(["main:", "    li a0, 1", "    jal pick", "    li a7, 10", "    ecall", "pick:",
                                 "    beqz a0, p2", "    bltz a0, p3", f"    li {reg}, 1", f"    addi {reg}, {reg}, 1", "    j pe",
                                 "p2:", f"    li {reg}, 2", "    j pe", "p3:", f"    li {reg}, 3", "pe:", "    ret"]) + "\n")
    srcs = shared + programs(rng, n)
    # two-return functions whose paths disagree about a saved register / sp, in both file layouts:
    # the diagnostics must not depend on which return the (hash-ordered) markup makes the exit
    from props.graphfacts import early_out_programs
    for _ in range(2 if tier == "quick" else 40):
        srcs += early_out_programs(rng)
    # the model tells which programs have a diagnostic whose location depends on hash order
    # (several first uses at the same depth: known finding F-14); those are compared as sets
    from common import DRIVER
    model = run_lines_isolated(DRIVER, [pipe_req("lints,run", [("m.s", s)]) for s in srcs], chunk=100, timeout=120)
    model_d = run_lines_isolated(DRIVER, [pipe_req("lints,run", [("m.s", s)]) + " desc" for s in srcs], chunk=100,
                                 timeout=120)
    # which return of a multi-return function becomes its exit depends on hash order (known
    # finding F-28); the model makes that order explicit: programs on which its two orders give
    # different diagnostics are judged against the set of the two
    first = None
    stats = {"programs": len(srcs), "runs_in_process": 0, "runs_separate_processes": 0, "max_diagnostics": 0,
             "with_ties": 0, "order_dependent_by_model": 0}
    # (1) repeated runs inside one process (fresh hash seeds and UUIDs per parse)
    reqs = []
    for s in srcs:
        reqs += [pipe_req("run", [("m.s", s)])] * reps
    out = run_lines_isolated(RVH_DEBUG, reqs, chunk=120)
    stats["runs_in_process"] = len(reqs)
    for j, s in enumerate(srcs):
        runs = [[l for l in out[j * reps + k] if l.startswith("RUN ")] for k in range(reps)]
        stats["max_diagnostics"] = max(stats["max_diagnostics"], len(runs[0]))
        strip = lambda blk: [re.sub(r" desc=\S+", "", re.sub(r" alts=\S+", "", l)) for l in blk if l.startswith("RUN ")]
        exit_dep = strip(model[j]) != strip(model_d[j])
        amb = (not ambiguous_free(model[j])) or exit_dep
        stats["order_dependent_by_model"] += amb
        if exit_dep:
            allowed = [sorted(strip(model[j])), sorted(strip(model_d[j]))]
            for k in range(reps):
                got = sorted(re.sub(r" desc=\S+", "", l) for l in runs[k])
                if got not in allowed and first is None and ambiguous_free(model[j]):
                    first = {"what": "a run differs from both outcomes the exit choice of a multi-return function "
                                     "allows", "source": s, "got": got[:6]}
            continue
        keys = [(field(l, "at"),) for l in runs[0]]
        if len(set(keys)) < len(keys):
            stats["with_ties"] += 1
        for k in range(1, reps):
            a, b = runs[0], runs[k]
            if amb:
                a, b = sorted(re.sub(r" at=\S+", "", l) for l in a), sorted(re.sub(r" at=\S+", "", l) for l in b)
            if a != b and first is None:
                diff = [x for x in a if x not in b][:2] + [x for x in b if x not in a][:2]
                first = {"what": f"two lint runs of the same file in one process differ (run 1 vs run {k + 1}): "
                                 f"{diff if diff else 'same items, different order'}", "source": s,
                         "replay_cmd": "for i in 1 2 3 4 5 6; do echo '%s'; done | %s | sort | uniq -c" %
                                       (pipe_req("run", [("m.s", s)]), RVH_DEBUG)}
        # (2) no duplicates
        seen = {}
        for l in runs[0]:
            key = (field(l, "sev"), field(l, "title"), field(l, "at"))
            seen[key] = seen.get(key, 0) + 1
        # two use-after-call items on one use that come from different call sites differ in their
        # related information (the call site), which the channels drop: not duplicates
        sites = {}
        for l in model[j]:
            if l.startswith("LINT ") and " site=" in l:
                # the item may be placed at any of the model's alternative locations (F-14)
                m_ = re.search(r" alts=\[(\S*)\]", l)
                for at_ in [field(l, "at")] + (m_.group(1).split(",") if m_ else []):
                    key = (field(l, "sev"), field(l, "title"), at_)
                    sites.setdefault(key, set()).add(field(l, "site"))
        dups = [k for k, v in seen.items() if v > max(1, len(sites.get(k, ())))]
        if dups and first is None and s not in known_inputs:
            first = {"what": f"the same diagnostic is reported {seen[dups[0]]} times: "
                             f"{unhx(dups[0][1])!r} at {dups[0][2]}", "source": s,
                     "replay_cmd": "echo '%s' | %s" % (pipe_req("run", [("m.s", s)]), RVH_DEBUG)}
    # (3) separate processes, every output mode of the CLI
    os.makedirs(WORK, exist_ok=True)
    sample = srcs[: (8 if tier == "quick" else 60)]
    for j, s in enumerate(sample):
        path = os.path.join(WORK, f"c10_{j}.s")
        with open(path, "w") as f:
            f.write(s)
        strip = lambda blk: [re.sub(r" desc=\S+", "", re.sub(r" alts=\S+", "", l)) for l in blk if l.startswith("RUN ")]
        if strip(model[j]) != strip(model_d[j]):
            continue
        amb = not ambiguous_free(model[j])
        # the graph itself (which return is the exit: known finding F-28) may depend on hash order
        # although the diagnostics do not: the model's two orders tell; such programs are not run in
        # --yaml mode
        gc = run_lines_isolated(DRIVER, [pipe_req("cfg", [("m.s", s)]), pipe_req("cfg", [("m.s", s)]) + " desc"],
                                chunk=4, timeout=60)
        graph_dep = [l for l in gc[0] if l.startswith("CFG")] != [l for l in gc[1] if l.startswith("CFG")]
        for mode in (["--json"], ["--compact", "--no-color"], ["--no-color"], ["--yaml", "--no-output"]):
            if mode[0] == "--yaml" and graph_dep:
                stats["yaml_skipped_exit_choice_F28"] = stats.get("yaml_skipped_exit_choice_F28", 0) + 1
                continue
            outs = set()
            for _ in range(4):
                p = subprocess.run([RVA, "lint"] + mode + [path], stdout=subprocess.PIPE, stderr=subprocess.DEVNULL,
                                   env=ENV, timeout=30)
                stats["runs_separate_processes"] += 1
                text = p.stdout.decode("utf-8", "replace")
                if amb:
                    text = "\n".join(sorted(re.sub(r"\d+", "N", x) for x in text.split("\n")))
                outs.add(hashlib.sha256(text.encode()).hexdigest())
            if len(outs) > 1 and first is None:
                first = {"what": f"`rva lint {' '.join(mode)}` prints {len(outs)} different outputs in 4 runs on "
                                 "the same file", "source": s,
                         "replay_cmd": f"for i in 1 2 3 4; do {RVA} lint {' '.join(mode)} {path} | sha256sum; done"}
    # (4) multi-file inputs: programs cut into include trees (file identifiers are random per run),
    # in one process through the library and in separate processes through the CLI with --all-files;
    # and programs that use several undefined labels (one error, located at one of them)
    from props.c15 import split_tree
    stats["multi_file_inputs"] = 0
    mroot = os.path.join(WORK, "c10_multi")
    multi = []
    for s in [x for x in srcs if ".include" not in x][: (10 if tier == "quick" else 80)]:
        files, _ = split_tree(rng, s.rstrip("\n").split("\n"))
        if len(files) < 2:
            continue
        multi.append([("base.s", "\n".join(files["base.s"]) + "\n")] +
                     [(k_, "\n".join(v_) + "\n") for k_, v_ in files.items() if k_ != "base.s"])
    undef = ["main:\n    j nowhere1\n    beqz a0, nowhere2\n    li a7, 10\n    ecall\n",
             "main:\n    jal zz_fn\n    bnez a0, aa_lab\n    la t0, mm_sym\n    call bb_fn\n    li a7, 10\n    ecall\n",
             "main:\n    beqz a0, L2\n    j L10\n    li a7, 10\n    ecall\n"]
    multi += [[("base.s", u)] for u in undef]
    multi.append([("base.s", '.include "z.s"\n.include "a.s"\nmain:\n    li t0, 1\n    li a7, 10\n    ecall\n'),
                  ("z.s", "fz:\n    li t1, 2\n    ret\n"), ("a.s", "fa:\n    li t2, 3\n    ret\n")])
    # entry labels of one node written at the same position of different files (F-43): the lint that
    # reports at "the label written first" has to choose between equal positions
    for names in (["fn_b", "fn_c"], ["fn_c", "fn_b"], ["ab", "aa", "ac"], ["q_long_name", "q2"]):
        calls = "".join(f"    jal {n}\n" for n in ["fn_a"] + names)
        base = f'main:\n{calls}    addi a7, zero, 10\n    ecall\nfn_a:\n    addi a0, a0, 1\n.include "i0.s"\n'
        fl = [("base.s", base)]
        for k_, n in enumerate(names):
            last = k_ == len(names) - 1
            fl.append((f"i{k_}.s", f"{n}:\n" + ("    addi a0, a0, 2\n    ret\n" if last else f'.include "i{k_ + 1}.s"\n')))
        multi.append(fl)
    mreqs = []
    for fl in multi:
        mreqs += [pipe_req("run", fl)] * reps
    mout = run_lines_isolated(RVH_DEBUG, mreqs, chunk=60)
    mmodel = run_lines_isolated(DRIVER, [pipe_req("lints,run", fl) for fl in multi], chunk=50, timeout=120)
    mmodel_d = run_lines_isolated(DRIVER, [pipe_req("lints,run", fl) + " desc" for fl in multi], chunk=50, timeout=120)
    nrm = lambda blk: [re.sub(r" desc=\S+", "", re.sub(r" alts=\S+", "", l)) for l in blk if l.startswith("RUN ")]
    for j, fl in enumerate(multi):
        stats["multi_file_inputs"] += 1
        stats["runs_in_process"] += reps
        if nrm(mmodel[j]) != nrm(mmodel_d[j]) or not ambiguous_free(mmodel[j]) or \
                any(l.startswith(("HANG", "CRASH")) for l in mmodel[j]):
            continue            # order-dependent by the model (F-14 / F-28): judged on single files above
        runs = [nrm(mout[j * reps + k]) for k in range(reps)]
        for k in range(1, reps):
            if runs[k] != runs[0] and first is None:
                diff = [x for x in runs[0] if x not in runs[k]][:2] + [x for x in runs[k] if x not in runs[0]][:2]
                first = {"what": f"two lint runs of the same {len(fl)} file(s) in one process differ (run 1 vs run "
                                 f"{k + 1}): {diff if diff else 'same items, different order'}", "files": fl,
                         "replay_cmd": "for i in 1 2 3 4 5 6; do echo '%s'; done | %s | sort | uniq -c" %
                                       (pipe_req("run", fl), RVH_DEBUG)}
        if nrm(mmodel[j]) != runs[0] and first is None and len(fl) > 1:
            first = {"what": "order of the diagnostics of a multi-file input differs from the model's (files by "
                             "name, then position)", "files": fl, "impl": runs[0][:6], "model": nrm(mmodel[j])[:6],
                     "no_input": True}
        if j < (6 if tier == "quick" else 40) or len(fl) == 1:
            d = os.path.join(mroot, str(j))
            for name, text in fl:
                os.makedirs(os.path.dirname(os.path.join(d, name)) or d, exist_ok=True)
                with open(os.path.join(d, name), "w") as f:
                    f.write(text)
            for mode in (["--json", "--all-files"], ["--compact", "--no-color", "--all-files"], ["--no-color"]):
                outs = set()
                for _ in range(4):
                    p = subprocess.run([RVA, "lint"] + mode + ["base.s"], cwd=d, stdout=subprocess.PIPE,
                                       stderr=subprocess.DEVNULL, env=ENV, timeout=30)
                    stats["runs_separate_processes"] += 1
                    outs.add(hashlib.sha256(p.stdout).hexdigest())
                if len(outs) > 1 and first is None:
                    first = {"what": f"`rva lint {' '.join(mode)}` prints {len(outs)} different outputs in 4 runs on the "
                                     f"same {len(fl)} file(s)", "files": fl,
                             "replay_cmd": f"cd {d} && for i in 1 2 3 4; do {RVA} lint {' '.join(mode)} base.s | sha256sum; done"}
    res.cov["evaluations"] = stats["runs_in_process"] + stats["runs_separate_processes"]
    res.cov["distinct_nontrivial"] = len(set(srcs))
    res.cov["rule"] = ("generated violating programs and many-diagnostic programs (several diagnostics on one "
                       "token); each linted 6-12 times in one process (fresh hash seeds and UUIDs) and 4 times in "
                       "separate processes per CLI mode; outputs must be identical (items whose location the "
                       "model marks as hash-order dependent, known finding F-14, are compared as sets) and no "
                       "two items may agree in severity, title and location")
    res.cov["samples"] = [srcs[0]]
    res.cov["input_distribution"] = stats
    res.cov["traces_validated_against_impl"] = stats["runs_in_process"]
    if first is not None and first.get("no_input"):
        conclude(res, "C10", None, {"stage": "run (order of files)", "source": str(first["files"])[:2000],
                                    "impl_vs_model": [first["impl"], first["model"]]}, proof_ok,
                 "no run-to-run difference or duplicate found")
    else:
        conclude(res, "C10", first, None, proof_ok, "no run-to-run difference or duplicate found")
