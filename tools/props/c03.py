"""C03 — the control-flow graph matches the program's real control flow."""
import interp
import oracles_exec as ox
from common import proof_stage
from props.graphfacts import conclude, replay, run_graph_property  # noqa: F401
from pipeline import field, parse_loc

THEOREMS = ["Rva.addEdge_symm", "Rva.cutOut_symm", "Rva.cutIn_symm", "Rva.directions_symm", "Rva.deadCode_symm", "Rva.ecallTerm_symm", "Rva.symm_of_no_edges",
            "Rva.rewire_symm", "Rva.markLoop_symm", "Rva.markup_symm", "Rva.directions_rnn", "Rva.available_edges",
            "Rva.liveness_edges", "Rva.buildCfg_noEdges", "Rva.pipeline_symm",
            "Rva.directions_edges", "Rva.markLoop_kinds", "Rva.pipeline_edge_kinds", "Rva.unreachable_only_without_edge"]


def oracle(src, blk, rng):
    ecalls = interp.ecall_table()
    for tag in ("S1", "S2", "S3", "S4", "S5", "CFG"):
        lines = [l for l in blk if l.startswith(tag + " ")]
        if not lines:
            continue
        p = interp.Prog(lines)
        e = ox.check_symmetry(p, f"after stage {tag}")
        if e:
            return e
    cfg = [l for l in blk if l.startswith("CFG ")]
    if not cfg:
        return None
    p = interp.Prog(cfg)
    e = ox.check_edge_kinds(p)
    if e:
        return e
    # the label an instruction names is carried by a node of the graph whenever the source puts
    # instructions after it (otherwise the transfer cannot be an edge, whatever the execution does)
    import re as _re
    src_lines = src.split("\n")
    for n in p.nodes:
        name = n.get("name")
        if n["kind"] in ("JumpLink", "Branch") and name and name != "<return>" and name not in p.label_at:
            for k, sl in enumerate(src_lines):
                if _re.match(r"\s*" + _re.escape(name) + r"\s*:", sl):
                    rest = sl.split(":", 1)[1:] + src_lines[k + 1:]
                    if any(_re.match(r"\s*[A-Za-z][\w.]*\s+[\w(-]|\s*(ret|nop|ecall|uret)\b", r_) and
                           not _re.match(r"\s*\.", r_) and not _re.match(r"\s*\w+\s*:\s*$", r_) for r_ in rest):
                        return (f"node {n['i']} names the label {name!r}, which the source defines in front of "
                                f"instructions, but no node of the graph carries it: the transfer is not an edge")
                    break
    # edges stop at exit ecalls: where the finished facts say a7 is 10 or 93, nothing follows
    facts = ox.Facts(blk)
    for n in p.nodes:
        if n["kind"] == "Basic" and n["inst"] == "Ecall" and n["i"] in facts.n:
            a7 = facts.n[n["i"]]["ri"].get("17", "")
            if a7 in ("c:10", "c:93") and n["nexts"]:
                return (f"ecall at node {n['i']} is an exit (a7 is known to be {a7[2:]} there) but the graph "
                        f"continues from it to {n['nexts']}")
    # nodes reported unreachable
    unreachable = set()
    for l in blk:
        if l.startswith("LINT code=unreachable-code"):
            at = parse_loc(field(l, "at"))
            for n in p.nodes:
                m = parse_loc(n["line"].rsplit(" tok=", 1)[1].split(":", 1)[1])
                if m and (m["sr"], m["er"]) == (at["sr"], at["er"]) and n["kind"] not in ("FuncEntry",):
                    unreachable.add(n["i"])
    for _ in range(3):
        m = interp.Machine(p, rng)
        halt = m.run(ecalls, 1500)
        e = ox.check_exec_edges(p, m, unreachable)
        if e:
            return e + f" (run ended with {halt})"
    return None


def run(res, tier, seed):
    proof_ok = proof_stage(res, "Rva.Proofs.C03d", THEOREMS, extra_modules=["Rva.Proofs.C03", "Rva.Proofs.C03b", "Rva.Proofs.C03c"])
    res.cov["rule"] = ("structured generated programs + corpus (loops at function labels, jal with other link "
                       "registers, multiple returns, handlers); prev/next symmetry after every pass, edge "
                       "kinds, and every control transfer of 3 concrete executions per program checked on the "
                       "real graph; all stages diffed against the Lean model")
    first, corr = run_graph_property(res, tier, seed, "parse,steps,cfg,facts,lints", oracle)
    # programs cut into include trees: control falls through the boundaries of included files exactly
    # as in the pasted text, so the graph of the tree is the graph of the flat file, node for node
    import random
    from common import RVH_DEBUG, run_lines_isolated
    from pipeline import pipe_req
    from props.c15 import split_tree
    from props.graphfacts import gen_programs
    rng = random.Random(seed + 77)
    trees = []
    for s in gen_programs(rng, 25 if tier == "quick" else 400):
        if ".include" in s:
            continue
        files, _ = split_tree(rng, s.rstrip("\n").split("\n"))
        if len(files) >= 2:
            fl = [("base.s", "\n".join(files["base.s"]) + "\n")] + \
                 [(k, "\n".join(v) + "\n") for k, v in files.items() if k != "base.s"]
            trees.append((s, fl))
    out = run_lines_isolated(RVH_DEBUG, [r for s, fl in trees for r in (pipe_req("cfg", [("m.s", s)]), pipe_req("cfg", fl))],
                             chunk=60)
    shape = lambda blk: [(n["kind"], n.get("inst"), sorted(n["nexts"]), sorted(n["prevs"]), sorted(n["funcs"]))
                         for n in interp.Prog([l for l in blk if l.startswith("CFG ")]).nodes if n]
    for j, (s, fl) in enumerate(trees):
        a, b = out[2 * j], out[2 * j + 1]
        if any(l.startswith(("HANG", "CRASH", "CFGERR")) for l in a + b):
            continue
        # which return of a multi-return function becomes the exit is a hash-order choice (F-28): two
        # runs of the same text can differ there, so such programs say nothing about the boundaries
        if any("name=3c72657475726e3e/" in l for l in a + b):
            continue
        sa, sb = shape(a), shape(b)
        if sa != sb and first is None:
            k = next((i for i in range(min(len(sa), len(sb))) if sa[i] != sb[i]), min(len(sa), len(sb)))
            first = {"what": f"the graph of the program cut into {len(fl)} included files differs from the graph of the "
                             f"pasted file at node {k}: {sb[k] if k < len(sb) else None} vs {sa[k] if k < len(sa) else None}",
                     "source": s, "files": fl,
                     "replay_cmd": "echo '%s' | %s" % (pipe_req("cfg", fl), RVH_DEBUG)}
    res.cov["input_distribution"] = dict(res.cov.get("input_distribution") or {}, include_trees=len(trees))
    conclude(res, "C03", first, corr, proof_ok, "no execution step without an edge found")
