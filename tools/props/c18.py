"""C18 — all output channels report the same diagnostics, well-formed and ordered."""
import json
import os
import random
import re
import shutil
import subprocess
import sys
sys.path.insert(0, os.path.join(os.path.dirname(__file__), "..", "gen"))

import asm
import prog
from common import ENV, RVA, RVH_DEBUG, WORK, build_rva, hx, proof_stage, run_lines_isolated, unhx
from pipeline import field, parse_loc, pipe_req
from props.graphfacts import conclude, replay  # noqa: F401
from props.c15 import split_tree

THEOREMS = ["Rva.region_marks_columns", "Rva.sortDiags_sorted", "Rva.lint_titles_nonempty",
            "Rva.lint_severity_functional", "Rva.lint_tables_total", "Rva.excerpt_aligned", "Rva.marker_cells", "Rva.marker_under_reported"]

LEVELS = {"Error", "Warning", "Info", "Hint"}


def rva(args, cwd):
    p = subprocess.run([RVA, "lint"] + args, stdout=subprocess.PIPE, stderr=subprocess.PIPE, env=ENV,
                       timeout=30, cwd=cwd)
    return p.returncode, p.stdout.decode("utf-8", "replace"), p.stderr.decode("utf-8", "replace")


def parse_compact(text):
    items = []
    for l in text.split("\n"):
        m = re.match(r"(Error|Warning|Info|Hint): (.*) in (.*) at (\d+) (\d+):(\d+)$", l)
        if m:
            items.append((m.group(1), m.group(2), m.group(3), int(m.group(4)) - 1, int(m.group(5)) - 1,
                          int(m.group(6)) - 1))
    return items


GUTTER_PROBLEMS = []
REGION_CASES = []     # (source line, line, start col, end col, title, dir): excerpts to re-derive
PRETTY_BLOCKS = {}     # (dir, title, line) -> the three excerpt lines as printed


LAST_BLOCKS = []


def parse_pretty(text):
    """[(level, title, path, line, caret_start, caret_len, shown_text)]"""
    items = []
    blocks = re.split(r"\n(?=(?:Error|Warning|Info|Hint): )", text)
    for b in blocks:
        m = re.match(r"(Error|Warning|Info|Hint): (.*)\n in file: (.*)\n(?:\s*\|\n\s*(\d+) \| (.*)\n\s*\| (.*)\n)?", b)
        if m:
            line = int(m.group(4)) - 1 if m.group(4) else None
            carets = m.group(6) if m.group(6) is not None else ""
            ex3 = None
            if m.group(4):
                # the gutter bars of the three excerpt lines must stand in one column, otherwise the
                # markers are not under the text they are meant for
                ex = b.split("\n")[2:5]
                bars = [x.find("|") for x in ex]
                if len(set(bars)) != 1:
                    GUTTER_PROBLEMS.append((m.group(2), int(m.group(4)), ex))
                ex3 = ex
            items.append((m.group(1), m.group(2), m.group(3), line,
                          carets.find("^") if "^" in carets else None, carets.count("^"), m.group(5), ex3))
    return items


def run(res, tier, seed):
    rng = random.Random(seed)
    proof_ok = proof_stage(res, "Rva.Proofs.C18", THEOREMS,
                           extra_modules=["Rva.Proofs.Tables", "Rva.Proofs.C10"])
    build_rva()
    root = os.path.join(WORK, "c18")
    shutil.rmtree(root, ignore_errors=True)
    n = 20 if tier == "quick" else 1200
    first = None
    stats = {"inputs": 0, "multi_file": 0, "cli_runs": 0, "diagnostics": 0, "with_parse_errors": 0,
             "with_cfg_errors": 0, "pretty_excerpts_checked": 0, "lib_vs_cli": 0}
    title_level = {}
    lib_reqs, lib_meta = [], []
    for j in range(n):
        k = rng.random()
        if j < 4:
            k = 0.9          # the mixed class (parse errors + an error of graph construction) first
        if k < 0.5:
            s, _ = prog.program(rng, sloppy=rng.choice([0.2, 0.4]), multi_ret=False)
        elif k < 0.75:
            s = asm.line_soup(rng, rng.randrange(3, 14)).replace("\r", "")
            # define every label the soup may mention, so that the lints run (several undefined
            # labels would make the location of the one error hash-order dependent: finding F-15)
            used = set(re.findall(r"\b(main|loop|end|f|g|L1|_x|done|data_1)\b", s))
            defined = set(re.findall(r"(?m)^\s*(\w+):", s))
            s += "".join(f"{lb}:\n    nop\n" for lb in sorted(used - defined)) + "    ret\n"
        else:
            s, _ = prog.program(rng, sloppy=0.3, multi_ret=False)
            if "j endif" in s and rng.random() < 0.5:
                s = s.replace("j endif", "j undefined_label", 1)
            elif rng.random() < 0.5:
                s = s + "main:\n"
            else:
                s = s.replace("main:\n", "main:\n    beqz a0, nowhere_defined\n", 1)
            if j % 2 == 0 or rng.random() < 0.5:
                # parse errors and a graph-construction error in the same input: every channel
                # reports both
                ls = s.split("\n")
                if j == 0:
                    ls.insert(1, "    addi t0, t0")          # an error located on the end of the line
                for _ in range(rng.randrange(1, 3)):
                    ls.insert(rng.randrange(1, len(ls)), "    " + rng.choice(
                        ["mul a0, a0", ".bogus 3", "foo a0, a1", "addi a0, a0, 99999999999", "li a0, 1 +"]))
                s = "\n".join(ls)
        if j == 1:
            # one kind of diagnostic on different instruction kinds (a store and loads at and above the entry
            # stack pointer): its severity belongs to the kind, not to the instruction
            s = ("main:\n    li t0, 1\n    sw t0, 4(sp)\n    lw t1, 8(sp)\n    lb t2, 0(sp)\n    add a0, t1, t2\n    jal f\n"
                 "    li a7, 10\n    ecall\nf:\n    addi sp, sp, -8\n    lw t3, 8(sp)\n    sh t3, 12(sp)\n    mv a0, t3\n    addi sp, sp, 8\n    ret\n")
        s = "".join(ch for ch in s if ord(ch) < 128 or ch == "é")
        if j == 5 or (j > 5 and rng.random() < 0.05):
            # indentation the lexer does not take for blank space (no-break space, form feed, vertical tab):
            # reported where it stands, and it has to be in the excerpt above its marker
            ls = s.split("\n")
            q = rng.randrange(1, max(2, len(ls)))
            ls.insert(q, rng.choice(["\u00a0\u00a0", "\x0c  ", " \x0b", "\u00a0"]) + "addi a0, a0, 1")
            s = "\n".join(ls)
            stats["odd_indentation"] = stats.get("odd_indentation", 0) + 1
        if j == 2:
            s = "\ufeff" + s          # a file saved with a byte order mark: every channel sees the same first line
        d = os.path.join(root, str(j))
        os.makedirs(d, exist_ok=True)
        multi = rng.random() < 0.3 and ".include" not in s and j not in (0, 1, 2)
        tie = j == 3 or (j % 40 == 7)
        if tie:
            # two files whose undefined labels are used at the same offsets (positions do not know their
            # file): every channel - each a process of its own - must attribute the one error to the same file
            w = rng.randrange(3, 7)
            nm = lambda: "".join(rng.choice("abcdefghijklmnopqrstuvwxyz") for _ in range(w))
            u1, u2, l2 = nm(), nm(), "".join(rng.choice("abcdefghijklmnopqrstuvwxyz") for _ in range(4))
            ins = rng.choice(["j   {}", "beqz a0, {}", "jal {}", "la t0, {}"])
            files = {"base.s": ["main:", "    " + ins.format(u1), '.include "' + l2 + '.s"'],
                     l2 + ".s": [l2 + ":", "    " + ins.format(u2)]}
            multi = True
            stats["label_tie_inputs"] = stats.get("label_tie_inputs", 0) + 1
        if j in (4, 6) and not tie:
            # diagnostics in the base file and in an included file whose name sorts before (j = 4) or after
            # (j = 6) the base file's: what is shown without --all-files is the base file's items wherever
            # they stand in the name-sorted list (seed C18-f took the head of the list)
            inc = "a_lib.s" if j == 4 else "zz.s"
            files = {"base.s": ["main:", "    li t0, 1", f'.include "{inc}"', "    li t2, 3", "    li a7, 10", "    ecall"],
                     inc: ["    li t1, 2", "    addi x0, t1, 1"]}
            multi = tie = True
            stats["fixed_two_file_inputs"] = stats.get("fixed_two_file_inputs", 0) + 1
        if multi and not tie:
            files, mapping = split_tree(rng, s.rstrip("\n").split("\n"))
        if multi:
            for name, lines in files.items():
                with open(os.path.join(d, name), "w") as f:
                    f.write("\n".join(lines) + "\n")
            stats["multi_file"] += 1
        else:
            if (rng.random() < 0.25 or j == 0) and '"' not in s:
                s = s.replace("\n", "\r\n")          # a file saved with CRLF line endings
                stats["crlf_files"] = stats.get("crlf_files", 0) + 1
            with open(os.path.join(d, "base.s"), "w", newline="") as f:
                f.write(s)
        # inputs whose diagnostics depend on hash order (known findings F-14/F-15/F-28, judged by
        # C10) cannot be compared across separate processes: the model tells which they are
        from common import DRIVER
        fl = ([("base.s", "\n".join(files["base.s"]) + "\n")] +
              [(k_, "\n".join(v_) + "\n") for k_, v_ in files.items() if k_ != "base.s"]) if multi else [("base.s", s)]
        ma = run_lines_isolated(DRIVER, [pipe_req("lints,run", fl), pipe_req("lints,run", fl) + " desc"], timeout=60)
        nrm = lambda b: [re.sub(r" (desc|alts)=\S+", "", l) for l in b if l.startswith("RUN ")]
        if any(" alts=[" in l for l in ma[0]) or nrm(ma[0]) != nrm(ma[1]) or \
                any(l.startswith(("HANG", "CRASH")) for l in ma[0]):
            stats["skipped_order_dependent"] = stats.get("skipped_order_dependent", 0) + 1
            continue
        stats["inputs"] += 1
        for allf in ([], ["--all-files"]):
            rc, js, err = rva(["--json"] + allf + ["base.s"], d)
            stats["cli_runs"] += 1
            if "panicked" in err:
                first = first or {"what": "rva --json panics: " + err.strip().split("\n")[0][:200], "dir": d}
                continue
            try:
                doc = json.loads(js)
                items = doc["diagnostics"]
                for x in items:
                    assert set(x) >= {"file", "title", "description", "level", "range"}
                    assert set(x["range"]) == {"start", "end"} and set(x["range"]["start"]) == {"line", "column", "raw"}
            except Exception as e:  # noqa
                first = first or {"what": f"--json output is not valid JSON of the documented shape: {e}", "dir": d,
                                  "stdout": js[:500]}
                continue
            base_real = os.path.realpath(os.path.join(d, "base.s"))
            # --json prints everything; the other modes filter by --all-files
            sel = [x for x in items if allf or os.path.realpath(x["file"] or "") == base_real or not x["file"]]
            want = [(x["level"], x["title"], os.path.realpath(x["file"]) if x["file"] else "<unknown file>",
                     x["range"]["start"]["line"], x["range"]["start"]["column"], x["range"]["end"]["column"])
                    for x in sel]
            stats["diagnostics"] += len(items)
            if any(x["title"].startswith("Expected") or "token" in x["title"] for x in items):
                stats["with_parse_errors"] += 1
            if any(x["title"].startswith(("Labels not", "Duplicate")) for x in items):
                stats["with_cfg_errors"] += 1
            for x in items:
                if not x["title"].strip():
                    first = first or {"what": "a diagnostic with an empty title", "dir": d}
                if x["level"] not in LEVELS:
                    first = first or {"what": f"unknown severity {x['level']!r}", "dir": d}
                kind = re.sub(r"[:(].*", "", x["title"])     # message family
                if title_level.setdefault(kind, x["level"]) != x["level"]:
                    first = first or {"what": f"severity of {kind!r} is not fixed: {title_level[kind]} and {x['level']}", "dir": d}
            # sorted by position within each file
            last = {}
            for x in items:
                key = (x["range"]["start"]["raw"], x["range"]["end"]["raw"])
                if x["file"] in last and key < last[x["file"]]:
                    first = first or {"what": "diagnostics are not sorted by position within a file", "dir": d}
                last[x["file"]] = key
            rc, ct, err = rva(["--compact", "--no-color"] + allf + ["base.s"], d)
            stats["cli_runs"] += 1
            got = [(l, t, os.path.realpath(os.path.join(d, p)) if p != "<unknown file>" else p, ln, a, b)
                   for l, t, p, ln, a, b in parse_compact(ct)]
            # the channels list the same items in the same order (files by name, then position; the
            # order across files was random before the repair b7b7d40)
            def per_file(seq):
                d_ = {}
                for it in seq:
                    d_.setdefault(it[2], []).append(it)
                return d_
            if got != want and first is None:
                first = {"what": f"--compact and --json disagree ({' '.join(allf) or 'base file only'}): "
                                 f"{[x for x in want if x not in got][:2]} vs {[x for x in got if x not in want][:2]}",
                         "dir": d}
            rc, pt, err = rva(["--no-color"] + allf + ["base.s"], d)
            stats["cli_runs"] += 1
            if "panicked" in err:
                first = first or {"what": "pretty printer panics: " + err.strip().split("\n")[0][:200], "dir": d}
                continue
            # (the marker lines only: the excerpt line above them shows the source text as it is written)
            bad_ctl = sorted(set(ch for ln_ in pt.split("\n") if re.match(r" +\| ", ln_) and "^" in ln_
                                 for ch in ln_ if ord(ch) < 32 and ch != "\t"))
            if bad_ctl and first is None:
                first = {"what": f"the pretty output contains the control character(s) {bad_ctl!r} (copied from the source line "
                                 "into the marker line: the terminal draws the marker somewhere else)", "dir": d,
                         "replay_cmd": f"cd {d} && {RVA} lint --no-color {' '.join(allf)} base.s | od -c | grep -n '\\\\r'"}
            pp = parse_pretty(pt)
            gotp = [(l, t, os.path.realpath(os.path.join(d, p)) if p != "<unknown file>" else p) for l, t, p, *_ in pp]
            wantp = [(a, b, c) for a, b, c, *_ in want]
            if gotp != wantp and first is None:
                first = {"what": f"pretty output and --json disagree ({' '.join(allf) or 'base file only'}): "
                                 f"{len(gotp)} vs {len(want)} items", "dir": d}
            else:
                # pair the pretty items with the JSON items file by file
                pf_p, pf_w = {}, {}
                for it in pp:
                    pf_p.setdefault(os.path.realpath(os.path.join(d, it[2])) if it[2] != "<unknown file>" else it[2], []).append(it)
                for it in want:
                    pf_w.setdefault(it[2], []).append(it)
                if GUTTER_PROBLEMS and first is None:
                    t_, ln_, ex_ = GUTTER_PROBLEMS[0]
                    first = {"what": f"pretty excerpt of {t_!r} at line {ln_}: the gutter bars of the excerpt lines "
                                     f"are not in one column, the markers are shifted against the text: {ex_}",
                             "dir": d}
                pairs = [(a, b) for k_ in pf_w for a, b in zip(pf_p.get(k_, []), pf_w[k_])]
                for (lvl, title, path, line, cstart, clen, shown, ex3), w in pairs:
                    if line is None or w[2] == "<unknown file>":
                        continue
                    src = open(w[2], encoding="utf-8").read().split("\n")
                    if w[3] >= len(src):
                        continue
                    text = src[w[3]]
                    stats["pretty_excerpts_checked"] += 1
                    # the shown line is the source line (ends cut), and the cells that carry a marker are
                    # the reported characters - whatever was cut from the left (an oracle that re-derived the
                    # cut the way the printer does it agreed with a printer that cut the reported character)
                    tail = text[w[4]:].rstrip()
                    ok = (line == w[3] and shown.strip() == text.strip() and clen == w[5] + 1 - w[4]
                          and shown[cstart:].rstrip() == tail)
                    REGION_CASES.append((text, w[3], w[4], w[5], title, d, ex3))
                    if not ok and first is None:
                        first = {"what": f"excerpt of {title!r}: shows line {line} {shown!r} with {clen} markers from "
                                         f"column {cstart}; reported is line {w[3]} columns {w[4]}..{w[5]} of {text!r}",
                                 "dir": d}
        if not multi:
            lib_reqs.append(pipe_req("run", [("base.s", s)]))
            rc, js, err = rva(["--json", "base.s"], d)
            lib_meta.append((d, js))
    # the excerpt as the Lean model of `format_region` prints it (theorems region_marks_columns and
    # excerpt_aligned are about that model) against the excerpt the real printer printed
    from common import DRIVER, hx
    rq = [f"region {hx(t)} {ln} {a} {b}" for t, ln, a, b, _, _, _ in REGION_CASES]
    mo = run_lines_isolated(DRIVER, rq, chunk=200, timeout=120) if rq else []
    stats["excerpts_vs_model"] = len(rq)
    for (t, ln, a, b, title, d_, ex3), blk in zip(REGION_CASES, mo):
        want3 = [unhx(l.split()[1]) if len(l.split()) > 1 else "" for l in blk if l.startswith("REGION")]
        if ex3 is not None and [x.rstrip() for x in want3] != [x.rstrip() for x in ex3] and first is None:
            first = {"what": f"the excerpt printed for {title!r} (line {ln}, columns {a}..{b}) differs from the "
                             f"model of format_region: printed {ex3}, model {want3}", "dir": d_}
    # the library entry point used by the editor integration vs the CLI
    out = run_lines_isolated(RVH_DEBUG, lib_reqs, chunk=50)
    for (d, js), blk in zip(lib_meta, out):
        stats["lib_vs_cli"] += 1
        try:
            items = json.loads(js)["diagnostics"]
        except Exception:
            continue
        cli = [(x["level"], x["title"], x["range"]["start"]["line"], x["range"]["start"]["column"],
                x["range"]["end"]["column"]) for x in items]
        lib = []
        for l in blk:
            if l.startswith("RUN "):
                at = parse_loc(field(l, "at"))
                lib.append((field(l, "sev").replace("Information", "Info"), unhx(field(l, "title")), at["sl"],
                            at["sc"], at["ec"]))
        # the reader's own wording of an IO failure is not part of the comparison
        io = lambda seq: [(a, re.sub(r"^(IO Error: \S+).*", r"\1", b), c, d_, e) for a, b, c, d_, e in seq]
        cli, lib = io(cli), io(lib)
        if sorted(cli) != sorted(lib) and first is None:
            first = {"what": "RVParser::run (library) and `rva lint --json` report different diagnostics: "
                             f"{[x for x in cli if x not in lib][:2]} vs {[x for x in lib if x not in cli][:2]} "
                             f"({len(cli)} vs {len(lib)} items)", "dir": d}
    res.cov["evaluations"] = stats["cli_runs"] + stats["lib_vs_cli"]
    res.cov["distinct_nontrivial"] = stats["inputs"]
    res.cov["rule"] = ("generated programs with lints, statement soups with parse errors, programs with undefined / "
                       "duplicate labels, single- and multi-file; the real `rva lint` in --json / --compact / pretty, "
                       "with and without --all-files, and the library call RVParser::run must report the same "
                       "(severity, title, file, line, columns) in the same order; JSON validity and shape; titles "
                       "non-empty; one severity per kind; sorted within each file; each pretty excerpt shows the "
                       "reported line with markers under the reported columns; every printed excerpt equals the Lean model of "
                       "format_region character for character")
    res.cov["samples"] = [lib_reqs[0][:200]] if lib_reqs else []
    res.cov["input_distribution"] = stats
    res.cov["traces_validated_against_impl"] = stats["cli_runs"]
    conclude(res, "C18", first, None, proof_ok, "no disagreement between output channels found")
