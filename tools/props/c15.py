"""C15 — .include behaves as textual inclusion with per-file locations."""
import json
import os
import random
import re
import shutil
import subprocess
import sys
sys.path.insert(0, os.path.join(os.path.dirname(__file__), "..", "gen"))

import prog
from common import ENV, RVA, RVH_DEBUG, WORK, build_rva, hx, proof_stage, run_lines_isolated, unhx
from pipeline import correspondence, field, parse_loc, pipe_req
from props.graphfacts import conclude, replay  # noqa: F401

THEOREMS = ["Rva.include_fault_one_error", "Rva.include_enters_file", "Rva.import_twice_refused", "Rva.toParseErr_located",
            "Rva.parseInst_lg", "Rva.parseDirective_lg", "Rva.parseStep_local",
            "Rva.recover_append", "Rva.include_end_pops", "Rva.include_step_commutes", "Rva.include_step_commutes_next",
            "Rva.nextTop_shorter", "Rva.include_is_paste", "Rva.sepAll_label_line"]


NO_FINAL_NL = set()


def split_tree(rng, lines, depth=0, counter=None):
    """Cut a list of lines into an include tree. Returns (files dict name->lines, root name,
    map (file, line) -> original line index)."""
    counter = counter if counter is not None else [0]
    files, mapping = {}, {}
    taken = {"base.s"}

    def build(chunk_idx, name, depth):
        out = []
        i = 0
        while i < len(chunk_idx):
            if depth < 3 and len(chunk_idx) - i >= 2 and rng.random() < (0.25 if depth else 0.35):
                n = rng.randrange(1, min(8, len(chunk_idx) - i) + 1)
                counter[0] += 1
                # names that sort before and after "base.s", and names that are a character suffix
                # of the including file's name (`stdlib.s` including `lib.s`)
                child = rng.choice(["inc", "inc", "a_inc", "Zinc", "zz"]) + f"{counter[0]}.s"
                if rng.random() < 0.3:
                    cands = [name[j:] for j in range(1, len(name) - 2)
                             if name[j:] not in files and name[j:] not in taken and name[j].isalnum()]
                    if cands:
                        child = rng.choice(cands)
                taken.add(child)
                build(chunk_idx[i:i + n], child, depth + 1)
                out.append((f'.include "{child}"', None))
                i += n
            else:
                out.append((lines[chunk_idx[i]], chunk_idx[i]))
                i += 1
        files[name] = [t for t, _ in out]
        for ln, (_, orig) in enumerate(out):
            if orig is not None:
                mapping[(name, ln)] = orig
    build(list(range(len(lines))), "base.s", 0)
    return files, mapping


def diag_keys(blk, order, mapping=None):
    """multiset of (title, severity, original line, start col, end col)"""
    out = []
    for l in blk:
        if not l.startswith("RUN "):
            continue
        at = parse_loc(field(l, "at"))
        if at["file"] == "nil":
            out.append((unhx(field(l, "title")), field(l, "sev"), "nil", 0, 0))
            continue
        name = order[int(at["file"])]
        line = at["sl"]
        if mapping is not None:
            if (name, line) not in mapping:
                out.append((unhx(field(l, "title")), field(l, "sev"), f"{name}:{line}?", at["sc"], at["ec"]))
                continue
            line = mapping[(name, line)]
        out.append((unhx(field(l, "title")), field(l, "sev"), line, at["sc"], at["ec"]))
    return sorted(out, key=lambda k: (k[0], k[1], str(k[2]), k[3], k[4]))


def import_order(files, base="base.s"):
    """file index = order of (first) import: depth-first in text order"""
    order = []

    def walk(name):
        if name in order or name not in files:
            return
        order.append(name)
        for l in files[name]:
            m = re.match(r'\s*\.include\s+"([^"]+)"', l)
            if m:
                walk(m.group(1))
    walk(base)
    return order


def run(res, tier, seed):
    rng = random.Random(seed)
    proof_ok = proof_stage(res, "Rva.Proofs.C15", THEOREMS, extra_modules=["Rva.Proofs.C15b"])
    build_rva()
    n = 50 if tier == "quick" else 3000
    cases = []
    for _ in range(n):
        s, _ = prog.program(rng, sloppy=rng.choice([0, 0.2, 0.4]), multi_ret=False)
        lines = s.rstrip("\n").split("\n")
        files, mapping = split_tree(rng, lines)
        if len(files) < 2:
            continue
        cases.append((s, files, mapping))
    # included files that end without a newline in a statement that needs one token of look-ahead
    # (or is cut short): textual inclusion must treat the end of an included file like an end of line
    for tail in ["jalr t1", "jalr ra, 0", "lw a0, 4", "sw a0, 4", "addi a0, a0", "jr t1", "add a0, a0, a1",
                 ".word 1, 2", "beqz a0"]:
        pre = ["main:", "    la t1, helper", "    li a0, 1", "    li a1, 2"]
        inc = ["    mv t2, a0", "    " + tail]
        post = ["    mv a2, a0", "    li a7, 10", "    ecall", "helper:", "    addi a0, a0, 1", "    ret"]
        flat_lines = pre + inc + post
        files = {"base.s": pre + ['.include "inc9.s"'] + post, "inc9.s": inc}
        mapping = {("base.s", k): k for k in range(len(pre))}
        mapping.update({("inc9.s", k): len(pre) + k for k in range(len(inc))})
        mapping.update({("base.s", len(pre) + 1 + k): len(pre) + len(inc) + k for k in range(len(post))})
        cases.append(("\n".join(flat_lines) + "\n", files, mapping))
        NO_FINAL_NL.add(id(files))
    # deep include chains: every file includes the next, the last one defines the function the base
    # file calls; one line of code per level, so that every level has a diagnostic of its own
    for depth in ((18, 40) if tier == "quick" else (18, 40, 120)):
        files, mapping, flat_lines = {}, {}, []
        pre = ["main:", "    li a0, 1", "    jal leaf", "    li a7, 10", "    ecall"]
        for k, l in enumerate(pre):
            mapping[("base.s", k)] = len(flat_lines); flat_lines.append(l)
        files["base.s"] = pre + ['.include "l01.s"']
        for lv in range(1, depth + 1):
            name = f"l{lv:02d}.s"
            own = [f"    li t{lv % 7}, {lv}"] if lv < depth else ["leaf:", "    addi a0, a0, 1", "    ret"]
            for k, l in enumerate(own):
                mapping[(name, k)] = len(flat_lines); flat_lines.append(l)
            files[name] = own + ([f'.include "l{lv + 1:02d}.s"'] if lv < depth else [])
        cases.append(("\n".join(flat_lines) + "\n", files, mapping))
    # a diagnostic that involves two places (a function entered by a plain jump: reported at the function, because
    # of the jump) with the two places in different files, in both directions
    for k in range(4):
        fn = ["fn_t:", "    addi a0, a0, 1", "    ret"]
        mainp = ["main:", "    li a0, 1", "    jal fn_t", "    beqz a0, skip", "    j fn_t", "skip:", "    li a7, 10", "    ecall"]
        flat = mainp + fn
        if k % 2 == 0:
            files = {"base.s": mainp + ['.include "lib_t.s"'], "lib_t.s": fn}
            mapping = {("base.s", i): i for i in range(len(mainp))}
            mapping.update({("lib_t.s", i): len(mainp) + i for i in range(len(fn))})
        else:
            files = {"base.s": mainp[:4] + ['.include "jmp_t.s"'] + mainp[5:] + fn, "jmp_t.s": [mainp[4]]}
            mapping = {("base.s", i): (i if i < 4 else i) for i in range(len(flat))}
            mapping[("jmp_t.s", 0)] = 4
        cases.append(("\n".join(flat) + "\n", files, mapping))
    inputs = []
    for s, files, mapping in cases:
        order = import_order(files)
        fl = [("base.s", "\n".join(files["base.s"]) + "\n")] + \
             [(k, "\n".join(v) + ("" if id(files) in NO_FINAL_NL else "\n" if rng.random() < 0.7 else ""))
              for k, v in files.items() if k != "base.s"]
        inputs.append([("flat.s", s)])
        inputs.append(fl)
    impl, models, bad = correspondence("parse,run", inputs)
    first = None
    stats = {"programs": len(cases), "files": 0, "max_depth_files": 0, "diagnostics_in_included_files": 0,
             "fault_cases": 0, "cli_cases": 0}
    # locations the real code picks by hash-table order (F-14, F-28) are not functions of the
    # program; the model lists the alternatives for the pasted file. Such items are left out on
    # both sides (by title and original line).
    def ambiguous_of(j):
        amb = set()
        for ml in models[0][2 * j] + models[1][2 * j]:
            m = re.search(r" alts=\[(\S*)\]", ml)
            if ml.startswith("RUN ") and m:
                for alt in m.group(1).split(","):
                    loc = parse_loc(alt)
                    if loc:
                        amb.add((unhx(field(ml, "title")), loc["sl"]))
        return amb
    for j, (s, files, mapping) in enumerate(cases):
        flat, split = impl[2 * j], impl[2 * j + 1]
        order = import_order(files)
        stats["files"] += len(files)
        stats["max_depth_files"] = max(stats["max_depth_files"], len(files))
        amb = ambiguous_of(j)
        ka = [k for k in diag_keys(flat, ["flat.s"]) if (k[0], k[2]) not in amb]
        kb = [k for k in diag_keys(split, order, mapping) if (k[0], k[2]) not in amb]
        if amb:
            stats["order_dependent_locations_left_out"] = stats.get("order_dependent_locations_left_out", 0) + 1
        stats["diagnostics_in_included_files"] += sum(
            1 for l in split if l.startswith("RUN ") and not field(l, "at").endswith("@0"))
        if ka != kb and first is None:
            first = {"what": "the program split into included files is analysed differently from the pasted "
                             f"single file: only flat {[x for x in ka if x not in kb][:3]}, only split "
                             f"{[x for x in kb if x not in ka][:3]}", "files": inputs[2 * j + 1], "flat": s,
                     "replay_cmd": "echo '%s' | %s" % (pipe_req("run", inputs[2 * j + 1]), RVH_DEBUG)}
    # ---- faults: missing / unreadable / self / cyclic / twice
    fault_inputs = []
    body = "main:\n    li a0, 1\n{INC}\n    addi t0, a0, 1\n    li a7, 93\n    ecall\n"
    faults = [
        ("missing", [("base.s", body.replace("{INC}", '.include "nope.s"'))], "IO Error", 2),
        ("unreadable", [("base.s", body.replace("{INC}", '.include "!io_denied.s"'))], "IO Error", 2),
        ("self", [("base.s", body.replace("{INC}", '.include "base.s"'))], "Cyclic dependency", 2),
        ("cycle", [("base.s", body.replace("{INC}", '.include "a.s"')), ("a.s", '    nop\n.include "base.s"\n')],
         "Cyclic dependency", 1),
        ("twice", [("base.s", body.replace("{INC}", '.include "a.s"\n.include "a.s"')), ("a.s", "    nop\n")],
         "Cyclic dependency", 3),
    ]
    for name, fl, title, line in faults:
        fault_inputs.append(fl)
    fout = run_lines_isolated(RVH_DEBUG, [pipe_req("run", fl) for fl in fault_inputs], chunk=20)
    for (name, fl, title, line), blk in zip(faults, fout):
        stats["fault_cases"] += 1
        runs = [l for l in blk if l.startswith("RUN ")]
        errs = [l for l in runs if unhx(field(l, "title")).startswith(title)]
        e = None
        if blk and blk[0].startswith(("HANG", "CRASH")):
            e = f"{blk[0]} on include fault '{name}'"
        elif len(errs) != 1:
            e = f"include fault '{name}': expected exactly one '{title}' error, got {[unhx(field(l, 'title')) for l in runs]}"
        else:
            at = parse_loc(field(errs[0], "at"))
            src = dict(fl)[["base.s", "a.s"][int(at["file"])] if at["file"] != "nil" else "base.s"]
            txt = src.split("\n")[at["sl"]][at["sc"]:at["ec"] + 1] if at["file"] != "nil" else ""
            if ".s" not in txt:
                e = f"include fault '{name}': the error is located on {txt!r}, not on the directive's path"
            # everything else is still analysed: the dead 'addi' after the include is reported
            if not any(unhx(field(l, "title")) == "Unused value" for l in runs):
                e = e or f"include fault '{name}': the rest of the file is not analysed ({len(runs)} items)"
        if e and first is None:
            first = {"what": e, "files": fl, "replay_cmd": "echo '%s' | %s" % (pipe_req("run", fl), RVH_DEBUG)}
    # ---- the in-memory reader of the editor integration (riscv_analysis_lsp's LSPFileReader, reached through
    #      the guarded hook): the same faults, and the split programs give what the harness reader gives
    def lsp_req(fl):
        return "lsp %d %s" % (len(fl), " ".join(hx(n) + " " + hx(t) for n, t in fl))
    lfaults = [f for f in faults if f[0] != "unreadable"] + [
        ("cycle3", [("base.s", body.replace("{INC}", '.include "a.s"')), ("a.s", '    nop\n.include "b.s"\n'),
                    ("b.s", '    nop\n.include "a.s"\n')], "Cyclic dependency", 1),
        ("self-below", [("base.s", body.replace("{INC}", '.include "a.s"')), ("a.s", '    nop\n.include "a.s"\n')],
         "Cyclic dependency", 1),
        ("missing-badpath", [("base.s", body.replace("{INC}", '.include "http://["'))], "", 2),
        ("missing-badpath2", [("base.s", body.replace("{INC}", '.include "a b\\\\c:%zz.s"'))], "", 2)]
    lout = run_lines_isolated(RVH_DEBUG, [lsp_req(fl) for _, fl, _, _ in lfaults], chunk=1, timeout=10)
    stats["lsp_reader_cases"] = 0
    for (name, fl, title, line), blk in zip(lfaults, lout):
        stats["lsp_reader_cases"] += 1
        runs = [l for l in blk if l.startswith("LSP ")]
        e = None
        if blk and blk[0].startswith(("HANG", "CRASH", "PANIC")):
            e = f"{blk[0][:60]} with the editor integration's reader on include fault '{name}'"
        else:
            want = title if not name.startswith("missing") else ""
            errs = [l for l in runs if field(l, "sev") == "Error" and unhx(field(l, "title")).startswith(want)
                    and ".include" in (dict(fl).get(unhx(field(l, "file")), "").split("\n") + [""] * 99)[int(field(l, "at").split(":")[0])]]
            if len(errs) != 1:
                e = (f"editor integration's reader, include fault '{name}': expected exactly one "
                     f"{title if want else 'error'!r} on the directive, got {[unhx(field(l, 'title')) for l in runs]}")
            elif not any(unhx(field(l, "title")) == "Unused value" for l in runs):
                e = f"editor integration's reader, include fault '{name}': the rest of the file is not analysed"
        if e and first is None:
            first = {"what": e, "files": fl, "replay_cmd": "echo '%s' | %s" % (lsp_req(fl), RVH_DEBUG)}
    trees = [inputs[2 * j + 1] for j in range(min(len(cases), 12 if tier == "quick" else 150))
             if all("/" not in n for n, _ in inputs[2 * j + 1])]
    tl = run_lines_isolated(RVH_DEBUG, [r for fl in trees for r in (lsp_req(fl), pipe_req("run", fl))], chunk=40)
    for j, fl in enumerate(trees):
        a, b = tl[2 * j], tl[2 * j + 1]
        if any(l.startswith(("HANG", "CRASH", "PANIC")) for l in a + b):
            continue
        stats["lsp_reader_cases"] += 1
        ka = sorted((field(l, "sev"), field(l, "title"), field(l, "at")) for l in a if l.startswith("LSP "))
        kb = sorted((field(l, "sev"), field(l, "title"), field(l, "at").split("@")[0]) for l in b if l.startswith("RUN "))
        if ka != kb and first is None and not any("756e6b6e6f776e20737461636b" in (x[1] or "").lower() for x in ka + kb):
            first = {"what": "the include tree gives different diagnostics with the editor integration's in-memory reader: "
                             f"only there {[x for x in ka if x not in kb][:3]}, only with the harness reader "
                             f"{[x for x in kb if x not in ka][:3]}", "files": fl,
                     "replay_cmd": "echo '%s' | %s" % (lsp_req(fl), RVH_DEBUG)}
    # ---- the CLI's file-system reader on real directories
    root = os.path.join(WORK, "c15")
    shutil.rmtree(root, ignore_errors=True)
    for j, (s, files, mapping) in enumerate(cases[: (6 if tier == "quick" else 60)]):
        d = os.path.join(root, str(j))
        os.makedirs(os.path.join(d, "sub"), exist_ok=True)
        # put included files in a subdirectory to exercise relative resolution
        ren = {k: ("sub/" + k if k != "base.s" else k) for k in files}
        for k, v in files.items():
            text = "\n".join(v) + "\n"
            if k == "base.s":
                text = re.sub(r'\.include "([^"/]+\.s)"', r'.include "sub/\1"', text)
            with open(os.path.join(d, ren[k]), "w") as f:
                f.write(text)
        with open(os.path.join(d, "flat.s"), "w") as f:
            f.write(s)
        stats["cli_cases"] += 1

        def lint(path, *flags):
            p = subprocess.run([RVA, "lint", "--json"] + list(flags) + [path], stdout=subprocess.PIPE,
                               stderr=subprocess.DEVNULL, env=ENV, timeout=30, cwd=d)
            try:
                return json.loads(p.stdout.decode())["diagnostics"]
            except Exception:
                return None
        a = lint("flat.s")
        b = lint("base.s")
        if a is None or b is None:
            first = first or {"what": "rva lint --json printed no JSON", "dir": d}
            continue
        inv = {os.path.realpath(os.path.join(d, v)): k for k, v in ren.items()}
        ka = sorted((x["title"], x["level"], x["range"]["start"]["line"], x["range"]["start"]["column"]) for x in a)
        kb = []
        for x in b:
            name = inv.get(os.path.realpath(x["file"] or ""), "?")
            kb.append((x["title"], x["level"], mapping.get((name, x["range"]["start"]["line"]), "?"),
                       x["range"]["start"]["column"]))
        if ka != sorted(kb, key=str) and sorted(ka, key=str) != sorted(kb, key=str) and first is None:
            first = {"what": "CLI: split program and pasted file get different diagnostics: "
                             f"{[x for x in ka if x not in kb][:3]} vs {[x for x in kb if x not in ka][:3]}", "dir": d}
        # default output counts what lies outside the base file
        p = subprocess.run([RVA, "lint", "--compact", "--no-color", "base.s"], stdout=subprocess.PIPE,
                           stderr=subprocess.DEVNULL, env=ENV, timeout=30, cwd=d)
        text = p.stdout.decode()
        outside = sum(1 for x in b if os.path.realpath(x["file"] or "") != os.path.realpath(os.path.join(d, "base.s")))
        m = re.search(r"(\d+) diagnostics? found in other files", text)
        said = int(m.group(1)) if m else 0
        shown = sum(1 for l in text.split("\n") if re.match(r"(Error|Warning|Info|Hint):", l))
        if (said != outside or shown != len(b) - outside) and first is None:
            first = {"what": f"CLI default output shows {shown} and counts {said} diagnostics in other files; the "
                             f"JSON output has {len(b) - outside} in the base file and {outside} outside", "dir": d}
    # ---- the CLI reader and faults: self, cycles through '..', the same file under two spellings
    cli_faults = [
        ("self", {"base.s": 'main:\n.include "base.s"\n    li a7, 10\n    ecall\n'}, 1),
        ("cycle-dotdot", {"base.s": 'main:\n.include "sub/a.s"\n    li a7, 10\n    ecall\n',
                          "sub/a.s": '    nop\n.include "../base.s"\n'}, 1),
        ("cycle-long", {"src/base.s": 'main:\n.include "../lib/util.s"\n    li a7, 10\n    ecall\n',
                        "lib/util.s": '    nop\n.include "helpers.s"\n',
                        "lib/helpers.s": '    nop\n.include "util.s"\n'}, 1),
        ("twice-two-spellings", {"base.s": 'main:\n.include "sub/c.s"\n.include "sub/../sub/c.s"\n    li a7, 10\n    ecall\n',
                                 "sub/c.s": "    nop\n"}, 1),
        ("twice-via-dotdot", {"src/base.s": 'main:\n.include "../lib/c.s"\n.include "twice.s"\n    li a7, 10\n    ecall\n',
                              "src/twice.s": '.include "../lib/c.s"\n', "lib/c.s": "lbl: nop\n"}, 1),
        ("missing", {"base.s": 'main:\n.include "gone.s"\n    li a7, 10\n    ecall\n'}, 0),
    ]
    for name, fl, cyc in cli_faults:
        d = os.path.join(root, "fault_" + name)
        for k, v in fl.items():
            os.makedirs(os.path.dirname(os.path.join(d, k)), exist_ok=True)
            with open(os.path.join(d, k), "w") as f:
                f.write(v)
        basef = [k for k in fl if k.endswith("base.s")][0]
        stats["fault_cases"] += 1
        try:
            p = subprocess.run([RVA, "lint", "--json", "--all-files", basef], stdout=subprocess.PIPE,
                               stderr=subprocess.DEVNULL, env=ENV, timeout=10, cwd=d)
            diags = json.loads(p.stdout.decode())["diagnostics"]
        except subprocess.TimeoutExpired:
            first = first or {"what": f"CLI: include fault '{name}': rva does not terminate (10 s)", "dir": d}
            continue
        except Exception:
            first = first or {"what": f"CLI: include fault '{name}': no JSON output", "dir": d}
            continue
        titles = [x["title"] for x in diags]
        ncyc = sum(1 for t in titles if t.startswith("Cyclic dependency"))
        nio = sum(1 for t in titles if t.startswith("IO Error"))
        if cyc and (ncyc != 1 or any(t.startswith("Duplicate label") for t in titles)) and first is None:
            first = {"what": f"CLI: include fault '{name}': expected exactly one 'Cyclic dependency' error on the "
                             f"directive, got {titles}", "dir": d}
        if not cyc and nio != 1 and first is None:
            first = {"what": f"CLI: missing include: expected one 'IO Error', got {titles}", "dir": d}
    corr = None
    if bad:
        i, fam, d = bad[0]
        corr = {"stage": fam, "files": inputs[i], "impl_vs_model": d}
    res.cov["evaluations"] = len(inputs) + len(fault_inputs) + stats["cli_cases"] * 3
    res.cov["distinct_nontrivial"] = len(cases)
    res.cov["rule"] = ("generated programs cut at line boundaries into random include trees (depth <= 3, several "
                       "includes per file, with/without final newline); in-memory reader: diagnostics of the split "
                       "program mapped back through the cut must equal those of the pasted file; five reader "
                       "faults (missing, unreadable, self, cycle, included twice) must give exactly one error on "
                       "the directive's path and leave the rest analysed; CLI reader on real directories "
                       "(includes in a subdirectory): same comparison, and the 'found in other files' count")
    res.cov["samples"] = [inputs[1]] if inputs else []
    res.cov["input_distribution"] = stats
    res.cov["traces_validated_against_impl"] = len(inputs)
    conclude(res, "C15", first, corr, proof_ok, "no include tree analysed differently from its flattening found")
