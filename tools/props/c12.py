"""C12 — analysis results are a stable fixed point of the pass pipeline."""
import re
import random
import oracles_exec as ox
from common import proof_stage
from props.graphfacts import conclude, replay, run_graph_property  # noqa: F401

THEOREMS = ["Rva.ecallStep_idem", "Rva.ecallStep_facts", "Rva.cutOut_facts", "Rva.cutOut_idem", "Rva.liveNode_stable", "Rva.ecallTerm_symm"]


def make_oracle(extra):
    def oracle(src, blk, rng):
        f0 = [re.sub(r" ud=\S+", "", l[1:]) if l.startswith("XFACT") else re.sub(r" ud=\S+", "", l)
              for l in blk if l.startswith(("FACT ", "XFACT "))]
        a = [l for l in f0 if l.startswith("FACT ")]
        b = [l for l in f0 if l.startswith("FACT ") is False]
        fa = [re.sub(r" ud=\S+", "", l) for l in blk if l.startswith("FACT ")]
        fb = [re.sub(r" ud=\S+", "", l[1:]) for l in blk if l.startswith("XFACT ")]
        if fb and fa != fb:
            for x, y in zip(fa, fb):
                if x != y:
                    return f"re-running passes '{extra}' changes facts: before {x[:200]} / after {y[:200]}"
        ca = [l.split(" node=")[0] for l in blk if l.startswith("CFG ")]
        cb = [l[1:].split(" node=")[0] for l in blk if l.startswith("XCFG ")]
        if cb and ca != cb:
            for x, y in zip(ca, cb):
                if x != y:
                    return f"re-running passes '{extra}' changes edges: {x} -> {y}"
        la = sorted(l for l in blk if l.startswith("LINT "))
        lb = sorted(l[1:] for l in blk if l.startswith("XLINT "))
        if (cb or fb) and la != lb:
            return f"diagnostics differ after re-running passes '{extra}': {set(la) ^ set(lb)}"
        return None
    return oracle


def run(res, tier, seed):
    proof_ok = proof_stage(res, "Rva.Proofs.C12", THEOREMS, extra_modules=["Rva.Proofs.C03"])
    rng = random.Random(seed)
    res.cov["rule"] = ("generated programs + corpus; after the standard pipeline a random sequence of extra "
                       "AvailableValuePass / EcallTermination / Liveness runs is applied to the real graph; facts "
                       "(value maps, live sets), edges and diagnostics before and after must be identical")
    firsts = None
    corr = None
    seqs = ["a", "e", "l", "ae", "ael", "lea", "aal", "elae"]
    for k in range(2 if tier == "quick" else 8):
        extra = seqs[k] if tier != "quick" else rng.choice(seqs[3:])
        first, c = run_graph_property(res, tier, seed + k, "cfg,facts,lints", make_oracle(extra),
                                      n_quick=70, n_thorough=600, extra="x:" + extra)
        firsts = firsts or first
        corr = corr or c
    conclude(res, "C12", firsts, corr, proof_ok, "no fact that changes under a re-run found")
