"""C13 — diagnostics do not depend on how the same program is written."""
import os
import random
import re
import sys
sys.path.insert(0, os.path.join(os.path.dirname(__file__), "..", "gen"))

import prog
import rewrite
from common import RVH_DEBUG, hx, proof_stage, run_lines_isolated, unhx
from pipeline import correspondence, field, parse_loc, pipe_req
from props.graphfacts import CORPUS, conclude, replay  # noqa: F401

THEOREMS = ["Rva.skipWs_idem", "Rva.lexNext_skipWs", "Rva.inst_case_insensitive", "Rva.directive_case_insensitive", "Rva.imm_notation", "Rva.reg_alias", "Rva.mnemonics_nodup",
            "Rva.blank_item_invisible", "Rva.blank_lines_invisible", "Rva.label_own_line",
            "Rva.trailing_comment_invisible", "Rva.recover_comment"]


def located(blk, model_blk=()):
    """multiset of (code, instruction ordinal, operand role) from a parse+lints trace"""
    nodes = []
    for l in blk:
        if l.startswith("NODE ") and l.split()[2] not in ("ProgramEntry", "Label", "Directive"):
            spans = {}
            for key in ("rd", "rs1", "rs2", "imm", "name", "csr"):
                v = field(l, key)
                if v and "/" in v:
                    loc = parse_loc(v.split("/", 1)[1])
                    if loc:
                        spans.setdefault((loc["sr"], loc["er"]), key)
            m = re.search(r" tok=[0-9a-f-]+:(\S+)$", l)
            loc = parse_loc(m.group(1)) if m else None
            nodes.append((loc, spans))
    # diagnostics whose location legitimately depends on hash order (the model lists the
    # alternatives; known finding F-14 under C10) are compared by kind only
    ambiguous = set()
    for ml in model_blk:
        m = re.search(r" alts=\[(\S*)\]$", ml)
        if ml.startswith("LINT ") and m:
            for a in m.group(1).split(","):
                ambiguous.add((field(ml, "code"), a))
    out = []
    for l in blk:
        if not l.startswith("LINT "):
            continue
        at = parse_loc(field(l, "at"))
        code = field(l, "code")
        if (code, field(l, "at")) in ambiguous:
            continue      # may also legitimately be absent (a candidate without a matching read)
        hit = None
        for k, (loc, spans) in enumerate(nodes):
            if loc and loc["sr"] <= at["sr"] and at["er"] <= loc["er"]:
                role = spans.get((at["sr"], at["er"]), "node" if (at["sr"], at["er"]) == (loc["sr"], loc["er"]) else "?")
                # several operands may share one synthetic token; keep the first role name
                hit = (code, k, role)
                break
        out.append(hit or (code, -1, "label"))
    errs = sorted(l.split()[1] for l in blk if l.startswith("PERR "))
    cfgerr = [l.split()[1] for l in blk if l.startswith("CFGERR")]
    return sorted(out), errs, cfgerr


def run(res, tier, seed):
    rng = random.Random(seed)
    proof_ok = proof_stage(res, "Rva.Proofs.C13", THEOREMS, extra_modules=["Rva.Proofs.Tables", "Rva.Proofs.C13b", "Rva.Proofs.C13c"])
    n = 100 if tier == "quick" else 1500
    base = [c for c in CORPUS if "t0,B" not in c]
    for _ in range(n):
        s, _ = prog.program(rng, sloppy=rng.choice([0, 0.15, 0.3]), multi_ret=False)
        base.append(s)
    # files of random well-formed statements of every mnemonic and operand form
    import asm
    for _ in range(n // 2):
        lines = ["main:"]
        for _ in range(rng.randrange(3, 12)):
            m = rng.choice([x for x in asm.ALL_MNEMONICS if x not in ("fence", "fencei", "auipc", "sgez")])
            st = asm.statement(rng, m).replace("\t", " ")
            if "'" in st or '"' in st:
                continue
            lines.append("    " + st)
        lines += ["    li a7, 10", "    ecall"]
        for lb in ["loop", "end", "f", "g", "L1", "_x", "done", "data_1"]:
            lines += [lb + ":", "    nop"]
        lines += ["    ret"]
        base.append("\n".join(lines) + "\n")
    # every operand form of the instructions that have several, each a few times, so that the
    # random layout changes (trailing comments, separators, case) meet each form
    forms = ["jalr t3", "jalr t3, 0", "jalr t3, t4, 0", "jalr t3, 0(t4)", "jalr t3, (t4)", "jal f", "jal t0, f",
             "lw a0, 4(sp)", "lw a0, (sp)", "lw a0, 4", "sw a0, 4(sp)", "sw a0, (sp)", "sw a0, 4, t1",
             "lb a1, 0(t0)", "jr t3", "ret", "j loop", "beqz a0, end", "bgt a0, a1, done", "li a0, 5",
             "mv a0, a1", "neg a0, a1", "not a0, a1", "seqz a0, a1", "snez a0, a1", "csrr a0, 64", "csrw 64, a0",
             "csrwi 64, 3", "nop", "la a0, data_1", "call f"]
    form_lines = ["main:"]
    for _ in range(3):
        order_ = list(forms)
        rng.shuffle(order_)
        form_lines += ["    " + x for x in order_]
    form_lines += ["    li a7, 10", "    ecall"]
    for lb in ["loop", "end", "f", "g", "L1", "_x", "done", "data_1"]:
        form_lines += [lb + ":", "    nop"]
    form_lines += ["    ret"]
    form_file = "\n".join(form_lines) + "\n"
    base.append(form_file)
    # pseudo-instructions applied to known constants of either sign, the result deciding which environment
    # call follows: the pseudo spelling and its official expansion fold to the same value
    const_files = []
    for pz in ("seqz", "snez", "sltz", "sgtz", "neg", "not", "mv"):
        for k_ in (-5, 0, 7, -2147483648):
            const_files.append(f"main:\n    li t0, {k_}\n    {pz} t1, t0\n    addi a7, t1, 1\n    li a0, 42\n    ecall\n    li a7, 10\n    ecall\n")
    # constants that only `lui` can build (seed C13-r shifted them twice in the value analysis): a frame of
    # k*4096 bytes opened with addi steps and closed with `li`/`add`, and an environment-call number derived
    # from such a constant
    for k_ in (1, 2, 3):
        opens = "".join("    addi sp, sp, -2048\n" for _ in range(2 * k_))
        const_files.append(f"main:\n    li a0, 1\n    jal f\n    li a7, 10\n    ecall\nf:\n{opens}    sw ra, 0(sp)\n"
                           f"    lw ra, 0(sp)\n    li t0, {4096 * k_}\n    add sp, sp, t0\n    ret\n")
        const_files.append(f"main:\n    li t0, {4096 * k_}\n    srli t1, t0, 12\n    addi a7, t1, {10 - k_}\n    li a0, 0\n    ecall\n")
        const_files.append(f"main:\n    li t0, -{4096 * k_}\n    srai t1, t0, 12\n    addi a7, t1, {10 + k_}\n    li a0, 0\n    ecall\n")
    # a statement cut short at the end of its line, followed by a line that matters (seed C13-t let the
    # recovery swallow the following line unless a comment or a blank line stood in between): violating
    # programs are rewritten like the others
    for cut in ("addi a0, a0", "add t0, t1", "lw a0", "beq a0, a1", "li t0", "sw a0, 4(sp"):
        const_files.append(f"main:\n    li a0, 1\n    {cut}\n    li a7, 10\n    ecall\n")
        const_files.append(f"main:\n    li a0, 1\n    jal f\n    li a7, 10\n    ecall\nf:\n    {cut}\n    addi a0, a0, 1\n    ret\n")
    base += const_files
    pairs = []
    for s in base:
        for _ in range(6 if (s is form_file or s in const_files) else 2):
            pairs.append((s, rewrite.rewrite_program(rng, s)))
    inputs = []
    for s, t in pairs:
        inputs.append([("m.s", s)])
        inputs.append([("m.s", t)])
    impl, models, bad = correspondence("parse,lints", inputs)
    first = None
    nontrivial = 0
    for j, (s, t) in enumerate(pairs):
        a, b = impl[2 * j], impl[2 * j + 1]
        if (a and a[0].startswith(("HANG", "CRASH"))) or (b and b[0].startswith(("HANG", "CRASH"))):
            continue
        la, lb = located(a, models[0][2 * j]), located(b, models[0][2 * j + 1])
        if la[0]:
            nontrivial += 1
        # role names can differ between a pseudo and its expansion when operands share the
        # mnemonic token: compare (code, instruction) first, roles where both are real operands
        ka = sorted((c, k) for c, k, _ in la[0])
        kb = sorted((c, k) for c, k, _ in lb[0])
        if (ka != kb or la[1] != lb[1] or la[2] != lb[2]) and first is None:
            first = {"what": "the same program written differently gets different diagnostics: "
                             f"{[x for x in la[0] if (x[0], x[1]) not in kb][:3]} vs "
                             f"{[x for x in lb[0] if (x[0], x[1]) not in ka][:3]} "
                             f"(parse errors {la[1]} vs {lb[1]}, cfg {la[2]} vs {lb[2]})",
                     "source": s, "rewritten": t,
                     "replay_cmd": "echo '%s' | %s" % (pipe_req("parse,lints", [("m.s", t)]), RVH_DEBUG)}
    corr = None
    if bad:
        i, fam, d = bad[0]
        corr = {"stage": fam, "source": inputs[i][0][1], "impl_vs_model": d}
    res.cov["evaluations"] = len(inputs)
    res.cov["distinct_nontrivial"] = nontrivial
    res.cov["rule"] = ("generated programs (clean and violating) and 2 random compositions of meaning-preserving "
                       "rewrites each: spacing/tabs/optional commas, comments and blank lines, mnemonic case, "
                       "numeric vs ABI register names, decimal/hex/binary/char immediates, label placement, "
                       "omitted zero offsets, pseudo-instruction -> official expansion; the real diagnostics are "
                       "compared as multisets of (code, instruction ordinal); traces also diffed against the model")
    res.cov["samples"] = [{"original": pairs[0][0], "rewritten": pairs[0][1]}]
    res.cov["traces_validated_against_impl"] = len(inputs)
    conclude(res, "C13", first, corr, proof_ok, "no rewrite that changes the diagnostics found")
