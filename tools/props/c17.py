"""C17 — numeric literals mean what they say."""
import random

from common import (DRIVER, RVH_DEBUG, RVH_RELEASE, hx, proof_stage, run_lines,
                    run_lines_isolated, unhx)

THEOREMS = ["Rva.imm_spec", "Rva.imm_sound", "Rva.imm_complete", "Rva.imm_rejects",
            "Rva.notation_independent", "Rva.parseU32Digits_eq", "Rva.signedMagnitude_eq"]


def py_denote(s):
    """Independent oracle: the integer a literal denotes, or None (Python, no width)."""
    t = s.lower().strip(" \t\n\r\x0b\x0c")
    neg = t.startswith("-")
    if neg:
        t = t[1:]
    if t == "zero":
        return None if neg else 0          # the keyword takes no sign
    if t.startswith("0x"):
        digs, r = t[2:], 16
    elif t.startswith("0b"):
        digs, r = t[2:], 2
    else:
        digs, r = t, 10
    if digs.startswith("+"):
        digs = digs[1:]          # Rust's from_str_radix accepts one '+' (direct API only)
    if not digs:
        return None
    v = 0
    for c in digs:
        if c.isdigit() and c.isascii():
            d = ord(c) - 48
        elif "a" <= c <= "z":
            d = ord(c) - 87
        else:
            return None
        if d >= r:
            return None
        v = v * r + d
    return -v if neg else v


def expected(s):
    d = py_denote(s)
    if d is None or d < -2**31 or d >= 2**32:
        return "IMM ERR"
    d %= 2**32
    return "IMM %d" % (d - 2**32 if d >= 2**31 else d)


def spell(v, rng):
    """A random spelling of the integer v."""
    neg = v < 0
    m = abs(v)
    form = rng.randrange(3)
    if form == 0:
        body = str(m)
    elif form == 1:
        body = "0x" + format(m, "x")
    else:
        body = "0b" + format(m, "b")
    if rng.random() < 0.3:
        body = body.upper() if rng.random() < 0.5 else body[:2] + body[2:].upper()
    if rng.random() < 0.2:
        body = body[:2] + "0" * rng.randrange(1, 30) + body[2:] if form else "0" * rng.randrange(1, 30) + body
    s = ("-" if neg else "") + body
    if rng.random() < 0.1:
        s = rng.choice([" ", "\t", ""]) + s + rng.choice([" ", "\t", "\n", ""])
    return s


def gen(rng, n):
    vals = set()
    for k in range(0, 34):
        for d in (-2, -1, 0, 1, 2):
            for sg in (1, -1):
                vals.add(sg * (2**k) + d)
    vals |= {0, 1, -1, 10, 255, 256, 2**31 - 1, -2**31, 2**31, 2**32 - 1, 2**32, -2**32, 2**64, -2**63,
             10**10, 10**20, -(10**20)}
    lits = []
    for v in sorted(vals):
        for _ in range(4):
            lits.append(spell(v, rng))
    for _ in range(n):
        v = rng.randrange(-2**33, 2**33) if rng.random() < 0.7 else rng.randrange(-2**31, 2**32)
        lits.append(spell(v, rng))
    mal = ["", "-", " ", "zero", "ZERO", "-zero", "Zero ", "zeroo", "0x", "0b", "0x-1", "0b-1", "--5", "-+5",
           "+5", "0x+5", "+", "-0x", "0xg", "0b2", "12a", "1 2", "1_000", "0x1_0", "١٢", "0o17", "1e3",
           "0x 1", "- 1", "0X", "0B", "x10", "b10", "-", "0-1", "5-", "0x0x1", "0b0b1", "99999999999999999999",
           "0x100000000", "0xFFFFFFFFF", "0b" + "1" * 33, "0b" + "1" * 32, "-0b" + "1" * 32,
           "-0b1" + "0" * 31, "-0b1" + "0" * 30 + "1"]
    lits += mal
    alphabet = "0123456789abxXfF-+ zeroZ\t_"
    for _ in range(n // 2):
        lits.append("".join(rng.choice(alphabet) for _ in range(rng.randrange(1, 9))))
    return lits


CSR_NAMES = {"ustatus": 0, "fflags": 1, "frm": 2, "fcsr": 3, "uie": 4, "utvec": 5, "uscratch": 0x40,
             "uepc": 0x41, "ucause": 0x42, "utval": 0x43, "uip": 0x44, "cycle": 0xC00, "time": 0xC01,
             "instret": 0xC02, "cycleh": 0xC80, "timeh": 0xC81, "instreth": 0xC82}
ESCAPES = {"\\": 92, "'": 39, '"': 34, "n": 10, "t": 9, "r": 13, "b": 8, "f": 12, "0": 0}
# (template, column of the literal, which field carries the value)
CONTEXTS = [("li t0, {}", 7, "imm"), ("addi t0, t1, {}", 13, "imm"), ("lui t0, {}", 8, "lui"),
            ("lw t0, {}(sp)", 7, "off"), ("sw t0, {}(sp)", 7, "off"), (".word {}", 6, "data"),
            (".byte 1, {}", 9, "data2"), ("csrrwi t0, 0x300, {}", 18, "imm"), ("csrrw t0, {}, t1", 10, "csr"),
            ("csrrsi t0, {}, 3", 11, "csr")]
# a sign inside a literal, two signs: malformed in every notation (the radix parsers of the standard library
# accept one leading '+', so these are only kept out by what the lexer lets through)
# every instruction form that carries an immediate (seed C17-r wrapped the operand of the shifts only)
for _mn in ("andi", "ori", "xori", "slti", "sltiu", "slli", "srli", "srai"):
    _t = _mn + " t0, t1, {}"
    CONTEXTS.append((_t, _t.index("{}"), "imm"))
for _mn in ("lb", "lbu", "lh", "lhu"):
    _t = _mn + " t0, {}(sp)"
    CONTEXTS.append((_t, _t.index("{}"), "off"))
for _mn in ("sb", "sh"):
    _t = _mn + " t0, {}(t1)"
    CONTEXTS.append((_t, _t.index("{}"), "off"))
for _t, _f in (("jalr t0, t1, {}", "imm"), (".half {}", "data"), ("csrrsi t0, 0x300, {}", "imm"),
               ("csrrci t0, 0x300, {}", "imm")):
    CONTEXTS.append((_t, _t.index("{}"), _f))
PLUS_MALFORMED = ["-+5", "0x+10", "-0b+11", "+-5", "0X+1f", "0b+1", "-0x+7f", "++1"]
SYMCH = set("abcdefghijklmnopqrstuvwxyzABCDEFGHIJKLMNOPQRSTUVWXYZ0123456789_-")


def char_denote(body):
    """Code point a character literal with this body (text between the quotes) denotes, else None."""
    if len(body) == 1 and body not in ("\\", "\n", "'"):
        return ord(body)
    if len(body) == 2 and body[0] == "\\" and body[1] in ESCAPES:
        return ESCAPES[body[1]]
    if len(body) == 6 and body[:2] == "\\u" and all(c in "0123456789abcdefABCDEF" for c in body[2:]):
        v = int(body[2:], 16)
        return None if 0xD800 <= v <= 0xDFFF else v
    return None


def gen_statements(rng, n):
    """(statement, column, field, literal, expected value or None=must be rejected or 'skip')."""
    lits = []
    edge = [0, 1, -1, 2047, -2048, 2**31 - 1, -2**31, 2**31, 2**32 - 1, 2**32, -2**31 - 1, 2**33, 4095, 4096,
            0xfffff, 0x100000, 255, 256, 31, 32, 10**12]
    for v in edge:
        for _ in range(2):
            lits.append(spell(v, rng).strip(" \t\n"))
    for _ in range(n):
        lits.append(spell(rng.randrange(-2**31, 2**32) if rng.random() < 0.8 else rng.randrange(-2**34, 2**34),
                          rng).strip(" \t\n"))
    lits += ["0x", "0b", "--5", "0xg", "0b2", "12a", "1_000", "0x1_0", "zeroo", "-zero", "zero", "ZERO", "0X", "-",
             "0-1", "5-", "0x0x1", "-0x", "0x-1", "99999999999999999999", "0xFFFFFFFFF", "-0b1" + "0" * 31,
             "-0b1" + "0" * 30 + "1", "0b" + "1" * 33]
    lits += list(CSR_NAMES) + ["CYCLE", "Time", "mstatus", "cyclee"]
    lits += PLUS_MALFORMED
    chars = ["a", "Z", "0", " ", "~", "#", '"', ",", "(", ":", "\u00e9", "\u20ac", "\U0001f600",
             "\\n", "\\t", "\\r", "\\b", "\\f", "\\0", "\\\\", "\\'", '\\"',
             "\\u0041", "\\u00e9", "\\uFFFF", "\\uffff", "\\uD800", "\\udfff", "\\ue000", "\\u0000",
             "\\u+041", "\\u-041", "\\u00g1", "\\u 041", "\\u041", "\\u00410", "\\u", "\\x41", "\\a", "\\1",
             "ab", "", "\\", "\\u+0041", "\\u0x41", "\\u_041", "\\u4 1 "]
    for _ in range(max(4, n // 20)):
        chars.append("\\u" + "".join(rng.choice("0123456789abcdefABCDEF+-gx _") for _ in range(4)))
        chars.append("\\u%04x" % rng.randrange(0x10000))
        chars.append("\\" + rng.choice("ntrbf0uxae1\\'\"? "))
    out = []
    for l in lits:
        for tmpl, col, field in (CONTEXTS if len(out) < 4000 else rng.sample(CONTEXTS, 3)):
            if l in PLUS_MALFORMED:
                want = "reject"            # wherever the '+' ends up (no symbol character today): no value, an error
            elif not set(l) <= SYMCH or not l:
                want = "skip"
            elif field == "csr" and l.lower() in CSR_NAMES:
                want = CSR_NAMES[l.lower()]
            else:
                d = py_denote(l)
                if d is None or d < -2**31 or d >= 2**32:
                    want = None
                else:
                    d %= 2**32
                    if field == "lui":
                        # the operand must fit the 20-bit field (unsigned or sign-extended), else it
                        # is rejected on the literal; it is placed in the upper 20 bits
                        sd = d - 2**32 if d >= 2**31 else d
                        d = None if not (-2**19 <= sd < 2**20) else (d << 12) % 2**32
                    want = None if d is None else (d if field == "csr" else (d - 2**32 if d >= 2**31 else d))
            out.append((tmpl.format(l) + "\n", col, field, l, want))
    for body in chars:
        l = "'" + body + "'"
        for tmpl, col, field in CONTEXTS:
            if field == "csr":
                continue                      # a CSR operand is a number or a name, never a character
            want = char_denote(body)
            if want is not None and field == "lui":
                want = (want << 12) % 2**32
                want = want - 2**32 if want >= 2**31 else want      # code points < 2^16 fit the field
            out.append((tmpl.format(l) + "\n", col, field, l, want))
    return out


def value_of(blk, field):
    """The value the parsed statement carries for the literal, or None when there is no such node."""
    import re
    node = next((x for x in blk if x.startswith("NODE 1 ")), None)
    if node is None:
        return None
    if field in ("imm", "lui", "off"):
        if field == "off" and " LoadAddr " in node:
            return None
        m = re.search(r" imm=(-?\d+)/", node)
        return int(m.group(1)) if m else None
    if field == "csr":
        m = re.search(r" csr=(\d+)/", node)
        return int(m.group(1)) if m else None
    m = re.search(r" Data \w+ \[([^\]]*)\]", node)
    if not m:
        return None
    vals = [int(x.split("/")[0]) for x in m.group(1).split(",") if x]
    idx = 0 if field == "data" else 1
    return vals[idx] if len(vals) > idx else None


def through_parser(res, rng, tier):
    """The same literals where a program has them: instruction operands, load/store offsets, lui,
    data directives, CSR operands - lexer, parser and conversion together."""
    import re
    cases = gen_statements(rng, 60 if tier == "quick" else 6000)
    reqs = [f"parse 1 {hx('m.s')} {hx(st)}" for st, *_ in cases]
    dbg = run_lines_isolated(RVH_DEBUG, reqs, chunk=2000)
    rel = run_lines_isolated(RVH_RELEASE, reqs, chunk=2000)
    mod = run_lines(DRIVER, reqs)
    first = None
    tally = {"accepted": 0, "rejected": 0, "not_judged_by_oracle": 0, "char_literals": 0}
    for (st, col, field, lit, want), a, b, m in zip(cases, dbg, rel, mod):
        if lit.startswith("'"):
            tally["char_literals"] += 1
        for prof, blk in (("debug", a), ("release", b)):
            what = None
            if blk != m:
                what = "parser model and implementation disagree"
            if any(x.startswith(("PANIC", "CRASH", "HANG", "ABORT")) for x in blk):
                what = "the parser does not return normally"
            elif want == "skip":
                pass
            elif want == "reject":
                got = value_of(blk, field)
                if got is not None:
                    what = f"malformed literal (a sign inside it) is read as {got}"
                elif not any(x.startswith("PERR") for x in blk):
                    what = "malformed literal (a sign inside it): no parse error is reported"
            elif want is None:
                got = value_of(blk, field)
                perr = [x for x in blk if x.startswith("PERR")]
                if got is not None:
                    what = f"literal must be rejected, is read as {got}"
                elif not perr:
                    what = "literal must be rejected, no parse error is reported"
                elif field == "off":
                    pass     # a symbol that is no number is a label here (`lw rd, label`): the error, if any, is later
                elif not lit.startswith("'") and not any(re.search(rf":0:{col}:{col}-", x) for x in perr):
                    what = f"the parse error is not on the literal (column {col})"
            else:
                got = value_of(blk, field)
                if got != want:
                    what = f"literal denotes {want}, is read as {got}"
            if what and first is None:
                first = {"statement": st, "literal": lit, "profile": prof, "what": what, "impl": blk, "model": m,
                         "expected": want, "no_input": what.startswith("parser model"),
                         "replay_cmd": f"echo 'parse 1 {hx('m.s')} {hx(st)}' | {RVH_DEBUG if prof == 'debug' else RVH_RELEASE}"}
        tally["not_judged_by_oracle" if want == "skip" else "rejected" if want in (None, "reject") else "accepted"] += 1
    res.notes["through_parser_statements"] = len(cases)
    res.notes["through_parser_distribution"] = tally
    return first, len(cases)


def run(res, tier, seed):
    rng = random.Random(seed)
    proof_ok = proof_stage(res, "Rva.Proofs.C17", THEOREMS)
    lits = gen(rng, 1500 if tier == "quick" else 600000)
    reqs = ["imm " + hx(l) for l in lits]
    dbg = run_lines_isolated(RVH_DEBUG, reqs, chunk=5000)
    rel = run_lines_isolated(RVH_RELEASE, reqs, chunk=5000)
    mod = run_lines(DRIVER, reqs)
    first = None
    kinds = {"accepted": 0, "rejected": 0}
    for l, a, b, m in zip(lits, dbg, rel, mod):
        want = expected(l)
        kinds["rejected" if want == "IMM ERR" else "accepted"] += 1
        for prof, got in (("debug", a), ("release", b)):
            if got != [want] and first is None:
                first = {"literal": l, "literal_hex": hx(l), "profile": prof, "impl": got,
                         "expected": want, "model": m,
                         "replay_cmd": f"echo 'imm {hx(l)}' | {RVH_DEBUG if prof == 'debug' else RVH_RELEASE}"}
        if m != [want] and first is None:
            first = {"literal": l, "literal_hex": hx(l), "profile": "model", "impl": a,
                     "expected": want, "model": m, "note": "Lean model disagrees with the oracle"}
    res.cov["evaluations"] = 2 * len(reqs)
    res.cov["distinct_nontrivial"] = len(set(lits))
    res.cov["rule"] = ("every value 2^k+d (k<34, |d|<=2, both signs) and random values in all "
                       "notations/cases/paddings, malformed spellings, random strings over the literal "
                       "alphabet; Imm::from_str (debug+release) vs Lean model vs Python denotation; "
                       "distinct by spelling")
    res.cov["samples"] = lits[:3] + lits[-3:]
    res.cov["input_distribution"] = kinds
    res.cov["traces_validated_against_impl"] = 2 * len(reqs)
    pfirst, pn = through_parser(res, rng, tier)
    res.cov["evaluations"] += 2 * pn
    res.cov["traces_validated_against_impl"] += 2 * pn
    res.cov["rule"] += ("; the same spellings plus character literals (plain, every escape, \\uXXXX well and ill "
                        "formed) as operands of li/addi/lui/lw/sw/.word/.byte/csrrwi/csrrw through the real lexer and "
                        "parser vs model vs denotation, error location on the literal")
    if first is None and pfirst is not None:
        if pfirst.get("no_input"):
            res.violation(f"parser correspondence broken on {pfirst['statement']!r}; no mis-read literal found",
                          pfirst, no_input=True)
        else:
            res.violation(f"{pfirst['statement']!r}: {pfirst['what']} [{pfirst['profile']}]", pfirst)
    elif first is not None:
        res.violation(f"literal {first['literal']!r} read as {first['impl']} [{first['profile']}], "
                      f"denotation says {first['expected']}", first)
    elif not proof_ok:
        res.violation("proof obligations of C17 no longer check; no failing literal found",
                      {"stage": "proof", "module": "Rva.Proofs.C17", "notes": res.notes}, no_input=True)


def replay(res, path):
    import json
    d = json.load(open(path))
    print(json.dumps(d, indent=1))
    if "literal_hex" in d:
        out = run_lines(RVH_DEBUG, ["imm " + d["literal_hex"]])
        print("impl now:", out, "expected:", d.get("expected"))
        return 0 if out[0] == [d.get("expected")] else 1
    return 1
