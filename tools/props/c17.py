"""C17 — numeric literals mean what they say."""
import random

from common import (DRIVER, RVH_DEBUG, RVH_RELEASE, hx, proof_stage, run_lines,
                    run_lines_isolated, unhx)

THEOREMS = ["Rva.imm_spec", "Rva.imm_sound", "Rva.imm_complete", "Rva.imm_rejects",
            "Rva.notation_independent", "Rva.parseU32Digits_eq", "Rva.signedMagnitude_eq"]


def py_denote(s):
    """Independent oracle: the integer a literal denotes, or None (Python, no width)."""
    t = s.lower().strip(" \t\n\r\x0b\x0c")
    neg = t.startswith("-")
    if neg:
        t = t[1:]
    if t == "zero":
        return 0
    if t.startswith("0x"):
        digs, r = t[2:], 16
    elif t.startswith("0b"):
        digs, r = t[2:], 2
    else:
        digs, r = t, 10
    if digs.startswith("+"):
        digs = digs[1:]          # Rust's from_str_radix accepts one '+' (direct API only)
    if not digs:
        return None
    v = 0
    for c in digs:
        if c.isdigit() and c.isascii():
            d = ord(c) - 48
        elif "a" <= c <= "z":
            d = ord(c) - 87
        else:
            return None
        if d >= r:
            return None
        v = v * r + d
    return -v if neg else v


def expected(s):
    d = py_denote(s)
    if d is None or d < -2**31 or d >= 2**32:
        return "IMM ERR"
    d %= 2**32
    return "IMM %d" % (d - 2**32 if d >= 2**31 else d)


def spell(v, rng):
    """A random spelling of the integer v."""
    neg = v < 0
    m = abs(v)
    form = rng.randrange(3)
    if form == 0:
        body = str(m)
    elif form == 1:
        body = "0x" + format(m, "x")
    else:
        body = "0b" + format(m, "b")
    if rng.random() < 0.3:
        body = body.upper() if rng.random() < 0.5 else body[:2] + body[2:].upper()
    if rng.random() < 0.2:
        body = body[:2] + "0" * rng.randrange(1, 30) + body[2:] if form else "0" * rng.randrange(1, 30) + body
    s = ("-" if neg else "") + body
    if rng.random() < 0.1:
        s = rng.choice([" ", "\t", ""]) + s + rng.choice([" ", "\t", "\n", ""])
    return s


def gen(rng, n):
    vals = set()
    for k in range(0, 34):
        for d in (-2, -1, 0, 1, 2):
            for sg in (1, -1):
                vals.add(sg * (2**k) + d)
    vals |= {0, 1, -1, 10, 255, 256, 2**31 - 1, -2**31, 2**31, 2**32 - 1, 2**32, -2**32, 2**64, -2**63,
             10**10, 10**20, -(10**20)}
    lits = []
    for v in sorted(vals):
        for _ in range(4):
            lits.append(spell(v, rng))
    for _ in range(n):
        v = rng.randrange(-2**33, 2**33) if rng.random() < 0.7 else rng.randrange(-2**31, 2**32)
        lits.append(spell(v, rng))
    mal = ["", "-", " ", "zero", "ZERO", "-zero", "Zero ", "zeroo", "0x", "0b", "0x-1", "0b-1", "--5", "-+5",
           "+5", "0x+5", "+", "-0x", "0xg", "0b2", "12a", "1 2", "1_000", "0x1_0", "١٢", "0o17", "1e3",
           "0x 1", "- 1", "0X", "0B", "x10", "b10", "-", "0-1", "5-", "0x0x1", "0b0b1", "99999999999999999999",
           "0x100000000", "0xFFFFFFFFF", "0b" + "1" * 33, "0b" + "1" * 32, "-0b" + "1" * 32,
           "-0b1" + "0" * 31, "-0b1" + "0" * 30 + "1"]
    lits += mal
    alphabet = "0123456789abxXfF-+ zeroZ\t_"
    for _ in range(n // 2):
        lits.append("".join(rng.choice(alphabet) for _ in range(rng.randrange(1, 9))))
    return lits


def run(res, tier, seed):
    rng = random.Random(seed)
    proof_ok = proof_stage(res, "Rva.Proofs.C17", THEOREMS)
    lits = gen(rng, 1500 if tier == "quick" else 600000)
    reqs = ["imm " + hx(l) for l in lits]
    dbg = run_lines_isolated(RVH_DEBUG, reqs, chunk=5000)
    rel = run_lines_isolated(RVH_RELEASE, reqs, chunk=5000)
    mod = run_lines(DRIVER, reqs)
    first = None
    kinds = {"accepted": 0, "rejected": 0}
    for l, a, b, m in zip(lits, dbg, rel, mod):
        want = expected(l)
        kinds["rejected" if want == "IMM ERR" else "accepted"] += 1
        for prof, got in (("debug", a), ("release", b)):
            if got != [want] and first is None:
                first = {"literal": l, "literal_hex": hx(l), "profile": prof, "impl": got,
                         "expected": want, "model": m,
                         "replay_cmd": f"echo 'imm {hx(l)}' | {RVH_DEBUG if prof == 'debug' else RVH_RELEASE}"}
        if m != [want] and first is None:
            first = {"literal": l, "literal_hex": hx(l), "profile": "model", "impl": a,
                     "expected": want, "model": m, "note": "Lean model disagrees with the oracle"}
    res.cov["evaluations"] = 2 * len(reqs)
    res.cov["distinct_nontrivial"] = len(set(lits))
    res.cov["rule"] = ("every value 2^k+d (k<34, |d|<=2, both signs) and random values in all "
                       "notations/cases/paddings, malformed spellings, random strings over the literal "
                       "alphabet; Imm::from_str (debug+release) vs Lean model vs Python denotation; "
                       "distinct by spelling")
    res.cov["samples"] = lits[:3] + lits[-3:]
    res.cov["input_distribution"] = kinds
    res.cov["traces_validated_against_impl"] = 2 * len(reqs)
    if first is not None:
        res.violation(f"literal {first['literal']!r} read as {first['impl']} [{first['profile']}], "
                      f"denotation says {first['expected']}", first)
    elif not proof_ok:
        res.violation("proof obligations of C17 no longer check; no failing literal found",
                      {"stage": "proof", "module": "Rva.Proofs.C17", "notes": res.notes}, no_input=True)


def replay(res, path):
    import json
    d = json.load(open(path))
    print(json.dumps(d, indent=1))
    if "literal_hex" in d:
        out = run_lines(RVH_DEBUG, ["imm " + d["literal_hex"]])
        print("impl now:", out, "expected:", d.get("expected"))
        return 0 if out[0] == [d.get("expected")] else 1
    return 1
