"""C07 — no source line is silently dropped; a bad line affects only itself."""
import os
import random
import re
import sys
sys.path.insert(0, os.path.join(os.path.dirname(__file__), "..", "gen"))

import asm
import oracles
from common import RVH_DEBUG, hx, proof_stage, unhx
from pipeline import correspondence, parse_loc, pipe_req, RANGE

THEOREMS = ["Rva.lex_covers", "Rva.lexNext_progress", "Rva.lexNext_none", "Rva.lexNext_start",
            "Rva.recover_spec", "Rva.recover_no_newline", "Rva.recover_suffix",
            "Rva.parseInst_good", "Rva.parseNode_good", "Rva.parseStep_suffix", "Rva.parseStep_eof",
            "Rva.parseStep_progress", "Rva.parseNode_eh", "Rva.parseStep_error_located",
            "Rva.parseStep_error_in_items", "Rva.parseLoop_keeps", "Rva.failed_statement_reported",
            "Rva.parseLoop_acc", "Rva.later_lines_unaffected",
            "Rva.malformed_line_contained", "Rva.malformed_line_only_adds_its_error", "Rva.recover_to_newline"]

BAD_LINES = ["add t0, t1", "addi a0, a0", "lw a0", "foo a0, a1", "mov a0, a1", "addi a0, a0, 99999999999",
             "addi a0, q7, 1", "li a0, 1 +", "% li a0, 1", "li a0, 1 é", "li a0 : 1", "add t0, t1, t2 \r",
             "\"stray string\"", "( a0 )", "'c'", ".bogus 3", ".globl main", "fence", "li a0, 'ab'",
             "li a0, \"s\"", "sw a0, 4(sp", "jal", "beq a0, a1", ".", "1abc:", "a0", "li a0, 0x",
             ".asciz \"unterminated", "lw a0, 4(5)", "la a0, 7", ".align", "bne a0, a1, 9x",
             # literals with an invalid escape: closed, and running to the end of the line
             ".string \"bad \\q escape\"", ".string \"bad \\q escape", ".asciz \"x\\u12", "li a0, '\\q'",
             "li a0, '\\q", ".string \"tail \\", "li a0, '\\u00e9' x", ".ascii \"a\\x\" \"b"]


BAD_CHARS = ["@", "$", "+", "[", ";", "é", "!", "~", "]", "*", "=", "`", "\x7f"]


def damaged(rng, stmt):
    """A statement with one character the lexer rejects put at a token boundary: before, after or
    glued to a token, at every position - in particular right after the points where the parser
    looks one token ahead (offset of a load/store, the register of jalr, a directive's operands)."""
    toks = re.findall(r"[^\s,()]+|[(),]", stmt)
    if not toks:
        return stmt + " @"
    i = rng.randrange(len(toks) + 1)
    c = rng.choice(BAD_CHARS)
    how = rng.randrange(3)
    if how == 0 or i == len(toks):
        toks.insert(i, c)
    elif how == 1:
        toks[i] = toks[i] + c
    else:
        toks[i] = c + toks[i]
    out = ""
    for t in toks:
        out += t if t in "()," or out.endswith("(") or not out else " " + t
    return out


def one_per_line(rng, n_lines):
    """A file with one statement per line (no multi-line constructs)."""
    lines = []
    for _ in range(n_lines):
        k = rng.random()
        if k < 0.6:
            s = asm.statement(rng)
        elif k < 0.7:
            # data directives too: their operand loop runs across newlines, so the line after one
            # is where an over-eager loop would bite (no generated line starts with an immediate)
            s = rng.choice([".text", ".data", ".asciz \"hi\"", ".align 2", ".space 8", ".word 7", ".byte 1, 2",
                            ".half 3", ".word 1 2 3", ".word -1", ".dword 9"])
        elif k < 0.8:
            s = asm.label(rng) + str(rng.randrange(100)) + ":"
        elif k < 0.9:
            s = rng.choice(["", "  ", "# c", "\t#"])
        else:
            s = asm.statement(rng) + "  # t"
        lines.append(rng.choice(["", " ", "\t", "    "]) + s)
    return lines


def items_by_line(blk, nfiles):
    """(file, line) -> list of location-free item descriptions, from a `parse` trace."""
    out = {}
    for l in blk:
        if l.startswith("NODE"):
            if " ProgramEntry " in l:
                continue
            m = re.search(r" tok=([0-9a-f-]+):(\S+)$", l)
            loc = parse_loc(m.group(2))
            desc = "NODE " + re.sub(r"\d+:\d+:\d+-\d+:\d+:\d+@\w+", "@", l.split(" ", 2)[2])
            # a data directive's operand list runs across newlines: the newline tokens it looked at
            # are part of its raw text. How many follow it is not a property of the directive.
            desc = re.sub(r"( tok=[0-9a-f]*?)((?:20|0a|0d|09)+)(:@)$", r"\1\3", desc)
        elif l.startswith("PERR"):
            m = RANGE.search(l)
            if not m:
                continue
            loc = parse_loc(m.group(0))
            desc = re.sub(r"\d+:\d+:\d+-\d+:\d+:\d+@\w+", "@", l)
            desc = re.sub(r" \d+:\d+:\d+$", "", desc)
        else:
            continue
        out.setdefault((loc["file"], loc["sl"]), []).append(desc)
    return out


def meaningful(line):
    s = line.split("#", 1)[0] if '"' not in line and "'" not in line else line
    return s.strip(" \t,\r") != "" and not line.strip().startswith("#")


def run(res, tier, seed):
    rng = random.Random(seed)
    proof_ok = proof_stage(res, "Rva.Proofs.C07c", THEOREMS, extra_modules=["Rva.Proofs.C07b", "Rva.Proofs.C07", "Rva.Proofs.LexTotal", "Rva.Proofs.C15b", "Rva.Proofs.C07d"])
    n = 120 if tier == "quick" else 12000
    inputs, meta = [], []
    for _ in range(n):
        lines = one_per_line(rng, rng.randrange(3, 14))
        k = rng.randrange(len(lines) + 1)
        kb = rng.random()
        if kb < 0.5:
            bad = rng.choice(BAD_LINES)
        elif kb < 0.65:
            bad = asm.mangle(rng, asm.statement(rng))
        else:
            bad = damaged(rng, rng.choice([asm.statement(rng), "lw t0, 4(sp)", "sw t1, 8(sp)", "jalr t0", "jalr t0, 0(t1)",
                                           "lb a0, 0(a1)", "sh a2, 2(a3)", "jalr ra, t0, 0", ".word 1, 2", "la a0, x",
                                           "lw t0, 4", "sw t0, 4", "li a0, 'c'", "csrrw t0, 0x300, t1"]))
        if "\n" in bad:
            bad = bad.replace("\n", " ")
        # a line that starts with an immediate (number, character literal) right after a data
        # directive is, by the documented multi-line operand lists, one more operand of that
        # directive and not a statement of its own: do not put one there
        def data_before(pos):
            for q in range(pos - 1, -1, -1):
                t = lines[q].strip()
                if t == "" or t.startswith("#"):
                    continue
                return re.match(r"\.(word|byte|half|dword|float|double)\b", t) is not None
            return False
        if re.match(r"\s*['\-+0-9]", bad) and data_before(k):
            bad = "add t0, t1"
        with_bad = lines[:k] + [bad] + lines[k:]
        crlf = rng.random() < 0.1
        nl = "\r\n" if crlf else "\n"
        final_nl = rng.random() < 0.75
        t1 = nl.join(with_bad) + (nl if final_nl else "")
        t0 = nl.join(lines) + (nl if final_nl else "")
        if rng.random() < 0.3:
            # the damaged file is an included file
            inc_at = rng.randrange(0, 3)
            base = ["main:", "    li a0, 1"][:inc_at] + ['.include "inc.s"'] + ["    li a7, 10", "    ecall"]
            bt = "\n".join(base) + "\n"
            inputs.append([("base.s", bt), ("inc.s", t1)])
            inputs.append([("base.s", bt), ("inc.s", t0)])
            meta.append(("1", with_bad, k, bad))
        else:
            inputs.append([("m.s", t1)])
            inputs.append([("m.s", t0)])
            meta.append(("0", with_bad, k, bad))
    # systematic: every kind of last line (malformed, truncated, or needing one token of
    # lookahead) at the very end of a file, with and without final newline, base and included
    tails = BAD_LINES + ["lw a0, 4", "sw a0, 4", "jalr t0", ".word 1, 2", ".byte 7", ".space", ".align",
                         "addi a0, a0, 1", "ret", "x:", "li a0, 'c'", ".asciz \"s\"", "# just a comment"]
    for t in tails:
        for final_nl in ("", "\n", "\r\n"):
            lines = ["main:", "    li a0, 1"]
            for inc in (False, True):
                with_bad = lines + [t]
                t1 = "\n".join(with_bad) + final_nl
                t0 = "\n".join(lines) + ("\n" if final_nl else "")
                if inc:
                    bt = '.include "inc.s"\n    li a7, 10\n    ecall\n'
                    inputs.append([("base.s", bt), ("inc.s", t1)])
                    inputs.append([("base.s", bt), ("inc.s", t0)])
                    meta.append(("1", with_bad, 2, t))
                else:
                    inputs.append([("m.s", t1)])
                    inputs.append([("m.s", t0)])
                    meta.append(("0", with_bad, 2, t))
    impl, models, bad_corr = correspondence("parse", inputs)
    first = None
    hit = {"accounted_lines": 0, "bad_lines": 0, "contained": 0, "in_included_file": 0}
    for j, (fidx, with_bad, k, bad) in enumerate(meta):
        a1, a0 = impl[2 * j], impl[2 * j + 1]
        if a1 and a1[0].startswith(("CRASH", "HANG")):
            first = first or {"what": f"parser {a1[0]}", "files": inputs[2 * j]}
            continue
        it1, it0 = items_by_line(a1, 2), items_by_line(a0, 2)
        if fidx == "1":
            hit["in_included_file"] += 1
        # (1) every meaningful line is accounted for
        for ln, text in enumerate(with_bad):
            if meaningful(text):
                hit["accounted_lines"] += 1
                if (fidx, ln) not in it1 and first is None:
                    first = {"what": f"line {ln + 1} {text!r} of file #{fidx} produced neither a node nor a "
                                     f"parse error located on it", "files": inputs[2 * j],
                             "replay_cmd": "echo '%s' | %s" % (pipe_req("parse", inputs[2 * j]), RVH_DEBUG)}
        # (2) containment: every other line parses as if line k were deleted
        hit["bad_lines"] += 1
        ok = True
        for ln in range(len(with_bad)):
            if ln == k:
                continue
            l0 = ln if ln < k else ln - 1
            if it1.get((fidx, ln), []) != it0.get((fidx, l0), []):
                ok = False
                if first is None:
                    first = {"what": f"malformed line {k + 1} {bad!r} changes how line {ln + 1} "
                                     f"{with_bad[ln]!r} is parsed: {it1.get((fidx, ln), [])} vs "
                                     f"{it0.get((fidx, l0), [])} without it", "files": inputs[2 * j],
                             "replay_cmd": "echo '%s' | %s" % (pipe_req("parse", inputs[2 * j]), RVH_DEBUG)}
        # other files unaffected
        other = "0" if fidx == "1" else None
        if other is not None:
            keys = set(x for x in it1 if x[0] == other) | set(x for x in it0 if x[0] == other)
            for key in keys:
                if it1.get(key, []) != it0.get(key, []):
                    ok = False
                    first = first or {"what": f"malformed line in the included file changes the including "
                                              f"file at line {key[1] + 1}", "files": inputs[2 * j]}
        hit["contained"] += ok
    # ---- an ignored multi-line construct: `.macro … .endmacro` (unsupported, skipped as a whole).
    # The construct must be named by a diagnostic on its first line, whether or not it is closed
    # before the file ends, and the lines around it must parse as if it were not there.
    minputs, mmeta, mextra = [], [], {}
    for _ in range(30 if tier == "quick" else 1500):
        before = one_per_line(rng, rng.randrange(1, 6))
        after = one_per_line(rng, rng.randrange(0, 5))
        body = one_per_line(rng, rng.randrange(0, 4))
        closed = rng.random() < 0.5
        head = rng.choice([".macro foo", ".macro push_all", "  .macro m2 x y", ".MACRO big", ".macro inc(%r)", ".macro add3 (%a, %b)"])
        badline = None
        if "%" in head or rng.random() < 0.3:
            # RARS's parameter syntax and other text the lexer cannot read: part of the skipped body like the rest
            badline = rng.choice(["    addi %r, %r, 1", "    li %a, 7 ?", "    print_str (\"x\")", "    sw %b, 0(sp) @"])
            body = body + [badline]
            rng.shuffle(body)
        # both spellings close it: RARS's `.end_macro` and the `.endmacro` this project started with
        close = [rng.choice([".endmacro", "  .endmacro", ".ENDMACRO", ".end_macro", "\t.end_macro", ".End_Macro"])] \
            if closed else rng.choice([[], [".endm"], ["# .endmacro"], ["# .end_macro"], [".end_macr"]])
        region = [head] + body + close
        if not closed:
            after = []
        nl = "\r\n" if rng.random() < 0.1 else "\n"
        fin = nl if rng.random() < 0.8 else ""
        t1 = nl.join(before + region + after) + fin
        t0 = nl.join(before + after) + fin
        if rng.random() < 0.3:
            bt = '.include "inc.s"\n    li a7, 10\n    ecall\n'
            minputs += [[("base.s", bt), ("inc.s", t1)], [("base.s", bt), ("inc.s", t0)]]
            mmeta.append(("1", before, region, after, closed, len(minputs) - 2))
        else:
            minputs += [[("m.s", t1)], [("m.s", t0)]]
            mmeta.append(("0", before, region, after, closed, len(minputs) - 2))
        if badline is not None and "%" not in head and '"' not in badline:
            # containment inside the body: the file without the unreadable body line (compared line by line below)
            qb = region.index(badline)
            t2 = nl.join(before + region[:qb] + region[qb + 1:] + after) + fin
            minputs.append([(minputs[-1][-1][0], t2)] if len(minputs[-1]) == 1 else [("base.s", bt), ("inc.s", t2)])
            mextra[len(mmeta) - 1] = (len(minputs) - 1, qb)
    mimpl, _, mbad = correspondence("parse", minputs)
    hit["macro_regions"] = len(mmeta)
    hit["macro_unterminated"] = sum(1 for m in mmeta if not m[4])
    for j, (fidx, before, region, after, closed, at) in enumerate(mmeta):
        a1, a0 = mimpl[at], mimpl[at + 1]
        it1, it0 = items_by_line(a1, 2), items_by_line(a0, 2)
        what = None
        k = len(before)
        if not any(d.startswith("PERR") for d in it1.get((fidx, k), [])):
            # the skip can be cut short by a token the lexer rejects inside the body (a `%param`, a
            # stray character): then that token is reported where it stands and the rest of the body is
            # read as ordinary lines - the construct is named by an error inside it, and every line
            # after that point must be accounted for on its own
            inner = [q for q in range(1, len(region)) if any(d.startswith("PERR") for d in it1.get((fidx, k + q), []))]
            if not inner:
                what = (f"the {'closed' if closed else 'unterminated'} macro definition starting at line {k + 1} "
                        f"({len(region)} lines) is skipped without any diagnostic on it")
            else:
                for q in range(inner[0] + 1, len(region)):
                    if meaningful(region[q]) and (fidx, k + q) not in it1:
                        what = (f"line {k + q + 1} {region[q]!r} (inside a macro definition whose skipping was cut "
                                f"short at line {k + inner[0] + 1}) produced neither a node nor a parse error")
        for ln in range(len(before)):
            if it1.get((fidx, ln), []) != it0.get((fidx, ln), []):
                what = what or f"a macro definition changes how line {ln + 1} before it is parsed"
        for q in range(len(after)):
            if it1.get((fidx, k + len(region) + q), []) != it0.get((fidx, k + q), []):
                what = what or (f"line {k + len(region) + q + 1} {after[q]!r} after a closed macro definition is "
                                f"parsed differently: {it1.get((fidx, k + len(region) + q), [])} vs "
                                f"{it0.get((fidx, k + q), [])}")
        if j in mextra:
            at2, qb = mextra[j]
            it2 = items_by_line(mimpl[at2], 2)
            total = len(before) + len(region) + len(after)
            for ln in range(total):
                if ln == k + qb:
                    continue
                ln2 = ln if ln < k + qb else ln - 1
                strip = lambda ds: [re.sub(r":\d+:\d+:\d+-\d+:\d+:\d+@\d+", "", d) for d in ds]
                if strip(it1.get((fidx, ln), [])) != strip(it2.get((fidx, ln2), [])):
                    what = what or (f"the unreadable line {k + qb + 1} {region[qb]!r} inside a macro definition is not "
                                    f"contained: line {ln + 1} is parsed differently from the file without it "
                                    f"({it1.get((fidx, ln), [])[:2]} vs {it2.get((fidx, ln2), [])[:2]})")
                    break
        if what and first is None:
            first = {"what": what, "files": minputs[at],
                     "replay_cmd": "echo '%s' | %s" % (pipe_req("parse", minputs[at]), RVH_DEBUG)}
    bad_corr = bad_corr or mbad
    inputs = inputs + minputs
    res.cov["evaluations"] = len(inputs)
    res.cov["distinct_nontrivial"] = len(set(str(x) for x in inputs))
    res.cov["rule"] = ("one-statement-per-line files (base and included, LF/CRLF, with/without final newline) "
                       "with one malformed line of a listed kind at a random position; oracle 1: every line "
                       "with content yields a node or a parse error located on it; oracle 2: all other lines "
                       "parse exactly as in the file without the malformed line; parse traces also diffed "
                       "against the Lean model")
    res.cov["samples"] = [inputs[0], inputs[-2]]
    res.cov["input_distribution"] = hit
    res.cov["traces_validated_against_impl"] = len(inputs)
    if first is not None:
        res.violation(first["what"], first)
    elif bad_corr:
        i, fam, d = bad_corr[0]
        res.violation("parser model/implementation correspondence broken; no dropped or leaking line found",
                      {"stage": fam, "files": inputs[i], "impl_vs_model": d}, no_input=True)
    elif not proof_ok:
        res.violation("proof obligations of C07 no longer check; no dropped or leaking line found",
                      {"stage": "proof", "notes": res.notes}, no_input=True)


def replay(res, path):
    import json
    print(json.dumps(json.load(open(path)), indent=1)[:3000])
    return 1
