"""C19 — the CFG debug dump is a faithful, reloadable serialization."""
import os
import random
import re
import sys
sys.path.insert(0, os.path.join(os.path.dirname(__file__), "..", "gen"))

import prog
from common import RVH_DEBUG, hx, proof_stage, run_lines_isolated, unhx
from props.graphfacts import CORPUS, conclude, replay  # noqa: F401

THEOREMS = ["Rva.encode_injective", "Rva.memloc_encode_injective", "Rva.value_tags_nodup",
            "Rva.tags_distinct"]

# programs that exercise every value kind and memory-location kind
# two functions sharing a tail: nodes of the tail belong to both, and the functions may have
# different exits (the parallel func_entry / func_exit lists must stay paired)
SHARED = [
    "main:\n    li a0, 5\n    jal fn_b\n    jal fn_a\n    li a7, 10\n    ecall\nfn_a:\n    addi a0, a0, 1\n    j shared\nfn_b:\n    beqz a0, shared\n    addi a0, a0, 2\n    ret\nshared:\n    addi a0, a0, 3\n    ret\n",
    "main:\n    li a0, 5\n    jal fn_b\n    jal fn_a\n    li a7, 10\n    ecall\nfn_b:\n    beqz a0, shared\n    addi a0, a0, 2\n    ret\nfn_a:\n    addi a0, a0, 1\n    j shared\nshared:\n    addi a0, a0, 3\n    ret\n",
    "main:\n    li a0, 5\n    jal fn_c\n    jal fn_b\n    jal fn_a\n    li a7, 10\n    ecall\nfn_a:\n    addi a0, a0, 1\n    j shared\nfn_b:\n    beqz a0, shared\n    addi a0, a0, 2\n    ret\nfn_c:\n    bnez a0, shared\n    ret\nshared:\n    addi a0, a0, 3\n    ret\n",
]

KINDS = [
    "main:\n    li t1, 64\n    csrr t0, 64\n    mv a0, t0\n    mv a1, t1\n    li a7, 93\n    ecall\n",
    ".data\nx: .word 5\n.text\nmain:\n    la t0, x\n    lw t1, 4(t0)\n    lw t2, 8(t1)\n    addi sp, sp, -8\n    sw t1, 0(sp)\n    sw a0, 4(sp)\n    lw t3, 4(sp)\n    lw t4, -12(sp)\n    li a7, 10\n    ecall\n",
    "main:\n    la t0, h\n    csrrw zero, utvec, t0\n    csrrwi zero, 64, 3\n    li a7, 10\n    ecall\nh:\n    csrrw t0, uscratch, t0\n    sw t1, 0(t0)\n    sw t2, -4(t0)\n    lw t1, 0(t0)\n    csrr t0, uscratch\n    uret\n",
    "main:\n    jal f\n    li a7, 10\n    ecall\nf:\n    addi sp, sp, -16\n    sw s0, 12(sp)\n    sw ra, 0(sp)\n    addi s0, sp, 16\n    lw t0, -20(s0)\n    lw s0, 12(sp)\n    lw ra, 0(sp)\n    addi sp, sp, 16\n    ret\n",
]


def yaml_req(src):
    return f"yaml 1 {hx('m.s')} {hx(src)}"


def run(res, tier, seed):
    rng = random.Random(seed)
    proof_ok = proof_stage(res, "Rva.Proofs.C19", THEOREMS, extra_modules=["Rva.Proofs.Tables"])
    n = 150 if tier == "quick" else 3000
    srcs = list(KINDS) + list(CORPUS) + SHARED * 6     # exit choice is hash-order dependent: repeat
    # CSR numbers as the program writes them: beyond the 12-bit address space, negative, and two that
    # agree in their low 12 bits - each one is its own memory location in the dump and after the reload
    for a, b in ((4160, 64), (0x1040, 0x40), (8191, 4095), (-1, 4095), (65600, 64), (0xfff, 0x1fff)):
        srcs.append(f"main:\n    li t1, 3\n    li t2, 7\n    csrrw zero, {a}, t1\n    csrrw zero, {b}, t2\n    csrrwi zero, {a}, 5\n"
                    f"    csrr t3, {a}\n    csrr t4, {b}\n    add a0, t3, t4\n    li a7, 93\n    ecall\n")
        srcs.append(f"main:\n    la t0, h\n    csrrw zero, utvec, t0\n    li a7, 10\n    ecall\nh:\n    csrrw t0, {a}, t0\n    sw t1, 0(t0)\n"
                    f"    sw t2, -4(t0)\n    lw t1, 0(t0)\n    csrr t0, {a}\n    uret\n")
    for _ in range(n):
        s, _ = prog.program(rng, sloppy=rng.choice([0, 0.2]), multi_ret=False)
        srcs.append(s)
    reqs = [yaml_req(s) for s in srcs]
    # programs cut into include trees: the nodes of an included file come after the nodes written before the
    # directive and before the ones behind it - whatever order a dump lists them in, every index in it must
    # mean the same node after the reload
    from props.c15 import split_tree
    for s in list(srcs[-(12 if tier == "quick" else 120):]):
        files, _ = split_tree(rng, s.rstrip("\n").split("\n"))
        if len(files) >= 2:
            fl = [("base.s", "\n".join(files["base.s"]) + "\n")] + [(k, "\n".join(v) + "\n") for k, v in files.items() if k != "base.s"]
            srcs.append(s)
            reqs.append("yaml %d %s" % (len(fl), " ".join(hx(n_) + " " + hx(t_) for n_, t_ in fl)))
    out = run_lines_isolated(RVH_DEBUG, reqs, chunk=50)
    # the `yaml` operation prints the canonical trace of the same graph object it dumps
    facts = [[l for l in blk if l.startswith(("CFG ", "FACT ", "CFG.FUNC"))] for blk in out]
    first = None
    tags = {}
    dumps = {}
    for s, blk, fb in zip(srcs, out, facts):
        d = {l.split()[0]: l for l in blk if l.startswith("YAML")}
        if "YAML" in d and "CFGERR" in d["YAML"]:
            continue
        if blk and blk[0].startswith(("CRASH", "HANG", "PANIC")):
            first = first or {"what": f"dumping panics/hangs: {blk[0][:100]}", "source": s}
            continue
        if "YAML1" not in d:
            first = first or {"what": f"dump or reload failed: {blk}", "source": s}
            continue
        y = unhx(d["YAML1"].split()[1])
        for t in re.findall(r"!(\w+)", y):
            tags[t] = tags.get(t, 0) + 1
        for t in re.findall(r"(so[+-]|csr\+|csro\+)", y):
            tags[t] = tags.get(t, 0) + 1
        if d.get("YAMLEQ") != "YAMLEQ true" and first is None:
            first = {"what": "loading an emitted dump does not give back the structure that was written "
                             f"({d.get('YAMLEQ') or d.get('YAML')})", "source": s,
                     "replay_cmd": f"echo '{yaml_req(s)}' | {RVH_DEBUG}"}
        if d.get("YAML2EQ") != "YAML2EQ true" and first is None:
            first = {"what": "dump -> load -> dump is not a fixed point", "source": s,
                     "replay_cmd": f"echo '{yaml_req(s)}' | {RVH_DEBUG}"}
        # injectivity: the canonical fact/edge trace determines the dump and vice versa
        # (node order is part of both; the exit choice of multi-return functions is excluded)
        key = "\n".join(re.sub(r" node=.*", "", l) if l.startswith("CFG ") else l
                        for l in fb if l.startswith(("CFG ", "FACT ", "CFG.FUNC")))
        body = re.sub(r"(?m)^  node:.*?(?=^  \w|\Z)", "", y, flags=re.S)
        dumps.setdefault(key, set()).add(body)
    # two different analysis results must not share a dump: group by dump body
    by_dump = {}
    for k, bodies in dumps.items():
        for b in bodies:
            by_dump.setdefault(b, set()).add(k)
    for b, keys in by_dump.items():
        if len(keys) > 1 and first is None:
            ks = sorted(keys)
            first = {"what": "two analysis results that differ in an edge, live set, value fact or function "
                             "annotation have the same dump", "results": ks[:2]}
    res.cov["evaluations"] = len(srcs)
    res.cov["distinct_nontrivial"] = len(dumps)
    res.cov["rule"] = ("generated programs + corpus + programs exercising every value kind (constants, "
                       "addresses, memory, ordinary/original register offsets, CSR values, stack slots with "
                       "negative and positive offsets, CSR memory); real serde_yaml dump -> load -> compare -> "
                       "dump; distinct analysis results (canonical fact/edge traces) must have distinct dumps")
    res.cov["samples"] = [srcs[0], srcs[len(KINDS) + 1]]
    res.cov["input_distribution"] = {"value_and_location_tags_seen": tags}
    res.cov["traces_validated_against_impl"] = len(srcs)
    conclude(res, "C19", first, None, proof_ok, "no dump that loses or conflates information found")
