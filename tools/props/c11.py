"""C11 — functions are exactly the call targets and their bodies are what they reach."""
import interp
import oracles_exec as ox
from common import proof_stage
from props.graphfacts import conclude, replay, run_graph_property  # noqa: F401

THEOREMS = ["Rva.markLoop_own", "Rva.mark_reachable_owner", "Rva.mem_insNat"]


def oracle(src, blk, rng):
    cfg = [l for l in blk if l.startswith("CFG ")]
    if not cfg:
        return None
    p = interp.Prog(cfg)
    funcs = ox.funcs_of(blk)
    nodes = [l for l in blk if l.startswith("NODE ")]
    return ox.check_functions(p, funcs, None, nodes)


def run(res, tier, seed):
    proof_ok = proof_stage(res, "Rva.Proofs.C11", THEOREMS)
    res.cov["rule"] = ("generated programs + corpus (several labels per entry, shared tails, recursion, multiple "
                       "returns, handlers with ret and uret); on the real finished graph: function entries = "
                       "called labels, body = reachable set (independent DFS), owners consistent, single exit "
                       "reached by every other return; traces diffed against the Lean model")
    first, corr = run_graph_property(res, tier, seed, "parse,cfg", oracle)
    conclude(res, "C11", first, corr, proof_ok, "no function whose body differs from its reachable set found")
