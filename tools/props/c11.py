"""C11 — functions are exactly the call targets and their bodies are what they reach."""
import interp
import oracles_exec as ox
from common import proof_stage
from props.graphfacts import conclude, replay, run_graph_property  # noqa: F401

THEOREMS = ["Rva.markLoop_own", "Rva.mark_reachable_owner", "Rva.mem_insNat",
            "Rva.markLoop_closed", "Rva.mark_complete", "Rva.mark_sound", "Rva.body_is_reachable_set",
            "Rva.markStep_body", "Rva.function_entries_are_call_targets", "Rva.called_labels_are_entries",
            "Rva.entry_iff_called", "Rva.markLoop_terminates", "Rva.markAllDone_true",
            "Rva.directions_outSmall", "Rva.pipeline_markup_terminates",
            "Rva.overlapping_report_sound", "Rva.overlapping_reported"]


def oracle(src, blk, rng):
    cfg = [l for l in blk if l.startswith("CFG ")]
    if not cfg:
        return None
    p = interp.Prog(cfg)
    funcs = ox.funcs_of(blk)
    nodes = [l for l in blk if l.startswith("NODE ")]
    e = ox.check_functions(p, funcs, None, nodes)
    if e:
        return e
    e, cls = ox.check_sharing(p, [l for l in blk if l.startswith("LINT ")])
    SHARING[cls] = SHARING.get(cls, 0) + 1
    return e


SHARING = {}


def run(res, tier, seed):
    proof_ok = proof_stage(res, "Rva.Proofs.C11d", THEOREMS, extra_modules=["Rva.Proofs.C11", "Rva.Proofs.C11b", "Rva.Proofs.C11c", "Rva.Proofs.C05b"])
    res.cov["rule"] = ("generated programs + corpus (several labels per entry, shared tails, recursion, multiple "
                       "returns, handlers with ret and uret); on the real finished graph: function entries = "
                       "called labels, sharing reported iff it exists (a tail shared only through jumps is known finding F-16), "
                       "called labels, body = reachable set (independent DFS), owners consistent, single exit "
                       "reached by every other return; traces diffed against the Lean model")
    first, corr = run_graph_property(res, tier, seed, "parse,cfg,lints", oracle)
    res.cov.setdefault("input_distribution", {})["sharing_clause"] = dict(SHARING)
    # hypothesis of `markStep_body` / `body_is_reachable_set` ("the walk finished within its fuel")
    # is decided by the model for every generated program (`markAllDone`, stage `good`)
    import random
    from common import DRIVER, run_lines_isolated
    from pipeline import pipe_req
    from props.graphfacts import gen_programs
    srcs = gen_programs(random.Random(seed), 120 if tier == "quick" else 2500)
    good = run_lines_isolated(DRIVER, [pipe_req("good", [("m.s", s)]) for s in srcs], chunk=100, timeout=120)
    tally = {"walk_finished": 0, "not_applicable": 0, "fuel_exhausted": 0}
    bad_src = None
    for s, blk in zip(srcs, good):
        line = next((l for l in blk if l.startswith("MARKDONE")), "")
        if line == "MARKDONE true":
            tally["walk_finished"] += 1
        elif line == "":
            tally["not_applicable"] += 1
        else:
            tally["fuel_exhausted"] += 1
            bad_src = bad_src or s
    res.cov.setdefault("input_distribution", {})["markStep_body_hypothesis"] = tally
    if bad_src is not None and first is None and corr is None:
        corr = {"stage": "good (hypothesis 'walk finished' of theorem markStep_body does not hold)",
                "source": bad_src, "impl_vs_model": []}
    conclude(res, "C11", first, corr, proof_ok, "no function whose body differs from its reachable set found")
