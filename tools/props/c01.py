"""C01 — claimed register and stack values are true on every execution."""
import interp
import oracles_exec as ox
from common import proof_stage
from props.graphfacts import conclude, replay, run_graph_property  # noqa: F401

THEOREMS = ["Rva.meetOver_sound", "Rva.meet_sound_left", "Rva.meet_sound_right", "Rva.erase_sound",
            "Rva.fold_const_sound", "Rva.fold_imm_sound", "Rva.fold_ors_sound", "Rva.fold_ors_right_sound",
            "Rva.operate_rv32", "Rva.plain_transfer_sound", "Rva.mathResult_sound", "Rva.genReg_sound",
            "Rva.mathOpOf_spec", "Rva.scalarOpOf_spec", "Rva.rules_sound", "Rva.zeroConsts_sound",
            "Rva.ecall_table_matches_rars", "Rva.quiet_transfer_sound", "Rva.exec_sound", "Rva.goodFactsB_sound",
            "Rva.call_transfer_sound", "Rva.ecall_transfer_sound", "Rva.ecallKills_known",
            "Rva.ecallKill_covers_rars", "Rva.entry_transfer_sound", "Rva.exec_sound_full",
            "Rva.mem_silent_sound", "Rva.mem_store_sound", "Rva.load_transfer_sound", "Rva.meetOver_memSound",
            "Rva.exec_sound_mem", "Rva.goodMemFactsB_sound",
            "Rva.exec_sound_all", "Rva.mstep_out_sound", "Rva.entry_memOut_nil"]


def oracle(src, blk, rng):
    cfg = [l for l in blk if l.startswith("CFG ")]
    if not cfg:
        return None
    p = interp.Prog(cfg)
    facts = ox.Facts(blk)
    ecalls = interp.ecall_table()
    for _ in range(4):
        m, e = ox.run_and_check_values(p, facts, rng, ecalls)
        if e:
            return e
    return None


def run(res, tier, seed):
    proof_ok = proof_stage(res, "Rva.Proofs.C01All", THEOREMS, extra_modules=["Rva.Proofs.C01Mem", "Rva.Proofs.C01Calls", "Rva.Proofs.C01Path", "Rva.Proofs.C01Transfer", "Rva.Proofs.C01", "Rva.Proofs.C08", "Rva.Proofs.Tables"])
    res.cov["rule"] = ("generated convention-respecting programs + corpus; 4 concrete RV32IM executions per "
                       "program from random initial states; every constant / address / entry-relative claim the "
                       "real analyzer attached to each reached node (registers and stack slots) is evaluated "
                       "against the machine state; facts also diffed against the Lean model")
    first, corr = run_graph_property(res, tier, seed, "cfg,facts", oracle, sloppy_choices=(0, 0, 0.05))
    # hypothesis of `exec_sound` (`GoodFacts`: the finished facts are a fixed point of meet and
    # transfer over the visited nodes, maps well formed, no claim relative to x0) is decided by the
    # model on its own result for every generated program (stage `good`, `goodFactsB_sound`); the
    # model's facts are the real facts by the correspondence above
    import random
    from common import DRIVER, run_lines_isolated
    from pipeline import pipe_req
    from props.graphfacts import gen_programs
    srcs = gen_programs(random.Random(seed), 120 if tier == "quick" else 2500, (0, 0, 0.05))
    good = run_lines_isolated(DRIVER, [pipe_req("good", [("m.s", s)]) for s in srcs], chunk=100, timeout=120)
    tally = {"holds": 0, "not_applicable": 0, "fails": 0}
    bad_src = None
    for s, blk in zip(srcs, good):
        line = next((l for l in blk if l.startswith("GOODFACTS")), "")
        memline = next((l for l in blk if l.startswith("GOODMEM")), "")
        if line.startswith("GOODFACTS true final-facts-are-these=true") and memline == "GOODMEM true":
            tally["holds"] += 1
        elif " n/a " in line:
            tally["not_applicable"] += 1
        else:
            tally["fails"] += 1
            bad_src = bad_src or s
    res.cov.setdefault("input_distribution", {})["exec_sound_hypothesis"] = tally
    if bad_src is not None and first is None and corr is None:
        corr = {"stage": "good (hypothesis GoodFactsM of theorems exec_sound_full / exec_sound_mem does not hold for the analysis "
                         "result)", "source": bad_src, "impl_vs_model": []}
    conclude(res, "C01", first, corr, proof_ok, "no false claim found")
