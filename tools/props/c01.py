"""C01 — claimed register and stack values are true on every execution."""
import interp
import oracles_exec as ox
from common import proof_stage
from props.graphfacts import conclude, replay, run_graph_property  # noqa: F401

THEOREMS = ["Rva.meetOver_sound", "Rva.meet_sound_left", "Rva.meet_sound_right", "Rva.erase_sound", "Rva.fold_const_sound", "Rva.fold_imm_sound", "Rva.fold_ors_sound", "Rva.fold_ors_right_sound", "Rva.operate_rv32",
            "Rva.plain_transfer_sound", "Rva.mathResult_sound", "Rva.genReg_sound", "Rva.mathOpOf_spec",
            "Rva.scalarOpOf_spec", "Rva.plain_regOut", "Rva.ecall_table_matches_rars"]


def oracle(src, blk, rng):
    cfg = [l for l in blk if l.startswith("CFG ")]
    if not cfg:
        return None
    p = interp.Prog(cfg)
    facts = ox.Facts(blk)
    ecalls = interp.ecall_table()
    for _ in range(4):
        m, e = ox.run_and_check_values(p, facts, rng, ecalls)
        if e:
            return e
    return None


def run(res, tier, seed):
    proof_ok = proof_stage(res, "Rva.Proofs.C01Transfer", THEOREMS, extra_modules=["Rva.Proofs.C01", "Rva.Proofs.C08", "Rva.Proofs.Tables"])
    res.cov["rule"] = ("generated convention-respecting programs + corpus; 4 concrete RV32IM executions per "
                       "program from random initial states; every constant / address / entry-relative claim the "
                       "real analyzer attached to each reached node (registers and stack slots) is evaluated "
                       "against the machine state; facts also diffed against the Lean model")
    first, corr = run_graph_property(res, tier, seed, "cfg,facts", oracle, sloppy_choices=(0, 0, 0.05))
    conclude(res, "C01", first, corr, proof_ok, "no false claim found")
