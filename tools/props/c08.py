"""C08 — decoding, pseudo-expansion and constant folding follow RV32IM."""
import random

from common import (DRIVER, RVH_DEBUG, RVH_RELEASE, diff_blocks, proof_stage, run_lines,
                    run_lines_isolated)

THEOREMS = [
    "Rva.operate_rv32", "Rva.mulh_product_exact", "Rva.mulhsu_product_exact",
    "Rva.operate_add", "Rva.operate_sll", "Rva.operate_sra", "Rva.operate_mulhu",
    "Rva.operate_div", "Rva.operate_rem",
]

OPS = "add and or sll slt sltu sra srl sub xor mul mulh mulhsu mulhu div divu rem remu".split()

GRID = sorted(set(
    [0, 1, 2, 3, 5, 7, -1, -2, -3, -5, -7, 31, 32, 33, 63, 64, 65, 127, 128, 255, 256, 1000, -1000,
     65535, 65536, -65536, 2**31 - 1, 2**31 - 2, -2**31, -2**31 + 1, 2**30, -2**30,
     0x55555555, -0x55555556, 0x7fff0000, 0x0000ffff, -0x00010000, 46341, 46340, -46341]))


def py_rv32(op, x, y):
    """Independent oracle (third opinion): RV32IM in Python integers."""
    M = 2**32
    ux, uy = x % M, y % M

    def s(v):
        v %= M
        return v - M if v >= 2**31 else v
    sh = uy & 31
    if op == "add": return s(x + y)
    if op == "sub": return s(x - y)
    if op == "and": return s(ux & uy)
    if op == "or": return s(ux | uy)
    if op == "xor": return s(ux ^ uy)
    if op == "sll": return s(ux << sh)
    if op == "srl": return s(ux >> sh)
    if op == "sra": return s(x >> sh)
    if op == "slt": return int(x < y)
    if op == "sltu": return int(ux < uy)
    if op == "mul": return s(x * y)
    if op == "mulh": return s((x * y) >> 32)
    if op == "mulhsu": return s((x * uy) >> 32)
    if op == "mulhu": return s((ux * uy) >> 32)
    if op == "div":
        if y == 0: return -1
        if x == -2**31 and y == -1: return -2**31
        q = abs(x) // abs(y)
        return s(q if (x < 0) == (y < 0) else -q)
    if op == "divu":
        return -1 if uy == 0 else s(ux // uy)
    if op == "rem":
        if y == 0: return x
        if x == -2**31 and y == -1: return 0
        r = abs(x) % abs(y)
        return s(r if x >= 0 else -r)
    if op == "remu":
        return x if uy == 0 else s(ux % uy)
    raise ValueError(op)


def gen_operate(rng, n_random):
    reqs = []
    for o in OPS:
        for x in GRID:
            for y in GRID:
                reqs.append((o, x, y))
        for _ in range(n_random):
            kind = rng.randrange(4)
            if kind == 0:
                x, y = rng.randrange(-2**31, 2**31), rng.randrange(-2**31, 2**31)
            elif kind == 1:
                x, y = rng.randrange(-2**31, 2**31), rng.choice(GRID)
            elif kind == 2:
                x, y = rng.choice(GRID), rng.randrange(-2**31, 2**31)
            else:
                x = rng.choice([1, -1]) * (1 << rng.randrange(32)) + rng.randrange(-2, 3)
                y = rng.choice([1, -1]) * (1 << rng.randrange(32)) + rng.randrange(-2, 3)
                x = max(-2**31, min(2**31 - 1, x))
                y = max(-2**31, min(2**31 - 1, y))
            reqs.append((o, x, y))
    return reqs


def run(res, tier, seed):
    rng = random.Random(seed)
    proof_ok = proof_stage(res, "Rva.Proofs.C08", THEOREMS)

    cases = gen_operate(rng, 400 if tier == "quick" else 20000)
    reqs = [f"operate {o} {x} {y}" for o, x, y in cases]
    dbg = run_lines_isolated(RVH_DEBUG, reqs, chunk=5000)
    rel = run_lines_isolated(RVH_RELEASE, reqs, chunk=5000)
    mod = run_lines(DRIVER, reqs)
    distinct = set()
    n_bad = 0
    first = None
    for (o, x, y), a, b, m in zip(cases, dbg, rel, mod):
        want = f"VAL {py_rv32(o, x, y)}"
        distinct.add((o, x, y))
        for prof, got in (("debug", a), ("release", b)):
            if got != [want]:
                n_bad += 1
                if first is None:
                    first = {"op": o, "x": x, "y": y, "profile": prof, "impl": got,
                             "rv32": want, "model": m,
                             "replay_cmd": f"echo 'operate {o} {x} {y}' | {RVH_DEBUG if prof=='debug' else RVH_RELEASE}"}
        if m != [want] and first is None:
            # model disagrees with the independent oracle: model defect, reported separately
            first = {"op": o, "x": x, "y": y, "profile": "model", "impl": a, "rv32": want,
                     "model": m, "note": "Lean model disagrees with Python RV32 oracle"}
            n_bad += 1
    res.cov["evaluations"] = len(reqs) * 2
    res.cov["distinct_nontrivial"] = len(distinct)
    res.cov["rule"] = ("18 operators x (boundary grid %d x %d + random/structured pairs), real "
                       "MathOp::operate in debug and release builds vs Lean model vs independent "
                       "Python RV32IM oracle; a case is distinct by (op,x,y)" % (len(GRID), len(GRID)))
    res.cov["samples"] = [f"operate {o} {x} {y}" for o, x, y in cases[:3] + cases[-3:]]
    res.cov["traces_validated_against_impl"] = len(reqs) * 2
    if first is not None:
        res.violation(f"constant folding differs from RV32IM: {first['op']} {first['x']} {first['y']} "
                      f"[{first['profile']}] impl={first['impl']} expected={first['rv32']}", first)
    elif not proof_ok:
        res.violation("proof obligations of C08 no longer check (theorem or axiom audit); "
                      "no failing operand pair found on grid+random search",
                      {"stage": "proof", "module": "Rva.Proofs.C08", "notes": res.notes}, no_input=True)


def replay(res, path):
    import json
    d = json.load(open(path))
    print(json.dumps(d, indent=1))
    if "op" in d:
        out = run_lines(RVH_DEBUG, [f"operate {d['op']} {d['x']} {d['y']}"])
        print("impl now:", out, "expected:", d.get("rv32"))
        return 0 if out[0] == [d.get("rv32")] else 1
    return 1
